#!/venv/bin/python
"""debug helper: run a property module and dump A-mismatches / B-failures"""
import sys, os, json, importlib
sys.path.insert(0, '/verif/harness'); sys.path.insert(0, '/repo')
import framework, wire
pid = sys.argv[1]; tier = sys.argv[2] if len(sys.argv) > 2 else 'quick'
class C: pass
ctx = C(); ctx.tier = tier; ctx.seed = int(os.environ.get('VERIF_SEED', '0')); ctx.pid = pid; ctx.caps = {'path_depth': 10}; ctx.tables = {}
ctx.known = [k for k in framework.load_known_findings() if k['property'] == pid]; ctx.replay = None; ctx.driver = wire.Driver()
out = framework.Outcome(pid)
importlib.import_module('props.' + pid.lower()).run(ctx, out)
print("evals", out.evaluations, "A", len(out.a_mismatch), "B", len(out.b_fail))
from collections import Counter
print(Counter(str(m.get('diff', str(m.get('code'))))[:60] for m in out.a_mismatch).most_common(12))
print(Counter(b['signature'] for b in out.b_fail).most_common(20))
n = int(sys.argv[3]) if len(sys.argv) > 3 else 2
for m in out.a_mismatch[:n]:
    print("=== A:", m.get('diff')); print(m['case'].get('label')); print(m['case'].get('shapes_ttl', '')[:1500]); print(m['case'].get('data_nt', '')[:800])
for b in out.b_fail[:n]:
    print("=== B:", {k: v for k, v in b.items() if k != 'case'}); print(b['case'].get('label')); print(b['case'].get('shapes_ttl', '')[:1500]); print(b['case'].get('data_nt', '')[:800])
print(dict(out.counters)); print("nontrivial", len(out.nontrivial))
