#!/usr/bin/env python3
"""(Re)generate /verif/MANIFEST.json from the table below; a property is claimed once harness/props/<id>.py exists."""
import json
import os

V = os.path.dirname(os.path.dirname(os.path.abspath(__file__)))

P = {
 "C01": ("proof", "§6 C01 / §10", "34 kernel-checked theorems: one `_exact` theorem per Core component against a declarative reading of the W3C text (SPARQL 1.1 operator mapping, rdf:type/rdfs:subClassOf* instances, langMatches), the comparison lemma compare_literal = SPARQL <,<= on every pairing of value classes, composition (results of a shape = union of its components, one instance each), dispatch table and component IRIs over the regenerated table, verdict iff no results; correspondence code vs model + W3C reference oracle on the code",
         "theorem (declarative spec = executable model, all inputs) + differential correspondence",
         "Lean kernel; Impl model of pyshacl/constraints/core tied to /repo by the validate op on generated cases (exhaustive type cross products + random shapes); reference oracle written from the W3C text; regex engine and rdflib literal value mapping are parameters; sh:closed is _partial (open finding: rdf:type rdfs:Resource exempt)"),
 "C02": ("proof", "§6 C02", "focus_exact: focusNodes = W3C targets for every shapes/data graph (closure lemma, unbounded), each focus once; correspondence on generated target mixes",
         "theorem (worklist closure = rdfs:subClassOf*) + differential correspondence",
         "Lean kernel; model of Shape.focus_nodes / rdflib transitive_subjects; correspondence via a constraint failing once per focus node"),
 "C03": ("proof", "§6 C03", "evalPure_correct / eval_ok_exact / eval_within_cap: value nodes = SPARQL 1.1 path relation for every path, graph, focus; never silently truncated; correspondence on exhaustive+random paths",
         "theorem (induction on paths, potential-function closure) + differential correspondence",
         "Lean kernel; model of value_nodes_from_path incl. decode of the path node; SPARQL 1.1 path semantics as an inductive relation (cross-checked against rdflib's SPARQL engine)"),
 "C04": ("proof", "§6 C04", "conforms_iff_no_results, logical/node/property components produce results from conformance facts alone, result ownership; correspondence incl. nested sh:detail on generated compositions",
         "theorem + differential correspondence",
         "Lean kernel; model of Shape.validate and the logical / shape-based components; W3C reference oracle"),
 "C05": ("proof", "§6 C05 / §10", "9 theorems over an opaque engine: results = images of the distinct violations of the solutions (membership exact, no duplicates, at most one failure marker), value/path/focus from ?value/?path/?this, messages a function of the result's own bindings, component matching iff all mandatory parameters present, forbidden templates are validation failures (template family: _partial); correspondence with solutions obtained from rdflib directly",
         "theorem over an opaque engine + differential correspondence", "rdflib's SPARQL engine is a parameter of the model, not verified; forbidden-syntax theorem covers the template family, not arbitrary query text"),
 "C06": ("proof", "§6 C06", "verdict_formula for every option vector (waivers, abort, focus filter): false iff some reported result has an unwaived severity; over the model of the report assembly (create_validation_report, make_v_result, clone_blank_node / clone_list): three_renderings_agree, result_links, single_report_node, result_node_wellformed (every result node, nested ones included: exactly one focus / severity / component / shape, at most one value / path), blank-node descriptions copied; the model's report graph compared with the real one up to blank-node labels, and the same facts checked on the real return triple",
         "theorem + differential correspondence (report graph isomorphism) + oracle on the real return value",
         "Lean kernel; model of Shape.validate / Validator.run / report assembly; freshness of rdflib BNode() is a constructor of the model; wording of result blocks (stringify_node) and auto-generated messages are parameters; that reported terms are terms of the validated graphs is checked on generated runs, not proved"),
 "C07": ("proof", "§6 C07 / §10", "printer theorems: for every supported path within the regenerated depth cap the printed text is the rendering of an SPath that is well-formed at every SPARQL grammar level and has the SHACL path's SPARQL 1.1 meaning (stacked modifiers, inverse of sequences included); sparql_mode plan is read-only; metamorphic relation sparql_mode vs in-memory on the real code",
         "theorem (printer = rendering of a grammatical SPath with equal semantics) + metamorphic oracle", "rdflib's SPARQL engine trusted to implement SPARQL; the *_sparql evaluator twins are compared on the code, not proved; unambiguity of the SPARQL path grammar is assumed"),
 "C08": ("proof", "§6 C08", "caller_unchanged: invariant over the pipeline op sequence for every heap, config and failure point; exhaustive config enumeration with fault injection on the real code",
         "theorem (invariant by induction over operations) + exhaustive fault enumeration", "Lean kernel; heap model of Validator.run / RuleExpandRunner.run"),
 "C09": ("proof", "§6 C09 / §10", "data_graph_order_irrelevant (a complete run over two data graphs with the same triples, in any insertion order and multiplicity, returns the same verdict and results: every component incl. count-based ones, loops, nested evaluations, focus resolution), focus_order_irrelevant (verdict and result set of a shape evaluation are a function of the set of focus nodes: every Core / SPARQL component, nested evaluations included), order-invariance of value nodes, focus nodes and of the graph-reading Core components, picks_irrelevant; hash seeds, insertion orders, relabellings and prefixes sampled on the real code in separate processes",
         "theorem + sampled process-level determinism", "CPython hash randomisation cannot be exhibited by the model; it is sampled; invariance of the complete run under triple permutation / blank-node relabelling is _partial"),
 "C10": ("proof", "§6 C10", "history_independent via the Clean invariant of the global-state machine; long-lived vs one-shot worker on the real code",
         "theorem (invariant over call histories) + differential processes", "allocator address reuse is modelled as nondeterministic id equality"),
 "C11": ("proof", "§6 C11", "results_option_independent, verdict_with_waivers, relax_chain for every input; the four option combinations compared on the real code",
         "theorem (relation between runs) + metamorphic oracle", "Lean kernel; model of the waiver logic of Shape.validate"),
 "C12": ("proof", "§6 C12 / §10", "abort_same_verdict: whenever the complete run returns a verdict the run with abort_on_first returns the same one (refinement through every nested evaluation, component and loop; every waiver combination and selection), nonconforming_has_unwaived_result; abort vs complete run compared on the real code (verdict, subset)",
         "theorem (refinement between two runs) + metamorphic oracle", "the subset relation between the two result lists is checked on the code, not proved"),
 "C13": ("proof", "§6 C13 / §10", "nested_checks_unfiltered (every nested evaluation is the same computation with and without focus_nodes, any depth), focus list under F = focus list on any target-narrowed shapes graph (as sets; skipped iff skipped), both options apply each selected shape to each node, use_shapes evaluates exactly the selected shapes; selection options vs target-rewritten shapes graph on the real code incl. rules",
         "theorem (relation between runs) + metamorphic oracle + differential correspondence", "order-independence of the constraint loop in the focus list and equality of the two shape harvests are compared on the code, not proved (focus_narrows_targets_partial)"),
 "C14": ("proof", "§6 C14 / §10", "validated_graph_is_preexpanded (the object handed to the validation loop holds rules(infer(inoculate(data))) for every heap, configuration and closure function), union view theorems, inoculate theorems, with the closure as an opaque parameter; metamorphic oracle on the real code",
         "theorem over an opaque closure + metamorphic oracle", "owlrl is not verified"),
 "C15": ("proof", "§6 C15", "rules model vs reference procedure", "theorem + differential correspondence", "CONSTRUCT engine is a parameter"),
 "C16": ("proof", "§6 C16 / §10", "exit-code table theorems over the regenerated except chain and exception hierarchy; component_raw_classes_partial (the raw exception classes a Core / SPARQL component of the model can let through, enumerated); malformed-parameter kind table enumerated on the real code (API and command line)",
         "theorem over regenerated tables + exhaustive kind enumeration", "proved for the data graph's triple order and the iteration order of focus / value node sets; shapes-graph order, blank-node relabelling, prefix bindings and advanced mode are decided on the code only (multi-process oracle); the SPARQL engine's tables are parameters"),
 "C17": ("proof", "§6 C17", "advanced targets / functions / expressions glue with opaque engine", "theorem over an opaque engine + differential correspondence", ""),
 "C18": ("other", "§6 C18", "proof of pySHACL's glue (same report object serialised; exit status); round-trip of rdflib's serialisers is a hypothesis validated by sampling", "theorem for the glue + sampled round-trip", "rdflib parsers/serialisers not verified"),
 "C19": ("proof", "§6 C19", "total model = the code's own termination argument; limit_only_truncates_loudly (for limits L <= L' the run under L is the run under L' or the 'too deep' failure: simulation through every component, loop and nested evaluation), report_exact_below_limit, at_limit_loud; back-out silent on fresh shapes; depth x limit sweep under a wall-clock limit on the real code",
         "theorem + differential correspondence + wall-clock oracle", "C stack / wall clock cannot be exhibited by the model; measured"),
 "C20": ("proof", "§6 C20", "forms_agree over the pure classify/sniff functions; metamorphic oracle over all hand-over forms on the real code", "theorem + metamorphic oracle", "rdflib parsers are a parameter"),
}

NA_REASON = "check not built yet in this round (no executable model registered); see DESIGN.md §9.1 build order"


def main():
    checks, na, served = [], [], []
    for pid, (cat, ref, text, tech, note) in sorted(P.items()):
        if os.path.exists(os.path.join(V, "harness", "props", pid.lower() + ".py")):
            served.append(pid)
            checks.append({
                "property_id": pid,
                "quick_cmd": "./check %s --tier quick" % pid,
                "thorough_cmd": "./check %s --tier thorough" % pid,
                "evidence_file": "/verif/evidence/%s.json" % pid,
                "replay_cmd_template": "./check %s --replay {path}" % pid,
                "engine": "lean-model+correspondence",
                "level_claimed": {"category": cat, "text": text, "design_ref": ref},
                "level_note": note or "Lean kernel; hand-written Impl model tied to /repo by the correspondence check",
                "technique": tech,
            })
        else:
            na.append({"property_id": pid, "reason": NA_REASON})
    m = {
        "version": 1,
        "setup_cmd": "cd /verif && /venv/bin/python harness/extract_tables.py >/dev/null && cd lean && lake build",
        "hooks": {"guard": "RDFLIB_PYSHACL_VERIF", "enable": "no source hooks are needed: fault injection and state inspection are done by monkey-patching from the harness process; the guard variable is set by ./check but read nowhere in /repo",
                  "baseline_off_cmd": "cd /verif && tools/baseline.sh", "source_commits": [], "add_only": True},
        "engines": [{"name": "lean-model+correspondence", "path": "/verif/check", "serves_properties": served,
                     "kind_free_text": "Lean 4 theorems about an executable model of pySHACL (lean/), tied to /repo on every run by regenerated tables (harness/extract_tables.py) and a differential correspondence check (harness/props/*.py driving lean/.lake/build/bin/driver)"}],
        "checks": checks,
        "not_applicable": na,
        "notes": "fix: commits in /repo and the findings they repair are listed in known_findings.jsonl; seeded changes used to test the checks are under seeded/",
    }
    with open(os.path.join(V, "MANIFEST.json"), "w") as f:
        json.dump(m, f, indent=1)
    print("claimed:", " ".join(served), "| not yet:", " ".join(x["property_id"] for x in na))


if __name__ == "__main__":
    main()
