#!/bin/bash
# usage: tools/confirm_mutant.sh <PID> <m-dir> <name>
# Confirms a seeded change in a scratch worktree of /repo HEAD: patch applies, demo fails with it and
# passes without it, the pinned baseline suite is unchanged. On success stores it under /verif/seeded/<name>/.
PID=$1; SRC=$2; NAME=$3
W=/tmp/confirm/$NAME
mkdir -p /tmp/confirm; rm -rf $W
git -C /repo worktree add --detach $W HEAD >/dev/null 2>&1 || { echo "$NAME: worktree failed"; exit 2; }
cleanup() { git -C /repo worktree remove --force $W >/dev/null 2>&1; rm -rf $W; }
cd $W
run_demo() { (cd $W && PYTHONPATH=$W timeout 600 /venv/bin/python $SRC/demo.py >/tmp/confirm/$NAME.demo.$1 2>&1; echo $?); }
clean_rc=$(run_demo clean)
if ! git apply --check $SRC/patch.diff 2>/dev/null; then
  if git apply --3way $SRC/patch.diff >/dev/null 2>&1; then git reset -q; else echo "$NAME: PATCH DOES NOT APPLY to HEAD"; cleanup; exit 3; fi
else git apply $SRC/patch.diff; fi
git diff > /tmp/confirm/$NAME.patch
mut_rc=$(run_demo mut)
if [ "$clean_rc" != "0" ] || [ "$mut_rc" = "0" ]; then echo "$NAME: demo clean_rc=$clean_rc mut_rc=$mut_rc (need 0 / non-zero)"; cleanup; exit 4; fi
suite=$(/verif/tools/baseline.sh $W 2>/dev/null | grep "^baseline:")
case "$suite" in *"missing=0"*) ;; *) echo "$NAME: suite changed: $suite"; cleanup; exit 5;; esac
mkdir -p /verif/seeded/$NAME
cp /tmp/confirm/$NAME.patch /verif/seeded/$NAME/patch.diff
cp $SRC/demo.py /verif/seeded/$NAME/demo.py
cp $SRC/note.txt /verif/seeded/$NAME/note.txt 2>/dev/null
/venv/bin/python - "$PID" "$NAME" "$SRC" <<'PY'
import json, sys
pid, name, src = sys.argv[1:4]
note = open(src + "/note.txt").read() if __import__("os").path.exists(src + "/note.txt") else ""
json.dump({"property": pid, "name": name, "needs_to_manifest": note.strip()[:1500],
           "confirmed": {"patch_applies_to_repo_HEAD": True, "demo_exit_without_change": 0, "demo_exit_with_change": "non-zero",
                         "baseline_suite": "352 stable tests still pass with the change (tools/baseline.sh in a scratch worktree)"},
           "ran": ["git apply patch.diff (scratch worktree of /repo HEAD)", "PYTHONPATH=<worktree> /venv/bin/python demo.py", "tools/baseline.sh <worktree>"],
           "caught_by": None}, open("/verif/seeded/%s/meta.json" % name, "w"), indent=1)
PY
echo "$NAME: CONFIRMED ($suite)"
cleanup
