#!/bin/bash
# Run the repository's pinned baseline suite (guard OFF) and compare with /root/.vp/BASELINE.json stable_pass.
# usage: tools/baseline.sh [repo_dir]   (default /repo)
R=${1:-/repo}
OUT=$(mktemp -d /tmp/baseline.XXXXXX)
unset RDFLIB_PYSHACL_VERIF
cd "$R" && PYTHONPATH="$R" /venv/bin/python -m pytest -ra -q -p no:cacheprovider --timeout=900 --continue-on-collection-errors --junitxml=$OUT/j.xml >$OUT/log 2>&1
/venv/bin/python - "$OUT/j.xml" "$R" <<'PY'
import json, sys, xml.etree.ElementTree as ET
base = json.load(open('/root/.vp/BASELINE.json'))
want = set(base['stable_pass'])
got = set()
for tc in ET.parse(sys.argv[1]).getroot().iter('testcase'):
    ok = not any(c.tag in ('failure', 'error', 'skipped') for c in tc)
    if ok:
        got.add((tc.get('classname') + '::' + tc.get('name')).replace(sys.argv[2].rstrip('/') + '/', '/repo/'))
missing = sorted(want - got)
print(f"baseline: stable_pass={len(want)} passing_now={len(got & want)} missing={len(missing)}")
try:
    for m in missing[:30]:
        print("  NOT PASSING:", m)
except BrokenPipeError:
    pass
sys.exit(1 if missing else 0)
PY
rc=$?
rm -rf "$OUT"
exit $rc
