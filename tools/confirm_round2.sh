#!/bin/bash
# usage: tools/confirm_round2.sh C04 C06 ...  — confirm /tmp/mut2/<PID>/out/m{1,2} and store them as seeded/<PID>-r2m{1,2}
for pid in "$@"; do
  for i in 1 2 3; do
    src=/tmp/mut2/$pid/out/m$i
    [ -f $src/patch.diff ] || continue
    tools/confirm_mutant.sh $pid $src $pid-r2m$i
  done
done
