#!/bin/bash
# usage: tools/sweep_mutants.sh [name-glob]   — run every seeded change against its property's quick check WITHOUT touching /repo or /verif:
# a copy of /verif (with its .lake) and a scratch worktree of /repo HEAD are made under /tmp/vsweep; each patch is applied to the
# worktree, the copy's ./check runs with VERIF_REPO pointing at it, the patch is undone. Results: /verif/seeded/RESULTS.jsonl
GLOBS="${@:-C*}"
S=${VSWEEP_DIR:-/tmp/vsweep}
rm -rf $S/verif; mkdir -p $S
git -C /repo worktree remove --force $S/repo >/dev/null 2>&1; rm -rf $S/repo
git -C /repo worktree add --detach $S/repo HEAD >/dev/null 2>&1 || { echo "worktree failed"; exit 2; }
rsync -a --exclude .git --exclude replays /verif/ $S/verif/
mkdir -p $S/verif/replays
OUT=/verif/seeded/RESULTS.jsonl
TMPOUT=$S/results.jsonl; : > $TMPOUT
for d in $(for g in $GLOBS; do ls -d /verif/seeded/$g/ 2>/dev/null; done); do
  name=$(basename $d); pid=${name%%-*}
  [ -f $d/patch.diff ] || continue
  grep -q '"obsolete"' $d/meta.json 2>/dev/null && { echo "$name: obsolete (see meta.json)"; continue; }
  cd $S/repo && git reset -q --hard HEAD && git clean -fdq
  if git apply --check $d/patch.diff 2>/dev/null; then git apply $d/patch.diff; applied=clean
  elif git apply --3way $d/patch.diff >/dev/null 2>&1; then git reset -q; applied=3way
  else git reset -q --hard HEAD; echo "{\"name\":\"$name\",\"property\":\"$pid\",\"applies\":false}" >> $TMPOUT; echo "$name: PATCH DOES NOT APPLY"; continue; fi
  demo_rc=$(cd $S/repo && PYTHONPATH=$S/repo timeout 600 /venv/bin/python $d/demo.py >/dev/null 2>&1; echo $?)
  t0=$(date +%s)
  res=$(cd $S/verif && VERIF_REPO=$S/repo VERIF_SEED=${VERIF_SEED:-0} timeout 1800 ./check $pid --tier quick 2>&1 | grep -E "^VIOLATION|^KNOWN|^check "); rc=$?
  t1=$(date +%s)
  viol=$(echo "$res" | grep -c "^VIOLATION")
  line=$(echo "$res" | grep "^VIOLATION" | head -3 | tr '\n' ';')
  summ=$(echo "$res" | grep "^check " | tail -1)
  /venv/bin/python - "$name" "$pid" "$applied" "$demo_rc" "$viol" "$line" "$summ" $((t1-t0)) >> $TMPOUT <<'PY'
import json, sys
n, p, a, d, v, l, s, t = sys.argv[1:9]
print(json.dumps({"name": n, "property": p, "applies": a, "demo_rc_with_change": int(d), "violations": int(v), "caught": int(v) > 0, "violation_lines": l, "summary": s, "seconds": int(t)}))
PY
  echo "$name: demo_rc=$demo_rc violations=$viol  $summ"
done
cd $S/repo && git reset -q --hard HEAD
cd /; git -C /repo worktree remove --force $S/repo >/dev/null 2>&1
# merge: newer entries replace older ones of the same name
/venv/bin/python - $OUT $TMPOUT <<'PY'
import json, sys, os
old = [json.loads(l) for l in open(sys.argv[1])] if os.path.exists(sys.argv[1]) else []
new = [json.loads(l) for l in open(sys.argv[2])]
names = {n["name"] for n in new}
rows = sorted([o for o in old if o["name"] not in names] + new, key=lambda r: r["name"])
open(sys.argv[1], "w").write("".join(json.dumps(r) + "\n" for r in rows))
PY
rm -rf $S
