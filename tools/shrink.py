#!/venv/bin/python
"""usage: tools/shrink.py <replay.json> — delta-debug an (A)-mismatch (code vs model on validate) down to few triples"""
import json, os, sys
V = os.path.dirname(os.path.dirname(os.path.abspath(__file__)))
sys.path.insert(0, os.path.join(V, "harness")); sys.path.insert(0, os.environ.get("VERIF_REPO", "/repo"))
import logging; logging.disable(logging.CRITICAL)
import rdflib, vcase, wire
r = json.load(open(sys.argv[1]))
case = (r.get("broken") or [{}])[0].get("minimal", {}).get("case") or r.get("case")
sg = rdflib.Graph().parse(data=case["shapes_ttl"], format="turtle")
dg = rdflib.Graph().parse(data=case["data_nt"], format="nt")
opts = {k: v for k, v in (case.get("options") or {}).items() if k in ("advanced", "abort_on_first", "allow_infos", "allow_warnings", "sparql_mode")}
drv = wire.Driver()
def G(ts):
    g = rdflib.Graph()
    for t in ts: g.add(t)
    return g
def bad(sts, dts):
    s, d = G(sts), G(dts)
    try:
        code = vcase.run_code(s, d, dict(opts))
        rep = drv.ask([vcase.model_line("x", s, d, dict(opts))])
        model = vcase.parse_model(rep["x"])
        return bool(vcase.compare(code, model, s, with_detail=True))
    except Exception as e:
        return False
sts, dts = list(sg), list(dg)
print("initial mismatch:", bad(sts, dts), len(sts), len(dts))
changed = True
while changed:
    changed = False
    for t in list(dts):
        t2 = [x for x in dts if x != t]
        if bad(sts, t2): dts = t2; changed = True
    for t in list(sts):
        t2 = [x for x in sts if x != t]
        if bad(t2, dts): sts = t2; changed = True
print(G(sts).serialize(format="turtle")); print(G(dts).serialize(format="nt"))
s, d = G(sts), G(dts)
code = vcase.run_code(s, d, dict(opts)); model = vcase.parse_model(drv.ask([vcase.model_line("x", s, d, dict(opts))])["x"])
print("options", opts); print("code :", code[:3]); print("model:", model[:3]); print(vcase.compare(code, model, s, with_detail=True))
