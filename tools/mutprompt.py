#!/usr/bin/env python3
"""print the prompt given to an independent mutation-seeding sub-agent for property <id>"""
import json, sys
pid = sys.argv[1]
n = sys.argv[2] if len(sys.argv) > 2 else "2"
base = sys.argv[3] if len(sys.argv) > 3 else "/tmp/mut"
p = [json.loads(l) for l in open('/verif/properties.jsonl') if json.loads(l)['id'] == pid][0]
print(f"""You are helping to evaluate a verification effort for the Python library RDFLib/pySHACL (a W3C SHACL validator).
You have your own scratch git worktree of the library at {base}/{pid} (a detached checkout of the current commit). Work ONLY inside that directory (never touch /repo or /verif, and do not read /verif).
To run code against your worktree use:  cd {base}/{pid} && PYTHONPATH={base}/{pid} /venv/bin/python ...   (check with `import pyshacl; print(pyshacl.__file__)` that your copy is imported). There is no network.

Here is a semantic property of pySHACL that is supposed to hold:

  Title: {p['title']}
  Statement: {p['statement']}
  Quantified over: {p['quantifier']['text']}
  Observed at: {p['anchors'].get('observe_at')}
  Code it is anchored in: {p['anchors']['files']}

Your task: produce {n} DIFFERENT realistic code changes (bugs a maintainer could plausibly introduce: an off-by-one, a wrong operator, a dropped copy, a reordered statement, a cache added, a missing branch, two cooperating sites that each look fine alone ...) to pySHACL's source, each of which BREAKS this property while
  (a) the package still imports/compiles, and
  (b) the existing test suite still passes:  cd {base}/{pid} && PATH=/venv/bin:$PATH PYTHONPATH={base}/{pid} /venv/bin/python -m pytest -q -p no:cacheprovider --timeout=900 -q test/ --deselect test/issues/test_108.py --deselect test/issues/test_154.py --ignore=test/test_js --deselect test/test_extra.py::test_web_retrieve --deselect test/test_extra.py::test_web_retrieve_fail --deselect test/test_extra.py::test_owl_imports --deselect test/test_extra.py::test_owl_imports_fail   (about 3.5 minutes; some tests fail on the unchanged tree already because there is no network or a JS module is missing: test_108, test_154, test_js/*, test_extra web/owl_imports, test_cmdline.py::test_cmdline_web and ::test_cmdline_jsonld - ignore exactly those; run the baseline once yourself to get the reference set of failures). The same set of tests must pass with your change as without it.
Prefer changes that need something SPECIFIC to manifest (an unusual input, a particular option combination, a multi-step sequence of calls, a fault at a particular point, a particular nesting or ordering) rather than ones any ordinary use would expose at once. The change must make the library violate the property as stated above on some input within the property's quantifier; it must not be a change to tests, and must be small (ideally under 15 changed lines).

For each change i = 1..{n} deliver, in {base}/{pid}/out/m<i>/ :
  - patch.diff  : `git diff` of the change against the pinned commit (it must apply with `git apply` on a clean checkout; only files under pyshacl/),
  - demo.py     : a small standalone program using only the public API (pyshacl.validate / shacl_rules / python -m pyshacl) that exits 0 and prints PASS on the UNCHANGED code and exits 1 and prints FAIL with the change applied. It should demonstrate the violation of the property directly (e.g. compare against the expected result the property prescribes), be deterministic, and need no network,
  - note.txt    : 3-6 lines: what the change is, what it needs in order to manifest, and confirmation (with the commands you ran) that the test suite result is unchanged and that demo.py passes without / fails with the change.
Between mutants, restore the worktree with `git checkout -- .` (keep the out/ directory; it is untracked). NEVER use `git stash` (the stash is shared between worktrees of other agents). Verify each patch by applying it to the clean worktree, running demo.py (must FAIL), running the test suite (must be unchanged), reverting, and running demo.py (must PASS).
Be aware the unchanged library has some pre-existing bugs; make sure your demo passes on the unchanged code. Finish by listing the out/ directories you produced and a one-line summary of each change. Leave the worktree clean (git checkout -- .) when done.""")
