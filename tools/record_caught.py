#!/usr/bin/env python3
"""copy the outcome of tools/sweep_mutants.sh (seeded/RESULTS.jsonl) into each seeded/<id>/meta.json"""
import json, os
V = os.path.dirname(os.path.dirname(os.path.abspath(__file__)))
rows = [json.loads(l) for l in open(os.path.join(V, "seeded", "RESULTS.jsonl"))]
for r in rows:
    p = os.path.join(V, "seeded", r["name"], "meta.json")
    if not os.path.exists(p):
        continue
    m = json.load(open(p))
    if m.get("obsolete"):
        continue
    if r.get("applies") is False:
        m["caught_by"] = None
        m["sweep"] = "patch no longer applies to /repo HEAD"
    else:
        m["caught_by"] = ("./check %s --tier quick" % r["property"]) if r["caught"] else None
        m["sweep"] = {"violation_lines": r["violation_lines"], "summary": r["summary"], "seconds": r["seconds"], "demo_rc_with_change": r["demo_rc_with_change"]}
    json.dump(m, open(p, "w"), indent=1)
print("caught %d / %d" % (sum(1 for r in rows if r.get("caught")), len(rows)))
for r in rows:
    obsolete = json.load(open(os.path.join(V, "seeded", r["name"], "meta.json"))).get("obsolete") if os.path.exists(os.path.join(V, "seeded", r["name"], "meta.json")) else None
    if not r.get("caught") and not obsolete:
        print("NOT CAUGHT:", r["name"], r.get("applies"))
