#!/bin/bash
# regenerate evidence/<id>.json for every property with the quick tier and seed 0 (what is committed); prints one line per check
cd "$(dirname "$0")/.."
for p in C01 C02 C03 C04 C05 C06 C07 C08 C09 C10 C11 C12 C13 C14 C15 C16 C17 C18 C19 C20; do
  VERIF_SEED=0 timeout 1800 ./check $p --tier quick 2>/dev/null | grep -E "^VIOLATION|^check "
done
