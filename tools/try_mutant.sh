#!/bin/bash
# usage: tools/try_mutant.sh <patch.diff> <PID> [more PIDs...]  — apply a seeded change to /repo, run the quick checks, undo it
P=$1; shift
if ! git -C /repo diff --quiet; then echo "/repo has uncommitted changes"; exit 2; fi
if ! git -C /repo apply --check "$P" 2>/dev/null; then
  if ! git -C /repo apply --3way --check "$P" 2>/dev/null; then echo "PATCH DOES NOT APPLY: $P"; exit 3; fi
  git -C /repo apply --3way "$P" >/dev/null 2>&1; git -C /repo reset -q
else
  git -C /repo apply "$P"
fi
for pid in "$@"; do
  ./check $pid --tier quick | grep -E "^VIOLATION|^KNOWN|^check " ; echo "exit=${PIPESTATUS[0]}"
done
git -C /repo checkout -- . ; git -C /repo status --short | head -3
