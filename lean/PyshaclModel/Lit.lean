/-
  Lit.lean — literal comparison as pySHACL performs it.

  `orderKind`  mirrors `pyshacl.rdfutil.compare._literal_order_kind`
  `compareLiteral` mirrors `compare_literal` (None = TypeError/NotImplementedError, which every
  caller turns into "violation").  Within one kind rdflib compares in value space
  (`Literal.eq` / `Literal.__gt__`, numeric fast path, python int/float/Decimal compare exactly).
-/
import PyshaclModel.Rdf
namespace Pyshacl

inductive OrderKind where
  | boolean | numeric | dateTime | string | langString
  | other (dt : String)
  deriving DecidableEq, Repr

def xsdString := xsd "string"

def orderKind (l : Lit) : Option OrderKind :=
  if l.ill then none else
  match l.val with
  | .none => none
  | .bool _ => some .boolean
  | .int _ => some .numeric
  | .dec _ _ => some .numeric
  | .dbl _ _ => some .numeric
  | .nan => some .numeric
  | .dateTime _ _ => some .dateTime
  | .str =>
      if l.lang ≠ "" then some .langString
      else if l.dt = "" ∨ l.dt = xsdString then some .string
      else some (.other l.dt)
  | .date _ => some (.other l.dt)
  | .other => some (.other l.dt)

/-- exact rational value of a numeric literal: (numerator, positive denominator) -/
def numVal : LitVal → Option (Int × Nat)
  | .int z => some (z, 1)
  | .dec n d => some (n, d)
  | .dbl n d => some (n, d)
  | _ => none

def cmpInt (a b : Int) : Int := if a < b then -1 else if a = b then 0 else 1

def cmpRat (a b : Int × Nat) : Int := cmpInt (a.1 * (b.2 : Int)) (b.1 * (a.2 : Int))

/-- python `str` comparison: lexicographic by code point -/
def cmpStr (a b : String) : Int := if a < b then -1 else if a = b then 0 else 1

/-- `compare_literal(a, b)`: some (-1|0|1), or none when the code raises TypeError -/
def compareLiteral (a b : Lit) : Option Int :=
  match orderKind a, orderKind b with
  | some ka, some kb =>
    if ka ≠ kb then none else
    match ka with
    | .numeric =>
      match numVal a.val, numVal b.val with
      | some x, some y => some (cmpRat x y)
      | _, _ => none                      -- NaN: left unspecified by the properties
    | .boolean =>
      match a.val, b.val with
      | .bool x, .bool y => some (cmpInt (if x then 1 else 0) (if y then 1 else 0))
      | _, _ => none
    | .dateTime =>
      match a.val, b.val with
      | .dateTime tza x, .dateTime tzb y =>
        if tza ≠ tzb then none            -- naive vs aware: python raises TypeError
        else some (cmpInt x y)
      | _, _ => none
    | .string => some (cmpStr a.lex b.lex)
    | .langString =>
      -- rdflib orders two language-tagged strings by language tag, then by lexical form (`Literal.__gt__`); the
      -- properties leave this ordering unspecified, the model follows the code
      if a.lang = b.lang then some (cmpStr a.lex b.lex) else some (cmpStr a.lang b.lang)
    | .other _ =>
      match a.val, b.val with
      | .date x, .date y => some (cmpInt x y)
      | _, _ => if a.lex = b.lex then some 0 else none   -- other datatypes: only equality is modelled
  | _, _ => none

/-- the flag pySHACL computes from `compare_literal(a, b)` and a test on its sign; a `TypeError` is "no" -/
def cmpFlag (a b : Lit) (test : Int → Bool) : Bool :=
  match compareLiteral a b with
  | some c => test c
  | none => false

end Pyshacl
