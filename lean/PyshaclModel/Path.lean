/-
  Path.lean — SHACL property paths.

  * `Path`            : the AST the shapes-graph decoder (`decodePath`) produces from a path node
  * `evalPath`        : mirror of `pyshacl.helper.expression_helper.value_nodes_from_path`
                        (inverse flag threaded through, recursion counter with its cap, the
                        first/rest treatment of list cells, the two worklist loops, lazy errors)
  * `evalPathPure`    : the same evaluation with no cap and no errors (proof vehicle; the theorems
                        `evalPath_ok_exact` / `evalPath_within_cap` connect the two)

  Lists (sequence cells, alternative members) use cons/last constructors so that the type is not
  a nested inductive and so that the recursion-depth measure charges one level per sequence cell
  exactly as the code does (and none per alternative member: the code iterates `graph.items`).
-/
import PyshaclModel.Rdf
import PyshaclModel.Closure
namespace Pyshacl

inductive PathErr where
  | tooDeep            -- ReportableRuntimeError("Path traversal depth is too much!")
  | runtime            -- other ReportableRuntimeError (list with fewer than two members)
  | shapeLoad          -- ShapeLoadError (literal in a path, unknown path node)
  | notImplemented     -- NotImplementedError (sparql-mode printer on an unknown node)
  | raw (cls : String) -- an exception outside the documented family
  deriving DecidableEq, Repr, Inhabited

inductive Path where
  | pred (p : Term)
  | bad (e : PathErr) (isBnode : Bool)   -- evaluating this node raises `e`
  | seqCons (first rest : Path)          -- list cell whose rdf:rest is another node
  | seqLast (first : Path)               -- list cell whose rdf:rest is rdf:nil
  | seqNoRest (first : Path)             -- list cell without rdf:rest (ill-formed)
  | inv (q : Path)
  | alt (members : Path)                 -- members: altCons … altLast | altNil chain
  | altCons (first rest : Path)
  | altLast (first : Path)
  | altNil
  | star (q : Path)
  | plus (q : Path)
  | opt (q : Path)
  deriving DecidableEq, Repr, Inhabited

namespace Path

/-- number of alternative members of a member chain -/
def altCount : Path → Nat
  | altCons _ r => altCount r + 1
  | altLast _ => 1
  | _ => 0

/-- the universe inside which all value nodes of a focus node live -/
def univ (g : Graph) (f : Term) : List Term := f :: g.nodes

def flatMapE {ε α β} (xs : List α) (k : α → Except ε (List β)) : Except ε (List β) :=
  match xs with
  | [] => .ok []
  | x :: xs => match k x with
    | .error e => .error e
    | .ok ys => match flatMapE xs k with
      | .error e => .error e
      | .ok zs => .ok (ys ++ zs)

/-- cap-free, error-free evaluation.  `inverse` as in the code. -/
def evalPure : Path → Bool → Graph → Term → List Term
  | pred p, inverse, g, f => if inverse then g.subjects p f else g.objects f p
  | bad _ _, _, _, _ => []
  | seqCons a b, inverse, g, f =>
      if inverse then (evalPure b inverse g f).flatMap (evalPure a inverse g)
      else (evalPure a inverse g f).flatMap (evalPure b inverse g)
  | seqLast a, inverse, g, f => evalPure a inverse g f
  | seqNoRest a, inverse, g, f => evalPure a inverse g f
  | inv q, inverse, g, f => evalPure q (!inverse) g f
  | alt m, inverse, g, f => evalPure m inverse g f
  | altCons a r, inverse, g, f => evalPure a inverse g f ++ evalPure r inverse g f
  | altLast a, inverse, g, f => evalPure a inverse g f
  | altNil, _, _, _ => []
  | star q, inverse, g, f =>
      let step := fun u => evalPure q inverse g u
      let work := step f
      closure step (closureFuel step (univ g f) work) work [f]
  | plus q, inverse, g, f =>
      let step := fun u => evalPure q inverse g u
      let work := step f
      closure step (closureFuel step (univ g f) work) work []
  | opt q, inverse, g, f => f :: evalPure q inverse g f

/-- mirror of `value_nodes_from_path(sg, focus, path, g, inverse, recursion)` on a decoded path.
    `cap` is the literal `10` of `if recursion >= 10` (regenerated into `Generated/Caps.lean`). -/
def eval (cap : Nat) : Path → Bool → Nat → Graph → Term → Except PathErr (List Term)
  | pred p, inverse, _, g, f => .ok (if inverse then g.subjects p f else g.objects f p)
  | bad e isB, _, r, _, _ => if isB && decide (r ≥ cap) then .error .tooDeep else .error e
  | seqCons a b, inverse, r, g, f =>
      if r ≥ cap then .error .tooDeep else
      if inverse then
        match eval cap b inverse (r+1) g f with
        | .error e => .error e
        | .ok xs => flatMapE xs (eval cap a inverse (r+1) g)
      else
        match eval cap a inverse (r+1) g f with
        | .error e => .error e
        | .ok xs => flatMapE xs (eval cap b inverse (r+1) g)
  | seqLast a, inverse, r, g, f =>
      if r ≥ cap then .error .tooDeep else
      if r = 0 then .error .runtime else eval cap a inverse (r+1) g f
  | seqNoRest a, inverse, r, g, f =>
      -- a cell without rdf:rest ends the list, like rdf:rest rdf:nil
      if r ≥ cap then .error .tooDeep else
      if r = 0 then .error .runtime else eval cap a inverse (r+1) g f
  | inv q, inverse, r, g, f =>
      if r ≥ cap then .error .tooDeep else eval cap q (!inverse) (r+1) g f
  | alt m, inverse, r, g, f =>
      if r ≥ cap then .error .tooDeep else
      match eval cap m inverse (r+1) g f with
      | .error e => .error e
      | .ok xs => if altCount m < 2 then .error .runtime else .ok xs
  | altCons a rest, inverse, r, g, f =>
      match eval cap a inverse r g f with
      | .error e => .error e
      | .ok xs => match eval cap rest inverse r g f with
        | .error e => .error e
        | .ok ys => .ok (xs ++ ys)
  | altLast a, inverse, r, g, f => eval cap a inverse r g f
  | altNil, _, _, _, _ => .ok []
  | star q, inverse, r, g, f =>
      if r ≥ cap then .error .tooDeep else
      match eval cap q inverse (r+1) g f with
      | .error e => .error e
      | .ok work =>
        let stepP := fun u => evalPure q inverse g u
        closureE (fun u => eval cap q inverse (r+1) g u)
          (closureFuel stepP (univ g f) work) work [f]
  | plus q, inverse, r, g, f =>
      if r ≥ cap then .error .tooDeep else
      match eval cap q inverse (r+1) g f with
      | .error e => .error e
      | .ok work =>
        let stepP := fun u => evalPure q inverse g u
        closureE (fun u => eval cap q inverse (r+1) g u)
          (closureFuel stepP (univ g f) work) work []
  | opt q, inverse, r, g, f =>
      if r ≥ cap then .error .tooDeep else
      match eval cap q inverse (r+1) g f with
      | .error e => .error e
      | .ok xs => .ok (f :: xs)

/-- the code's own recursion measure: how deep `recursion` gets while evaluating `p` from `r` -/
def depth : Path → Nat
  | pred _ => 0
  | bad _ _ => 1
  | seqCons a b => max (depth a) (depth b) + 1
  | seqLast a => depth a + 1
  | seqNoRest a => depth a + 1
  | inv q => depth q + 1
  | alt m => depth m + 1
  | altCons a r => max (depth a) (depth r)
  | altLast a => depth a
  | altNil => 0
  | star q => depth q + 1
  | plus q => depth q + 1
  | opt q => depth q + 1

/-- well-formed for evaluation at recursion level `r` (`top` ⇔ r = 0): no ill-formed node,
    list cells chain properly, alternatives have at least two members, a sequence met at the
    top level has at least two cells. -/
def wf : Path → Bool → Bool
  | pred p, _ => p.isIri
  | bad _ _, _ => false
  | seqCons a b, _ => wf a false && wf b false &&
      (match b with | seqCons _ _ => true | seqLast _ => true | _ => false)
  | seqLast a, top => !top && wf a false
  | seqNoRest _, _ => false
  | inv q, _ => wf q false
  | alt m, _ => wf m false && decide (2 ≤ altCount m) &&
      (match m with | altCons _ _ => true | _ => false)
  | altCons a r, top => wf a top && wf r top &&
      (match r with | altCons _ _ => true | altLast _ => true | _ => false)
  | altLast a, top => wf a top
  | altNil, _ => false
  | star q, _ => wf q false
  | plus q, _ => wf q false
  | opt q, _ => wf q false

end Path

/-! ### decoding a path node of the shapes graph (mirrors the dispatch order of the code) -/

def shInversePath := sh "inversePath"
def shAlternativePath := sh "alternativePath"
def shZeroOrMorePath := sh "zeroOrMorePath"
def shOneOrMorePath := sh "oneOrMorePath"
def shZeroOrOnePath := sh "zeroOrOnePath"

/-- rdflib `Graph.items(list)`: members of an rdf list; `none` when the chain loops (rdflib raises
    `ValueError`) or exceeds the fuel. -/
def listItems (sg : Graph) : Nat → Term → List Term → Option (List Term)
  | 0, _, _ => none
  | n+1, node, chain =>
    let item := (sg.objects node rdfFirst).head?
    let items := match item with | some i => [i] | none => []
    match (sg.objects node rdfRest).head? with
    | none => some items
    | some next =>
      if next ∈ chain || next = node then none
      else match listItems sg n next (node :: chain) with
        | none => none
        | some rest => some (items ++ rest)

def rdfListItems (sg : Graph) (node : Term) : Option (List Term) :=
  listItems sg (sg.length + 2) node []

def altChain : List Path → Path
  | [] => .altNil
  | [a] => .altLast a
  | a :: rest => .altCons a (altChain rest)

def decodePath (sg : Graph) : Nat → Term → Path
  | _, .iri s => .pred (.iri s)
  | _, .lit _ => .bad .shapeLoad false
  | 0, .bnode _ => .bad .tooDeep true
  | n+1, .bnode b =>
    let node := Term.bnode b
    match (sg.objects node rdfFirst).head? with
    | some first =>
      match (sg.objects node rdfRest).head? with
      | none => .seqNoRest (decodePath sg n first)
      | some rest =>
        if rest = rdfNil then .seqLast (decodePath sg n first)
        else .seqCons (decodePath sg n first) (decodePath sg n rest)
    | none =>
    match (sg.objects node shInversePath).head? with
    | some q => .inv (decodePath sg n q)
    | none =>
    match (sg.objects node shAlternativePath).head? with
    | some l =>
      match rdfListItems sg l with
      | none => .bad (.raw "ValueError") true
      | some items =>
        .alt (altChain (items.map (fun a => decodePath sg n a)))
    | none =>
    match (sg.objects node shZeroOrMorePath).head? with
    | some q => .star (decodePath sg n q)
    | none =>
    match (sg.objects node shOneOrMorePath).head? with
    | some q => .plus (decodePath sg n q)
    | none =>
    match (sg.objects node shZeroOrOnePath).head? with
    | some q => .opt (decodePath sg n q)
    | none => .bad .shapeLoad true

/-- decode fuel: larger than every cap of the code, so a `bad tooDeep` placeholder is only ever
    evaluated at a recursion level where the code has already raised -/
def pathDecodeFuel : Nat := 16

end Pyshacl
