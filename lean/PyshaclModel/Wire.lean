/-
  Wire.lean — line protocol between the Python harness and the Lean driver.

  A line is a list of space-separated tokens.  Strings are escaped: every character outside
  [A-Za-z0-9_./#-] is written `%<hex codepoint>;`.  Terms:
     I:<iri>     B:<label>     L:<lex>:<datatype>:<lang>:<val>
  <val> (the python value rdflib computed for the literal):
     [!]n | i<int>  (a leading `!` = rdflib says ill_typed) | d<num>/<den> | f<num>/<den> | x | b0 | b1 | tz<us> | tn<us> | D<days> | s | o
-/
import PyshaclModel.Rdf
namespace Pyshacl.Wire

def hexVal (c : Char) : Option Nat :=
  if '0' ≤ c ∧ c ≤ '9' then some (c.toNat - '0'.toNat)
  else if 'a' ≤ c ∧ c ≤ 'f' then some (c.toNat - 'a'.toNat + 10)
  else if 'A' ≤ c ∧ c ≤ 'F' then some (c.toNat - 'A'.toNat + 10)
  else none

/-- decode `%<hex>;` escapes (`%;` is the empty string) -/
def unescapeAux : List Char → Option (Nat × Nat) → List Char → List Char
  | [], _, acc => acc.reverse
  | c :: cs, some (n, d), acc =>
    if c = ';' then unescapeAux cs none (if d = 0 then acc else Char.ofNat n :: acc)
    else match hexVal c with
      | some h => unescapeAux cs (some (n * 16 + h, d + 1)) acc
      | none => unescapeAux cs none acc
  | c :: cs, none, acc =>
    if c = '%' then unescapeAux cs (some (0, 0)) acc else unescapeAux cs none (c :: acc)

def unescape (s : String) : String := String.ofList (unescapeAux s.toList none [])

def safeChar (c : Char) : Bool :=
  c.isAlphanum || c = '_' || c = '.' || c = '/' || c = '#' || c = '-'

def hexDigits (n : Nat) : String := String.ofList (Nat.toDigits 16 n)

def escape (s : String) : String :=
  if s = "" then "%;" else
  String.join (s.toList.map fun c => if safeChar c then c.toString else "%" ++ hexDigits c.toNat ++ ";")

def parseInt? (s : String) : Option Int := s.toInt?

def parseRat? (s : String) : Option (Int × Nat) :=
  match s.splitOn "/" with
  | [a, b] => match a.toInt?, b.toNat? with
    | some x, some y => some (x, y)
    | _, _ => none
  | _ => none

def parseVal (s : String) : Option LitVal :=
  if s = "n" then some .none
  else if s = "x" then some .nan
  else if s = "s" then some .str
  else if s = "o" then some .other
  else if s = "b0" then some (.bool false)
  else if s = "b1" then some (.bool true)
  else if s.startsWith "tz" then (parseInt? (s.drop 2).toString).map (.dateTime true)
  else if s.startsWith "tn" then (parseInt? (s.drop 2).toString).map (.dateTime false)
  else if s.startsWith "i" then (parseInt? (s.drop 1).toString).map .int
  else if s.startsWith "D" then (parseInt? (s.drop 1).toString).map .date
  else if s.startsWith "d" then (parseRat? (s.drop 1).toString).map fun (a, b) => .dec a b
  else if s.startsWith "f" then (parseRat? (s.drop 1).toString).map fun (a, b) => .dbl a b
  else none

def parseTerm (tok : String) : Option Term :=
  if tok.startsWith "I:" then some (.iri (unescape (tok.drop 2).toString))
  else if tok.startsWith "B:" then some (.bnode (unescape (tok.drop 2).toString))
  else if tok.startsWith "L:" then
    match (tok.drop 2).toString.splitOn ":" with
    | [lex, dt, lang, v] =>
      let ill := v.startsWith "!"
      let v := if ill then (v.drop 1).toString else v
      (parseVal v).map fun val =>
        .lit { lex := unescape lex, dt := unescape dt, lang := unescape lang, val := val, ill := ill }
    | _ => none
  else none

def valStr : LitVal → String
  | .none => "n" | .nan => "x" | .str => "s" | .other => "o"
  | .bool false => "b0" | .bool true => "b1"
  | .dateTime true us => "tz" ++ toString us
  | .dateTime false us => "tn" ++ toString us
  | .int z => "i" ++ toString z
  | .date d => "D" ++ toString d
  | .dec a b => "d" ++ toString a ++ "/" ++ toString b
  | .dbl a b => "f" ++ toString a ++ "/" ++ toString b

def termStr : Term → String
  | .iri s => "I:" ++ escape s
  | .bnode s => "B:" ++ escape s
  | .lit l => "L:" ++ escape l.lex ++ ":" ++ escape l.dt ++ ":" ++ escape l.lang ++ ":" ++
      (if l.ill then "!" else "") ++ valStr l.val

/-- parse `n` then `3n` term tokens into a graph; returns the remaining tokens -/
def parseTriples : Nat → List String → List Triple → Option (List Triple × List String)
  | 0, rest, acc => some (acc.reverse, rest)
  | n+1, a :: b :: c :: rest, acc =>
    match parseTerm a, parseTerm b, parseTerm c with
    | some s, some p, some o => parseTriples n rest (⟨s, p, o⟩ :: acc)
    | _, _, _ => none
  | _, _, _ => none

def parseGraph : List String → Option (Graph × List String)
  | n :: rest => match n.toNat? with
    | some k => parseTriples k rest []
    | none => none
  | [] => none

def parseTerms : Nat → List String → List Term → Option (List Term × List String)
  | 0, rest, acc => some (acc.reverse, rest)
  | n+1, a :: rest, acc => match parseTerm a with
    | some t => parseTerms n rest (t :: acc)
    | none => none
  | _, _, _ => none

def parseTermList : List String → Option (List Term × List String)
  | n :: rest => match n.toNat? with
    | some k => parseTerms k rest []
    | none => none
  | [] => none

end Pyshacl.Wire
