/-
  Core.lean — the SHACL Core constraint components that do not reference other shapes
  (mirrors of `evaluate` / `_evaluate_*` in pyshacl/constraints/core/*.py), and result
  construction (`make_v_result`).
-/
import PyshaclModel.Shapes
import PyshaclModel.Target
import PyshaclModel.Lit
import PyshaclModel.Generated.Dispatch
namespace Pyshacl

inductive CKind where
  | cls | datatype | nodeKind | minCount | maxCount
  | minExclusive | minInclusive | maxExclusive | maxInclusive
  | not | and | or | xone
  | minLength | maxLength | pattern | languageIn | uniqueLang
  | equals | disjoint | lessThan | lessThanOrEquals
  | node | property | qualified | closed | hasValue | inC | sparql | expression
  deriving DecidableEq, Repr, Inhabited

def CKind.ofClassName : String → Option CKind
  | "ClassConstraintComponent" => some .cls
  | "DatatypeConstraintComponent" => some .datatype
  | "NodeKindConstraintComponent" => some .nodeKind
  | "MinCountConstraintComponent" => some .minCount
  | "MaxCountConstraintComponent" => some .maxCount
  | "MinExclusiveConstraintComponent" => some .minExclusive
  | "MinInclusiveConstraintComponent" => some .minInclusive
  | "MaxExclusiveConstraintComponent" => some .maxExclusive
  | "MaxInclusiveConstraintComponent" => some .maxInclusive
  | "NotConstraintComponent" => some .not
  | "AndConstraintComponent" => some .and
  | "OrConstraintComponent" => some .or
  | "XoneConstraintComponent" => some .xone
  | "MinLengthConstraintComponent" => some .minLength
  | "MaxLengthConstraintComponent" => some .maxLength
  | "PatternConstraintComponent" => some .pattern
  | "LanguageInConstraintComponent" => some .languageIn
  | "UniqueLangConstraintComponent" => some .uniqueLang
  | "EqualsConstraintComponent" => some .equals
  | "DisjointConstraintComponent" => some .disjoint
  | "LessThanConstraintComponent" => some .lessThan
  | "LessThanOrEqualsConstraintComponent" => some .lessThanOrEquals
  | "NodeConstraintComponent" => some .node
  | "PropertyConstraintComponent" => some .property
  | "QualifiedValueShapeConstraintComponent" => some .qualified
  | "ClosedConstraintComponent" => some .closed
  | "HasValueConstraintComponent" => some .hasValue
  | "InConstraintComponent" => some .inC
  | "SPARQLBasedConstraint" => some .sparql
  | _ => none

/-- which component a parameter predicate is dispatched to (regenerated table) -/
def paramKind (p : Term) : Option CKind :=
  match p with
  | .iri s => match Dispatch.paramTable.find? (fun r => r.1 = s) with
    | some r => CKind.ofClassName r.2.1
    | none => none
  | _ => none

/-- the `shacl_constraint_component` IRI of a component class (regenerated table) -/
def componentIri (k : CKind) : Term :=
  match Dispatch.paramTable.find? (fun r => CKind.ofClassName r.2.1 = some k) with
  | some r => .iri r.2.2
  | none => sh "ExpressionConstraintComponent"

inductive Result where
  | mk (focus : Term) (value : Option Term) (path : Option Term) (component : Term)
       (shape : Term) (severity : Term) (messages : List Term) (details : List Result)
       (source : Option Term)        -- sh:sourceConstraint (sh:sparql constraints only)
  deriving Repr, Inhabited

namespace Result
def severity : Result → Term | mk _ _ _ _ _ s _ _ _ => s
def focus : Result → Term | mk f _ _ _ _ _ _ _ _ => f
def value : Result → Option Term | mk _ v _ _ _ _ _ _ _ => v
def component : Result → Term | mk _ _ _ c _ _ _ _ _ => c
def shape : Result → Term | mk _ _ _ _ s _ _ _ _ => s
def messages : Result → List Term | mk _ _ _ _ _ _ m _ _ => m
def details : Result → List Result | mk _ _ _ _ _ _ _ d _ => d
end Result

/-- `make_v_result`: severity and declared messages of the owning shape, path of a property shape
    unless an explicit result path is given -/
def mkResult (s : Shape) (k : CKind) (f : Term) (value : Option Term)
    (resultPath : Option Term := none) (component : Option Term := none)
    (details : List Result := []) (source : Option Term := none) (messages : Option (List Term) := none) : Result :=
  .mk f value (match resultPath with | some p => some p | none => if s.isProp then s.path else none)
    (component.getD (componentIri k)) s.node s.severity (messages.getD s.messages) details source

abbrev FV := List (Term × List Term)      -- focus ↦ value nodes (python dict of sets)

/-- opaque regular-expression matcher: (pattern lexical form, flags, string) ↦ matches?
    shipped by the harness as a finite table computed with python `re` directly -/
abbrev Regex := String → String → String → Option Bool

/-- helper: one result per (focus, value) failing `ok` -/
def perValue (s : Shape) (k : CKind) (fv : FV) (ok : Term → Term → Bool) : List Result :=
  fv.flatMap fun (f, vs) => vs.filterMap fun v => if ok f v then none else some (mkResult s k f (some v))

def rdfsLiteral := rdfs "Literal"
def rdfsDatatype := rdfs "Datatype"
def rdfLangString := rdfNs ++ "langString"
def rdfsResource := rdfs "Resource"

/-- datatype IRI of a literal as rdflib exposes it ("" = None) -/
def isShaclInstance (dg : Graph) (v c : Term) : Bool :=
  (dg.objects v rdfType).any fun t => t = c ∨ c ∈ transitiveObjects dg t rdfsSubClassOf

def evalClass (s : Shape) (dg : Graph) (fv : FV) (classes : List Term) : List Result :=
  classes.flatMap fun c => perValue s .cls fv fun _ v =>
    match v with
    | .lit _ => false
    | _ => isShaclInstance dg v c

/-- `_assert_actual_datatype` -/
def actualDatatypeOk (l : Lit) (rule : String) : Bool :=
  if rule = xsd "string" ∨ rule = rdfLangString then (match l.val with | .str => true | _ => false)
  else if rule = xsd "integer" then (match l.val with | .int _ => true | .bool _ => true | _ => false)
  else if rule = xsd "float" then (match l.val with | .dbl _ _ => true | .nan => true | _ => false)
  else if rule = xsd "decimal" then (match l.val with | .dec _ _ => true | _ => false)
  else if rule = xsd "boolean" then (match l.val with | .bool _ => true | _ => false)
  else if rule = xsd "date" then (match l.val with | .date _ => true | .dateTime _ _ => true | _ => false)
  else if rule = xsd "dateTime" then (match l.val with | .dateTime _ _ => true | _ => false)
  else if rule = xsd "time" then (match l.val with | .other => true | _ => false)
  else true

/-- the test of `DatatypeConstraintComponent.evaluate` on one literal -/
def datatypeOkB (l : Lit) (r : String) : Bool :=
  if l.dt = r then (if l.ill then false else actualDatatypeOk l r)
  else if Term.iri r = rdfsLiteral then true
  else if Term.iri r = rdfsDatatype ∧ l.dt ≠ "" then true
  else if l.dt = "" ∧ l.lang = "" ∧ r = xsd "string" then actualDatatypeOk l r
  else if r = rdfLangString ∧ l.lang ≠ "" then actualDatatypeOk l r
  else false

def datatypeTest (v rule : Term) : Bool :=
  match v, rule with
  | .lit l, .iri r => datatypeOkB l r
  | _, _ => false

def evalDatatype (s : Shape) (fv : FV) (rule : Term) : List Result :=
  perValue s .datatype fv fun _ v => datatypeTest v rule

def evalNodeKind (s : Shape) (fv : FV) (rule : Term) : List Result :=
  perValue s .nodeKind fv fun _ v =>
    match v with
    | .bnode _ => rule = sh "BlankNode" ∨ rule = sh "BlankNodeOrLiteral" ∨ rule = sh "BlankNodeOrIRI"
    | .lit _ => rule = sh "Literal" ∨ rule = sh "BlankNodeOrLiteral" ∨ rule = sh "IRIOrLiteral"
    | .iri _ => rule = sh "IRI" ∨ rule = sh "IRIOrLiteral" ∨ rule = sh "BlankNodeOrIRI"

def evalMinCount (s : Shape) (fv : FV) (n : Int) : List Result :=
  if n = 0 then [] else
  fv.filterMap fun (f, vs) => if (vs.length : Int) ≥ n then none else some (mkResult s .minCount f none)

def evalMaxCount (s : Shape) (fv : FV) (n : Int) : List Result :=
  fv.filterMap fun (f, vs) => if (vs.length : Int) ≤ n then none else some (mkResult s .maxCount f none)

def isStrVal (l : Lit) : Bool := match l.val with | .str => true | _ => false

/-- the test of the value-range components on one value node and one bound -/
def rangeOk (test : Int → Bool) (v b : Term) : Bool :=
  match v, b with
  | .lit lv, .lit lb =>
    if isStrVal lb ≠ isStrVal lv then false
    else cmpFlag lv lb test
  | _, _ => false

/-- the four value-range components: `test c` is applied to `compare_literal(v, bound)` -/
def evalRange (s : Shape) (k : CKind) (fv : FV) (bounds : List Term) (test : Int → Bool) : List Result :=
  bounds.flatMap fun b => perValue s k fv fun _ v => rangeOk test v b

/-- `value_node_to_string` -/
def valueNodeToString : Term → String
  | .iri s => s
  | .bnode s => s
  | .lit l => l.lex

def evalMinLength (s : Shape) (fv : FV) (rules : List Int) : List Result :=
  rules.flatMap fun n => perValue s .minLength fv fun _ v =>
    if n = 0 then true else
    match v with
    | .bnode _ => false
    | _ => ((valueNodeToString v).length : Int) ≥ n

def evalMaxLength (s : Shape) (fv : FV) (rules : List Int) : List Result :=
  rules.flatMap fun n => perValue s .maxLength fv fun _ v =>
    match v with
    | .bnode _ => false
    | _ => ((valueNodeToString v).length : Int) ≤ n

/-- the pseudo-string under which the harness records that python's `re.compile` rejects a pattern -/
def regexInvalidMarker : String := "%invalid-regex%"

/-- sh:pattern: the matcher is opaque; a table miss is reported as a failure of the driver -/
def evalPattern (s : Shape) (fv : FV) (rx : Regex) (patterns : List Term) (flags : String) :
    Except Failure (List Result) :=
  let miss := patterns.any fun p => fv.any fun (_, vs) => vs.any fun v =>
    match v, p with
    | .bnode _, _ => false
    | _, .lit lp => (rx lp.lex flags (valueNodeToString v)).isNone
    | _, _ => false
  if miss then .error (.raw "regex-table-miss") else
  .ok (patterns.flatMap fun p => perValue s .pattern fv fun _ v =>
    match v, p with
    | .bnode _, _ => false
    | _, .lit lp => (rx lp.lex flags (valueNodeToString v)).getD false
    | _, _ => false)

def lower (s : String) : String := s.map Char.toLower

/-- SPARQL langMatches basic filtering as the code implements it -/
def langMatches (tag range : String) : Bool :=
  tag = range ∨ (range ++ "-").isPrefixOf tag

def evalLanguageIn (s : Shape) (fv : FV) (ranges : List String) : List Result :=
  let need := ranges.map lower
  perValue s .languageIn fv fun _ v =>
    match v with
    | .lit l =>
      if l.lang = "" then false
      else if "*" ∈ need then true
      else need.any (fun r => langMatches (lower l.lang) r)
    | _ => false

def langOf : Term → Option String
  | .lit l => if l.lang = "" then none else some (lower l.lang)
  | _ => none

/-- sh:uniqueLang true: one result per language tag used by at least two value nodes -/
def evalUniqueLang (s : Shape) (fv : FV) (flag : Bool) : List Result :=
  if !flag then [] else
  fv.flatMap fun (f, vs) =>
    let langs := vs.filterMap langOf
    let dups := dedup (langs.filter fun l => (langs.filter (· = l)).length ≥ 2)
    dups.map fun _ => mkResult s .uniqueLang f none

def evalEquals (s : Shape) (dg : Graph) (fv : FV) (props : List Term) : List Result :=
  props.flatMap fun p => fv.flatMap fun (f, vs) =>
    let cmp := dedup (dg.objects f p)
    (vs.filter (· ∉ cmp) ++ cmp.filter (· ∉ vs)).map fun v => mkResult s .equals f (some v)

def evalDisjoint (s : Shape) (dg : Graph) (fv : FV) (props : List Term) : List Result :=
  props.flatMap fun p => fv.flatMap fun (f, vs) =>
    let cmp := dedup (dg.objects f p)
    (vs.filter (· ∈ cmp)).map fun v => mkResult s .disjoint f (some v)

/-- the test of sh:lessThan / sh:lessThanOrEquals on one (value, compare value) pair -/
def pairOk (test : Int → Bool) (v c : Term) : Bool :=
  match v, c with
  | .lit lv, .lit lc => cmpFlag lv lc test
  | _, _ => false

/-- sh:lessThan / sh:lessThanOrEquals: one result per (value, compare value) pair that is not ordered -/
def evalLessThan (s : Shape) (k : CKind) (dg : Graph) (fv : FV) (props : List Term) (test : Int → Bool) :
    Except Failure (List Result) :=
  if props.any (fun p => !p.isIri) then .error (.runtime "") else
  .ok (props.flatMap fun p => fv.flatMap fun (f, vs) =>
    let cmp := dedup (dg.objects f p)
    vs.flatMap fun v => cmp.filterMap fun c =>
      if pairOk test v c then none else some (mkResult s k f (some v)))

def evalHasValue (s : Shape) (fv : FV) (vals : List Term) : List Result :=
  vals.flatMap fun hv => fv.filterMap fun (f, vs) =>
    if hv ∈ vs then none else some (mkResult s .hasValue f none)

def evalIn (s : Shape) (fv : FV) (members : List Term) : List Result :=
  perValue s .inC fv fun _ v => v ∈ members

/-- sh:closed: one result per triple of a value node whose predicate is not allowed -/
def evalClosed (s : Shape) (dg : Graph) (fv : FV) (isClosed : Bool) (ignored allowedPaths : List Term) :
    List Result :=
  if !isClosed then [] else
  fv.flatMap fun (f, vs) => vs.flatMap fun v =>
    (dedup (dg.predicateObjects v)).filterMap fun (p, o) =>
      if (p = rdfType ∧ o = rdfsResource) ∨ p ∈ ignored ∨ p ∈ allowedPaths then none
      else some (mkResult s .closed f (some o) (resultPath := some p))

end Pyshacl
