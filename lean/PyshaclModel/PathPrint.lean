/-
  PathPrint.lean — mirror of `pyshacl.helper.path_helper.shacl_path_to_sparql_path`: the SPARQL 1.1
  property-path text pySHACL sends to the data graph in SPARQL remote-graph mode.
-/
import PyshaclModel.Path
import PyshaclModel.Generated.Caps
namespace Pyshacl

def isNameStart (c : Char) : Bool := c.isAlpha || c = '_'
def isNameChar (c : Char) : Bool := c.isAlphanum || c = '_'

/-- `[A-Za-z_][A-Za-z0-9_]*` -/
def plainLocalName (s : String) : Bool :=
  match s.toList with
  | [] => false
  | c :: cs => isNameStart c && cs.all isNameChar

/-- IRI as the printer writes it: `prefix:local` for the first binding whose namespace starts the IRI and
    leaves a plain local name, `<iri>` otherwise -/
def printIri (prefixes : List (String × String)) (iri : String) : String :=
  match prefixes.find? (fun (_, ns) => ns.isPrefixOf iri && plainLocalName (iri.drop ns.length).toString) with
  | some (p, ns) => p ++ ":" ++ (iri.drop ns.length).toString
  | none => "<" ++ iri ++ ">"

namespace Path

/-- members of a sequence cell chain -/
def seqMembers : Path → List Path
  | seqCons a r => a :: seqMembers r
  | seqLast a => [a]
  | seqNoRest a => [a]
  | _ => []

def altMembers : Path → List Path
  | altCons a r => a :: altMembers r
  | altLast a => [a]
  | _ => []

/-- the operand of `*`, `+`, `?`, `^` prints as a PathPrimary already (IRI, or a parenthesised group) -/
def printsAsPrimary : Path → Bool
  | pred _ => true
  | seqCons _ _ => true
  | seqLast _ => true
  | alt _ => true
  | _ => false

def joinWith (sep : String) : List String → String
  | [] => ""
  | [x] => x
  | x :: xs => x ++ sep ++ joinWith sep xs

def mapPrint (f : Path → Except PathErr String) : List Path → Except PathErr (List String)
  | [] => .ok []
  | p :: ps => match f p with
    | .error e => .error e
    | .ok s => match mapPrint f ps with
      | .error e => .error e
      | .ok ss => .ok (s :: ss)

/-- `shacl_path_to_sparql_path(sg, node, prefixes, recursion)`; `fuel` only makes the definition
    structurally recursive (it is set above every cap) -/
def print (prefixes : List (String × String)) : Nat → Path → Nat → Except PathErr String
  | 0, _, _ => .error .tooDeep
  | fuel+1, p, r =>
    match p with
    | pred (.iri s) => .ok (printIri prefixes s)
    | pred _ => .error .runtime
    | bad e isB => if isB && decide (r ≥ Caps.sparqlPathDepth) then .error .tooDeep
                   else if isB then .error .notImplemented else .error .runtime
    | seqCons _ _ | seqLast _ | seqNoRest _ =>
      if r ≥ Caps.sparqlPathDepth then .error .tooDeep else
      match mapPrint (fun m => print prefixes fuel m (r+1)) (seqMembers p) with
      | .error e => .error e
      | .ok ss =>
        if ss.length < 2 then .error .runtime else
        let j := joinWith " / " ss
        .ok (if r = 0 then j else "(" ++ j ++ ")")
    | alt m =>
      if r ≥ Caps.sparqlPathDepth then .error .tooDeep else
      match mapPrint (fun x => print prefixes fuel x (r+1)) (altMembers m) with
      | .error e => .error e
      | .ok ss =>
        if ss.length < 2 then .error .runtime else
        let j := joinWith " | " ss
        .ok (if r = 0 then j else "(" ++ j ++ ")")
    | inv q =>
      if r ≥ Caps.sparqlPathDepth then .error .tooDeep else
      match print prefixes fuel q (r+1) with
      | .error e => .error e
      | .ok s => .ok ("^" ++ (if printsAsPrimary q then s else "(" ++ s ++ ")"))
    | star q =>
      if r ≥ Caps.sparqlPathDepth then .error .tooDeep else
      match print prefixes fuel q (r+1) with
      | .error e => .error e
      | .ok s => .ok ((if printsAsPrimary q then s else "(" ++ s ++ ")") ++ "*")
    | plus q =>
      if r ≥ Caps.sparqlPathDepth then .error .tooDeep else
      match print prefixes fuel q (r+1) with
      | .error e => .error e
      | .ok s => .ok ((if printsAsPrimary q then s else "(" ++ s ++ ")") ++ "+")
    | opt q =>
      if r ≥ Caps.sparqlPathDepth then .error .tooDeep else
      match print prefixes fuel q (r+1) with
      | .error e => .error e
      | .ok s => .ok ((if printsAsPrimary q then s else "(" ++ s ++ ")") ++ "?")
    | altCons _ _ | altLast _ | altNil => .error .notImplemented

end Path
end Pyshacl
