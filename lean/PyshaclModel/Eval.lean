/-
  Eval.lean — mirror of `Shape.validate` and of the shape-based / logical constraint components,
  with the evaluation path, the depth test, the recursion back-out heuristic, the severity waivers,
  the focus_nodes filter and the abort_on_first breaks.
-/
import PyshaclModel.Core
import PyshaclModel.SparqlGlue
import PyshaclModel.Advanced
import PyshaclModel.Generated.Caps
namespace Pyshacl

structure Opts where
  advanced : Bool := false
  abortOnFirst : Bool := false
  allowInfos : Bool := false
  allowWarnings : Bool := false
  sparqlMode : Bool := false
  maxDepth : Nat := Caps.maxValidationDepth
  focusNodes : Option (List Term) := none      -- executor.focus_nodes (already expanded)
  deriving Repr, Inhabited

inductive PathEntry where
  | shape (node : Term)
  | constr (kind : CKind) (owner : Term)
  deriving DecidableEq, Repr, Inhabited

/-- `ConstraintComponent.recursion_triggers(_evaluation_path)` with `path = … ++ [shape self, constr self]` -/
def recursionTriggers (path : List PathEntry) (self : Term) (kind : CKind) : Option (List Term) :=
  let n := path.length
  if n < Caps.triggerMinLen then none else
  let prevConstraint : Option PathEntry := path[n - 3]?
  let lookback :=
    match prevConstraint with
    | some (.constr pk _) =>
      if (kind = .property ∧ pk = .node) ∨ (kind = .node ∧ pk = .property) then Caps.triggerDepth * 4
      else Caps.triggerDepth * 2
    | _ => Caps.triggerDepth * 2
  if n < lookback then none else
  let front := path.take (n - 2)
  let idxs := (List.range front.length).filter fun i => front[i]? = some (.shape self)
  some (idxs.filterMap fun i =>
    match (path[i + 1]? : Option PathEntry) with
    | some (PathEntry.constr k owner) =>
      if owner = self ∧ k = kind then
        (match (path[i + 2]? : Option PathEntry) with | some (PathEntry.shape nxt) => some nxt | _ => none)
      else none
    | _ => none)

def inTriggers (t : Option (List Term)) (n : Term) : Bool :=
  match t with
  | some l => l ≠ [] ∧ n ∈ l
  | none => false

/-- waived severities -/
def allowedSeverities (o : Opts) : List Term :=
  (if o.allowInfos then [shInfo] else []) ++ (if o.allowWarnings then [shInfo, shWarning] else [])

/-- `_fails` of `Shape.validate` -/
def constraintFails (o : Opts) (topLevel : Bool) (conform : Bool) (reports : List Result) : Bool :=
  if conform ∨ ¬ ((o.allowInfos ∨ o.allowWarnings) ∧ topLevel) then !conform
  else reports.any fun r => r.severity ∉ allowedSeverities o

def intOfLit : Term → Option Int
  | .lit l => (match l.val with | .int z => some z | .bool b => some (if b then 1 else 0) | _ => none)
  | _ => none

def boolOfLit : Term → Option Bool
  | .lit l => (match l.val with | .bool b => some b | _ => none)
  | _ => none

/-- sh:minLength / sh:maxLength parameter: a non-negative integer literal -/
def natParam (t : Term) : Except Failure Int :=
  match t with
  | .lit l => (match l.val with
    | .int n => if n < 0 ∨ l.ill then .error .constraintLoad else .ok n
    | _ => .error .constraintLoad)     -- a boolean is no whole-integer datatype
  | _ => .error .constraintLoad

def shFlags := sh "flags"
def shIgnoredProperties := sh "ignoredProperties"
def shClosed := sh "closed"
def shQualifiedMinCount := sh "qualifiedMinCount"
def shQualifiedMaxCount := sh "qualifiedMaxCount"
def shQualifiedValueShapesDisjoint := sh "qualifiedValueShapesDisjoint"
def shQualifiedMinCountCC := sh "QualifiedMinCountConstraintComponent"
def shQualifiedMaxCountCC := sh "QualifiedMaxCountConstraintComponent"

/-- what constraint evaluation reads: the graphs, the shape cache, the regex oracle -/
structure Env where
  sg : Graph            -- shapes graph incl. system triples
  dg : Graph
  shapes : List Shape
  rx : Regex
  /-- opaque SPARQL engine: solutions of the query of constraint node `c` with `$this` pre-bound to `f` -/
  sq : Term → Term → Option (List Sol) := fun _ _ => none
  /-- template descriptor of the query text of a constraint node -/
  sqInfo : Term → Option SparqlTemplate := fun _ => none
  /-- the SPARQL-based constraint components declared by the shapes graph (harvested lazily by the code) -/
  components : Except Failure (List Component) := .ok []
  /-- opaque SPARQL engine for validators: validator, shape, focus, value ↦ ASK answer / SELECT rows -/
  va : Term → Term → Term → Term → Option ValidatorAnswer := fun _ _ _ _ => none
  /-- advanced mode: the registered SPARQL functions and target types, and the opaque engine's tables for them -/
  fns : List FnDecl := []
  tts : List Term := []
  adv : AdvTables := {}

structure Ctx extends Env where
  o : Opts

abbrev Out := Except Failure (Bool × List Result)

/-- a nested `other_shape.validate(executor, g, focus=v, _evaluation_path=path[:])` -/
abbrev Rec := Shape → Term → List PathEntry → Out

/-- `for x in xs: conf, rs = f(x); conforms &= conf; reports += rs` -/
def foldOut {α} : List α → (α → Out) → Out
  | [], _ => .ok (true, [])
  | x :: xs, f =>
    match f x with
    | .error e => .error e
    | .ok (c, rs) =>
      match foldOut xs f with
      | .error e => .error e
      | .ok (c2, rs2) => .ok (c && c2, rs ++ rs2)

def ofResults (rs : List Result) : Out := .ok (rs.isEmpty, rs)

/-- an evaluator that may raise, turned into a component outcome -/
def liftResults (x : Except Failure (List Result)) : Out :=
  match x with
  | .error e => .error e
  | .ok rs => ofResults rs

/-- a python loop `for x in xs: conf, rs = f(x); non_conformant |= fails(conf, rs); reports += rs;
    if non_conformant and abort: break` — returns (non_conformant, reports) -/
def loopE {α} (abort : Bool) (fails : Bool → List Result → Bool) (f : α → Out) :
    List α → Except Failure (Bool × List Result)
  | [] => .ok (false, [])
  | x :: xs =>
    match f x with
    | .error e => .error e
    | .ok (conf, rs) =>
      if fails conf rs && abort then .ok (true, rs)
      else match loopE abort fails f xs with
        | .error e => .error e
        | .ok (nc, rs') => .ok (fails conf rs || nc, rs ++ rs')

def valueCount (fv : FV) : Nat := (fv.map fun (_, vs) => vs.length).sum

/-- conformance of every (focus, value) pair against a list of shapes, folded by `combine` -/
def evalMembers (rec : Rec) (path : List PathEntry) (members : List Shape) (v : Term) :
    Except Failure (List Bool) :=
  mapE (fun m => match rec m v path with
    | .error e => .error e
    | .ok (c, _) => .ok c) members

/-- one result per (focus, value) for which `bad (conformance list)` holds -/
def logicalOver (rec : Rec) (s : Shape) (k : CKind) (path : List PathEntry) (fv : FV)
    (members : List Shape) (bad : List Bool → Bool) : Out :=
  foldOut fv fun (f, vs) => foldOut vs fun v =>
    match evalMembers rec path members v with
    | .error e => .error e
    | .ok cs => if bad cs then .ok (false, [mkResult s k f (some v)]) else .ok (true, [])

/-- sh:node against node shape `ns`: one result per (focus, value) that does not conform, with the
    results of the nested evaluation as `sh:detail` -/
def nodeOver (rec : Rec) (s : Shape) (path : List PathEntry) (fv : FV) (ns : Shape) : Out :=
  foldOut fv fun (f, vs) => foldOut vs fun v =>
    match rec ns v path with
    | .error e => .error e
    | .ok (conf, rs) =>
      if !conf ∨ !rs.isEmpty then .ok (false, [mkResult s .node f (some v) (details := rs)])
      else .ok (true, [])

/-- sh:property against property shape `ps`: the nested property shape's own results -/
def propertyOver (rec : Rec) (path : List PathEntry) (fv : FV) (ps : Shape) : Out :=
  foldOut fv fun (_, vs) => foldOut vs fun v => rec ps v path

/-- does value node `v` count for the qualified value shape `other`: it conforms to it and to none of the siblings -/
def qualFlag (rec : Rec) (path : List PathEntry) (other : Shape) (siblings : List Shape) (v : Term) : Except Failure Bool :=
  match rec other v path with
  | .error e => .error e
  | .ok (conf, _) =>
    if !conf then .ok false else
    (match evalMembers rec path siblings v with
      | .error e => .error e
      | .ok cs => .ok (!cs.any id))

/-- the counting step of sh:qualifiedValueShape for one value shape: per focus node the number of value nodes
    that conform to `other` and to none of the sibling shapes, against the two bounds -/
def qualifiedOver (rec : Rec) (s : Shape) (k : CKind) (path : List PathEntry) (fv : FV) (other : Shape)
    (siblings : List Shape) (minC maxC : Option Int) : Out :=
  foldOut fv fun (f, vs) =>
    match mapE (qualFlag rec path other siblings) vs with
    | .error e => .error e
    | .ok flags =>
      let n : Int := (flags.filter id).length
      let r1 := match maxC with
        | some m => if n > m then [mkResult s k f none (component := some shQualifiedMaxCountCC)] else []
        | none => []
      let r2 := match minC with
        | some m => if n < m then [mkResult s k f none (component := some shQualifiedMinCountCC)] else []
        | none => []
      ofResults (r1 ++ r2)

def resolveMembers (c : Env) (nodes : List Term) : Except Failure (List Shape) :=
  mapE (fun n => match lookupShape c.shapes n with
    | some s => .ok s
    | none => .error (.runtime "")) nodes

/-- evaluation of one constraint component of shape `s`;  `path` already ends with
    `[shape s, constr k s]` -/
def evalConstraint (c : Env) (rec : Rec) (s : Shape) (k : CKind) (fv : FV) (path : List PathEntry) : Out :=
  let sg := c.sg
  let dg := c.dg
  let objs := fun p => sg.objects s.node p
  match k with
  | .cls => ofResults (evalClass s dg fv (objs (sh "class")))
  | .datatype =>
    match dedup (objs (sh "datatype")) with
    | [r] => ofResults (evalDatatype s fv r)
    | _ => .error .constraintLoad
  | .nodeKind =>
    match dedup (objs (sh "nodeKind")) with
    | [r] => ofResults (evalNodeKind s fv r)
    | _ => .error .constraintLoad
  | .minCount =>
    if !s.isProp then .error .constraintLoad else
    match dedup (objs (sh "minCount")) with
    | [.lit l] =>
      if l.dt ≠ xsd "integer" then .error .constraintLoad else
      (match l.val with
        | .int n => if n < 0 then .error .constraintLoad else ofResults (evalMinCount s fv n)
        | _ => .error .constraintLoad)
    | _ => .error .constraintLoad
  | .maxCount =>
    if !s.isProp then .error .constraintLoad else
    match dedup (objs (sh "maxCount")) with
    | [.lit l] =>
      if l.dt ≠ xsd "integer" then .error .constraintLoad else
      (match l.val with
        | .int n => if n < 0 then .error .constraintLoad else ofResults (evalMaxCount s fv n)
        | _ => .error .constraintLoad)
    | _ => .error .constraintLoad
  | .minExclusive =>
    let bs := objs (sh "minExclusive")
    if bs.any (fun b => !b.isLit) then .error .constraintLoad else
    ofResults (evalRange s k fv bs (fun r => r > 0))
  | .minInclusive =>
    let bs := objs (sh "minInclusive")
    if bs.any (fun b => !b.isLit) then .error .constraintLoad else
    ofResults (evalRange s k fv bs (fun r => r ≥ 0))
  | .maxExclusive =>
    let bs := objs (sh "maxExclusive")
    if bs.any (fun b => !b.isLit) then .error .constraintLoad else
    ofResults (evalRange s k fv bs (fun r => r < 0))
  | .maxInclusive =>
    let bs := objs (sh "maxInclusive")
    if bs.any (fun b => !b.isLit) then .error .constraintLoad else
    ofResults (evalRange s k fv bs (fun r => r ≤ 0))
  | .minLength =>
    match objs (sh "minLength") with
    | [t] => (match natParam t with
      | .error e => .error e
      | .ok n => ofResults (evalMinLength s fv [n]))
    | _ => .error .constraintLoad
  | .maxLength =>
    match objs (sh "maxLength") with
    | [t] => (match natParam t with
      | .error e => .error e
      | .ok n => ofResults (evalMaxLength s fv [n]))
    | _ => .error .constraintLoad
  | .pattern =>
    let ps := objs (sh "pattern")
    if ps.any (fun p => match p with | .lit l => !isStrVal l | _ => true) then .error .constraintLoad else
    if (match (dedup (objs shFlags)).head? with | some (.lit _) => false | some _ => true | none => false) then .error .constraintLoad else
    let flags := match (dedup (objs shFlags)).head? with
      | some (.lit l) => String.ofList (dedup ((lower l.lex).toList.filter (fun ch => ch = 'i' ∨ ch = 'm')))
      | _ => ""
    -- `re.compile` fails: the harness marks such a pattern in the regex table
    if ps.any (fun p => match p with | .lit l => c.rx l.lex flags regexInvalidMarker = some true | _ => false) then .error .constraintLoad else
    liftResults (evalPattern s fv c.rx ps flags)
  | .languageIn =>
    match dedup (objs (sh "languageIn")) with
    | [l] =>
      (match rdfListItems sg l with
        | none => .error (.runtime "")
        | some items =>
          if items.any (fun t => match t with | .lit x => !isStrVal x | _ => true) then .error (.runtime "")
          else ofResults (evalLanguageIn s fv (items.map valueNodeToString)))
    | _ => .error .constraintLoad
  | .uniqueLang =>
    if !s.isProp then .error .constraintLoad else
    match dedup (objs (sh "uniqueLang")) with
    | [t] => (match boolOfLit t with
      | some b => ofResults (evalUniqueLang s fv b)
      | none => .error .constraintLoad)
    | _ => .error .constraintLoad
  | .equals => ofResults (evalEquals s dg fv (dedup (objs (sh "equals"))))
  | .disjoint => ofResults (evalDisjoint s dg fv (dedup (objs (sh "disjoint"))))
  | .lessThan =>
    if !s.isProp then .error .constraintLoad else
    liftResults (evalLessThan s k dg fv (dedup (objs (sh "lessThan"))) (fun r => r < 0))
  | .lessThanOrEquals =>
    if !s.isProp then .error .constraintLoad else
    liftResults (evalLessThan s k dg fv (dedup (objs (sh "lessThanOrEquals"))) (fun r => r ≤ 0))
  | .hasValue => ofResults (evalHasValue s fv (dedup (objs (sh "hasValue"))))
  | .inC =>
    match dedup (objs (sh "in")) with
    | [l] => (match rdfListItems sg l with
      | none => .error (.raw "ValueError")
      | some items => ofResults (evalIn s fv items))
    | _ => .error .constraintLoad
  | .closed =>
    match dedup (objs shClosed) with
    | [.lit l] =>
      let ignored := (objs shIgnoredProperties).flatMap fun i => (rdfListItems sg i).getD []
      (match resolveMembers c (objs shProperty) with
        | .error e => if litTruthy l then .error e else .ok (true, [])
        | .ok pss =>
          if litTruthy l ∧ pss.any (fun p => !p.isProp) then .error (.runtime "") else
          ofResults (evalClosed s dg fv (litTruthy l) ignored (pss.filterMap (·.path))))
    | [_] => .error .constraintLoad
    | _ => .error .constraintLoad
  -- ── shape-based and logical components ─────────────────────────────────────────────
  | .not =>
    let trig := recursionTriggers path s.node k
    foldOut (objs shNot) fun n =>
      match lookupShape c.shapes n with
      | none => .error (.runtime "")
      | some ns =>
        if inTriggers trig ns.node then .ok (true, []) else
        logicalOver rec s k path fv [ns] (fun cs => cs.all id)
  | .and =>
    foldOut (objs shAnd) fun l =>
      match rdfListItems sg l with
      | none => .error (.raw "ValueError")
      | some [] => .error (.runtime "")
      | some items => (match resolveMembers c (dedup items) with
        | .error e => .error e
        | .ok ms => logicalOver rec s k path fv ms (fun cs => !cs.all id))
  | .or =>
    foldOut (objs shOr) fun l =>
      match rdfListItems sg l with
      | none => .error (.raw "ValueError")
      | some [] => .error (.runtime "")
      | some items => (match resolveMembers c (dedup items) with
        | .error e => .error e
        | .ok ms => logicalOver rec s k path fv ms (fun cs => !cs.any id))
  | .xone =>
    foldOut (objs shXone) fun l =>
      match rdfListItems sg l with
      | none => .error (.raw "ValueError")
      | some [] => .error (.runtime "")
      | some items => (match resolveMembers c items with
        | .error e => .error e
        | .ok ms => logicalOver rec s k path fv ms (fun cs => (cs.filter id).length ≠ 1))
  | .property =>
    if valueCount fv < 1 then .ok (true, []) else
    let trig := recursionTriggers path s.node k
    foldOut (objs shProperty) fun n =>
      match lookupShape c.shapes n with
      | none => .error (.runtime "")
      | some ps =>
        if inTriggers trig ps.node then .ok (true, []) else
        if !ps.isProp then .error (.runtime "") else
        propertyOver rec path fv ps
  | .node =>
    if valueCount fv < 1 then .ok (true, []) else
    let trig := recursionTriggers path s.node k
    foldOut (objs shNode) fun n =>
      match lookupShape c.shapes n with
      | none => .error (.runtime "")
      | some ns =>
        if inTriggers trig ns.node then .ok (true, []) else
        if ns.isProp then .error (.runtime "") else
        nodeOver rec s path fv ns
  | .qualified =>
    if !s.isProp then .ok (true, []) else    -- ConstraintLoadWarning: ignored on node shapes
    let valueShapes := dedup (objs shQualifiedValueShape)
    if valueShapes = [] then .error .constraintLoad else
    let cnt := fun (p : Term) => match dedup (objs p) with
      | [] => Except.ok (none : Option Int)
      | [t] => (match t with
        | .lit l => (match l.val with | .int n => .ok (some n) | .bool b => .ok (some (if b then 1 else 0))
                                      | _ => .error Failure.constraintLoad)
        | _ => .error Failure.constraintLoad)
      | _ => .error Failure.constraintLoad
    match cnt shQualifiedMinCount, cnt shQualifiedMaxCount with
    | .error e, _ => .error e
    | _, .error e => .error e
    | .ok minC, .ok maxC =>
    if minC.isNone ∧ maxC.isNone then .error .constraintLoad else
    let isDisjoint := (objs shQualifiedValueShapesDisjoint).any fun d => boolOfLit d = some true
    if !isDisjoint && decide (valueCount fv < 1) && (match minC with | none => true | some m => decide (m < 1)) then .ok (true, []) else
    let trig := recursionTriggers path s.node k
    foldOut valueShapes fun vsNode =>
      match lookupShape c.shapes vsNode with
      | none => if inTriggers trig vsNode then .ok (true, []) else .error (.runtime "")
      | some other =>
        if inTriggers trig other.node then .ok (true, []) else
        let siblingNodes : List Term :=
          if isDisjoint then
            dedup ((dedup (sg.subjects shProperty s.node)).flatMap fun parent =>
              (dedup (sg.objects parent shProperty)).flatMap fun ps =>
                (dedup (sg.objects ps shQualifiedValueShape)).filter (· ≠ vsNode))
          else []
        let siblings := siblingNodes.filterMap (lookupShape c.shapes)
        if siblings.length ≠ siblingNodes.length then .error (.raw "AttributeError") else
        qualifiedOver rec s k path fv other siblings minC maxC
  | .sparql =>
    foldOut (dedup (objs shSparql)) fun cn =>
      match dedup (sg.objects cn shSelect) with
      | [.lit sel] =>
        if !isStrVal sel then .error .constraintLoad else
        let msgs := dedup (sg.objects cn shMessage)
        if (match msgs.head? with | some (.lit m) => !isStrVal m | some _ => true | none => false) then .error .constraintLoad else
        let deact := match (dedup (sg.objects cn shDeactivated)).head? with
          | some (.lit d) => (match d.val with | .bool b => some b | _ => none)
          | some _ => none
          | none => some false
        (match deact with
          | none => .error .constraintLoad
          | some true => .ok (true, [])
          | some false =>
            foldOut fv fun (f, _) =>
              match c.sqInfo cn with
              | none => .error (.raw "sparql-template-miss")
              | some t =>
                if checkInvalid t ["this", "shapesGraph", "currentShape"] then .error .validationFailure else
                if t.usesPath ∧ !s.isProp then .error (.runtime "") else
                if t.usesShapesGraph then .error .notImplemented else
                match c.sq cn f with
                | none => .error (.raw "sparql-table-miss")
                | some sols => ofResults (sparqlResults s cn msgs f sols))
      | _ => .error .constraintLoad
  | .expression =>
    liftResults (evalExpression c.sg c.dg c.fns c.adv s fv)

/-- one applicable SPARQL-based constraint component on shape `s` (`make_validator_for_shape` + `evaluate`) -/
def evalComponent (c : Env) (s : Shape) (comp : Component) (fv : FV) : Out :=
  match chooseValidator c.sg comp s.isProp with
  | .error e => .error e
  | .ok (v, kind) =>
    let valMsgs := dedup (c.sg.objects v shMessage)
    if valMsgs.any (fun m => match m with | .lit l => !isStrVal l | _ => true) then .error .constraintLoad else
    let paramMap : List (String × Term) := comp.params.filterMap fun p =>
      (dedup (c.sg.objects s.node p.path)).head?.map fun x => (p.name, x)
    if comp.params.any (fun p => p.name ∈ ["this", "shapesGraph", "currentShape", "path", "PATH", "value"]) then .error (.runtime "") else
    foldOut fv fun (f, vs) =>
      if kind = .ask ∧ vs = [] then .ok (true, []) else
      match c.sqInfo v with
      | none => .error (.raw "sparql-template-miss")
      | some t =>
        if checkInvalid t (["this", "shapesGraph", "currentShape"] ++ (if kind = .ask then ["value"] else []) ++ paramMap.map (·.1)) then .error .validationFailure else
        if t.usesPath ∧ !s.isProp then .error (.runtime "") else
        if t.usesShapesGraph then .error .notImplemented else
        match componentResults s comp kind valMsgs paramMap f vs (c.va v s.node f) with
        | .error e => .error e
        | .ok rs => ofResults rs

/-- components of a shape in the order their parameters are met, each once -/
def shapeComponents (sg : Graph) (node : Term) (advanced : Bool) : List CKind :=
  let ks := (sg.predicateObjects node).filterMap fun (p, _) =>
    match paramKind p with
    | some k => some k
    | none => if advanced ∧ p = sh "expression" then some CKind.expression else none
  (dedup ks.reverse).reverse

/-- `Shape.value_nodes` (in-memory mode) -/
def valueNodes (c : Env) (s : Shape) (foci : List Term) : Except Failure FV :=
  if !s.isProp then .ok (foci.map fun f => (f, [f])) else
  match s.path with
  | none => .error (.raw "RuntimeError")
  | some pn =>
    let p := decodePath c.sg pathDecodeFuel pn
    mapE (fun f => match Path.eval Caps.pathDepth p false 0 c.dg f with
      | .ok vs => .ok (f, dedup vs)
      | .error e => .error (Failure.ofPathErr e)) foci

/-- focus resolution of `Shape.validate`: the explicit focus, or the shape's own targets, then the
    `focus_nodes` option filter (only for shapes resolving their own targets).
    `none` ⇔ the call returns `(True, [])` at once. -/
def resolveFocus (c : Ctx) (s : Shape) (focus : Option (List Term)) (extra : List Term := []) : Option (List Term) :=
  let focusList := match focus with
    | some fs => fs
    | none => focusNodes c.sg c.dg s.node ++ extra
  if focusList = [] then none else
  match c.o.focusNodes with
  | some fns =>
    if focus.isNone ∧ fns ≠ [] then
      let filtered := focusList.filter fun f => f.isIri ∧ f ∈ fns
      if filtered = [] then none else some (dedup filtered)
    else some (dedup focusList)
  | none => some (dedup focusList)

/-- `Shape.validate` from the depth test on: value nodes, then the constraint loop -/
def validateCore (c : Ctx) (rec' : Rec) (s : Shape) (focusList : List Term)
    (path : Option (List PathEntry)) : Out :=
  let topLevel := path.isNone
  let path0 := path.getD []
  if !topLevel ∧ path0.length / Caps.depthDivisor ≥ c.o.maxDepth then .error (.runtime "pathTooDeep") else
  match valueNodes c.toEnv s focusList with
  | .error e => .error e
  | .ok fv =>
    let path1 := path0 ++ [.shape s.node]
    let comps := shapeComponents c.sg s.node c.o.advanced
    -- a nested evaluation does not stop early while severities are being waived
    let abort := c.o.abortOnFirst && (topLevel || !(c.o.allowInfos || c.o.allowWarnings))
    -- the constraint loop with the abort_on_first break
    match loopE abort (constraintFails c.o topLevel)
        (fun k => evalConstraint c.toEnv rec' s k fv (path1 ++ [.constr k s.node])) comps with
    | .error e => .error e
    | .ok (nonConf, rs) =>
      -- `find_custom_constraints()` is called even when the loop above stopped early
      match c.components with
      | .error e => .error e
      | .ok allComps =>
        if nonConf && abort then .ok (!nonConf, rs) else
        match loopE abort (constraintFails c.o topLevel)
            (fun comp => evalComponent c.toEnv s comp fv) (applicableComponents c.sg allComps s.node) with
        | .error e => .error e
        | .ok (nonConf2, rs2) => .ok (!(nonConf || nonConf2), rs ++ rs2)

/-- the body of `Shape.validate(executor, g, focus, _evaluation_path)`; `rec'` performs the nested
    `other_shape.validate(...)` calls.  `path = none` ⇔ `_evaluation_path is None` (top-level call). -/
def validateBody (c : Ctx) (rec' : Rec) (s : Shape) (focus : Option (List Term))
    (path : Option (List PathEntry)) : Out :=
  if s.deactivated then .ok (true, []) else
  -- `Shape.focus_nodes` of an advanced shape adds the solutions of its custom targets
  match (if focus.isNone ∧ c.o.advanced then advancedFocus c.sg c.tts c.adv s.node else .ok []) with
  | .error e => .error e
  | .ok extra =>
  match resolveFocus c s focus extra with
  | none => .ok (true, [])
  | some focusList => validateCore c rec' s focusList path

/-- `Shape.validate`: `fuel` is `maxDepth + 1 − depth` (structural recursion = the code's own
    termination argument: the evaluation path grows by two entries per nesting level and the call
    fails once `len(path) // 2 >= max_validation_depth`). -/
def validateShape (c : Ctx) : Nat → Shape → Option (List Term) → Option (List PathEntry) → Out
  | 0, s, focus, path =>
    validateBody c (fun _ _ _ => .error (.runtime "pathTooDeep")) s focus path
  | f+1, s, focus, path =>
    validateBody c (fun s' v p' => validateShape c f s' (some [v]) (some p')) s focus path

/-- `Validator.run` after the data graph has been prepared: all shapes, with the abort break -/
def validateAll (c : Ctx) (shapes : List Shape) (focus : Option (List Term)) : Out :=
  match loopE c.o.abortOnFirst (fun conf _ => !conf)
      (fun s => validateShape c (c.o.maxDepth + 1) s focus none) shapes with
  | .error e => .error e
  | .ok (nonConf, rs) => .ok (!nonConf, rs)

/-- `validate()` on prepared graphs: shapes harvest, then `Validator.run`'s loop.
    `focus` / `useShapes` are the expanded `focus_nodes` / `use_shapes` options ([] = not given). -/
def runValidate (o : Opts) (sg dg : Graph) (rx : Regex) (focus useShapes : List Term)
    (sq : Term → Term → Option (List Sol) := fun _ _ => none) (sqInfo : Term → Option SparqlTemplate := fun _ => none)
    (va : Term → Term → Term → Term → Option ValidatorAnswer := fun _ _ _ _ => none) (adv : AdvTables := {}) : Out :=
  -- advanced mode: target types and functions are harvested (and checked) after the shapes, before anything runs
  let advE : Except Failure (List FnDecl × List Term) :=
    if o.advanced then
      match gatherTargetTypes sg, gatherFunctions sg with
      | .error e, _ => .error e
      | _, .error e => .error e
      | .ok tts, .ok fns => .ok (fns, tts)
    else .ok ([], [])
  if hasLoopingList sg then .error .shapeLoad else
  match useShapes with
  | [] =>
    match buildShapes sg with
    | .error e => .error e
    | .ok shapes =>
      let o' := { o with focusNodes := if focus = [] then none else some focus }
      match advE with
      | .error e => .error e
      | .ok (fns, tts) =>
      validateAll ⟨⟨sg, dg, shapes, rx, sq, sqInfo, findComponents sg, va, fns, tts, adv⟩, o'⟩ shapes none
  | _ =>
    match buildShapesFromList sg useShapes with
    | .error e => .error e
    | .ok shapes =>
      match mapE (fun u => match lookupShape shapes u with
          | some s => .ok s
          | none => .error (Failure.raw "KeyError")) useShapes with
      | .error e => .error e
      | .ok selected =>
        match advE with
        | .error e => .error e
        | .ok (fns, tts) =>
        if focus = [] then validateAll ⟨⟨sg, dg, shapes, rx, sq, sqInfo, findComponents sg, va, fns, tts, adv⟩, o⟩ selected none
        else validateAll ⟨⟨sg, dg, shapes, rx, sq, sqInfo, findComponents sg, va, fns, tts, adv⟩, o⟩ selected (some focus)

end Pyshacl
