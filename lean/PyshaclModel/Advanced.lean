/-
  Advanced.lean — SHACL-AF features switched on by `advanced=True`:
  * SPARQL functions: harvest (`gather_functions`), parameter order (`get_params_in_order`), the call protocol of
    `nodes_from_node_expression` / `SPARQLFunction.execute`
  * node expressions (`pyshacl/helper/expression_helper.py`)
  * custom targets: `Shape.advanced_target` + the advanced part of `Shape.focus_nodes`
  * `ExpressionConstraint`
  The SPARQL engine is opaque: the harness ships, for this case, the `?this` solutions of every target declaration and
  the result of every function call that can occur (declared query run directly through rdflib with the arguments bound).
-/
import PyshaclModel.Core
import PyshaclModel.SparqlGlue
import PyshaclModel.Generated.Caps
namespace Pyshacl

structure AdvTables where
  /-- `?this` solutions of the query of a target declaration (parameters of a target type pre-bound);
      `none` = the table has no entry (a correspondence failure, never a default) -/
  targets : Term → Option (List Sol) := fun _ => none
  /-- result of a function's declared query with these pre-bindings (parameter local name ↦ argument, sorted by
      name; which argument goes to which parameter is decided by the model, not by the table):
      `none` = no entry, `some none` = the query has no result -/
  fn : Term → List (String × Option Term) → Option (Option Term) := fun _ _ => none

/-! ### stable sorts (python's `sorted(key=…)`) -/

def insertBy {α} (key : α → Rat) (x : α) : List α → List α
  | [] => [x]
  | y :: ys => if key x ≤ key y then x :: y :: ys else y :: insertBy key x ys

def sortBy {α} (key : α → Rat) (l : List α) : List α := l.foldr (insertBy key) []

def insertByStr {α} (key : α → String) (x : α) : List α → List α
  | [] => [x]
  | y :: ys => if key x ≤ key y then x :: y :: ys else y :: insertByStr key x ys

def sortByStr {α} (key : α → String) (l : List α) : List α := l.foldr (insertByStr key) []

/-! ### functions -/

def shSPARQLFunction := sh "SPARQLFunction"
def shSHACLFunction := sh "SHACLFunction"
def shReturnType := sh "returnType"
def shOrder := sh "order"
def xsdBoolean : Term := .iri (xsdNs ++ "boolean")

structure FnParam where
  name : Option String        -- `localname`; `none` = the path has no local name (raises when used)
  optional : Bool
  order : Option Rat
  deriving Repr

structure FnDecl where
  node : Term
  params : List FnParam       -- in call order
  isAsk : Bool
  abstract : Bool := false    -- a sh:SHACLFunction without a query: `execute` raises NotImplementedError
  deriving Repr

/-- `SHACLParameter.__init__` as far as functions and target types use it -/
def mkFnParam (sg : Graph) (pn : Term) : Except Failure FnParam :=
  let paths := dedup (sg.objects pn shPath)
  if paths.length > 1 then .error .constraintLoad else
  let pathIri : String := match paths with | [.iri p] => p | [] => "http://" | _ => ""
  if (dedup (sg.objects pn (sh "nodeKind"))).length > 1 ∨ (dedup (sg.objects pn (sh "datatype"))).length > 1 then .error .constraintLoad else
  let orderE : Except Failure (Option Rat) := match dedup (sg.objects pn shOrder) with
    | [] => .ok none
    | [.lit l] => (match l.val with
      | .int z => .ok (some (mkRat z 1))
      | .dec n d => .ok (some (mkRat n d))
      | .bool b => .ok (some (if b then 1 else 0))
      | .dbl _ _ => .error (.raw "model:double-order-not-modelled")
      | _ => .error .constraintLoad)
    | _ => .error .constraintLoad
  let optE : Except Failure Bool := match dedup (sg.objects pn shOptional) with
    | [] => .ok false
    | [.lit l] => (match l.val with | .bool b => .ok b | _ => .error .constraintLoad)
    | _ => .error .constraintLoad
  match orderE, optE with
  | .error e, _ => .error e
  | _, .error e => .error e
  | .ok ord, .ok opt => .ok ⟨localName pathIri, opt, ord⟩

/-- `get_params_in_order`: by sh:order when every parameter has one, else by local name -/
def paramsInOrder (ps : List FnParam) : List FnParam :=
  if ps.all (·.order.isSome) then sortBy (fun p => p.order.getD 0) ps
  else sortByStr (fun p => p.name.getD "") ps

/-- `gather_functions`: SPARQL functions (typed so, or sh:SHACLFunction with a query) and query-less SHACLFunctions -/
def gatherFunctions (sg : Graph) : Except Failure (List FnDecl) :=
  let spq := dedup (sg.subjects rdfType shSPARQLFunction)
  let scl := (dedup (sg.subjects rdfType shSHACLFunction)).filter (· ∉ spq)
  let hasQuery := fun n => sg.objects n shSelect ≠ [] ∨ sg.objects n shAsk ≠ []
  let spqAll := spq ++ scl.filter hasQuery
  let sclRest := scl.filter fun n => !hasQuery n
  let common := fun (n : Term) => (mapE (mkFnParam sg) (dedup (sg.objects n shParameter))).bind fun ps =>
    if (dedup (sg.objects n shReturnType)).length > 1 then Except.error Failure.constraintLoad else .ok ps
  match mapE (fun n => (common n).bind fun ps =>
      let sels := dedup (sg.objects n shSelect)
      let asks := dedup (sg.objects n shAsk)
      if asks ≠ [] ∧ sels ≠ [] then Except.error Failure.constraintLoad else
      if asks = [] ∧ sels = [] then .error .constraintLoad else
      if sels.length > 1 ∨ asks.length > 1 then .error .constraintLoad else
      let badRt : Bool := match dedup (sg.objects n shReturnType) with | [t] => decide (t ≠ xsdBoolean) | _ => false
      if asks ≠ [] ∧ badRt then .error .constraintLoad else
      .ok (⟨n, paramsInOrder ps, asks ≠ [], false⟩ : FnDecl)) spqAll,
    mapE (fun n => (common n).map fun ps => (⟨n, paramsInOrder ps, false, true⟩ : FnDecl)) sclRest with
  | .error e, _ => .error e
  | _, .error e => .error e
  | .ok a, .ok b => .ok (a ++ b)

/-- all ways to pick one element of each list (`itertools.product`) -/
def product {α} : List (List α) → List (List α)
  | [] => [[]]
  | l :: ls => l.flatMap fun x => (product ls).map fun rest => x :: rest

/-- `init_bindings[p.localname] = args[i]` for the parameters in call order; canonical form: sorted by name -/
def namedArgs (fd : FnDecl) (args : List (Option Term)) : List (String × Option Term) :=
  sortByStr (·.1) ((fd.params.map fun p => p.name.getD "").zip args)

/-- `SPARQLFunction.execute(g, *args)` for every argument combination; results without a value are dropped -/
def callFunction (tbl : AdvTables) (fd : FnDecl) (combos : List (List (Option Term))) : Except Failure (List Term) :=
  (mapE (fun args =>
    if fd.abstract then Except.error Failure.notImplemented else
    if args.length ≠ fd.params.length then .error (.runtime "") else
    if (args.zip fd.params).any (fun (a, p) => a.isNone ∧ !p.optional) then .error (.runtime "") else
    if fd.params.any (·.name.isNone) then .error (.runtime "") else
    match tbl.fn fd.node (namedArgs fd args) with
    | none => .error (.raw "model:function-table-miss")
    | some r => .ok r) combos).map fun rs => dedup (rs.filterMap id)

/-- a call by position from a SPARQL expression (`execute_from_sparql`): `none` = unknown function / wrong arity / no entry -/
def callByPosition (fns : List FnDecl) (tbl : AdvTables) (fn : Term) (args : List (Option Term)) : Option (Option Term) :=
  match fns.find? (fun fd => fd.node = fn) with
  | none => none
  | some fd => if args.length ≠ fd.params.length then none else tbl.fn fd.node (namedArgs fd args)

/-! ### node expressions (`nodes_from_node_expression`) -/

def shThis := sh "this"
def shUnion := sh "union"
def shIntersection := sh "intersection"
def shFilterShape := sh "filterShape"
def shNodes := sh "nodes"
def shMessage' := sh "message"

/-- `fuel` bounds the nesting (the code has no bound for function-call nesting; a cyclic expression makes it
    raise RecursionError, here `.raw "RecursionError"`); `depth` is the code's `recurse_depth` -/
def evalExpr (sg dg : Graph) (fns : List FnDecl) (tbl : AdvTables) (focus : Term) : Nat → Nat → Term → Except Failure (List Term)
  | 0, _, _ => .error (.raw "RecursionError")
  | fuel+1, depth, e =>
    if e = shThis then .ok [focus] else
    match e with
    | .iri _ => .ok [e]
    | .lit _ => .ok [e]
    | .bnode _ =>
      let unions := dedup (sg.objects e shUnion)
      let inters := dedup (sg.objects e shIntersection)
      if unions ≠ [] ∧ inters ≠ [] then .error (.runtime "") else
      if depth > Caps.exprDepth ∧ (unions ≠ [] ∨ inters ≠ []) then .ok [] else
      match unions with
      | u :: _ =>
        (match rdfListItems sg u with
          | none => .error (.raw "ValueError")
          | some parts =>
            (mapE (fun p => evalExpr sg dg fns tbl focus fuel (depth + 1) p) parts).map fun ls => dedup ls.flatten)
      | [] =>
      match inters with
      | i :: _ =>
        -- the list of an intersection is read from the *data* graph by the code
        (match rdfListItems dg i with
          | none => .error (.raw "ValueError")
          | some parts =>
            (mapE (fun p => evalExpr sg dg fns tbl focus fuel (depth + 1) p) parts).map fun ls =>
              match ls with
              | [] => []
              | l :: rest => dedup (rest.foldl (fun acc x => acc.filter (· ∈ x)) l))
      | [] =>
      let paths := dedup (sg.objects e shPath)
      if paths ≠ [] then
        (mapE (fun pn => match Path.eval Caps.pathDepth (decodePath sg pathDecodeFuel pn) false 0 dg focus with
            | .ok vs => .ok vs
            | .error err => .error (Failure.ofPathErr err)) paths).map fun ls => dedup ls.flatten
      else if sg.objects e shFilterShape ≠ [] then .error (.raw "model:filterShape-not-modelled") else
      -- a function expression: `[ ex:fn ( arg … ) ]`
      let pairs := dedup ((sg.predicateObjects e).filter fun (k, v) => k ≠ shMessage' ∧ !v.isLit ∧ sg.objects v rdfFirst ≠ [])
      match pairs with
      | [] => .error (.raw "StopIteration")
      | (fnIri, argList) :: _ =>
        match fns.find? (fun fd => fd.node = fnIri) with
        | none => .error (.runtime "")
        | some fd =>
          match rdfListItems sg argList with
          | none => .error (.raw "ValueError")
          | some parts =>
            match mapE (fun p => evalExpr sg dg fns tbl focus fuel (depth + 1) p) parts with
            | .error err => .error err
            | .ok argSets =>
              if argSets.length > fd.params.length then .error (.runtime "") else
              if (argSets.zip fd.params).any (fun (a, p) => a = [] ∧ !p.optional) then .ok [] else
              callFunction tbl fd (product (argSets.map fun a => if a = [] then [none] else a.map some))

/-! ### custom targets -/

def shTarget := sh "target"
def shSPARQLTarget := sh "SPARQLTarget"
def shSPARQLTargetType := sh "SPARQLTargetType"
def shTargetClassT := sh "Target"
def shJSTarget := sh "JSTarget"
def shJsFunctionName := sh "jsFunctionName"

/-- the registered SPARQL target types (`gather_target_types`), with their load-time checks -/
def gatherTargetTypes (sg : Graph) : Except Failure (List Term) :=
  let subs := (dedup (sg.subjects rdfsSubClassOf shTargetClassT)).filter fun t => t ≠ shJSTarget ∧ t ≠ shSPARQLTarget
  let typed := subs.filter fun s => shSPARQLTargetType ∈ sg.objects s rdfType
  (mapE (fun s =>
    (mapE (mkFnParam sg) (dedup (sg.objects s shParameter))).bind fun _ =>
      if (dedup (sg.objects s (sh "labelTemplate"))).length > 1 then Except.error Failure.constraintLoad else
      if (dedup (sg.objects s shSelect)).length ≠ 1 then .error .constraintLoad else .ok s) typed)

/-- the `?this` values of the solutions of a target declaration's query -/
def targetSolutions (tbl : AdvTables) (c : Term) : Except Failure (List Term) :=
  match tbl.targets c with
  | none => .error (.raw "model:target-table-miss")
  | some sols => mapE (fun (s : Sol) => match s.get "this" with
      | some t => .ok t
      | none => .error (Failure.raw "KeyError")) sols

/-- `Shape.advanced_target` for one declaration: which kind of target it is, and the binding of a target type's parameters -/
def declCheck (sg : Graph) (tts : List Term) (c : Term) : Except Failure Unit :=
  let selects := dedup (sg.objects c shSelect)
  let types := dedup (sg.objects c rdfType)
  if selects ≠ [] ∨ shSPARQLTarget ∈ types then
    (if selects = [] then .error (.raw "IndexError") else .ok ())
  else if sg.objects c shJsFunctionName ≠ [] ∨ shJSTarget ∈ types then .error (.raw "KeyError")
  else
    match types.find? (· ∈ tts) with
    | none => .error .shapeLoad
    | some tt =>
      -- `bind_params`: every mandatory parameter of the type needs a value on the declaration
      match mapE (mkFnParam sg) (dedup (sg.objects tt shParameter)) with
      | .error e => .error e
      | .ok _ =>
        let missing := (dedup (sg.objects tt shParameter)).any fun pn =>
          match dedup (sg.objects pn shPath), dedup (sg.objects pn shOptional) with
          | [pth], [] => sg.objects c pth = []
          | [pth], [.lit l] => (match l.val with | .bool true => false | _ => sg.objects c pth = [])
          | _, _ => false
        if missing then .error (.runtime "") else .ok ()

/-- the extra focus nodes of an advanced shape: the `?this` values of its target declarations
    (`advanced_target()` inspects every declaration first, `focus_nodes()` then runs the queries) -/
def advancedFocus (sg : Graph) (tts : List Term) (tbl : AdvTables) (shape : Term) : Except Failure (List Term) :=
  let decls := dedup (sg.objects shape shTarget)
  match mapE (declCheck sg tts) decls with
  | .error e => .error e
  | .ok _ => (mapE (targetSolutions tbl) decls).map fun ls => dedup ls.flatten

/-! ### `ExpressionConstraint` -/

def shExpression := sh "expression"
def trueLit : Term := .lit { lex := "true", dt := xsdNs ++ "boolean", lang := "", val := .bool true }

def isTrueLit : Term → Bool
  | .lit l => l.lex = "true" ∧ l.dt = xsdNs ++ "boolean" ∧ l.lang = ""
  | _ => false

def evalExpression (sg dg : Graph) (fns : List FnDecl) (tbl : AdvTables) (s : Shape) (fv : FV) : Except Failure (List Result) :=
  let exprs := dedup (sg.objects s.node shExpression)
  if exprs = [] then .error .constraintLoad else
  (mapE (fun ex =>
    let msgs := (dedup (sg.objects ex shMessage')).take 1
    (mapE (fun ((f, vs) : Term × List Term) =>
      (mapE (fun v => (evalExpr sg dg fns tbl v 24 0 ex).map fun ns =>
        match ns with
        | [n] => if isTrueLit n then [] else [mkResult s .expression f (some v) (source := some ex) (messages := some (resultMessages s.messages msgs none))]
        | _ => [mkResult s .expression f (some v) (source := some ex) (messages := some (resultMessages s.messages msgs none))]) vs).map List.flatten) fv).map List.flatten) exprs).map List.flatten

end Pyshacl
