/-
  Load.lean — how `pyshacl.rdfutil.load_from_source` decides what a str / bytes source is (a file name, a URI or inline
  RDF text) and which format an undeclared source has (file extension, sniffed header).  The marker characters, the
  length thresholds, the extension table and the sniffed headers are regenerated from pyshacl/rdfutil/load.py on every
  run (`Generated/LoadTable.lean`).  POSIX behaviour (the Windows drive-letter tests are not modelled).
-/
import PyshaclModel.Generated.LoadTable
namespace Pyshacl.Load

inductive Kind where
  | stdin | fileUri | web | fileName | inline
  | raw (cls : String)
  deriving DecidableEq, Repr

def pfx (p : String) (l : List Char) : Bool := p.toList.isPrefixOf l

/-- `_short_text_is_rdf`: a short string that starts with no marker is RDF text when it has a line break, or has blanks
    and names no existing file -/
def shortTextIsRdf (fileExists : List Char → Bool) (s : List Char) : Bool :=
  if '\n' ∈ s ∨ '\r' ∈ s then true
  else if ' ' ∈ s ∨ '\t' ∈ s then !fileExists s
  else false

def isMarker (c : Char) : Bool := LoadTable.markers.any fun m => m.toList = [c]

/-- a `str` source -/
def classifyStr (fileExists : List Char → Bool) (s : List Char) : Kind :=
  if pfx "file:" s then .fileUri
  else if pfx "http:" s ∨ pfx "https:" s then .web
  else
    match s with
    | [] => .raw "IndexError"
    | c :: _ =>
      if c = '/' ∨ (s.length > 2 ∧ pfx "./" s) then (if s = "/dev/stdin".toList then .stdin else .fileName)
      else if isMarker c then .inline
      else if s.length ≥ LoadTable.newlineWindow ∧ '\n' ∈ s.take LoadTable.newlineWindow then .inline
      else if s.length < LoadTable.shortLimit ∧ !shortTextIsRdf fileExists s then .fileName
      else .inline

/-- a `bytes` source (`len` = number of bytes of the UTF-8 text) -/
def classifyBytes (fileExists : List Char → Bool) (s : List Char) (byteLen : Nat) : Kind :=
  if pfx "file:" s ∨ pfx "http:" s ∨ pfx "https:" s then .raw "ValueError"
  else
    match s with
    | [] => .fileName      -- `b''[0:1]` is empty, `len(b'') < 140`: opened as the file ''
    | c :: _ =>
      if isMarker c then .inline
      else if byteLen < LoadTable.shortLimit ∧ !shortTextIsRdf fileExists s then .fileName
      else .inline

inductive Sniff where
  | xml | turtle | html | unknown
  deriving DecidableEq, Repr

def lowerAscii (c : Char) : Char := if 'A' ≤ c ∧ c ≤ 'Z' then Char.ofNat (c.toNat + 32) else c

/-- format sniffing on the first non-blank line (already left-stripped): its first `sniffLength` characters, lower-cased,
    are compared with the headers exactly as they are written in the source -/
def sniff (line : List Char) : Sniff :=
  let l := (line.take LoadTable.sniffLength).map lowerAscii
  if pfx "<!doctype html" l ∨ pfx "<html" l then .html
  else if LoadTable.turtleHeaders.any (fun h => pfx h l) then .turtle
  else if LoadTable.xmlHeaders.any (fun h => pfx h l) then .xml
  else .unknown

/-- the format a file name announces: the first suffix of the table that matches -/
def extFormat (name : List Char) : Option String :=
  (LoadTable.extensions.find? fun e => e.1.toList.isSuffixOf name).map (·.2)

end Pyshacl.Load
