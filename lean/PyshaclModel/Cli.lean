/-
  Cli.lean — the outcome channels of `pyshacl.cli.main`: which exit status a run ends with.
  The `except` chain, the early exits and the final exit are regenerated from pyshacl/cli.py on every run
  (`Generated/CliTable.lean`), the exception hierarchy from pyshacl/errors.py (`Generated/Errors.lean`).
  Python's built-in exception hierarchy (the part that matters here) is a fixed table, part of the trusted base.
-/
import PyshaclModel.Generated.CliTable
import PyshaclModel.Generated.Errors
namespace Pyshacl.Cli

/-- direct bases of the built-in (and third-party) exception classes the code can meet -/
def builtinBases : List (String × List String) := [
  ("BaseException", []), ("Exception", ["BaseException"]), ("RuntimeError", ["Exception"]),
  ("NotImplementedError", ["RuntimeError"]), ("RecursionError", ["RuntimeError"]),
  ("TypeError", ["Exception"]), ("ValueError", ["Exception"]), ("AssertionError", ["Exception"]),
  ("AttributeError", ["Exception"]), ("LookupError", ["Exception"]), ("KeyError", ["LookupError"]),
  ("IndexError", ["LookupError"]), ("StopIteration", ["Exception"]), ("ArithmeticError", ["Exception"]),
  ("InvalidOperation", ["ArithmeticError"]), ("OSError", ["Exception"]), ("FileNotFoundError", ["OSError"]),
  ("PermissionError", ["OSError"]), ("UnicodeDecodeError", ["ValueError"]), ("SyntaxError", ["Exception"]),
  ("BadSyntax", ["SyntaxError"]), ("ParserError", ["Exception"]), ("ParseException", ["Exception"]),
  ("SAXParseException", ["Exception"]), ("JSONDecodeError", ["ValueError"]), ("PluginException", ["Exception"]),
  ("error", ["Exception"]), ("RuntimeWarning", ["Exception"]), ("KeyboardInterrupt", ["BaseException"]),
  ("SystemExit", ["BaseException"])]

def bases (c : String) : List String :=
  match (Errors.hierarchy ++ builtinBases).find? (·.1 = c) with
  | some r => r.2
  | none => ["Exception"]     -- an unknown class is assumed to derive from Exception

/-- `issubclass(c, b)`; fuel bounds the depth of the hierarchy -/
def isSubclass : Nat → String → String → Bool
  | 0, c, b => c = b
  | n+1, c, b => c = b || (bases c).any fun x => isSubclass n x b

/-- what a run of `validate()` inside the CLI can end with -/
inductive Outcome where
  | report (conforms : Bool)        -- a report graph / text was produced and written
  | failure                         -- a ValidationFailure came back in-band and is re-raised
  | raised (cls : String)           -- an exception of class `cls` propagated out of validate()
  deriving DecidableEq, Repr

/-- the first matching `except` clause; `none`: the exception is not caught (python then exits with 1) -/
def handlerFor (cls : String) : Option Int :=
  (CliTable.handlers.find? fun h => isSubclass 8 cls h.1).map (·.2)

def exitStatus : Outcome → Int
  | .report true => CliTable.finalExit.1
  | .report false => CliTable.finalExit.2
  | .failure => (handlerFor "ValidationFailure").getD 1
  | .raised cls => (handlerFor cls).getD 1

end Pyshacl.Cli
