/-
  Mixin.lean — multi-graph inputs and ontology mix-in.

  * `Dataset` / `unionView`: pySHACL sets `default_union = True` on every Dataset / ConjunctiveGraph it
    validates, so all searches see the union of the default and the named graphs.
  * `inoculate`: which axioms of the ontology graph are copied into the (copy of the) data graph
    (mirror of `pyshacl.rdfutil.inoculate.inoculate` for ontologies without blank nodes; blank-node
    descriptions and owl:NamedIndividual deep copies are compared on the real code only).
-/
import PyshaclModel.Rdf
import PyshaclModel.Generated.Axioms
namespace Pyshacl

structure Dataset where
  default : Graph
  named : List (Term × Graph)

def Dataset.unionView (d : Dataset) : Graph := d.default ++ d.named.flatMap (·.2)

def owlNamedIndividual : Term := .iri "http://www.w3.org/2002/07/owl#NamedIndividual"

def axiomClasses : List Term := (Axioms.rdfsClasses ++ Axioms.owlClasses).map Term.iri
def axiomProperties : List Term := (Axioms.rdfsProperties ++ Axioms.owlProperties).map Term.iri

/-- the triples `inoculate(data, ont)` adds to the data graph (IRI / literal terms only) -/
def inoculated (ont : Graph) : Graph :=
  let typeTriples := ont.filter fun t => t.p = rdfType ∧ t.o ∈ axiomClasses
  let propTriples := ont.filter fun t => t.p ∈ axiomProperties
  -- owl:NamedIndividual: the whole node is copied, and every triple pointing to it
  let individuals := (ont.filter fun t => t.p = rdfType ∧ t.o = owlNamedIndividual).map (·.s)
  let indivOut := ont.filter fun t => t.s ∈ individuals
  let indivIn := ont.filter fun t => t.o ∈ individuals ∧ t.p.isIri
  typeTriples ++ propTriples ++ indivOut ++ indivIn

def inoculate (data ont : Graph) : Graph := data ++ inoculated ont

end Pyshacl
