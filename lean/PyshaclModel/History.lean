/-
  History.lean — the process-global state pySHACL touches, as a state machine over public calls
  (mirror of `validate()` / `shacl_rules()` in entrypoints.py, `Validator.run`, `RuleExpandRunner.run`):

    rdflib.NORMALIZE_LITERALS, the xsd:boolean parser          (rdflib_bool_patch / unpatch)
    rdflib's registry of custom SPARQL functions                 (SPARQLFunction.apply / unapply)
    the blank-node text cache and the SPARQL validator cache     (keyed by id(graph); reset per call)

  A call may fail at any pipeline stage.  `Obs` is everything the call can observe of that state; if it
  equals what a fresh process observes, the call's result is a function of its arguments only.
-/
namespace Pyshacl.History

inductive Stage where
  | metaShacl | loadData | loadOnt | loadShapes | buildShapes
  | applyFunctions (k : Nat)     -- fails after registering the first k functions
  | rules | validate
  deriving DecidableEq, Repr

structure GState where
  normalize : Bool := true
  boolPatched : Bool := false
  customFns : List String := []
  bnodeText : List String := []
  validators : List String := []
  deriving DecidableEq, Repr

structure Call where
  shapesGiven : Bool
  ontGiven : Bool
  advanced : Bool                  -- advanced=True, or the call is shacl_rules()
  functions : List String          -- SPARQL functions declared by the shapes graph
  textKeys : List String           -- cache entries the call creates / would look up
  validatorKeys : List String
  failAt : Option Stage
  deriving DecidableEq, Repr

structure Obs where
  normalizeAtLoad : Bool           -- rdflib.NORMALIZE_LITERALS while data / ontology are parsed
  boolPatchedAtLoad : Bool
  foreignFns : List String         -- registered custom functions that are not this call's own
  cacheHits : List String          -- cache entries served that this call did not create
  deriving DecidableEq, Repr

def register (fns : List String) (f : String) : List String := if f ∈ fns then fns else fns ++ [f]
def unregisterAll (fns own : List String) : List String := fns.filter (· ∉ own)

/-- the functions `apply_functions` gets to register before the call fails (all of them unless it fails there) -/
def regPrefix (c : Call) (own : List String) : List String :=
  match c.failAt with
  | some (.applyFunctions k) => own.take k
  | _ => own

/-- the validation stage is reached (it is what fills the two caches) -/
def fillsCaches (c : Call) : Bool :=
  match c.failAt with
  | some (.applyFunctions _) => false
  | some .rules => false
  | _ => true

/-- one public call: new global state and what the call observed -/
def step (s : GState) (c : Call) : GState × Obs :=
  -- `_reset_per_call_caches()`
  let s0 := { s with bnodeText := [], validators := [] }
  let obsLoad : Obs := ⟨s0.normalize, s0.boolPatched, [], []⟩
  if c.failAt = some .metaShacl ∨ c.failAt = some .loadData ∨ (c.ontGiven ∧ c.failAt = some .loadOnt) then (s0, obsLoad) else
  -- shapes graph: patch … try: load … finally: unpatch
  if c.shapesGiven ∧ c.failAt = some .loadShapes then ({ s0 with normalize := true, boolPatched := false }, obsLoad) else
  let s1 := if c.shapesGiven then { s0 with normalize := true, boolPatched := false } else s0
  if c.failAt = some .buildShapes then (s1, obsLoad) else
  -- try: apply_functions; apply_rules; validate   finally: unapply_functions
  let own := if c.advanced then c.functions else []
  let foreign := s1.customFns.filter (· ∉ own)
  let hits := (c.textKeys.filter (· ∈ s1.bnodeText)) ++ (c.validatorKeys.filter (· ∈ s1.validators))
  let obs : Obs := ⟨s0.normalize, s0.boolPatched, foreign, hits⟩
  let registered := (regPrefix c own).foldl register s1.customFns
  let fill := fillsCaches c
  ({ s1 with customFns := unregisterAll registered own,
             bnodeText := if fill then c.textKeys else [],
             validators := if fill then c.validatorKeys else [] }, obs)

def init : GState := {}

/-- the part of the global state a later call can observe is as in a fresh process -/
def Clean (s : GState) : Prop := s.normalize = true ∧ s.boolPatched = false ∧ s.customFns = []

def run (s : GState) (calls : List Call) : GState := calls.foldl (fun st c => (step st c).1) s

end Pyshacl.History
