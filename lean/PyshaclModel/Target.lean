/-
  Target.lean — focus nodes of a shape (mirror of `Shape.focus_nodes`, core targets).
  rdflib's `Graph.transitive_subjects(p, o)` is the worklist closure over `subjects(p, ·)` started
  at `o` (it yields `o` itself first).
-/
import PyshaclModel.Shapes
namespace Pyshacl

/-- `data_graph.transitive_subjects(rdfs:subClassOf, c)` -/
def transitiveSubjects (dg : Graph) (p c : Term) : List Term :=
  let step := fun u => dg.subjects p u
  closure step (closureFuel step (c :: dg.nodes) [c]) [c] []

/-- `implicit_class_targets`: the shape node itself when one of its types is rdfs:Class or a
    transitive rdfs:subClassOf of it in the shapes graph -/
def implicitClassTargets (sg : Graph) (node : Term) : List Term :=
  let types := sg.objects node rdfType
  let subclasses := transitiveSubjects sg rdfsSubClassOf rdfsClass
  if types.any (fun t => t ∈ subclasses) then [node] else []

/-- `data_graph.transitive_objects(c, rdfs:subClassOf)` -/
def transitiveObjects (dg : Graph) (c p : Term) : List Term :=
  let step := fun u => dg.objects u p
  closure step (closureFuel step (c :: dg.nodes) [c]) [c] []

/-- instances of class `c`: direct instances plus instances of every transitive subclass -/
def classInstances (dg : Graph) (c : Term) : List Term :=
  dg.subjects rdfType c ++
    ((transitiveSubjects dg rdfsSubClassOf c).filter (· ≠ c)).flatMap (fun sc => dg.subjects rdfType sc)

/-- `Shape.focus_nodes(data_graph)` without advanced targets; deduplicated like the python set -/
def focusNodes (sg dg : Graph) (node : Term) : List Term :=
  let targetNodes := sg.objects node shTargetNode
  let classes := dedup (sg.objects node shTargetClass ++ implicitClassTargets sg node)
  let inst := classes.flatMap (classInstances dg)
  let subjOf := (sg.objects node shTargetSubjectsOf).flatMap (fun p => dg.subjectsOfPred p)
  let objOf := (sg.objects node shTargetObjectsOf).flatMap (fun p => dg.objectsOfPred p)
  dedup (targetNodes ++ inst ++ subjOf ++ objOf)

end Pyshacl
