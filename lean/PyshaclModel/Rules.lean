/-
  Rules.lean — mirror of `pyshacl/rules/*` and of the node expressions of
  `pyshacl/helper/expression_helper.py` that triple rules use.

  * `gatherRules`  = `gather_rules` (+ the lazily evaluated `order`, `get_conditions`, `__init__` checks)
  * `applyRules`   = `apply_rules`: shapes by ascending sh:order, each shape's rules by ascending sh:order,
                     the per-shape loop with `RULES_ITERATE_LIMIT`
  * `applyTriple`  = `TripleRule.apply` with its rule-local loop, `applySparql` = `SPARQLRule.apply`
  * CONSTRUCT queries are not opaque here: the harness ships the parsed form of the template family
    `CONSTRUCT { head } WHERE { BGP [FILTER NOT EXISTS { BGP }] }` and the model evaluates it (`evalConstruct`),
    because the graph a rule sees changes while rules fire.  rdflib's SPARQL engine is the trusted part.
  Graphs are duplicate-free lists; all statements are on membership.
-/
import PyshaclModel.Eval
namespace Pyshacl

/-! ### the CONSTRUCT template family -/

inductive PTerm where
  | var (n : String)
  | const (t : Term)
  deriving DecidableEq, Repr, Inhabited

structure TPat where
  s : PTerm
  p : PTerm
  o : PTerm
  deriving DecidableEq, Repr, Inhabited

structure Construct where
  head : List TPat
  body : List TPat
  notExists : List TPat := []      -- FILTER NOT EXISTS { … } at the end of the group; [] = absent
  usesThis : Bool := true          -- the text mentions `$this` (the code pre-binds it only then)
  binds : List (String × Term × List PTerm) := []   -- `BIND (fn(args…) AS ?var)` after the BGP, fn a SHACL function
  deriving Repr, Inhabited

abbrev Binding := List (String × Term)

def Binding.get (b : Binding) (n : String) : Option Term := (b.find? (·.1 = n)).map (·.2)

def matchTerm (b : Binding) : PTerm → Term → Option Binding
  | .const c, t => if c = t then some b else none
  | .var n, t =>
    match Binding.get b n with
    | some x => if x = t then some b else none
    | none => some ((n, t) :: b)

def matchTriple (b : Binding) (pat : TPat) (t : Triple) : Option Binding :=
  (matchTerm b pat.s t.s).bind fun b1 => (matchTerm b1 pat.p t.p).bind fun b2 => matchTerm b2 pat.o t.o

/-- solutions of a basic graph pattern extending `b` -/
def matchBGP (g : Graph) : List TPat → Binding → List Binding
  | [], b => [b]
  | pat :: rest, b => (g.filterMap (matchTriple b pat)).flatMap (matchBGP g rest)

def instTerm (b : Binding) : PTerm → Option Term
  | .const c => some c
  | .var n => Binding.get b n

def instTriple (b : Binding) (pat : TPat) : Option Triple :=
  match instTerm b pat.s, instTerm b pat.p, instTerm b pat.o with
  | some s, some p, some o => some ⟨s, p, o⟩
  | _, _, _ => none

/-- `BIND (fn(args) AS ?v)`: an unbound argument or a call without result leaves `?v` unbound (the solution stays).
    A call the harness has no table entry for binds a sentinel term, which then shows up in the comparison. -/
def applyBinds (call : Term → List (Option Term) → Option (Option Term)) : List (String × Term × List PTerm) → Binding → Binding
  | [], b => b
  | (v, fn, args) :: rest, b =>
    let b' : Binding :=
      match mapE (fun a => match instTerm b a with | some t => Except.ok (some t) | none => Except.error ()) args with
      | .error _ => b
      | .ok vals =>
        match call fn vals with
        | none => (v, .iri "model:function-table-miss") :: b
        | some none => b
        | some (some r) => if (Binding.get b v).isSome then b else (v, r) :: b
    applyBinds call rest b'

/-- the graph a CONSTRUCT query returns (template instances with an unbound variable are dropped) -/
def evalConstruct (call : Term → List (Option Term) → Option (Option Term)) (g : Graph) (c : Construct) (init : Binding) : List Triple :=
  let sols := ((matchBGP g c.body init).map (applyBinds call c.binds)).filter fun b =>
    c.notExists = [] ∨ matchBGP g c.notExists b = []
  sols.flatMap fun b => c.head.filterMap (instTriple b)

/-! ### rules -/

inductive RuleKind where
  | triple (s p o : Term)
  | sparql (constructs : List Construct)
  deriving Repr, Inhabited

structure Rule where
  node : Term
  shape : Shape
  kind : RuleKind
  order : Rat                -- python's Decimal, an exact rational
  deactivated : Bool
  conds : List Shape
  deriving Repr, Inhabited

def shRule := sh "rule"
def shTripleRule := sh "TripleRule"
def shSPARQLRule := sh "SPARQLRule"
def shSubject := sh "subject"
def shPredicate := sh "predicate"
def shObject := sh "object"
def shConstruct := sh "construct"
def shCondition := sh "condition"

/-- `Decimal(order_node.value)` of a rule / `Shape.order` (doubles are outside the modelled inputs) -/
def orderKey (objs : List Term) (err : Failure) : Except Failure Rat :=
  match objs with
  | [] => .ok 0
  | [.lit l] =>
    (match l.val with
      | .int z => .ok (mkRat z 1)
      | .dec n d => .ok (mkRat n d)
      | .bool b => .ok (if b then 1 else 0)
      | .dbl _ _ => .error (.raw "model:double-order-not-modelled")
      | _ => .error (.raw "order-value"))
  | [_] => .error err
  | _ => .error err

/-- the condition shapes of a rule (`get_conditions`): a value of sh:condition is a shape or a list of shapes -/
def ruleConditions (sg : Graph) (shapes : List Shape) (r : Term) : Except Failure (List Shape) :=
  (mapE (fun c =>
    if sg.objects c rdfFirst ≠ [] then
      match rdfListItems sg c with
      | none => .error (Failure.raw "ValueError")
      | some items => mapE (fun i => match lookupShape shapes i with
          | some s => .ok s | none => .error Failure.ruleLoad) items
    else match lookupShape shapes c with
      | some s => .ok [s] | none => .error Failure.ruleLoad) (dedup (sg.objects r shCondition))).map List.flatten

def ruleDeactivated (sg : Graph) (r : Term) : Bool :=
  match sg.objects r shDeactivated with
  | [] => false
  | .lit l :: _ => litTruthy l
  | _ :: _ => true

/-- one `(shape, rule node)` pair of `gather_rules`; `constructs` is the parsed form of the rule's
    sh:construct texts as shipped by the harness -/
def mkRule (sg : Graph) (shapes : List Shape) (constructs : Term → List Construct)
    (tripleNodes sparqlNodes : List Term) (sub obj : Term) : Except Failure Rule :=
  match lookupShape shapes sub with
  | none => .error .ruleLoad
  | some shape =>
    let deact := ruleDeactivated sg obj
    match orderKey (dedup (sg.objects obj shOrder)) .ruleLoad, ruleConditions sg shapes obj with
    | .error e, _ => .error e
    | _, .error e => .error e
    | .ok ord, .ok conds =>
      if obj ∈ tripleNodes then
        match dedup (sg.objects obj shSubject), dedup (sg.objects obj shPredicate), dedup (sg.objects obj shObject) with
        | [s], [p], [o] => .ok ⟨obj, shape, .triple s p o, ord, deact, conds⟩
        | _, _, _ => .error (.raw "RuntimeError")
      else if obj ∈ sparqlNodes then
        let cs := dedup (sg.objects obj shConstruct)
        if cs = [] then .error .ruleLoad else
        if cs.any (fun c => match c with | .lit l => !isStrVal l | _ => true) then .error .ruleLoad else
        .ok ⟨obj, shape, .sparql (constructs obj), ord, deact, conds⟩
      else .error .ruleLoad

/-- `gather_rules`: rules grouped by owning shape, groups in order of first appearance -/
def gatherRules (sg : Graph) (shapes : List Shape) (constructs : Term → List Construct)
    (fromShapes : Option (List Term)) : Except Failure (List (Shape × List Rule)) :=
  let tripleNodes := dedup (sg.subjects rdfType shTripleRule)
  let sparqlNodes := dedup (sg.subjects rdfType shSPARQLRule)
  if tripleNodes.any (· ∈ sparqlNodes) then .error .ruleLoad else
  let used := (sg.filter (·.p = shRule)).map fun t => (t.s, t.o)
  let used := used.filter fun (s, _) => match fromShapes with | some l => s ∈ l | none => true
  match mapE (fun (s, o) => mkRule sg shapes constructs tripleNodes sparqlNodes s o) (dedup used) with
  | .error e => .error e
  | .ok rules =>
    let owners := dedup (rules.map (·.shape.node))
    .ok (owners.filterMap fun n => match lookupShape shapes n with
      | some s => some (s, rules.filter (·.shape.node = n))
      | none => none)

/-! ### applying rules -/

def addTriples (g : Graph) (ts : List Triple) : Graph :=
  ts.foldl (fun acc t => if t ∈ acc then acc else acc ++ [t]) g

structure RCtx where
  sg : Graph
  shapes : List Shape
  rx : Regex
  o : Opts                      -- the executor (advanced mode, focus_nodes, …)
  onFocus : Option (List Term)  -- `focus_nodes=` argument of `apply` (focus_nodes together with use_shapes)
  iterate : Bool
  fns : List FnDecl := []       -- the registered SPARQL functions and the opaque engine's answers for them
  adv : AdvTables := {}
  tts : List Term := []         -- the registered SPARQL target types

/-- the focus list of `apply`: explicit nodes, or the shape's targets (the shapes are in advanced mode: its custom
    targets included), then the executor's focus_nodes filter.  `.ok none` ⇔ the filter leaves nothing (`return 0`).
    The target-solution table is the one of the input graph (rules of the modelled cases do not touch what target
    queries read). -/
def ruleFocus (c : RCtx) (r : Rule) (g : Graph) : Except Failure (Option (List Term)) :=
  match (match c.onFocus with
    | some fs => Except.ok fs
    | none => (advancedFocus c.sg c.tts c.adv r.shape.node).map fun extra => focusNodes c.sg g r.shape.node ++ extra) with
  | .error e => .error e
  | .ok focusList =>
    match c.o.focusNodes with
    | some fns =>
      if fns ≠ [] then
        let filtered := focusList.filter fun f => f.isIri ∧ f ∈ fns
        if filtered = [] then .ok none else .ok (some filtered)
      else .ok (some focusList)
    | none => .ok (some focusList)

/-- `cond_shape.validate(executor, data_graph, focus=f, _evaluation_path=[])[0]` -/
def condHolds (c : RCtx) (g : Graph) (cond : Shape) (f : Term) : Except Failure Bool :=
  let ctx : Ctx := ⟨⟨c.sg, g, c.shapes, c.rx, fun _ _ => none, fun _ => none, findComponents c.sg, fun _ _ _ _ => none, c.fns, [], c.adv⟩, c.o⟩
  match validateShape ctx (c.o.maxDepth + 1) cond (some [f]) (some []) with
  | .error e => .error e
  | .ok (conf, _) => .ok conf

/-- `filter_conditions`: every condition of every focus node is evaluated (no short-circuit) -/
def applicable (c : RCtx) (r : Rule) (g : Graph) (foci : List Term) : Except Failure (List Term) :=
  (mapE (fun f => (mapE (fun cond => condHolds c g cond f) r.conds).map fun bs => (f, bs.all id)) foci).map
    fun l => (l.filter (·.2)).map (·.1)

/-- what a triple rule produces for one focus node on `g` -/
def tripleOutput (c : RCtx) (g : Graph) (s p o a : Term) : Except Failure (List Triple) :=
  match evalExpr c.sg g c.fns c.adv a 24 0 s, evalExpr c.sg g c.fns c.adv a 24 0 p, evalExpr c.sg g c.fns c.adv a 24 0 o with
  | .ok ss, .ok ps, .ok os => .ok (ss.flatMap fun x => ps.flatMap fun y => os.map fun z => ⟨x, y, z⟩)
  | .error e, _, _ => .error e
  | _, .error e, _ => .error e
  | _, _, .error e => .error e

/-- one round of a rule: outputs of all applicable nodes on the same graph; `(to_add, added)` -/
def roundOutputs (c : RCtx) (r : Rule) (g : Graph) (nodes : List Term) : Except Failure (List Triple × Nat) :=
  match r.kind with
  | .triple s p o =>
    (mapE (fun a => tripleOutput c g s p o a) nodes).map fun outs =>
      (outs.flatten, (outs.filter fun ts => ts.any (· ∉ g)).length)
  | .sparql cs =>
    -- only result graphs with at least one new triple are merged
    let outs := nodes.flatMap fun a => cs.map fun k => evalConstruct (callByPosition c.fns c.adv) g k (if k.usesThis then [("this", a)] else [])
    let fresh := outs.filter fun ts => ts.any (· ∉ g)
    .ok (fresh.flatten, fresh.length)

/-- the `while True` of `TripleRule.apply` / `SPARQLRule.apply`: the conditions are evaluated in every round,
    all outputs of a round are computed on the same graph and then added; the round is repeated while it adds
    something and `iter` holds (`iterate_rules` for a triple rule, never for a SPARQL rule) -/
def ruleLoop (c : RCtx) (r : Rule) (foci : List Term) (iter : Bool) : Nat → Graph → Nat → Except Failure (Graph × Nat)
  | 0, _, _ => .error (.runtime "iteration-limit")
  | n+1, g, all =>
    match applicable c r g foci with
    | .error e => .error e
    | .ok nodes =>
      match roundOutputs c r g nodes with
      | .error e => .error e
      | .ok (toAdd, added) =>
        if added > 0 then
          if iter then ruleLoop c r foci iter n (addTriples g toAdd) (all + added)
          else .ok (addTriples g toAdd, all + added)
        else .ok (g, all)

/-- `rule.apply(data_graph, focus_nodes=…)` → (graph, n_modified) -/
def applyRule (c : RCtx) (r : Rule) (g : Graph) : Except Failure (Graph × Nat) :=
  match ruleFocus c r g with
  | .error e => .error e
  | .ok none => .ok (g, 0)
  | .ok (some foci) =>
    match r.kind with
    | .triple _ _ _ => ruleLoop c r foci c.iterate Caps.tripleRuleIterateLimit g 0
    | .sparql _ => ruleLoop c r foci false Caps.sparqlRuleIterateLimit g 0

/-- one pass over the (sorted) rules of a shape: `for r in rules: if r.deactivated: continue; …` -/
def passRules (c : RCtx) : List Rule → Graph → Nat → Except Failure (Graph × Nat)
  | [], g, m => .ok (g, m)
  | r :: rs, g, m =>
    if r.deactivated then passRules c rs g m else
    match applyRule c r g with
    | .error e => .error e
    | .ok (g', n) => passRules c rs g' (m + n)

/-- the `while True` of `apply_rules` for one shape -/
def shapeLoop (c : RCtx) (rules : List Rule) : Nat → Graph → Except Failure Graph
  | 0, _ => .error (.runtime "iteration-limit")
  | n+1, g =>
    match passRules c rules g 0 with
    | .error e => .error e
    | .ok (g', m) => if m > 0 ∧ c.iterate then shapeLoop c rules n g' else .ok g'

def shapeOrderKey (sg : Graph) (s : Shape) : Except Failure Rat :=
  orderKey (dedup (sg.objects s.node shOrder)) .shapeLoad

/-- the `for shape, rules in sorted_shapes_rules` loop -/
def applyGroups (c : RCtx) : List (Rat × List Rule) → Graph → Except Failure Graph
  | [], g => .ok g
  | (_, rs) :: rest, g =>
    match shapeLoop c (sortBy (·.order) rs) Caps.rulesIterateLimit g with
    | .error e => .error e
    | .ok g' => applyGroups c rest g'

/-- `apply_rules` -/
def applyRules (c : RCtx) (groups : List (Shape × List Rule)) (g : Graph) : Except Failure Graph :=
  match mapE (fun (s, rs) => (shapeOrderKey c.sg s).map fun k => (k, rs)) groups with
  | .error e => .error e
  | .ok keyed => applyGroups c (sortBy (·.1) keyed) g

/-- the shape cache and, with `use_shapes`, the selected shapes -/
def rulesShapes (sg : Graph) (useShapes : List Term) : Except Failure (List Shape × Option (List Shape)) :=
  match useShapes with
  | [] => (buildShapes sg).map fun s => (s, none)
  | _ =>
    match buildShapesFromList sg useShapes with
    | .error e => .error e
    | .ok shapes =>
      (mapE (fun u => match lookupShape shapes u with
        | some s => .ok s
        | none => .error (Failure.raw "KeyError")) useShapes).map fun sel => (shapes, some sel)

/-- `RuleExpandRunner.run` / the advanced part of `Validator.run` on prepared graphs -/
def runRules (o : Opts) (iterate : Bool) (sg dg : Graph) (rx : Regex) (focus useShapes : List Term)
    (constructs : Term → List Construct) (adv : AdvTables := {}) : Except Failure Graph :=
  if hasLoopingList sg then .error .shapeLoad else
  match rulesShapes sg useShapes with
  | .error e => .error e
  | .ok (shapes, selected) =>
    let manual := selected.isSome
    let o' : Opts := { o with focusNodes := if focus = [] ∨ manual then none else some focus }
    let onFocus := if manual ∧ focus ≠ [] then some focus else none
    match gatherTargetTypes sg, gatherFunctions sg with
    | .error e, _ => .error e
    | _, .error e => .error e
    | .ok tts, .ok fns =>
    match gatherRules sg shapes constructs (selected.map fun l => l.map (·.node)) with
    | .error e => .error e
    | .ok groups => applyRules ⟨sg, shapes, rx, o', onFocus, iterate, fns, adv, tts⟩ groups dg

end Pyshacl
