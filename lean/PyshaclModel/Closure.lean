/-
  Closure.lean — the generic worklist closure used by every reachability loop of the code:
  `value_nodes_from_path` (zeroOrMore / oneOrMore), rdflib's `transitive_subjects`
  (sh:class, targetClass), `transitive_objects`.

      while work: x = work.pop(); if x in seen: continue; seen.add(x); work.update(step(x))
-/
namespace Pyshacl

variable {α : Type} [DecidableEq α]

def closure (step : α → List α) : Nat → List α → List α → List α
  | 0, _, seen => seen
  | _+1, [], seen => seen
  | n+1, x :: work, seen =>
    if x ∈ seen then closure step n work seen
    else closure step n (step x ++ work) (x :: seen)

/-- potential: unseen universe elements weighted by out-degree+1 -/
def pot (step : α → List α) (U seen : List α) : Nat :=
  ((U.filter (fun u => u ∉ seen)).map (fun u => (step u).length + 1)).sum

/-- fuel that is always sufficient for universe `U` (theorem `closure_closed`) -/
def closureFuel (step : α → List α) (U work : List α) : Nat :=
  pot step U [] + work.length + 1

/-- the same loop when `step` may raise -/
def closureE {ε} (step : α → Except ε (List α)) : Nat → List α → List α → Except ε (List α)
  | 0, _, seen => .ok seen
  | _+1, [], seen => .ok seen
  | n+1, x :: work, seen =>
    if x ∈ seen then closureE step n work seen
    else match step x with
      | .error e => .error e
      | .ok ys => closureE step n (ys ++ work) (x :: seen)

end Pyshacl
