/-
  SparqlGlue.lean — what pySHACL does around a SPARQL query of a sh:sparql constraint: de-duplication
  of the solutions, mapping a solution to a result, per-result message templating.
  The query engine is opaque: its solutions for a pre-bound focus node are a parameter of the model
  (shipped by the harness, obtained by running the same query directly through rdflib).
-/
import PyshaclModel.Core
namespace Pyshacl

/-- one solution of a SELECT query: the bound variables (sorted by name) -/
structure Sol where
  binds : List (String × Term)
  deriving DecidableEq, Repr, Inhabited

def Sol.get (s : Sol) (v : String) : Option Term := (s.binds.find? (·.1 = v)).map (·.2)
def Sol.others (s : Sol) : List (String × Term) :=
  s.binds.filter fun b => b.1 ≠ "this" ∧ b.1 ≠ "value" ∧ b.1 ≠ "path" ∧ b.1 ≠ "failure"

inductive Violation where
  | failure (vars : List (String × Term))
  | tpv (t p v : Option Term) (vars : List (String × Term))
  deriving DecidableEq, Repr

/-- `_validate_sparql_query`: distinct solutions; every `?failure` row collapses into one -/
def violationsOf : List Sol → List Violation → List Violation
  | [], acc => acc.reverse
  | s :: rest, acc =>
    match s.get "failure" with
    | some _ =>
      let vars := s.binds.filter (·.1 ≠ "failure")
      if acc.any (fun v => match v with | .failure _ => true | _ => false) then violationsOf rest acc
      else violationsOf rest (.failure vars :: acc)
    | none =>
      let t := s.get "this"; let p := s.get "path"; let v := s.get "value"
      if t.isNone ∧ p.isNone ∧ v.isNone then violationsOf rest acc
      else
        let vio := Violation.tpv t p v s.others
        if vio ∈ acc then violationsOf rest acc else violationsOf rest (vio :: acc)

/-- python `str()` of a term, as used when a message placeholder is filled in -/
def termText : Term → String
  | .iri s => s
  | .bnode s => s
  | .lit l => l.lex

/-- replace every `{$var}` / `{?var}` in `msg` -/
def substVar (msg var val : String) : String :=
  (msg.replace ("{$" ++ var ++ "}") val).replace ("{?" ++ var ++ "}") val

/-- `_format_sparql_based_result_message` -/
def formatMessage (msg : String) (fdict : List (String × Term)) : String :=
  fdict.foldl (fun m (b : String × Term) => substVar m b.1 (termText b.2)) msg

def plainLit (s : String) : Term := .lit { lex := s, dt := "", lang := "", val := .str }

def litText : Term → Option String
  | .lit l => some l.lex
  | _ => none

/-- the `sh:resultMessage`s of one result: the constraint's templates, then the shape's own messages,
    all filled in from this solution's bindings -/
def resultMessages (shapeMsgs extraMsgs : List Term) (fdict : Option (List (String × Term))) : List Term :=
  let fmt := fun (m : Term) => match litText m, fdict with
    | some txt, some d => plainLit (formatMessage txt d)
    | _, _ => m
  (extraMsgs.filter (· ∉ shapeMsgs)).map fmt ++ shapeMsgs.map fmt

/-- what the harness knows about a query it generated from the template family -/
structure SparqlTemplate where
  minus : Bool := false
  values : Bool := false
  service : Bool := false
  nested : Option (List String) := none     -- projection of a nested SELECT (`["*"]` for SELECT *)
  asVar : Option String := none             -- `(expr AS ?var)`
  usesPath : Bool := false
  usesShapesGraph : Bool := false
  deriving Repr, Inhabited

/-- `check_invalid_sparql` on the template family: what SHACL-SPARQL forbids -/
def checkInvalid (t : SparqlTemplate) (prebound : List String) : Bool :=
  t.minus || t.values || t.service ||
  (match t.nested with
    | some vars => vars = [] || vars = ["*"] || prebound.any (fun p => p ≠ "shapesGraph" ∧ p ≠ "currentShape" ∧ p ∉ vars)
    | none => false) ||
  (match t.asVar with
    | some v => v ∈ prebound
    | none => false)

def shSparql := sh "sparql"
def shSelect := sh "select"

/-- results of one sh:sparql constraint for one focus node, given the solutions of its query -/
def sparqlResults (s : Shape) (constraintNode : Term) (extraMsgs : List Term) (f : Term) (sols : List Sol) : List Result :=
  let resultVal := if s.isProp then none else some f
  (violationsOf sols []).map fun vio =>
    match vio with
    | .failure vars =>
      mkResult s .sparql f resultVal (source := some constraintNode)
        (messages := some (resultMessages s.messages extraMsgs (some vars)))
    | .tpv t p v vars =>
      let v' := match v with | some x => some x | none => resultVal
      let fdict := vars ++ (match t with | some x => [("this", x)] | none => []) ++
        (match p with | some x => [("path", x)] | none => []) ++ (match v' with | some x => [("value", x)] | none => [])
      mkResult s .sparql (t.getD f) v' (resultPath := p) (source := some constraintNode)
        (messages := some (resultMessages s.messages extraMsgs (some fdict)))

end Pyshacl
