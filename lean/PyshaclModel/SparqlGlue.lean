/-
  SparqlGlue.lean — what pySHACL does around a SPARQL query of a sh:sparql constraint: de-duplication
  of the solutions, mapping a solution to a result, per-result message templating.
  The query engine is opaque: its solutions for a pre-bound focus node are a parameter of the model
  (shipped by the harness, obtained by running the same query directly through rdflib).
-/
import PyshaclModel.Core
namespace Pyshacl

/-- one solution of a SELECT query: the bound variables (sorted by name) -/
structure Sol where
  binds : List (String × Term)
  deriving DecidableEq, Repr, Inhabited

def Sol.get (s : Sol) (v : String) : Option Term := (s.binds.find? (·.1 = v)).map (·.2)
def Sol.others (s : Sol) : List (String × Term) :=
  s.binds.filter fun b => b.1 ≠ "this" ∧ b.1 ≠ "value" ∧ b.1 ≠ "path" ∧ b.1 ≠ "failure"

inductive Violation where
  | failure (vars : List (String × Term))
  | tpv (t p v : Option Term) (vars : List (String × Term))
  deriving DecidableEq, Repr

/-- `_validate_sparql_query`: distinct solutions; every `?failure` row collapses into one -/
def violationsOf : List Sol → List Violation → List Violation
  | [], acc => acc.reverse
  | s :: rest, acc =>
    match s.get "failure" with
    | some _ =>
      let vars := s.binds.filter (·.1 ≠ "failure")
      if acc.any (fun v => match v with | .failure _ => true | _ => false) then violationsOf rest acc
      else violationsOf rest (.failure vars :: acc)
    | none =>
      let t := s.get "this"; let p := s.get "path"; let v := s.get "value"
      if t.isNone ∧ p.isNone ∧ v.isNone then violationsOf rest acc
      else
        let vio := Violation.tpv t p v s.others
        if vio ∈ acc then violationsOf rest acc else violationsOf rest (vio :: acc)

/-- python `str()` of a term, as used when a message placeholder is filled in -/
def termText : Term → String
  | .iri s => s
  | .bnode s => s
  | .lit l => l.lex

/-- replace every `{$var}` / `{?var}` in `msg` -/
def substVar (msg var val : String) : String :=
  (msg.replace ("{$" ++ var ++ "}") val).replace ("{?" ++ var ++ "}") val

/-- `_format_sparql_based_result_message` -/
def formatMessage (msg : String) (fdict : List (String × Term)) : String :=
  fdict.foldl (fun m (b : String × Term) => substVar m b.1 (termText b.2)) msg

def plainLit (s : String) : Term := .lit { lex := s, dt := "", lang := "", val := .str }

def litText : Term → Option String
  | .lit l => some l.lex
  | _ => none

/-- the `sh:resultMessage`s of one result: the constraint's templates, then the shape's own messages,
    all filled in from this solution's bindings -/
def resultMessages (shapeMsgs extraMsgs : List Term) (fdict : Option (List (String × Term))) : List Term :=
  let fmt := fun (m : Term) => match litText m, fdict with
    | some txt, some d => plainLit (formatMessage txt d)
    | _, _ => m
  (extraMsgs.filter (· ∉ shapeMsgs)).map fmt ++ shapeMsgs.map fmt

/-- what the harness knows about a query it generated from the template family -/
structure SparqlTemplate where
  minus : Bool := false
  values : Bool := false
  service : Bool := false
  nested : Option (List String) := none     -- projection of a nested SELECT (`["*"]` for SELECT *)
  asVar : Option String := none             -- `(expr AS ?var)`
  usesPath : Bool := false
  usesShapesGraph : Bool := false
  deriving Repr, Inhabited

/-- `check_invalid_sparql` on the template family: what SHACL-SPARQL forbids -/
def checkInvalid (t : SparqlTemplate) (prebound : List String) : Bool :=
  t.minus || t.values || t.service ||
  (match t.nested with
    | some vars => vars = [] || vars = ["*"] || prebound.any (fun p => p ≠ "shapesGraph" ∧ p ≠ "currentShape" ∧ p ∉ vars)
    | none => false) ||
  (match t.asVar with
    | some v => v ∈ prebound
    | none => false)

def shSparql := sh "sparql"
def shSelect := sh "select"

/-- results of one sh:sparql constraint for one focus node, given the solutions of its query -/
def sparqlResults (s : Shape) (constraintNode : Term) (extraMsgs : List Term) (f : Term) (sols : List Sol) : List Result :=
  let resultVal := if s.isProp then none else some f
  (violationsOf sols []).map fun vio =>
    match vio with
    | .failure vars =>
      mkResult s .sparql f resultVal (source := some constraintNode)
        (messages := some (resultMessages s.messages extraMsgs (some vars)))
    | .tpv t p v vars =>
      let v' := match v with | some x => some x | none => resultVal
      let fdict := vars ++ (match t with | some x => [("this", x)] | none => []) ++
        (match p with | some x => [("path", x)] | none => []) ++ (match v' with | some x => [("value", x)] | none => [])
      mkResult s .sparql (t.getD f) v' (resultPath := p) (source := some constraintNode)
        (messages := some (resultMessages s.messages extraMsgs (some fdict)))

end Pyshacl

namespace Pyshacl

/-! ### SPARQL-based constraint components (sh:ConstraintComponent with ASK / SELECT validators) -/

def shConstraintComponent := sh "ConstraintComponent"
def shParameter := sh "parameter"
def shOptional := sh "optional"
def shValidator := sh "validator"
def shNodeValidator := sh "nodeValidator"
def shPropertyValidator := sh "propertyValidator"
def shAsk := sh "ask"
def shSPARQLAskValidator := sh "SPARQLAskValidator"
def shSPARQLSelectValidator := sh "SPARQLSelectValidator"

/-- `SHACLParameter.localname`: after the first '#', else after the last '/' -/
def localName (iri : String) : Option String :=
  match iri.splitOn "#" with
  | first :: second :: rest => if first = "" then none else some (String.intercalate "#" (second :: rest))
  | _ =>
    match (iri.splitOn "/").reverse with
    | last :: _ :: _ => some last
    | _ => none

structure Param where
  path : Term
  name : String
  optional : Bool
  deriving Repr, DecidableEq

structure Component where
  node : Term
  params : List Param
  validators : List Term
  nodeValidators : List Term
  propertyValidators : List Term
  deriving Repr

/-- `ShapesGraph._find_custom_constraints` + `CustomConstraintComponentFactory` (SPARQL components only) -/
def findComponents (sg : Graph) : Except Failure (List Component) :=
  let direct := sg.subjects rdfType shConstraintComponent
  let viaSub := (sg.subjects rdfsSubClassOf shConstraintComponent).flatMap fun sc => sg.subjects rdfType sc
  let nodes := (dedup (direct ++ viaSub)).filter fun n => match n with
    | .iri s => !(shNs.isPrefixOf s)
    | _ => true
  mapE (fun n =>
    let pnodes := dedup (sg.objects n shParameter)
    if pnodes = [] then .error Failure.constraintLoad else
    match mapE (fun pn => match dedup (sg.objects pn shPath) with
        | [.iri pth] =>
          (match localName pth with
            | some nm =>
              let opt := match sg.objects pn shOptional with
                | [.lit l] => (match l.val with | .bool b => some b | _ => none)
                | [] => some false
                | _ => none
              (match opt with
                | some b => .ok (⟨.iri pth, nm, b⟩ : Param)
                | none => .error Failure.constraintLoad)
            | none => .error (Failure.runtime ""))
        | _ => .error Failure.constraintLoad) pnodes with
    | .error e => .error e
    | .ok ps =>
      if ps.all (·.optional) then .error Failure.constraintLoad else
      let nv := dedup (sg.objects n shNodeValidator)
      let pv := dedup (sg.objects n shPropertyValidator)
      let v := (dedup (sg.objects n shValidator)).filter fun x => x ∉ nv ∧ x ∉ pv
      .ok (⟨n, ps.filter (!·.optional) ++ ps.filter (·.optional), v, nv, pv⟩ : Component)) nodes

/-- `Shape.find_custom_constraints`: a component applies when all its mandatory parameters have values -/
def applicableComponents (sg : Graph) (comps : List Component) (shape : Term) : List Component :=
  comps.filter fun c => (c.params.filter (!·.optional)).all fun p => sg.objects shape p.path ≠ []

inductive ValidatorKind where | ask | select
  deriving DecidableEq, Repr

/-- `SPARQLConstraintComponentValidator.__new__`: which kind of validator a node is -/
def validatorKind (sg : Graph) (v : Term) : Option ValidatorKind :=
  let types := sg.objects v rdfType
  if shSPARQLSelectValidator ∈ types then some .select
  else if shSPARQLAskValidator ∈ types then some .ask
  else if sg.objects v shSelect ≠ [] then some .select
  else if sg.objects v shAsk ≠ [] then some .ask
  else none

/-- `SPARQLConstraintComponent.make_validator_for_shape` -/
def chooseValidator (sg : Graph) (c : Component) (isProp : Bool) : Except Failure (Term × ValidatorKind) :=
  let pick : Option (Term × Bool) :=       -- (validator node, must be SELECT)
    if isProp ∧ c.propertyValidators ≠ [] then c.propertyValidators.head?.map (·, true)
    else if !isProp ∧ c.nodeValidators ≠ [] then c.nodeValidators.head?.map (·, true)
    else c.validators.head?.map (·, false)
  match pick with
  | none => .error .constraintLoad
  | some (v, mustSelect) =>
    match validatorKind sg v with
    | none => .error .constraintLoad
    | some k =>
      if mustSelect ∧ k ≠ .select then .error .constraintLoad
      else if !mustSelect ∧ k ≠ .ask then .error .constraintLoad
      else .ok (v, k)

/-- `bind_messages(param_map)`: each `{$var}` / `{?var}` found in the template whose var is in the map is
    replaced once (first occurrence), in order of occurrence -/
def substFirst (msg pat val : String) : String :=
  match msg.splitOn pat with
  | a :: b :: rest => a ++ val ++ String.intercalate pat (b :: rest)
  | _ => msg

def bindMessage (msg : String) (args : List (String × Term)) : String :=
  -- the code scans the placeholders of the template left to right; for each one whose variable is bound it
  -- substitutes the first remaining match of `{[$?]var}`
  let rec go (fuel : Nat) (m : String) (pending : List String) : String :=
    match fuel, pending with
    | 0, _ => m
    | _, [] => m
    | fuel+1, var :: rest =>
      match args.find? (·.1 = var) with
      | none => go fuel m rest
      | some (_, val) =>
        let i1 := (m.splitOn ("{$" ++ var ++ "}")).head!.length
        let i2 := (m.splitOn ("{?" ++ var ++ "}")).head!.length
        let m' := if i1 ≤ i2 then substFirst m ("{$" ++ var ++ "}") (termText val)
                  else substFirst m ("{?" ++ var ++ "}") (termText val)
        go fuel m' rest
  -- placeholders in order of occurrence
  let vars : List String := ((msg.splitOn "{").drop 1).filterMap fun chunk =>
    match chunk.splitOn "}" with
    | inner :: _ :: _ =>
      if inner.startsWith "$" ∨ inner.startsWith "?" then some (inner.drop 1).toString else none
    | _ => none
  go (vars.length + 1) msg vars

/-- python truthiness of an optional term (`if p or v2 or t`) -/
def pyTruthy : Option Term → Bool
  | none => false
  | some (.lit l) => (match l.val with | .none => l.lex ≠ "" | _ => litTruthy l)   -- rdflib `Literal.__bool__`
  | some _ => true

/-- opaque engine for validators: (validator, shape, focus, value) ↦ ASK answer / SELECT rows -/
inductive ValidatorAnswer where
  | ask (b : Bool)
  | rows (sols : List Sol)
  deriving Repr

/-- results of one bound validator (`BoundShapeValidatorComponent.evaluate`) for one focus node -/
def componentResults (s : Shape) (comp : Component) (kind : ValidatorKind) (valMsgs : List Term)
    (paramMap : List (String × Term)) (f : Term) (vs : List Term)
    (answer : Term → Option ValidatorAnswer) : Except Failure (List Result) :=
  let msgsFor := fun (args : List (String × Term)) => valMsgs.map fun m => match m with
    | .lit l => Term.lit { l with lex := bindMessage l.lex args }
    | t => t
  let baseArgs := fun (v : Term) => paramMap ++ [("this", f), ("value", v)] ++
    (match s.path with | some p => if s.isProp then [("path", p)] else [] | none => [])
  let override := fun (args : List (String × Term)) (k : String) (v : Term) => (args.filter (·.1 ≠ k)) ++ [(k, v)]
  match kind with
  | .ask =>
    (match mapE (fun v => match answer v with
        | none => .error (Failure.raw "validator-table-miss")
        | some a => .ok (v, a)) vs with
    | .error e => .error e
    | .ok answers =>
      .ok (answers.flatMap fun (v, a) =>
        let reportVal := if s.isProp then none else some v
        match a with
        | .ask b =>
          if b then [] else
            [mkResult s .sparql f reportVal (component := some comp.node) (messages := some (resultMessages s.messages (msgsFor (baseArgs v)) none))]
        | _ => []))
  | .select =>
    -- evaluated once for the focus node; ?value is a result variable
    (match answer f with
    | none => .error (Failure.raw "validator-table-miss")
    | some (.rows sols) =>
      let reportVal := if s.isProp then none else some f
      .ok ((dedup (sols.filterMap fun sol =>
          let t := sol.get "this"; let p := sol.get "path"; let v2 := sol.get "value"
          if t.isNone ∧ p.isNone ∧ v2.isNone then none else some (t, p, v2))).map fun (t, p, v2) =>
            let args0 := baseArgs f
            let args1 := match v2 with | some x => override args0 "value" x | none => args0
            let args2 := match p with | some x => override args1 "path" x | none => args1
            let args3 := match t with | some x => override args2 "this" x | none => args2
            mkResult s .sparql (t.getD f) (match v2 with | some x => some x | none => reportVal) (resultPath := p)
              (component := some comp.node) (messages := some (resultMessages s.messages (msgsFor args3) none)))
    | some _ => .ok [])

end Pyshacl
