/-
  Report.lean — assembly of the three things `validate()` returns: the boolean, the report graph and
  the report text  (`Validator.create_validation_report`, `ConstraintComponent.make_v_result`,
  `rdfutil.clone_blank_node` / `clone_list`).

  Nodes minted with `BNode()` while reporting are a constructor of their own (`RNode.fresh`, `RNode.cl`):
  that they differ from every term of the validated graphs is rdflib's `BNode()` contract (trusted base).
  The rendering of single terms in the text (`stringify_node`) is a parameter.
-/
import PyshaclModel.Eval
import PyshaclModel.Generated.Caps
namespace Pyshacl

inductive RNode where
  | fresh (idx : List Nat)   -- `[]` the report node; `i :: parent` the i-th result below `parent`
  | term (t : Term)          -- a term carried over from the validated graphs (blank nodes keep their label)
  | cl (k : List Nat)        -- a blank node minted while copying a description
  deriving DecidableEq, Repr, Inhabited

structure RTriple where
  s : RNode
  p : Term
  o : RNode
  deriving DecidableEq, Repr, Inhabited

inductive Src where | sg | dg
  deriving DecidableEq, Repr, Inhabited

/-- the object slot of a triple prepared by `make_v_result`: a plain term, or a `(source graph, node)` pair
    that the report assembly resolves (and whose description it copies when it is a blank node) -/
inductive PObj where
  | direct (t : Term)
  | from (src : Src) (t : Term)
  | node (n : RNode)
  deriving DecidableEq, Repr, Inhabited

structure Pending where
  s : RNode
  p : Term
  o : PObj
  deriving DecidableEq, Repr, Inhabited

def shValidationReport := sh "ValidationReport"
def shValidationResult := sh "ValidationResult"
def shConforms := sh "conforms"
def shResult := sh "result"
def shDetail := sh "detail"
def shFocusNode := sh "focusNode"
def shValue := sh "value"
def shResultPath := sh "resultPath"
def shResultSeverity := sh "resultSeverity"
def shSourceShape := sh "sourceShape"
def shSourceConstraint := sh "sourceConstraint"
def shSourceConstraintComponent := sh "sourceConstraintComponent"
def shResultMessage := sh "resultMessage"

/-- `Literal(conforms)` -/
def boolLit (b : Bool) : Term :=
  .lit ⟨if b then "true" else "false", "http://www.w3.org/2001/XMLSchema#boolean", "", .bool b, false⟩

/-- `(datagraph or sg, focus_node)`: an empty rdflib graph is falsy -/
def focusSrc (dg : Graph) : Src := if dg.isEmpty then .sg else .dg

def optPending (n : RNode) (p : Term) (src : Src) : Option Term → List Pending
  | some t => [⟨n, p, .from src t⟩]
  | none => []

mutual
/-- the triples `make_v_result` prepares for one result, nested results hanging below it through sh:detail -/
def resultPending (dg : Graph) (idx : List Nat) : Result → List Pending
  | .mk f v p c s sev msgs det src =>
    let n := RNode.fresh idx
    [⟨n, rdfType, .direct shValidationResult⟩,
     ⟨n, shSourceConstraintComponent, .from .sg c⟩,
     ⟨n, shSourceShape, .from .sg s⟩,
     ⟨n, shResultSeverity, .direct sev⟩,
     ⟨n, shFocusNode, .from (focusSrc dg) f⟩]
    ++ optPending n shValue .dg v
    ++ optPending n shResultPath .sg p
    ++ optPending n shSourceConstraint .sg src
    ++ msgs.map (fun m => ⟨n, shResultMessage, .direct m⟩)
    ++ detailPending dg idx 0 det
def detailPending (dg : Graph) (idx : List Nat) (j : Nat) : List Result → List Pending
  | [] => []
  | d :: ds =>
    ⟨.fresh idx, shDetail, .node (.fresh (j :: idx))⟩ :: (resultPending dg (j :: idx) d ++ detailPending dg idx (j + 1) ds)
end

/-- all prepared triples of the top-level results, the i-th result being `fresh [i]` -/
def resultsPending (dg : Graph) (j : Nat) : List Result → List Pending
  | [] => []
  | r :: rs => resultPending dg [j] r ++ resultsPending dg (j + 1) rs

def PObj.resolve : PObj → RNode
  | .direct t => .term t
  | .from _ t => .term t          -- IRIs and literals as they are; blank nodes keep their label (`keepid=True`)
  | .node n => n

/-! ### copies of blank-node descriptions (`clone_blank_node`, `clone_list`) -/

def Graph.value (g : Graph) (s p : Term) : Option Term := (g.objects s p).head?

/-- `_list_cells`: follows rdf:rest until it ends or repeats; the cells that hold a member, with that member -/
def listCells (g : Graph) : Nat → Term → List Term → List (Term × Term)
  | 0, _, _ => []
  | fuel + 1, l, seen =>
    if l ∈ seen then [] else
    let rest := match g.value l rdfRest with
      | some n => listCells g fuel n (l :: seen)
      | none => []
    match g.value l rdfFirst with
    | some i => (l, i) :: rest
    | none => rest

/-- the cell a rebuilt list keeps its i-th member in: the list node itself, then freshly minted cells -/
def cellNode (self : RNode) (path : List Nat) : Nat → RNode
  | 0 => self
  | i + 1 => .cl ((3 * i + 1) :: path)

/-- `Collection(target, head).append(item)` for each item: the spine of a fresh list -/
def listSpine (self : RNode) (path : List Nat) : Nat → List RNode → List RTriple
  | _, [] => []
  | _, [x] => [⟨self, rdfFirst, x⟩, ⟨self, rdfRest, .term rdfNil⟩]
  | i, x :: y :: rest =>
    let nxt := cellNode self path (i + 1)
    ⟨self, rdfFirst, x⟩ :: ⟨self, rdfRest, nxt⟩ :: listSpine nxt path (i + 1) (y :: rest)

/-- does the blank node have rdf:first among its predicates (`RDF_first in predicates`)? -/
def isListNode (g : Graph) (b : Term) : Bool := (g.predicateObjects b).any (fun x => x.1 = rdfFirst)

/-- ((cell, member), position) -/
def cloneItems (g : Graph) (b : Term) : List ((Term × Term) × Nat) := (listCells g (g.length + 1) b []).zipIdx

/-- the clone of a list member: literals and IRIs as they are, blank nodes a fresh node -/
def itemNode (path : List Nat) (x : (Term × Term) × Nat) : RNode :=
  match x.1.2 with
  | .bnode _ => .cl ((3 * x.2) :: path)
  | t => .term t

/-- a statement about a list cell besides rdf:first / rdf:rest -/
def isExtra (x : Term × Term) : Bool := x.1 ≠ rdfFirst && x.1 ≠ rdfRest

/-- the copy of the statements `po` about one node: objects as they are, blank-node objects re-minted and
    described in turn by `rec` -/
def objTriples (rec : Term → RNode → List Nat → List RTriple) (self : RNode) (path : List Nat)
    (po : List (Term × Term)) : List RTriple :=
  po.zipIdx.flatMap fun x => match x.1.2 with
    | .bnode _ => ⟨self, x.1.1, .cl (x.2 :: path)⟩ :: rec x.1.2 (.cl (x.2 :: path)) (x.2 :: path)
    | t => [⟨self, x.1.1, .term t⟩]

/-- `clone_blank_node(graph, b, vg, recursion=rec)` with the clone being `self`;
    nested blank nodes get fresh labels (`cl`), deeper by two on the recursion counter per level;
    a list node is rebuilt member by member (`clone_list`), the other statements about its cells copied along -/
def cloneBnode (g : Graph) : Nat → Nat → Term → RNode → List Nat → List RTriple
  | 0, _, _, _, _ => []
  | fuel + 1, rec, b, self, path =>
    if rec ≥ Caps.cloneDepth then [] else
    if isListNode g b then
      listSpine self path 0 ((cloneItems g b).map (itemNode path))
      ++ ((cloneItems g b).flatMap fun x => match x.1.2 with
          | .bnode _ => cloneBnode g fuel (rec + 2) x.1.2 (.cl ((3 * x.2) :: path)) ((3 * x.2) :: path)
          | _ => [])
      ++ ((cloneItems g b).flatMap fun x =>
          if x.1.1.isBnode then
            objTriples (cloneBnode g fuel (rec + 2)) (cellNode self path x.2) ((3 * x.2 + 2) :: path)
              ((g.predicateObjects x.1.1).filter isExtra)
          else [])
    else
      objTriples (cloneBnode g fuel (rec + 2)) self path (g.predicateObjects b)

/-- the `(source, node)` pairs whose node is a blank node, first occurrence first (`cloned_nodes` memo) -/
def cloneKeys (ps : List Pending) : List (Src × Term) :=
  (ps.filterMap fun x => match x.o with
    | .from src (.bnode b) => some (src, Term.bnode b)
    | _ => none).eraseDups

def srcGraph (sg dg : Graph) : Src → Graph
  | .sg => sg
  | .dg => dg

def srcTag : Src → Nat
  | .sg => 0
  | .dg => 1

def clones (sg dg : Graph) (ps : List Pending) : List RTriple :=
  (cloneKeys ps).zipIdx.flatMap fun x =>
    cloneBnode (srcGraph sg dg x.1.1) (Caps.cloneDepth + 1) 0 x.1.2 (.term x.1.2) [x.2, srcTag x.1.1]

/-- `create_validation_report`, graph part -/
def reportGraph (sg dg : Graph) (conf : Bool) (rs : List Result) : List RTriple :=
  let ps := resultsPending dg 0 rs
  [⟨.fresh [], rdfType, .term shValidationReport⟩, ⟨.fresh [], shConforms, .term (boolLit conf)⟩]
  ++ (List.range rs.length).map (fun i => ⟨.fresh [], shResult, .fresh [i]⟩)
  ++ ps.map (fun x => ⟨x.s, x.p, x.o.resolve⟩)
  ++ clones sg dg ps

/-- `create_validation_report`, text part; `desc` is the block `make_v_result_description` built for a result -/
def reportText (desc : Result → String) (conf : Bool) (rs : List Result) : String :=
  "Validation Report\nConforms: " ++ (if conf then "True" else "False") ++ "\n"
  ++ (if rs.length > 0 then "Results (" ++ toString rs.length ++ "):\n" else "")
  ++ String.join (rs.map desc)

/-- the whole of `create_validation_report` -/
def createReport (sg dg : Graph) (desc : Result → String) (conf : Bool) (rs : List Result) :
    Except Failure (Bool × List RTriple × String) :=
  if !conf && rs.length < 1 then .error (.raw "RuntimeError")
  else .ok (conf, reportGraph sg dg conf rs, reportText desc conf rs)

end Pyshacl
