/-
  Pipeline.lean — heap model of `Validator.run` / `RuleExpandRunner.run` (and the `inplace or ephemeral`
  of the entry points): which graph object each pipeline stage reads, clones or writes.

  Objects: the caller's data graph, the caller's ontology graph, and fresh objects created by
  `clone_graph` / `clone_dataset`.  A stage that writes is an arbitrary function of the object's
  content, so the theorems cover every graph content and every inference / rule result.
-/
namespace Pyshacl.Pipeline

inductive Api where | validate | rules
  deriving DecidableEq, Repr

structure Cfg where
  api : Api
  hasOnt : Bool          -- an ontology graph was passed
  multigraph : Bool      -- the data graph is a Dataset / ConjunctiveGraph
  inference : Bool       -- inference option other than "none"
  advanced : Bool        -- advanced=True (always on for shacl_rules)
  inplace : Bool         -- `inplace or ephemeral`
  shapesInData : Bool    -- no shapes graph was passed: the shapes are read from (a copy of) the data graph
  hasRules : Bool        -- the shapes graph declares at least one rule (`if advanced['rules']`)
  deriving DecidableEq, Repr

inductive Obj where | data | ont | shapes | fresh (n : Nat)
  deriving DecidableEq, Repr

inductive Stage where | system | inoculate | infer | rules
  deriving DecidableEq, Repr

inductive Op where
  | clone (src : Obj) (dst : Nat)        -- dst is a fresh object holding a copy of src
  | write (st : Stage) (dst : Obj)       -- the stage adds triples to dst
  | read (st : Stage) (src : Obj)        -- the stage only reads src (ontology mix-in source, validation)
  deriving DecidableEq, Repr

/-- mirror of the `has_cloned / inplace` chain: the operations in order, and the object validated -/
def plan (c : Cfg) : List Op × Obj :=
  -- `ShapesGraph.__init__` writes two system triples into the shapes graph: the caller's shapes graph, or a
  -- copy of the data graph when the shapes are embedded in it
  let ops0 := if c.shapesInData then [Op.clone .data 3, Op.write .system (.fresh 3)] else [Op.write .system .shapes]
  -- ontology mix-in
  let (ops1, dg1, cloned1) :=
    if c.hasOnt then
      if c.inplace then ([Op.read .inoculate .ont, Op.write .inoculate .data], Obj.data, true)
      else ([Op.clone .data 0, Op.read .inoculate .ont, Op.write .inoculate (.fresh 0)], Obj.fresh 0, true)
    else ([], Obj.data, false)
  -- pre-inference
  let (ops2, dg2, cloned2) :=
    if c.inference then
      if !cloned1 && !c.inplace then ([Op.clone dg1 1, Op.write .infer (.fresh 1)], Obj.fresh 1, true)
      else ([Op.write .infer dg1], dg1, cloned1)
    else ([], dg1, cloned1)
  -- forced clone before rules can write
  let needsRules := c.api = .rules || c.advanced
  let (ops3, dg3) :=
    if needsRules && !cloned2 && !c.inplace then ([Op.clone dg2 2], Obj.fresh 2) else ([], dg2)
  let ops4 := if needsRules && c.hasRules then [Op.write .rules dg3] else []
  (ops0 ++ ops1 ++ ops2 ++ ops3 ++ ops4, dg3)

/-- `validate(..., sparql_mode=True)`: the entry point and `Validator` reject SHACL-JS, a caller-requested
    `inplace`, an ontology graph, shapes embedded in the data graph and every pre-inference option; then
    `inplace` is forced on (the remote graph is never cloned) and SHACL rules are skipped with a warning.
    `none` ⇔ ReportableRuntimeError before anything is validated. -/
def planSparql (c : Cfg) (js callerInplace : Bool) : Option (List Op × Obj) :=
  if js || callerInplace || c.hasOnt || c.shapesInData || c.inference then none
  else some ([Op.write .system .shapes, Op.read .rules .data], .data)

/-- heap: content of each object, for an arbitrary content type -/
abbrev Heap (G : Type) := Obj → G

def execOp {G} (w : Stage → G → G) (h : Heap G) : Op → Heap G
  | .clone src dst => fun o => if o = .fresh dst then h src else h o
  | .write st dst => fun o => if o = dst then w st (h dst) else h o
  | .read _ _ => h

/-- run the first `k` operations (a failure raised at any point leaves the heap after a prefix) -/
def exec {G} (w : Stage → G → G) (h : Heap G) (ops : List Op) (k : Nat) : Heap G :=
  (ops.take k).foldl (execOp w) h

/-- what the pipeline makes of the caller's data graph before validating: mix-in, then pre-inference, then rules -/
def expand {G} (c : Cfg) (w : Stage → G → G) (g : G) : G :=
  let g1 := if c.hasOnt then w .inoculate g else g
  let g2 := if c.inference then w .infer g1 else g1
  if (c.api = .rules || c.advanced) && c.hasRules then w .rules g2 else g2

def Op.writesCaller : Op → Bool
  | .write _ .data => true
  | .write _ .ont => true
  | _ => false

end Pyshacl.Pipeline
