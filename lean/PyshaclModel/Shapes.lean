/-
  Shapes.lean — which nodes of a shapes graph are shapes (mirror of
  `ShapesGraph._build_node_shape_cache` and `Shape.__init__`).
-/
import PyshaclModel.Rdf
import PyshaclModel.Path
namespace Pyshacl

/-- outcome channel of a run that does not return a report -/
inductive Failure where
  | shapeLoad | constraintLoad | ruleLoad
  | runtime (what : String)          -- ReportableRuntimeError (what ∈ "", "pathTooDeep", "tooDeep")
  | validationFailure
  | notImplemented
  | raw (cls : String)               -- an exception outside the documented family
  deriving DecidableEq, Repr, Inhabited

def Failure.ofPathErr : PathErr → Failure
  | .tooDeep => .runtime "tooDeep"
  | .runtime => .runtime ""
  | .shapeLoad => .shapeLoad
  | .notImplemented => .notImplemented
  | .raw c => .raw c

structure Shape where
  node : Term
  isProp : Bool
  path : Option Term
  deactivated : Bool
  severity : Term
  messages : List Term
  deriving DecidableEq, Repr, Inhabited

def shNodeShape := sh "NodeShape"
def shPropertyShape := sh "PropertyShape"
def shPath := sh "path"
def shTargetClass := sh "targetClass"
def shTargetNode := sh "targetNode"
def shTargetObjectsOf := sh "targetObjectsOf"
def shTargetSubjectsOf := sh "targetSubjectsOf"
def shProperty := sh "property"
def shNode := sh "node"
def shNot := sh "not"
def shAnd := sh "and"
def shOr := sh "or"
def shXone := sh "xone"
def shQualifiedValueShape := sh "qualifiedValueShape"
def shDeactivated := sh "deactivated"
def shSeverity := sh "severity"
def shMessage := sh "message"
def shViolation := sh "Violation"
def shInfo := sh "Info"
def shWarning := sh "Warning"
def owlNs := "http://www.w3.org/2002/07/owl#"

/-- the two triples `ShapesGraph._add_system_triples` writes into every shapes graph -/
def systemTriples : Graph :=
  [⟨.iri (owlNs ++ "Class"), rdfsSubClassOf, rdfsClass⟩,
   ⟨.iri (owlNs ++ "DatatypeProperty"), rdfsSubClassOf, rdf "Property"⟩]

/-- python truthiness of a literal's value (`bool(d.value)`) -/
def litTruthy (l : Lit) : Bool :=
  match l.val with
  | .none => false
  | .bool b => b
  | .int z => z ≠ 0
  | .dec n _ => n ≠ 0
  | .dbl n _ => n ≠ 0
  | .nan => true
  | .str => l.lex ≠ ""
  | _ => true

/-- `Shape.__init__` -/
def mkShape (sg : Graph) (node : Term) (isProp : Bool) (path : Option Term) : Except Failure Shape :=
  let deact := dedup (sg.objects node shDeactivated)
  let sev := (dedup (sg.objects node shSeverity)).head?.getD shViolation
  let msgs := dedup (sg.objects node shMessage)
  match deact with
  | [] => .ok ⟨node, isProp, path, false, sev, msgs⟩
  | [.lit l] => .ok ⟨node, isProp, path, litTruthy l, sev, msgs⟩
  | [_] => .error .shapeLoad
  | _ => .error .shapeLoad

def mapE {α β ε} (f : α → Except ε β) : List α → Except ε (List β)
  | [] => .ok []
  | x :: xs => match f x with
    | .error e => .error e
    | .ok y => match mapE f xs with
      | .error e => .error e
      | .ok ys => .ok (y :: ys)

/-- members of all lists that are values of sh:and / sh:or / sh:xone; error for an empty or looping list -/
def listShapeMembers (sg : Graph) : Except Failure (List Term) :=
  let lists := dedup (sg.objectsOfPred shAnd ++ sg.objectsOfPred shOr ++ sg.objectsOfPred shXone)
  match mapE (fun l => match rdfListItems sg l with
      | none => .error (Failure.raw "ValueError")
      | some [] => .error Failure.shapeLoad
      | some items => .ok items) lists with
  | .error e => .error e
  | .ok ls => .ok ls.flatten

/-- follows rdf:rest from `n`; `true` when the chain does not end within `fuel` steps -/
def restChainLoops (sg : Graph) : Nat → Term → Bool
  | 0, _ => true
  | fuel+1, n => match (sg.objects n rdfRest).head? with
    | none => false
    | some r => restChainLoops sg fuel r

/-- `ShapesGraph._check_lists`: some rdf:rest chain of the shapes graph loops back into itself -/
def hasLoopingList (sg : Graph) : Bool :=
  (dedup (sg.subjectsOfPred rdfRest)).any fun n => restChainLoops sg (sg.length + 1) n

/-- `_build_node_shape_cache` (the shapes graph already contains the system triples) -/
def buildShapes (sg : Graph) : Except Failure (List Shape) :=
  let definedNode := dedup (sg.subjects rdfType shNodeShape)
  let definedProp := dedup (sg.subjects rdfType shPropertyShape)
  if definedNode.any (fun s => (sg.objects s shPath) ≠ []) then .error .shapeLoad else
  if definedProp.any (fun s => s ∈ definedNode) then .error .shapeLoad else
  if definedProp.any (fun s => (sg.objects s shPath).length ≠ 1) then .error .shapeLoad else
  let subjectShapes := dedup (sg.subjectsOfPred shTargetClass ++ sg.subjectsOfPred shTargetNode ++
      sg.subjectsOfPred shTargetObjectsOf ++ sg.subjectsOfPred shTargetSubjectsOf ++
      sg.subjectsOfPred shProperty ++ sg.subjectsOfPred shNode)
  match listShapeMembers sg with
  | .error e => .error e
  | .ok members =>
  let valueShapes := dedup (sg.objectsOfPred shProperty ++ sg.objectsOfPred shNode ++
      sg.objectsOfPred shNot ++ sg.objectsOfPred shQualifiedValueShape ++ members)
  let implied := dedup ((subjectShapes ++ valueShapes).filter
      (fun s => s ∉ definedNode ∧ s ∉ definedProp))
  if implied.any (fun s => (sg.objects s shPath).length > 1) then .error .shapeLoad else
  let foundNode := implied.filter (fun s => (sg.objects s shPath) = [])
  let foundProp := implied.filter (fun s => (sg.objects s shPath) ≠ [])
  match mapE (fun s => mkShape sg s false none) (definedNode ++ foundNode) with
  | .error e => .error e
  | .ok ns =>
    match mapE (fun s => mkShape sg s true (sg.objects s shPath).head?) (definedProp ++ foundProp) with
    | .error e => .error e
    | .ok ps => .ok (ns ++ ps)

/-! ### `use_shapes`: `_build_node_shape_cache_from_list` -/

structure Gathered where
  nodeShapes : List Term := []
  propShapes : List Term := []
  paths : List (Term × Term) := []

def shapeExpectingPreds : List Term := [shAnd, shNot, shOr, shXone, shProperty, shNode, shQualifiedValueShape]

/-- `_gather_shapes(shapes_nodes, recurse_depth)`; `fuel` bounds the recursion like the code's
    `recurse_depth > 10` test does -/
def gatherShapes (sg : Graph) : Nat → Nat → List Term → Gathered → Except Failure Gathered
  | _, _, [], acc => .ok acc
  | 0, _, _ :: _, _ => .error .shapeLoad
  | fuel+1, depth, s :: rest, acc =>
    if depth > 10 then .error .shapeLoad else
    if s ∈ acc.nodeShapes ∨ s ∈ acc.propShapes then gatherShapes sg (fuel+1) depth rest acc else
    let po := sg.predicateObjects s
    if po = [] then
      (if depth < 1 then .error .shapeLoad else gatherShapes sg (fuel+1) depth rest acc)
    else
    let classes := sg.objects s rdfType
    let known : Option Bool :=      -- some true = property shape, some false = node shape
      (classes.filterMap fun c => if c = shPropertyShape then some true
                                  else if c = shNodeShape then some false else none).head?
    let pathVals : List Term := po.filterMap fun (p, o) => if p = shPath then some o else none
    let badPath : Bool := match pathVals.head? with
      | some t => t.isLit
      | none => false
    if known.isNone && badPath then .error .shapeLoad else
    let isProp : Bool := match known with
      | some b => b
      | none => if pathVals ≠ [] then true else (sg.subjects shProperty s) ≠ []
    let acc1 : Gathered :=
      if isProp then
        { acc with propShapes := s :: acc.propShapes,
                   paths := (match known, pathVals.head? with
                     | none, some pth => (s, pth) :: acc.paths
                     | _, _ => acc.paths) }
      else { acc with nodeShapes := s :: acc.nodeShapes }
    let children : List Term := shapeExpectingPreds.flatMap fun p =>
      if po.any (fun x => x.1 = p) then
        (sg.objects s p).flatMap fun v =>
          if p = shOr ∨ p = shXone ∨ p = shAnd then
            ((rdfListItems sg v).getD []).filter fun i => !i.isLit
          else if v.isLit then [] else [v]
      else []
    -- the condition shapes of the shape's rules (direct or list-valued sh:condition)
    let condChildren : List Term := (sg.objects s (sh "rule")).flatMap fun r =>
      (sg.objects r (sh "condition")).flatMap fun c =>
        (if sg.objects c rdfFirst ≠ [] then (rdfListItems sg c).getD [] else [c]).filter fun i => !i.isLit
    -- the sibling shapes of a qualified value shape (counted against with sh:qualifiedValueShapesDisjoint)
    let siblingChildren : List Term :=
      if po.any (fun x => x.1 = shQualifiedValueShape) then
        (sg.subjects shProperty s).flatMap fun parent =>
          (sg.objects parent shProperty).flatMap fun ps =>
            (sg.objects ps shQualifiedValueShape).filter fun q => !q.isLit
      else []
    let children := children ++ siblingChildren ++ condChildren
    match (if children = [] then Except.ok acc1 else gatherShapes sg fuel (depth + 1) children acc1) with
    | .error e => .error e
    | .ok acc2 => gatherShapes sg (fuel+1) depth rest acc2
termination_by fuel _ l _ => (fuel, l.length)

/-- `shapes_from_uris(uris)`: the shape cache built from the selected shapes and what they reference -/
def buildShapesFromList (sg : Graph) (uris : List Term) : Except Failure (List Shape) :=
  match gatherShapes sg 24 0 uris {} with
  | .error e => .error e
  | .ok g =>
    if g.nodeShapes.any (fun s => (sg.objects s shPath) ≠ []) then .error .shapeLoad else
    if g.propShapes.any (fun s => s ∈ g.nodeShapes) then .error .shapeLoad else
    match mapE (fun s => match g.paths.find? (fun x => x.1 = s) with
        | some (_, pth) => .ok (s, pth)
        | none => (match sg.objects s shPath with
          | [pth] => if pth.isLit then .error Failure.shapeLoad else .ok (s, pth)
          | _ => .error Failure.shapeLoad)) g.propShapes with
    | .error e => .error e
    | .ok pps =>
      match mapE (fun s => mkShape sg s false none) g.nodeShapes with
      | .error e => .error e
      | .ok ns =>
        match mapE (fun (x : Term × Term) => mkShape sg x.1 true (some x.2)) pps with
        | .error e => .error e
        | .ok ps => .ok (ns ++ ps)

def lookupShape (shapes : List Shape) (n : Term) : Option Shape :=
  shapes.find? (fun s => s.node = n)

end Pyshacl
