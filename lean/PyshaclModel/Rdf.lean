/-
  Rdf.lean — the data model shared by Spec, Ref and Impl.

  Python `set`s are modelled as lists; every statement is on membership.
  Literal values are shipped by the harness as rdflib itself computed them
  (`Literal.value`), so the Lean side never parses lexical forms (trusted base).
-/
namespace Pyshacl

/-- value space of a literal as rdflib computes it (`Literal.value`) -/
inductive LitVal where
  | none                                   -- no python value (ill-typed or unknown datatype)
  | int (z : Int)                          -- python int
  | dec (num : Int) (den : Nat)            -- decimal.Decimal, exact rational num/den, den > 0
  | dbl (num : Int) (den : Nat)            -- finite python float, exact rational
  | nan                                    -- float nan / inf (left unspecified by the properties)
  | bool (b : Bool)
  | dateTime (tz : Bool) (us : Int)        -- datetime, aware?, microseconds (UTC if aware, wall clock if naive)
  | date (days : Int)
  | str                                    -- python str (value is the lexical form)
  | other                                  -- some other python object (time, duration, bytes, xml …)
  deriving DecidableEq, Repr, Inhabited

structure Lit where
  lex  : String
  dt   : String      -- datatype IRI, "" when absent
  lang : String      -- language tag lower-cased, "" when absent
  val  : LitVal
  ill  : Bool := false   -- rdflib `Literal.ill_typed is True`
  deriving DecidableEq, Repr, Inhabited

inductive Term where
  | iri (s : String)
  | bnode (s : String)
  | lit (l : Lit)
  deriving DecidableEq, Repr, Inhabited

namespace Term
def isIri : Term → Bool | iri _ => true | _ => false
def isBnode : Term → Bool | bnode _ => true | _ => false
def isLit : Term → Bool | lit _ => true | _ => false
end Term

structure Triple where
  s : Term
  p : Term
  o : Term
  deriving DecidableEq, Repr, Inhabited

abbrev Graph := List Triple

namespace Graph
def objects (g : Graph) (s p : Term) : List Term :=
  g.filterMap fun t => if t.s = s ∧ t.p = p then some t.o else none
def subjects (g : Graph) (p o : Term) : List Term :=
  g.filterMap fun t => if t.p = p ∧ t.o = o then some t.s else none
def subjectsOfPred (g : Graph) (p : Term) : List Term :=
  g.filterMap fun t => if t.p = p then some t.s else none
def objectsOfPred (g : Graph) (p : Term) : List Term :=
  g.filterMap fun t => if t.p = p then some t.o else none
def predicateObjects (g : Graph) (s : Term) : List (Term × Term) :=
  g.filterMap fun t => if t.s = s then some (t.p, t.o) else none
def has (g : Graph) (s p o : Term) : Bool := g.contains ⟨s, p, o⟩
/-- every term in subject or object position -/
def nodes (g : Graph) : List Term := g.flatMap fun t => [t.s, t.o]

theorem mem_objects {g : Graph} {s p o : Term} : o ∈ objects g s p ↔ (⟨s, p, o⟩ : Triple) ∈ g := by
  unfold objects
  simp only [List.mem_filterMap]
  constructor
  · rintro ⟨t, ht, h⟩
    split at h
    · rename_i hc; cases t; simp_all
    · simp at h
  · intro h; exact ⟨_, h, by simp⟩

theorem mem_subjects {g : Graph} {s p o : Term} : s ∈ subjects g p o ↔ (⟨s, p, o⟩ : Triple) ∈ g := by
  unfold subjects
  simp only [List.mem_filterMap]
  constructor
  · rintro ⟨t, ht, h⟩
    split at h
    · rename_i hc; cases t; simp_all
    · simp at h
  · intro h; exact ⟨_, h, by simp⟩

theorem mem_nodes_of_s {g : Graph} {t : Triple} (h : t ∈ g) : t.s ∈ nodes g := by
  unfold nodes; simp only [List.mem_flatMap]; exact ⟨t, h, by simp⟩
theorem mem_nodes_of_o {g : Graph} {t : Triple} (h : t ∈ g) : t.o ∈ nodes g := by
  unfold nodes; simp only [List.mem_flatMap]; exact ⟨t, h, by simp⟩
end Graph

/-! well-known IRIs -/
def rdfNs := "http://www.w3.org/1999/02/22-rdf-syntax-ns#"
def rdfsNs := "http://www.w3.org/2000/01/rdf-schema#"
def shNs := "http://www.w3.org/ns/shacl#"
def xsdNs := "http://www.w3.org/2001/XMLSchema#"
def rdf (s : String) : Term := .iri (rdfNs ++ s)
def rdfs (s : String) : Term := .iri (rdfsNs ++ s)
def sh (s : String) : Term := .iri (shNs ++ s)
def xsd (s : String) : String := xsdNs ++ s

def rdfType := rdf "type"
def rdfFirst := rdf "first"
def rdfRest := rdf "rest"
def rdfNil := rdf "nil"
def rdfsSubClassOf := rdfs "subClassOf"
def rdfsClass := rdfs "Class"

/-- `List.eraseDups`-like dedup keeping first occurrences (models building a python set) -/
def dedup {α} [DecidableEq α] : List α → List α
  | [] => []
  | x :: xs => if x ∈ xs then dedup xs else x :: dedup xs

theorem mem_dedup {α} [DecidableEq α] {a : α} {l : List α} : a ∈ dedup l ↔ a ∈ l := by
  induction l with
  | nil => simp [dedup]
  | cons x xs ih =>
    unfold dedup
    split
    · rename_i h; simp only [ih, List.mem_cons]
      constructor
      · exact Or.inr
      · rintro (rfl | h'); exact h; exact h'
    · simp [ih]

theorem nodup_dedup {α} [DecidableEq α] (l : List α) : (dedup l).Nodup := by
  induction l with
  | nil => simp [dedup]
  | cons x xs ih =>
    unfold dedup
    split
    · exact ih
    · rename_i h; exact List.nodup_cons.2 ⟨by simpa [mem_dedup] using h, ih⟩

end Pyshacl
