/-
  C11 — allow_infos / allow_warnings only relax the verdict.
  Model-level theorems for every shapes graph (any severities at any nesting level), data graph and
  focus selection; complete runs (abort_on_first off — its interaction is C12).
-/
import PyshaclProofs.WaiverIndep
namespace Pyshacl.C11
open Pyshacl

/-- the options never change which results are reported, nor whether / how the run fails -/
theorem results_option_independent (o : Opts) (i w : Bool) (hab : o.abortOnFirst = false)
    (sg dg : Graph) (rx : Regex) (focus : List Term) :
    Out.results (runValidate (o.withWaivers i w) sg dg rx focus []) = Out.results (runValidate o sg dg rx focus []) :=
  runValidate_results_indep o i w hab sg dg rx focus

/-- with an option on, the verdict is `conforms` exactly when every result has a waived severity -/
theorem verdict_with_waivers (o : Opts) (sg dg : Graph) (rx : Regex) (focus : List Term)
    (conf : Bool) (rs : List Result) (h : runValidate o sg dg rx focus [] = .ok (conf, rs)) :
    conf = true ↔ ∀ r ∈ rs, r.severity ∈ allowedSeverities o := by
  rw [runValidate_verdict o sg dg rx focus conf rs h]
  unfold allWaived
  simp [List.all_eq_true]

/-- conforms(default) → conforms(allow_infos) → conforms(allow_warnings) -/
theorem relax_chain (o : Opts) (hab : o.abortOnFirst = false) (sg dg : Graph) (rx : Regex) (focus : List Term)
    (c0 c1 c2 : Bool) (r0 r1 r2 : List Result)
    (h0 : runValidate (o.withWaivers false false) sg dg rx focus [] = .ok (c0, r0))
    (h1 : runValidate (o.withWaivers true false) sg dg rx focus [] = .ok (c1, r1))
    (h2 : runValidate (o.withWaivers false true) sg dg rx focus [] = .ok (c2, r2)) :
    (c0 = true → c1 = true) ∧ (c1 = true → c2 = true) := by
  have e01 : r0 = r1 := by
    have a := runValidate_results_indep o false false hab sg dg rx focus
    have b := runValidate_results_indep o true false hab sg dg rx focus
    rw [h0] at a; rw [h1] at b; rw [← b] at a; simpa [Out.results] using a
  have e12 : r1 = r2 := by
    have a := runValidate_results_indep o true false hab sg dg rx focus
    have b := runValidate_results_indep o false true hab sg dg rx focus
    rw [h1] at a; rw [h2] at b; rw [← b] at a; simpa [Out.results] using a
  subst e01; subst e12
  rw [runValidate_verdict _ sg dg rx focus c0 r0 h0, runValidate_verdict _ sg dg rx focus c1 r0 h1,
    runValidate_verdict _ sg dg rx focus c2 r0 h2]
  constructor
  · exact allWaived_mono _ _ r0 (by intro t ht; simp [allowedSeverities, Opts.withWaivers] at ht)
  · exact allWaived_mono _ _ r0 (by
      intro t ht; simp [allowedSeverities, Opts.withWaivers] at ht ⊢; exact Or.inl ht)

/-! non-vacuity: the repaired defect — sh:not of an Info-severity shape — under allow_infos -/
def exN (s : String) : Term := .iri ("http://ex.test/" ++ s)
def sgNot : Graph :=
  [⟨exN "S", rdfType, shNodeShape⟩, ⟨exN "S", shTargetNode, exN "a"⟩, ⟨exN "S", shNot, exN "I"⟩,
   ⟨exN "I", rdfType, shNodeShape⟩, ⟨exN "I", shSeverity, shInfo⟩, ⟨exN "I", sh "class", exN "C"⟩]
example : (runValidate {} sgNot [] (fun _ _ _ => none) [] []).toOption.map (·.1) = some true := by decide
example : (runValidate { allowInfos := true } sgNot [] (fun _ _ _ => none) [] []).toOption.map (·.1) = some true := by decide

end Pyshacl.C11
