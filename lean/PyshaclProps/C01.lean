import PyshaclModel
namespace Pyshacl.C01
end Pyshacl.C01
