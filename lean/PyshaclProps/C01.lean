/-
  C01 — Core constraint components flag exactly the value nodes the SHACL text names.

  Statements are about the executable model (`Core.lean`, `Eval.lean`: mirrors of
  pyshacl/constraints/core/*.py, rdfutil/compare.py, Shape.validate), which the `validate` op of the
  correspondence check compares with /repo on every run.  `Spec.*` is the declarative reading of the
  W3C Recommendation (CoreSpec.lean, CoreSpec2.lean); comparisons are the SPARQL 1.1 operator mapping.
  Every theorem quantifies over all shapes, all data graphs, any number of focus and value nodes.

  Hypotheses, and why they are there:
  * `TermInScope` (value-range, lessThan): literals of the datatypes the property quantifies over —
    pySHACL models only equality for python values of other classes (xsd:time, durations, …).
  * `NotBothLang`: the ordering of two language-tagged strings is left unspecified by the property (SPARQL: type
    error; rdflib and therefore pySHACL order them by tag, then lexical form — the model follows the code).
  * `RdflibLit` (sh:datatype): what rdflib guarantees about `Literal.value` / `ill_typed` (trusted base).
  * `n ≠ 0` (sh:minLength): blank nodes under `sh:minLength 0` are left unspecified by the property.
  * sh:closed is `…_partial`: known finding C01:closed-exempts-rdf:type-rdfs:Resource.
-/
import PyshaclProofs.CoreSpec2
import PyshaclProofs.CoreCompose
namespace Pyshacl.C01
open Pyshacl Pyshacl.Spec

/-! ### dispatch: parameter → component → sh:sourceConstraintComponent (regenerated table) -/

/-- every Core parameter of the property is dispatched to the component the Recommendation names
    (checked against `Generated/Dispatch.lean`, re-extracted from `CONSTRAINT_PARAMETERS_MAP` on every run) -/
theorem dispatch_table_ok :
    paramKind (sh "class") = some .cls ∧ paramKind (sh "datatype") = some .datatype ∧
    paramKind (sh "nodeKind") = some .nodeKind ∧ paramKind (sh "minCount") = some .minCount ∧
    paramKind (sh "maxCount") = some .maxCount ∧ paramKind (sh "minExclusive") = some .minExclusive ∧
    paramKind (sh "minInclusive") = some .minInclusive ∧ paramKind (sh "maxExclusive") = some .maxExclusive ∧
    paramKind (sh "maxInclusive") = some .maxInclusive ∧ paramKind (sh "minLength") = some .minLength ∧
    paramKind (sh "maxLength") = some .maxLength ∧ paramKind (sh "pattern") = some .pattern ∧
    paramKind (sh "languageIn") = some .languageIn ∧ paramKind (sh "uniqueLang") = some .uniqueLang ∧
    paramKind (sh "equals") = some .equals ∧ paramKind (sh "disjoint") = some .disjoint ∧
    paramKind (sh "lessThan") = some .lessThan ∧ paramKind (sh "lessThanOrEquals") = some .lessThanOrEquals ∧
    paramKind (sh "hasValue") = some .hasValue ∧ paramKind (sh "in") = some .inC ∧
    paramKind (sh "closed") = some .closed ∧ paramKind (sh "ignoredProperties") = some .closed := by
  decide

/-- each component reports under the IRI the Recommendation gives it -/
theorem component_iris_ok :
    componentIri .cls = sh "ClassConstraintComponent" ∧ componentIri .datatype = sh "DatatypeConstraintComponent" ∧
    componentIri .nodeKind = sh "NodeKindConstraintComponent" ∧ componentIri .minCount = sh "MinCountConstraintComponent" ∧
    componentIri .maxCount = sh "MaxCountConstraintComponent" ∧
    componentIri .minExclusive = sh "MinExclusiveConstraintComponent" ∧
    componentIri .minInclusive = sh "MinInclusiveConstraintComponent" ∧
    componentIri .maxExclusive = sh "MaxExclusiveConstraintComponent" ∧
    componentIri .maxInclusive = sh "MaxInclusiveConstraintComponent" ∧
    componentIri .minLength = sh "MinLengthConstraintComponent" ∧ componentIri .maxLength = sh "MaxLengthConstraintComponent" ∧
    componentIri .pattern = sh "PatternConstraintComponent" ∧ componentIri .languageIn = sh "LanguageInConstraintComponent" ∧
    componentIri .uniqueLang = sh "UniqueLangConstraintComponent" ∧ componentIri .equals = sh "EqualsConstraintComponent" ∧
    componentIri .disjoint = sh "DisjointConstraintComponent" ∧ componentIri .lessThan = sh "LessThanConstraintComponent" ∧
    componentIri .lessThanOrEquals = sh "LessThanOrEqualsConstraintComponent" ∧
    componentIri .hasValue = sh "HasValueConstraintComponent" ∧ componentIri .inC = sh "InConstraintComponent" ∧
    componentIri .closed = sh "ClosedConstraintComponent" := by
  decide

/-- one instance per component per shape, however many parameter triples the shape carries -/
theorem one_instance_per_component (sg : Graph) (node : Term) (adv : Bool) :
    (shapeComponents sg node adv).Nodup := shapeComponents_nodup sg node adv

/-! ### results of a shape = union of the results of its components; verdict -/

/-- in a complete run the results a shape reports for its value nodes are exactly the results of each
    of its components (no component is skipped, none runs twice, nothing else is added) -/
theorem shape_results_union (c : Ctx) (rec' : Rec) (s : Shape) (fl : List Term) (path : Option (List PathEntry))
    (hab : c.o.abortOnFirst = false) (conf : Bool) (rs : List Result)
    (h : validateCore c rec' s fl path = .ok (conf, rs)) :
    ∃ fv, valueNodes c.toEnv s fl = .ok fv ∧
      ∃ (g1 : CKind → Bool × List Result) (g2 : Component → Bool × List Result) (comps : List Component),
        c.components = .ok comps ∧
        (∀ k ∈ shapeComponents c.sg s.node c.o.advanced,
          evalConstraint c.toEnv rec' s k fv (path.getD [] ++ [.shape s.node] ++ [.constr k s.node]) = .ok (g1 k)) ∧
        (∀ comp ∈ applicableComponents c.sg comps s.node, evalComponent c.toEnv s comp fv = .ok (g2 comp)) ∧
        rs = (shapeComponents c.sg s.node c.o.advanced).flatMap (fun k => (g1 k).2) ++
             (applicableComponents c.sg comps s.node).flatMap (fun comp => (g2 comp).2) :=
  validateCore_results c rec' s fl path hab conf rs h

/-- the value nodes of a node shape are the focus nodes themselves -/
theorem node_shape_value_nodes (c : Env) (s : Shape) (hs : s.isProp = false) (foci : List Term) :
    valueNodes c s foci = .ok (foci.map fun f => (f, [f])) := by
  simp [valueNodes, hs]

/-- the verdict is `conforms` exactly when the set of results is empty (no severity option given) -/
theorem verdict_iff_no_results (o : Opts) (hi : o.allowInfos = false) (hw : o.allowWarnings = false)
    (sg dg : Graph) (rx : Regex) (focus : List Term) (conf : Bool) (rs : List Result)
    (h : runValidate o sg dg rx focus [] = .ok (conf, rs)) : conf = true ↔ rs = [] := by
  rw [runValidate_verdict o sg dg rx focus conf rs h, allWaived_no_option o hi hw]
  cases rs <;> simp

/-! ### wiring: which evaluator `Shape.validate` runs for a component, with which parameters -/

theorem wiring (c : Env) (rec : Rec) (s : Shape) (fv : FV) (path : List PathEntry) :
    evalConstraint c rec s .cls fv path = ofResults (evalClass s c.dg fv (c.sg.objects s.node (sh "class"))) ∧
    evalConstraint c rec s .equals fv path = ofResults (evalEquals s c.dg fv (dedup (c.sg.objects s.node (sh "equals")))) ∧
    evalConstraint c rec s .disjoint fv path = ofResults (evalDisjoint s c.dg fv (dedup (c.sg.objects s.node (sh "disjoint")))) ∧
    evalConstraint c rec s .hasValue fv path = ofResults (evalHasValue s fv (dedup (c.sg.objects s.node (sh "hasValue")))) :=
  ⟨rfl, rfl, rfl, rfl⟩

theorem wiring_single (c : Env) (rec : Rec) (s : Shape) (fv : FV) (path : List PathEntry) (r : Term) :
    (dedup (c.sg.objects s.node (sh "datatype")) = [r] →
      evalConstraint c rec s .datatype fv path = ofResults (evalDatatype s fv r)) ∧
    (dedup (c.sg.objects s.node (sh "nodeKind")) = [r] →
      evalConstraint c rec s .nodeKind fv path = ofResults (evalNodeKind s fv r)) := by
  constructor <;> intro h <;> simp [evalConstraint, h]

theorem wiring_range (c : Env) (rec : Rec) (s : Shape) (fv : FV) (path : List PathEntry) :
    ((c.sg.objects s.node (sh "minExclusive")).all (·.isLit) = true →
      evalConstraint c rec s .minExclusive fv path =
        ofResults (evalRange s .minExclusive fv (c.sg.objects s.node (sh "minExclusive")) (fun r => r > 0))) ∧
    ((c.sg.objects s.node (sh "minInclusive")).all (·.isLit) = true →
      evalConstraint c rec s .minInclusive fv path =
        ofResults (evalRange s .minInclusive fv (c.sg.objects s.node (sh "minInclusive")) (fun r => r ≥ 0))) ∧
    ((c.sg.objects s.node (sh "maxExclusive")).all (·.isLit) = true →
      evalConstraint c rec s .maxExclusive fv path =
        ofResults (evalRange s .maxExclusive fv (c.sg.objects s.node (sh "maxExclusive")) (fun r => r < 0))) ∧
    ((c.sg.objects s.node (sh "maxInclusive")).all (·.isLit) = true →
      evalConstraint c rec s .maxInclusive fv path =
        ofResults (evalRange s .maxInclusive fv (c.sg.objects s.node (sh "maxInclusive")) (fun r => r ≤ 0))) := by
  refine ⟨?_, ?_, ?_, ?_⟩ <;> intro h <;>
  · have h' : ∀ b ∈ _, Term.isLit b = true := List.all_eq_true.1 h
    simp only [evalConstraint]
    rw [if_neg]
    simp only [List.any_eq_true, Bool.not_eq_true', not_exists, not_and]
    intro b hb; simp [h' b hb]

/-! ### the components against the W3C text -/

theorem class_exact (s : Shape) (dg : Graph) (fv : FV) (classes : List Term) (r : Result) :
    r ∈ evalClass s dg fv classes ↔
      ∃ c ∈ classes, ∃ f vs, (f, vs) ∈ fv ∧ ∃ v ∈ vs, ¬ ClassOk dg v c ∧ r = mkResult s .cls f (some v) :=
  Spec.class_exact s dg fv classes r

theorem datatype_exact (s : Shape) (fv : FV) (rule : Term)
    (hrule : rule ≠ rdfsLiteral ∧ rule ≠ rdfsDatatype ∧ rule ≠ .iri "")
    (hcons : ∀ f vs, (f, vs) ∈ fv → ∀ v ∈ vs, ∀ l, v = .lit l → RdflibLit l) (r : Result) :
    r ∈ evalDatatype s fv rule ↔
      ∃ f vs, (f, vs) ∈ fv ∧ ∃ v ∈ vs, ¬ DatatypeOk v rule ∧ r = mkResult s .datatype f (some v) :=
  Spec.datatype_exact s fv rule hrule hcons r

theorem nodeKind_exact (s : Shape) (fv : FV) (rule : Term) (r : Result) :
    r ∈ evalNodeKind s fv rule ↔
      ∃ f vs, (f, vs) ∈ fv ∧ ∃ v ∈ vs, ¬ NodeKindOk v rule ∧ r = mkResult s .nodeKind f (some v) :=
  Spec.nodeKind_exact s fv rule r

theorem minCount_exact (s : Shape) (fv : FV) (n : Int) (r : Result) :
    r ∈ evalMinCount s fv n ↔
      ∃ f vs, (f, vs) ∈ fv ∧ (vs.length : Int) < n ∧ r = mkResult s .minCount f none :=
  Spec.minCount_exact s fv n r

theorem maxCount_exact (s : Shape) (fv : FV) (n : Int) (r : Result) :
    r ∈ evalMaxCount s fv n ↔
      ∃ f vs, (f, vs) ∈ fv ∧ (vs.length : Int) > n ∧ r = mkResult s .maxCount f none :=
  Spec.maxCount_exact s fv n r

/-- the comparison lemma: sign tests on `compare_literal` = SPARQL `<`, `<=` returning true -/
theorem comparison_is_sparql (a b : Lit) (ha : InScope a) (hb : InScope b) (hlang : ¬ BothLang a b) :
    (cmpFlag a b (fun c => c < 0) = true ↔ sparqlLt a b = some true) ∧
    (cmpFlag a b (fun c => c > 0) = true ↔ sparqlLt b a = some true) ∧
    (cmpFlag a b (fun c => c ≤ 0) = true ↔ sparqlLe a b = some true) ∧
    (cmpFlag a b (fun c => c ≥ 0) = true ↔ sparqlLe b a = some true) :=
  Spec.cmpFlag_spec a b ha hb hlang

theorem minExclusive_exact (s : Shape) (fv : FV) (bounds : List Term)
    (hscope : (∀ b ∈ bounds, TermInScope b) ∧ ∀ f vs, (f, vs) ∈ fv → ∀ v ∈ vs, TermInScope v ∧ ∀ b ∈ bounds, NotBothLang v b) (r : Result) :
    r ∈ evalRange s .minExclusive fv bounds (fun c => c > 0) ↔
      ∃ b ∈ bounds, ∃ f vs, (f, vs) ∈ fv ∧ ∃ v ∈ vs, ¬ CmpTrue sparqlLt b v ∧ r = mkResult s .minExclusive f (some v) :=
  Spec.minExclusive_exact s fv bounds hscope r

theorem minInclusive_exact (s : Shape) (fv : FV) (bounds : List Term)
    (hscope : (∀ b ∈ bounds, TermInScope b) ∧ ∀ f vs, (f, vs) ∈ fv → ∀ v ∈ vs, TermInScope v ∧ ∀ b ∈ bounds, NotBothLang v b) (r : Result) :
    r ∈ evalRange s .minInclusive fv bounds (fun c => c ≥ 0) ↔
      ∃ b ∈ bounds, ∃ f vs, (f, vs) ∈ fv ∧ ∃ v ∈ vs, ¬ CmpTrue sparqlLe b v ∧ r = mkResult s .minInclusive f (some v) :=
  Spec.minInclusive_exact s fv bounds hscope r

theorem maxExclusive_exact (s : Shape) (fv : FV) (bounds : List Term)
    (hscope : (∀ b ∈ bounds, TermInScope b) ∧ ∀ f vs, (f, vs) ∈ fv → ∀ v ∈ vs, TermInScope v ∧ ∀ b ∈ bounds, NotBothLang v b) (r : Result) :
    r ∈ evalRange s .maxExclusive fv bounds (fun c => c < 0) ↔
      ∃ b ∈ bounds, ∃ f vs, (f, vs) ∈ fv ∧ ∃ v ∈ vs, ¬ CmpTrue sparqlLt v b ∧ r = mkResult s .maxExclusive f (some v) :=
  Spec.maxExclusive_exact s fv bounds hscope r

theorem maxInclusive_exact (s : Shape) (fv : FV) (bounds : List Term)
    (hscope : (∀ b ∈ bounds, TermInScope b) ∧ ∀ f vs, (f, vs) ∈ fv → ∀ v ∈ vs, TermInScope v ∧ ∀ b ∈ bounds, NotBothLang v b) (r : Result) :
    r ∈ evalRange s .maxInclusive fv bounds (fun c => c ≤ 0) ↔
      ∃ b ∈ bounds, ∃ f vs, (f, vs) ∈ fv ∧ ∃ v ∈ vs, ¬ CmpTrue sparqlLe v b ∧ r = mkResult s .maxInclusive f (some v) :=
  Spec.maxInclusive_exact s fv bounds hscope r

theorem minLength_exact (s : Shape) (fv : FV) (n : Int) (hn : n ≠ 0) (r : Result) :
    r ∈ evalMinLength s fv [n] ↔
      ∃ f vs, (f, vs) ∈ fv ∧ ∃ v ∈ vs, ¬ (∃ str, strOf v = some str ∧ (str.length : Int) ≥ n) ∧
        r = mkResult s .minLength f (some v) :=
  Spec.minLength_exact s fv n hn r

theorem maxLength_exact (s : Shape) (fv : FV) (n : Int) (r : Result) :
    r ∈ evalMaxLength s fv [n] ↔
      ∃ f vs, (f, vs) ∈ fv ∧ ∃ v ∈ vs, ¬ (∃ str, strOf v = some str ∧ (str.length : Int) ≤ n) ∧
        r = mkResult s .maxLength f (some v) :=
  Spec.maxLength_exact s fv n r

theorem pattern_exact (s : Shape) (fv : FV) (rx : Regex) (patterns : List Term) (flags : String)
    (rs : List Result) (h : evalPattern s fv rx patterns flags = .ok rs) (r : Result) :
    r ∈ rs ↔ ∃ p ∈ patterns, ∃ f vs, (f, vs) ∈ fv ∧ ∃ v ∈ vs,
      ¬ (∃ lp str, p = .lit lp ∧ strOf v = some str ∧ rx lp.lex flags str = some true) ∧
      r = mkResult s .pattern f (some v) :=
  Spec.pattern_exact s fv rx patterns flags rs h r

theorem languageIn_exact (s : Shape) (fv : FV) (ranges : List String) (r : Result) :
    r ∈ evalLanguageIn s fv ranges ↔
      ∃ f vs, (f, vs) ∈ fv ∧ ∃ v ∈ vs,
        ¬ (∃ l, v = .lit l ∧ ∃ rg ∈ ranges, LangMatches l.lang rg) ∧
        r = mkResult s .languageIn f (some v) :=
  Spec.languageIn_exact s fv ranges r

/-- sh:uniqueLang: per focus node one result per language tag used by ≥ 2 value nodes, each tag once -/
theorem uniqueLang_exact (s : Shape) (fv : FV) :
    evalUniqueLang s fv true =
        fv.flatMap (fun x => (dupLangs x.2).map fun _ => mkResult s .uniqueLang x.1 none) ∧
    (∀ vs t, t ∈ dupLangs vs ↔ 2 ≤ (vs.filter fun v => langOf v = some t).length) ∧
    (∀ vs, (dupLangs vs).Nodup) ∧ evalUniqueLang s fv false = [] :=
  ⟨Spec.uniqueLang_eq s fv, Spec.mem_dupLangs, Spec.dupLangs_nodup, Spec.uniqueLang_off s fv⟩

theorem equals_exact (s : Shape) (dg : Graph) (fv : FV) (props : List Term) (r : Result) :
    r ∈ evalEquals s dg fv props ↔
      ∃ p ∈ props, ∃ f vs, (f, vs) ∈ fv ∧ ∃ v,
        ((v ∈ vs ∧ (⟨f, p, v⟩ : Triple) ∉ dg) ∨ ((⟨f, p, v⟩ : Triple) ∈ dg ∧ v ∉ vs)) ∧
        r = mkResult s .equals f (some v) :=
  Spec.equals_exact s dg fv props r

theorem disjoint_exact (s : Shape) (dg : Graph) (fv : FV) (props : List Term) (r : Result) :
    r ∈ evalDisjoint s dg fv props ↔
      ∃ p ∈ props, ∃ f vs, (f, vs) ∈ fv ∧ ∃ v ∈ vs, (⟨f, p, v⟩ : Triple) ∈ dg ∧
        r = mkResult s .disjoint f (some v) :=
  Spec.disjoint_exact s dg fv props r

theorem lessThan_exact (s : Shape) (dg : Graph) (fv : FV) (props : List Term)
    (hscope : (∀ t ∈ dg, TermInScope t.o) ∧ ∀ f vs, (f, vs) ∈ fv → ∀ v ∈ vs, TermInScope v ∧ ∀ t ∈ dg, NotBothLang v t.o)
    (rs : List Result) (h : evalLessThan s .lessThan dg fv props (fun r => r < 0) = .ok rs) (r : Result) :
    r ∈ rs ↔ ∃ p ∈ props, ∃ f vs, (f, vs) ∈ fv ∧ ∃ v ∈ vs, ∃ c, (⟨f, p, c⟩ : Triple) ∈ dg ∧
      ¬ CmpTrue sparqlLt v c ∧ r = mkResult s .lessThan f (some v) :=
  Spec.lessThan_exact s _ dg fv props _ (fun v c => CmpTrue sparqlLt v c)
    (fun v c hv hc hl => (pairOk_spec v c hv hc hl).1) hscope rs h r

theorem lessThanOrEquals_exact (s : Shape) (dg : Graph) (fv : FV) (props : List Term)
    (hscope : (∀ t ∈ dg, TermInScope t.o) ∧ ∀ f vs, (f, vs) ∈ fv → ∀ v ∈ vs, TermInScope v ∧ ∀ t ∈ dg, NotBothLang v t.o)
    (rs : List Result) (h : evalLessThan s .lessThanOrEquals dg fv props (fun r => r ≤ 0) = .ok rs) (r : Result) :
    r ∈ rs ↔ ∃ p ∈ props, ∃ f vs, (f, vs) ∈ fv ∧ ∃ v ∈ vs, ∃ c, (⟨f, p, c⟩ : Triple) ∈ dg ∧
      ¬ CmpTrue sparqlLe v c ∧ r = mkResult s .lessThanOrEquals f (some v) :=
  Spec.lessThan_exact s _ dg fv props _ (fun v c => CmpTrue sparqlLe v c)
    (fun v c hv hc hl => (pairOk_spec v c hv hc hl).2) hscope rs h r

theorem hasValue_exact (s : Shape) (fv : FV) (vals : List Term) (r : Result) :
    r ∈ evalHasValue s fv vals ↔
      ∃ hv ∈ vals, ∃ f vs, (f, vs) ∈ fv ∧ hv ∉ vs ∧ r = mkResult s .hasValue f none :=
  Spec.hasValue_exact s fv vals r

theorem in_exact (s : Shape) (fv : FV) (members : List Term) (r : Result) :
    r ∈ evalIn s fv members ↔
      ∃ f vs, (f, vs) ∈ fv ∧ ∃ v ∈ vs, v ∉ members ∧ r = mkResult s .inC f (some v) :=
  Spec.in_exact s fv members r

theorem closed_exact_partial (s : Shape) (dg : Graph) (fv : FV) (ignored allowed : List Term) (r : Result) :
    r ∈ evalClosed s dg fv true ignored allowed ↔
      ∃ f vs, (f, vs) ∈ fv ∧ ∃ v ∈ vs, ∃ p o, (⟨v, p, o⟩ : Triple) ∈ dg ∧ p ∉ ignored ∧ p ∉ allowed ∧
        ¬ (p = rdfType ∧ o = rdfsResource) ∧
        r = mkResult s .closed f (some o) (resultPath := some p) :=
  Spec.closed_exact_partial s dg fv ignored allowed r

/-- per-value results are exact also in multiplicity: one result per (focus, value) pair, in order -/
theorem per_value_no_duplicates (s : Shape) (k : CKind) (fv : FV) (ok : Term → Term → Bool) :
    perValue s k fv ok =
      fv.flatMap fun x => (x.2.filter fun v => !ok x.1 v).map fun v => mkResult s k x.1 (some v) :=
  Spec.perValue_eq s k fv ok

/-- every result carries the component IRI, the source shape, its severity and its messages -/
theorem result_fields (s : Shape) (k : CKind) (fv : FV) (ok : Term → Term → Bool) (r : Result)
    (h : r ∈ perValue s k fv ok) :
    r.component = componentIri k ∧ r.shape = s.node ∧ r.severity = s.severity ∧ r.messages = s.messages ∧
    (∃ f vs, (f, vs) ∈ fv ∧ r.focus = f ∧ ∃ v ∈ vs, r.value = some v) :=
  Spec.perValue_fields h

/-! ### the recorded deviation, as a closed counterexample (known finding, status open) -/

def exN (s : String) : Term := .iri ("http://ex.test/" ++ s)
def shapeS : Shape := ⟨exN "S", false, none, false, shViolation, []⟩

/-- W3C: the triple (a rdf:type rdfs:Resource) has a predicate that is neither a property-shape path
    nor ignored, so it is a violation of `sh:closed true`; pySHACL reports nothing -/
theorem closed_counterexample :
    evalClosed shapeS [⟨exN "a", rdfType, rdfsResource⟩] [(exN "a", [exN "a"])] true [] [] = [] := by
  decide

/-! ### non-vacuity: hypotheses are satisfiable and the components do report -/

def intLit (z : Int) : Lit := ⟨toString z, xsd "integer", "", .int z, false⟩
def dtLit : Lit := ⟨"2020-01-01T00:00:00", xsd "dateTime", "", .dateTime false 1577836800000000, false⟩

example : InScope (intLit 5) ∧ InScope dtLit ∧ RdflibLit (intLit 5) := by
  refine ⟨by simp [InScope, intLit], by simp [InScope, dtLit], ⟨?_, ?_, ?_⟩⟩ <;> decide

/-- a dateTime bound does not accept an integer (the defect repaired by 7a3f3fa): one result -/
example : (evalRange shapeS .minInclusive [(exN "a", [.lit (intLit 5)])] [.lit dtLit] (fun c => c ≥ 0)).length = 1 := by
  decide
/-- and an integer bound accepts a greater integer: no result -/
example : evalRange shapeS .minInclusive [(exN "a", [.lit (intLit 5)])] [.lit (intLit 3)] (fun c => c ≥ 0) = [] := by
  decide

end Pyshacl.C01
