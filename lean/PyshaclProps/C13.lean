/-
  C13 — focus_nodes / use_shapes select a sub-report of the full validation.

  Model-level statements (every shapes graph, data graph, option vector, nesting depth):
  * the filter touches nothing but the focus list of shapes that resolve their own targets: every nested
    evaluation (value nodes reached through sh:property, sh:node, logical, qualified shapes) is literally the
    same computation with and without `focus_nodes`  — so filtering cannot hide or invent a nested result;
  * under `focus_nodes = F` the focus list of a shape has exactly the members the unfiltered focus list has on
    any shapes graph in which the shape's targets are narrowed to the IRIs of F it already targets (the
    property's target-rewritten copy), and the shape is skipped in the one run iff it is in the other;
  * `use_shapes = U` evaluates exactly the shapes of U (shape cache = U and what U references);
  * both options: every shape of U is applied to every node of F, whatever it targets.
  What is not proved here (`…_partial` in the sense of DESIGN.md): that the report is a function of the focus
  list as a set (order-independence of the constraint loop) and that `_build_node_shape_cache_from_list`
  yields the same `Shape` objects as the full harvest — both are compared on the real code by the harness
  (run with the options vs run on the rewritten shapes graph).
-/
import PyshaclProofs.FocusProofs
import PyshaclProofs.FocusSet
namespace Pyshacl.C13
open Pyshacl

theorem nested_checks_unfiltered (c : Ctx) (fuel : Nat) (s : Shape) (fs : List Term) (path : Option (List PathEntry)) :
    validateShape c.noFilter fuel s (some fs) path = validateShape c fuel s (some fs) path :=
  validateShape_explicit c fuel s fs path

/-- `focus_nodes = F` ≡ targets narrowed to the nodes of F the shape already targets (focus lists as sets) -/
theorem focus_narrows_targets_partial (c c' : Ctx) (s s' : Shape) (F : List Term) (hF : F ≠ [])
    (hc : c.o.focusNodes = some F) (hc' : c'.o.focusNodes = none) (hdg : c'.dg = c.dg) (hnode : s'.node = s.node)
    (hrewrite : ∀ n, IsTarget c'.sg c.dg s.node n ↔ (IsTarget c.sg c.dg s.node n ∧ n.isIri = true ∧ n ∈ F)) :
    (resolveFocus c s none = none ↔ resolveFocus c' s' none = none) ∧
    ∀ fl fl', resolveFocus c s none = some fl → resolveFocus c' s' none = some fl' → ∀ n, n ∈ fl ↔ n ∈ fl' := by
  have h1 := resolveFocus_filtered c s F [] hF hc
  have h2 := resolveFocus_unfiltered c' s' [] hc'
  simp only [List.append_nil] at h1 h2
  rw [hdg, hnode] at h2
  have key : ∀ n, n ∈ focusNodes c'.sg c.dg s.node ↔ (n ∈ focusNodes c.sg c.dg s.node ∧ n.isIri = true ∧ n ∈ F) := by
    intro n
    rw [focus_exact, focus_exact]
    exact hrewrite n
  constructor
  · rw [h1.2, h2.2]
    constructor
    · intro h
      cases hl : focusNodes c'.sg c.dg s.node with
      | nil => rfl
      | cons x xs => exact absurd ((key x).1 (by rw [hl]; simp)) (h x)
    · intro h n hn
      have := (key n).2 hn
      rw [h] at this; cases this
  · intro fl fl' hfl hfl' n
    rw [h1.1 fl hfl n, h2.1 fl' hfl' n, key n]

/-- both options: each selected shape is applied to each node of F irrespective of target declarations -/
theorem both_applies_each_shape_to_each_node (c : Ctx) (s : Shape) (F : List Term) (hF : F ≠ []) :
    ∃ fl, resolveFocus c s (some F) = some fl ∧ ∀ n, n ∈ fl ↔ n ∈ F :=
  resolveFocus_both c s F [] hF

/-- `use_shapes = U`: the run evaluates exactly the shapes named in U (in that order), over the shape cache
    gathered from U; nothing else is validated -/
theorem use_shapes_runs_selected_only (o : Opts) (hadv : o.advanced = false) (sg dg : Graph) (rx : Regex)
    (focus U : List Term) (hU : U ≠ []) (conf : Bool) (rs : List Result)
    (h : runValidate o sg dg rx focus U = .ok (conf, rs)) :
    ∃ shapes selected, buildShapesFromList sg U = .ok shapes ∧ selected.map (·.node) = U ∧
      (∀ s ∈ selected, s ∈ shapes) ∧
      validateAll ⟨⟨sg, dg, shapes, rx, fun _ _ => none, fun _ => none, findComponents sg, fun _ _ _ _ => none, [], [], {}⟩, o⟩
        selected (if focus = [] then none else some focus) = .ok (conf, rs) := by
  unfold runValidate at h
  simp only [hadv, Bool.false_eq_true, if_false] at h
  split at h
  · cases h
  · cases U with
    | nil => exact absurd rfl hU
    | cons u us =>
      split at h
      · cases h
      · rename_i shapes hshapes
        split at h
        · cases h
        · rename_i selected hsel
          obtain ⟨hm1, hm2⟩ := mapE_lookup shapes _ _ selected hsel
          refine ⟨shapes, selected, hshapes, hm1, hm2, ?_⟩
          · split at h
            · rename_i hf; simp only [hf, if_true]; exact h
            · rename_i hf; simp only [hf, if_false]; exact h

/-- **the sub-report is a function of the selected *set* of focus nodes**: together with `focus_narrows_targets_partial`
    (the focus list under `focus_nodes = F` has the members of the narrowed target set) this gives: whatever list of focus
    nodes with those members a shape is evaluated on — the filtered target list, or the targets of a target-rewritten
    copy — verdict and result set are the same (same shapes graph otherwise; complete runs, non-advanced) -/
theorem report_depends_on_focus_set (c : Ctx) (hab : c.o.abortOnFirst = false) (hadv : c.o.advanced = false) (rec' : Rec)
    (s : Shape) (fl fl' : List Term) (hm : ∀ f, f ∈ fl ↔ f ∈ fl') (path : Option (List PathEntry))
    (conf : Bool) (rs : List Result) (h : validateCore c rec' s fl path = .ok (conf, rs)) :
    ∃ rs', validateCore c rec' s fl' path = .ok (conf, rs') ∧ ∀ r, r ∈ rs ↔ r ∈ rs' :=
  validateCore_focus_set c hab hadv rec' s fl fl' hm path conf rs h

/-! non-vacuity: the repaired defect — a violating value node outside F is still reported for the selected focus node -/
def exN (s : String) : Term := .iri ("http://ex.test/" ++ s)
def sgEx : Graph :=
  [⟨exN "S", rdfType, shNodeShape⟩, ⟨exN "S", shTargetNode, exN "a"⟩, ⟨exN "S", shTargetNode, exN "b"⟩,
   ⟨exN "S", shProperty, .bnode "p"⟩, ⟨.bnode "p", shPath, exN "q"⟩, ⟨.bnode "p", shNode, exN "N"⟩,
   ⟨exN "N", rdfType, shNodeShape⟩, ⟨exN "N", sh "class", exN "C"⟩]
def dgEx : Graph := [⟨exN "a", exN "q", exN "x"⟩]
example : (runValidate {} sgEx dgEx (fun _ _ _ => none) [exN "a"] []).toOption.map (fun p => (p.1, p.2.length)) = some (false, 1) := by
  decide
example : (runValidate {} sgEx dgEx (fun _ _ _ => none) [exN "b"] []).toOption.map (fun p => (p.1, p.2.length)) = some (true, 0) := by
  decide

end Pyshacl.C13
