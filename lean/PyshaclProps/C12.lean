/-
  C12 — abort_on_first changes how much is reported, never what is decided.
  Proved here for every input and every option vector (abort on or off, any waivers): the verdict is
  a function of the severities of the reported results, and a non-conforming verdict always comes
  with at least one (unwaived) result; and — `abort_same_verdict` — whenever the complete run returns a
  verdict, the run with abort_on_first returns the same verdict (every waiver combination, focus_nodes /
  use_shapes selection, nesting depth).  The proof is a refinement: every nested evaluation, constraint
  component and loop of the early-exit run decides what the complete one decides (`AbortProofs.lean`).
  `abort_results_subset`: every result of the run with abort_on_first is a result of the complete run, possibly
  with fewer nested details (`Result.Le`: all fields equal, every sh:detail below some sh:detail of the complete
  run's result, recursively) — the same refinement with the result lists carried along (`AbortSubset.lean`).
  Both are also checked on the real code by the metamorphic oracle (B).
-/
import PyshaclProofs.AbortProofs
import PyshaclProofs.AbortSubset
namespace Pyshacl.C12
open Pyshacl

theorem nonconforming_has_unwaived_result (o : Opts) (sg dg : Graph) (rx : Regex) (focus : List Term)
    (rs : List Result) (h : runValidate o sg dg rx focus [] = .ok (false, rs)) :
    ∃ r ∈ rs, r.severity ∉ allowedSeverities o := by
  have := runValidate_verdict o sg dg rx focus false rs h
  unfold allWaived at this
  have h2 : ¬ (rs.all fun r => decide (r.severity ∈ allowedSeverities o)) = true := by rw [← this]; simp
  rw [List.all_eq_true] at h2
  simpa using h2

theorem conforming_iff_all_waived_even_with_abort (o : Opts) (sg dg : Graph) (rx : Regex) (focus : List Term)
    (conf : Bool) (rs : List Result) (h : runValidate { o with abortOnFirst := true } sg dg rx focus [] = .ok (conf, rs)) :
    conf = allWaived o rs := by
  rw [runValidate_verdict _ sg dg rx focus conf rs h]
  exact allWaived_congr o _ rfl rfl rs

/-- **abort_on_first never changes what is decided** -/
theorem abort_same_verdict (o : Opts) (h0 : o.abortOnFirst = false) (sg dg : Graph) (rx : Regex)
    (focus useShapes : List Term) (conf : Bool) (rs : List Result)
    (h : runValidate o sg dg rx focus useShapes = .ok (conf, rs)) :
    ∃ rs', runValidate { o with abortOnFirst := true } sg dg rx focus useShapes = .ok (conf, rs') :=
  runValidate_abort_same_verdict o h0 sg dg rx focus useShapes conf rs h

/-- **every reported result is also a result of the complete run (possibly with fewer nested details)** -/
theorem abort_results_subset (o : Opts) (h0 : o.abortOnFirst = false) (sg dg : Graph) (rx : Regex)
    (focus useShapes : List Term) (conf : Bool) (rs : List Result)
    (h : runValidate o sg dg rx focus useShapes = .ok (conf, rs)) :
    ∃ rs', runValidate { o with abortOnFirst := true } sg dg rx focus useShapes = .ok (conf, rs') ∧
      ∀ r' ∈ rs', ∃ r ∈ rs, Result.Le r' r := by
  obtain ⟨rs', h1, hle⟩ := runValidate_abort_subset o h0 sg dg rx focus useShapes conf rs h
  exact ⟨rs', h1, (listLe_iff rs' rs).1 hle⟩

/-- what "below" means: every field but the details agrees, and the details are below details -/
theorem le_fields (r' r : Result) (h : Result.Le r' r) :
    r'.focus = r.focus ∧ r'.value = r.value ∧ r'.component = r.component ∧ r'.shape = r.shape ∧
    r'.severity = r.severity ∧ r'.messages = r.messages ∧ ∀ d' ∈ r'.details, ∃ d ∈ r.details, Result.Le d' d := by
  cases h with
  | mk f v p c s sev m det1 det0 src hdet =>
    exact ⟨rfl, rfl, rfl, rfl, rfl, rfl, (listLe_iff det1 det0).1 hdet⟩

/-- the same at the level of one shape evaluation, nested or top-level -/
theorem abort_same_conformance (c : Ctx) (h0 : c.o.abortOnFirst = false) (fuel : Nat) (s : Shape)
    (focus : Option (List Term)) (path : Option (List PathEntry)) (conf : Bool) (rs : List Result)
    (h : validateShape c fuel s focus path = .ok (conf, rs)) :
    ∃ rs', validateShape c.withAbort fuel s focus path = .ok (conf, rs') :=
  validateShape_refines c h0 fuel s focus path conf rs h

/-! non-vacuity: two failing constraints; the abort run stops after the first, both are non-conforming -/
def exN (s : String) : Term := .iri ("http://ex.test/" ++ s)
def sg2 : Graph :=
  [⟨exN "S", rdfType, shNodeShape⟩, ⟨exN "S", shTargetNode, exN "a"⟩, ⟨exN "S", sh "class", exN "C"⟩,
   ⟨exN "S", sh "nodeKind", sh "Literal"⟩]
example : (runValidate {} sg2 [] (fun _ _ _ => none) [] []).toOption.map (fun p => (p.1, p.2.length)) = some (false, 2) := by decide
example : (runValidate { abortOnFirst := true } sg2 [] (fun _ _ _ => none) [] []).toOption.map (fun p => (p.1, p.2.length)) = some (false, 1) := by decide

/-! non-vacuity of "fewer nested details": sh:node onto a shape with two failing constraints -/
def sgN : Graph :=
  [⟨exN "S", rdfType, shNodeShape⟩, ⟨exN "S", shTargetNode, exN "a"⟩, ⟨exN "S", shNode, exN "T"⟩,
   ⟨exN "T", rdfType, shNodeShape⟩, ⟨exN "T", sh "class", exN "C"⟩, ⟨exN "T", sh "nodeKind", sh "Literal"⟩]
example : (runValidate {} sgN [] (fun _ _ _ => none) [] []).toOption.map (fun p => (p.1, p.2.map fun r => r.details.length)) = some (false, [2]) := by decide
example : (runValidate { abortOnFirst := true } sgN [] (fun _ _ _ => none) [] []).toOption.map (fun p => (p.1, p.2.map fun r => r.details.length)) = some (false, [1]) := by decide

end Pyshacl.C12
