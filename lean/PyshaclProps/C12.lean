/-
  C12 — abort_on_first changes how much is reported, never what is decided.
  Proved here for every input and every option vector (abort on or off, any waivers): the verdict is
  a function of the severities of the reported results, and a non-conforming verdict always comes
  with at least one (unwaived) result.  Equality of the abort verdict with the complete-run verdict
  and the subset relation are checked on the real code by the metamorphic oracle (B); the model-level
  proof of verdict equality is work in progress (see DESIGN.md §6 C12).
-/
import PyshaclProofs.EvalLemmas
namespace Pyshacl.C12
open Pyshacl

theorem nonconforming_has_unwaived_result (o : Opts) (sg dg : Graph) (rx : Regex) (focus : List Term)
    (rs : List Result) (h : runValidate o sg dg rx focus [] = .ok (false, rs)) :
    ∃ r ∈ rs, r.severity ∉ allowedSeverities o := by
  have := runValidate_verdict o sg dg rx focus false rs h
  unfold allWaived at this
  have h2 : ¬ (rs.all fun r => decide (r.severity ∈ allowedSeverities o)) = true := by rw [← this]; simp
  rw [List.all_eq_true] at h2
  simpa using h2

theorem conforming_iff_all_waived_even_with_abort (o : Opts) (sg dg : Graph) (rx : Regex) (focus : List Term)
    (conf : Bool) (rs : List Result) (h : runValidate { o with abortOnFirst := true } sg dg rx focus [] = .ok (conf, rs)) :
    conf = allWaived o rs := by
  rw [runValidate_verdict _ sg dg rx focus conf rs h]
  exact allWaived_congr o _ rfl rfl rs

end Pyshacl.C12
