/-
  C07 — SPARQL remote-graph mode and in-memory mode give the same report.

  What pySHACL adds in this mode is (1) the SPARQL text of property paths, (2) the option screening that keeps
  the run read-only, (3) `*_sparql` twins of some evaluators.  (1) and (2) are proved here for every path and
  option vector; (3) is compared on the real code by the metamorphic oracle (sparql_mode off/on on equal
  inputs) — the SPARQL engine itself is rdflib's and is outside the model, so the equality of the twins is
  `…_partial`: proved for the path text they all embed, sampled for the query results.
-/
import PyshaclProofs.PrintProofs
import PyshaclModel.Pipeline
namespace Pyshacl.C07
open Pyshacl SPath

/-- **the printed path is a SPARQL 1.1 path with the SHACL path's meaning** — for every supported path
    (IRI predicates, sequences and alternatives of ≥ 2 members, inverse, `*`, `+`, `?`, nested in any way,
    e.g. stacked modifiers or the inverse of a sequence) within the printer's depth cap, and every prefix map:
    the printer returns the rendering of an `SPath` that is well-formed at every grammar level (so the text
    parses, and parses to that `SPath`) and that relates, in every graph, exactly the pairs `PathRel` relates -/
theorem printed_path_parses_and_means_the_path (pf : List (String × String)) (p : Path) (fuel : Nat)
    (hs : psup .path p = true) (hd : pd .path p ≤ Caps.sparqlPathDepth) (hf : psize p ≤ fuel) :
    ∃ sp, Path.print pf fuel p 0 = .ok (render pf sp) ∧ sp.wf = true ∧ sp.isAlt = true ∧
      ∀ g a b, sem sp g a b ↔ PathRel p g a b := by
  obtain ⟨sp, hsp⟩ := tr_total .path p 0 hs (by omega)
  have hl := tr_level .path p 0 sp hsp
  exact ⟨sp, tr_prints pf .path p 0 sp hsp fuel hf, hl.1, hl.2.1, tr_sem .path p 0 sp hsp⟩

/-- nested occurrences (recursion level > 0) are printed as a single PathEltOrInverse: a compound operand is
    always parenthesised, so a modifier or `^` written after / before it applies to the whole operand -/
theorem nested_path_is_one_element (pf : List (String × String)) (p : Path) (r fuel : Nat) (hr : r > 0) (sp : SPath)
    (h : tr .path p r = some sp) (hf : psize p ≤ fuel) :
    Path.print pf fuel p r = .ok (render pf sp) ∧ sp.isEltOrInv = true ∧ sp.wf = true := by
  have hl := tr_level .path p r sp h
  exact ⟨tr_prints pf .path p r sp h fuel hf, hl.2.2.1 hr, hl.1⟩

/-- whenever the printer returns at all, what it returns is such a rendering (no other text is ever produced) -/
theorem printer_output_is_a_rendering (pf : List (String × String)) (p : Path) (fuel : Nat) (sp : SPath)
    (h : tr .path p 0 = some sp) (hf : psize p ≤ fuel) (txt : String) (ht : Path.print pf fuel p 0 = .ok txt) :
    txt = render pf sp := by
  have := tr_prints pf .path p 0 sp h fuel hf
  rw [this] at ht; cases ht; rfl

/-- **read-only**: in sparql_mode every stage that could write to the working graph is rejected or skipped, and
    the graph that is validated is the caller's own object (never a clone): the only object written is the
    shapes graph (its two system triples) -/
theorem sparql_mode_readonly (c : Pipeline.Cfg) (js ip : Bool) (ops : List Pipeline.Op) (o : Pipeline.Obj)
    (h : Pipeline.planSparql c js ip = some (ops, o)) :
    o = .data ∧ ∀ op ∈ ops, op.writesCaller = false := by
  unfold Pipeline.planSparql at h
  split at h
  · cases h
  · cases h
    exact ⟨rfl, by intro op hop; simp at hop; rcases hop with rfl | rfl <;> rfl⟩

/-- the options that would write are refused outright -/
theorem sparql_mode_rejects_writers (c : Pipeline.Cfg) (js ip : Bool)
    (h : c.hasOnt = true ∨ c.inference = true ∨ ip = true ∨ js = true ∨ c.shapesInData = true) :
    Pipeline.planSparql c js ip = none := by
  unfold Pipeline.planSparql
  rcases h with h | h | h | h | h <;> simp [h]

/-! non-vacuity: stacked modifiers and the inverse of a sequence (both were defects of the pinned tree) -/
def exP (s : String) : Path := .pred (.iri ("http://ex.test/" ++ s))
example : psup .path (.star (.plus (exP "p"))) = true ∧ pd .path (.star (.plus (exP "p"))) = 2 := by decide
example : tr .path (.star (.plus (exP "p"))) 0 =
    some (.mod (.group (.mod (.iri "http://ex.test/p") .plus)) .star) := by decide
example : tr .path (.inv (.seqCons (exP "p") (.seqLast (exP "q")))) 0 =
    some (.inv (.group (.seq2 (.iri "http://ex.test/p") (.iri "http://ex.test/q")))) := by decide

end Pyshacl.C07
