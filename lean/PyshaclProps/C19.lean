/-
  C19 — always terminates; nesting exact below the depth limit, loud error at or above it.

  * Termination: `validateShape` is a total Lean function by structural recursion on
    `fuel = max_validation_depth + 1 − depth`, which is the code's own argument (the evaluation path
    grows by two entries per nesting level and the call fails once `len(path) // 2 ≥ limit`); the
    path closures terminate by the potential-function argument of C03.  No Python-stack exhaustion
    can be exhibited by the model; the harness measures it (RecursionError / wall clock).
  * Loud at the limit, silent back-out on fresh shapes: below.
-/
import PyshaclProofs.DepthLemmas
import PyshaclProofs.EvalLemmas
namespace Pyshacl.C19
open Pyshacl

/-- a nested evaluation at or beyond the limit that reaches its constraints raises
    "Validation path too deep" — never a silently truncated (conforming) verdict -/
theorem at_limit_loud (c : Ctx) (rec' : Rec) (s : Shape) (fl : List Term) (p : List PathEntry)
    (h : p.length / Caps.depthDivisor ≥ c.o.maxDepth) :
    validateCore c rec' s fl (some p) = .error (.runtime "pathTooDeep") :=
  validateCore_too_deep c rec' s fl p h

/-- the recursion back-out heuristic never fires for a shape that does not occur earlier on the
    evaluation path (on a non-recursive shapes graph no shape occurs twice on one path) -/
theorem backout_silent_on_fresh_shape (path : List PathEntry) (self : Term) (k : CKind)
    (h : ∀ i, i < path.length - 2 → path[i]? ≠ some (.shape self)) (x : Term) :
    inTriggers (recursionTriggers path self k) x = false :=
  triggers_silent_of_fresh path self k h x

/-- obligations over the regenerated caps: the depth test is `len(path) // 2 >= limit`, the default limit is 15 -/
theorem depth_test_shape : Caps.depthDivisor = 2 ∧ Caps.maxValidationDepth = 15 ∧ Caps.triggerMinLen = 4 ∧ Caps.triggerDepth = 3 := by decide

/-! non-vacuity: a chain S0 -node-> S1 -node-> S2 with limit 2 raises, with limit 3 reports -/
def exN (s : String) : Term := .iri ("http://ex.test/" ++ s)
def sgChain : Graph :=
  [⟨exN "S0", rdfType, shNodeShape⟩, ⟨exN "S0", shTargetNode, exN "a"⟩, ⟨exN "S0", shNode, exN "S1"⟩,
   ⟨exN "S1", rdfType, shNodeShape⟩, ⟨exN "S1", shNode, exN "S2"⟩,
   ⟨exN "S2", rdfType, shNodeShape⟩, ⟨exN "S2", sh "class", exN "C"⟩]
example : (match runValidate { maxDepth := 2 } sgChain [] (fun _ _ _ => none) [] [] with
    | .error (.runtime w) => w | _ => "") = "pathTooDeep" := by decide
example : (runValidate { maxDepth := 3 } sgChain [] (fun _ _ _ => none) [] []).toOption.map (·.1) = some false := by decide

end Pyshacl.C19
