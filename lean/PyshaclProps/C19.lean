/-
  C19 — always terminates; nesting exact below the depth limit, loud error at or above it.

  * Termination: `validateShape` is a total Lean function by structural recursion on
    `fuel = max_validation_depth + 1 − depth`, which is the code's own argument (the evaluation path
    grows by two entries per nesting level and the call fails once `len(path) // 2 ≥ limit`); the
    path closures terminate by the potential-function argument of C03.  No Python-stack exhaustion
    can be exhibited by the model; the harness measures it (RecursionError / wall clock).
  * Loud at the limit, silent back-out on fresh shapes: below.
  * Exact below the limit, never silently truncated — `limit_only_truncates_loudly`: for every input and
    every pair of limits L ≤ L', the run under L *is* the run under L' (same verdict, same results, nested
    details included, same failure) or it is the "Validation path too deep" failure.  Hence a report that is
    returned under some limit is the report under every larger limit (`report_exact_below_limit`): the limit
    cannot turn nesting into a conforming verdict.  Proof: `DepthMono.lean`, a simulation through every
    constraint component, both loops and the nested evaluations (fuel and limit generalised together).
-/
import PyshaclProofs.DepthLemmas
import PyshaclProofs.EvalLemmas
import PyshaclProofs.DepthMono
namespace Pyshacl.C19
open Pyshacl

/-- a nested evaluation at or beyond the limit that reaches its constraints raises
    "Validation path too deep" — never a silently truncated (conforming) verdict -/
theorem at_limit_loud (c : Ctx) (rec' : Rec) (s : Shape) (fl : List Term) (p : List PathEntry)
    (h : p.length / Caps.depthDivisor ≥ c.o.maxDepth) :
    validateCore c rec' s fl (some p) = .error (.runtime "pathTooDeep") :=
  validateCore_too_deep c rec' s fl p h

/-- the recursion back-out heuristic never fires for a shape that does not occur earlier on the
    evaluation path (on a non-recursive shapes graph no shape occurs twice on one path) -/
theorem backout_silent_on_fresh_shape (path : List PathEntry) (self : Term) (k : CKind)
    (h : ∀ i, i < path.length - 2 → path[i]? ≠ some (.shape self)) (x : Term) :
    inTriggers (recursionTriggers path self k) x = false :=
  triggers_silent_of_fresh path self k h x

/-- **the depth limit only ever truncates loudly** -/
theorem limit_only_truncates_loudly (o : Opts) (n : Nat) (hn : o.maxDepth ≤ n) (sg dg : Graph) (rx : Regex)
    (focus useShapes : List Term) (sq : Term → Term → Option (List Sol)) (sqInfo : Term → Option SparqlTemplate)
    (va : Term → Term → Term → Term → Option ValidatorAnswer) (adv : AdvTables) :
    runValidate o sg dg rx focus useShapes sq sqInfo va adv
        = runValidate { o with maxDepth := n } sg dg rx focus useShapes sq sqInfo va adv ∨
    runValidate o sg dg rx focus useShapes sq sqInfo va adv = .error (.runtime "pathTooDeep") :=
  runValidate_trunc o n hn sg dg rx focus useShapes sq sqInfo va adv

/-- a report returned under a limit is the report under every larger limit: verdict and results are exact -/
theorem report_exact_below_limit (o : Opts) (n : Nat) (hn : o.maxDepth ≤ n) (sg dg : Graph) (rx : Regex)
    (focus useShapes : List Term) (sq : Term → Term → Option (List Sol)) (sqInfo : Term → Option SparqlTemplate)
    (va : Term → Term → Term → Term → Option ValidatorAnswer) (adv : AdvTables) (conf : Bool) (rs : List Result)
    (h : runValidate o sg dg rx focus useShapes sq sqInfo va adv = .ok (conf, rs)) :
    runValidate { o with maxDepth := n } sg dg rx focus useShapes sq sqInfo va adv = .ok (conf, rs) :=
  runValidate_limit_irrelevant o n hn sg dg rx focus useShapes sq sqInfo va adv (conf, rs) h

/-- the same for one (nested) shape evaluation and its fuel: less fuel or a smaller limit truncates loudly or not at all -/
theorem nested_evaluation_truncates_loudly (c : Ctx) (n : Nat) (hn : c.o.maxDepth ≤ n) (fuel fuel' : Nat) (hf : fuel ≤ fuel')
    (s : Shape) (focus : Option (List Term)) (path : Option (List PathEntry)) :
    validateShape c fuel s focus path = validateShape (c.withDepth n) fuel' s focus path ∨
    validateShape c fuel s focus path = .error (.runtime "pathTooDeep") :=
  validateShape_trunc c n hn fuel fuel' hf s focus path

/-- obligations over the regenerated caps: the depth test is `len(path) // 2 >= limit`, the default limit is 15 -/
theorem depth_test_shape : Caps.depthDivisor = 2 ∧ Caps.maxValidationDepth = 15 ∧ Caps.triggerMinLen = 4 ∧ Caps.triggerDepth = 3 := by decide

/-! non-vacuity: a chain S0 -node-> S1 -node-> S2 with limit 2 raises, with limit 3 reports -/
def exN (s : String) : Term := .iri ("http://ex.test/" ++ s)
def sgChain : Graph :=
  [⟨exN "S0", rdfType, shNodeShape⟩, ⟨exN "S0", shTargetNode, exN "a"⟩, ⟨exN "S0", shNode, exN "S1"⟩,
   ⟨exN "S1", rdfType, shNodeShape⟩, ⟨exN "S1", shNode, exN "S2"⟩,
   ⟨exN "S2", rdfType, shNodeShape⟩, ⟨exN "S2", sh "class", exN "C"⟩]
example : (match runValidate { maxDepth := 2 } sgChain [] (fun _ _ _ => none) [] [] with
    | .error (.runtime w) => w | _ => "") = "pathTooDeep" := by decide
example : (runValidate { maxDepth := 3 } sgChain [] (fun _ _ _ => none) [] []).toOption.map (·.1) = some false := by decide

/-! both disjuncts of `limit_only_truncates_loudly` occur: limit 2 truncates the chain loudly, limit 3 agrees with limit 30 -/
example : (runValidate { maxDepth := 3 } sgChain [] (fun _ _ _ => none) [] []).toOption.map (fun p => (p.1, p.2.length))
    = (runValidate { maxDepth := 30 } sgChain [] (fun _ _ _ => none) [] []).toOption.map (fun p => (p.1, p.2.length)) := by decide
example : (runValidate { maxDepth := 30 } sgChain [] (fun _ _ _ => none) [] []).toOption.map (fun p => (p.1, p.2.length)) = some (false, 1) := by decide

end Pyshacl.C19
