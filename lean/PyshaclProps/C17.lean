/-
  C17 — advanced-mode targets, functions and expression constraints follow their queries.
  Theorems about `PyshaclModel/Advanced.lean` (and the focus resolution of `Eval.lean`).  The SPARQL engine is an
  opaque table (`AdvTables`): "the query's solutions" below always means the table the harness fills by running the
  declared query directly through rdflib.
-/
import PyshaclProofs.RulesProofs
import PyshaclProofs.TargetProofs
namespace Pyshacl.C17
open Pyshacl

/-! ### custom targets -/

/-- every extra focus node of an advanced shape is a `?this` solution of the query of one of its sh:target declarations -/
theorem adv_targets_sound {sg : Graph} {tts : List Term} {tbl : AdvTables} {shape : Term} {extra : List Term}
    (h : advancedFocus sg tts tbl shape = .ok extra) (n : Term) (hn : n ∈ extra) :
    ∃ decl ∈ sg.objects shape shTarget, ∃ sols, tbl.targets decl = some sols ∧ ∃ sol ∈ sols, sol.get "this" = some n := by
  unfold advancedFocus at h
  simp only [] at h
  split at h
  · cases h
  · cases hm : mapE (targetSolutions tbl) (dedup (sg.objects shape shTarget)) with
    | error e => simp [hm, Except.map] at h
    | ok ls =>
      simp only [hm, Except.map, Except.ok.injEq] at h
      subst h
      rw [mem_dedup] at hn
      obtain ⟨l, hl, hnl⟩ := List.mem_flatten.mp hn
      obtain ⟨decl, hdecl, hf⟩ := mapE_mem _ _ ls hm l hl
      rw [mem_dedup] at hdecl
      refine ⟨decl, hdecl, ?_⟩
      unfold targetSolutions at hf
      cases ht : tbl.targets decl with
      | none => simp [ht] at hf
      | some sols =>
        simp only [ht] at hf
        refine ⟨sols, rfl, ?_⟩
        obtain ⟨sol, hsol, hg⟩ := mapE_mem _ sols l hf n hnl
        refine ⟨sol, hsol, ?_⟩
        cases hget : sol.get "this" with
        | none => simp [hget] at hg
        | some t => simp only [hget, Except.ok.injEq] at hg; rw [hg]

/-- … and every `?this` solution of every declaration is among them -/
theorem adv_targets_complete {sg : Graph} {tts : List Term} {tbl : AdvTables} {shape : Term} {extra : List Term}
    (h : advancedFocus sg tts tbl shape = .ok extra) (decl : Term) (hd : decl ∈ sg.objects shape shTarget)
    (sols : List Sol) (ht : tbl.targets decl = some sols) (sol : Sol) (hs : sol ∈ sols) (n : Term)
    (hn : sol.get "this" = some n) : n ∈ extra := by
  unfold advancedFocus at h
  simp only [] at h
  split at h
  · cases h
  · cases hm : mapE (targetSolutions tbl) (dedup (sg.objects shape shTarget)) with
    | error e => simp [hm, Except.map] at h
    | ok ls =>
      simp only [hm, Except.map, Except.ok.injEq] at h
      subst h
      rw [mem_dedup]
      have hd' : decl ∈ dedup (sg.objects shape shTarget) := by rw [mem_dedup]; exact hd
      obtain ⟨l, hl, hfl⟩ := mapE_mem_fwd _ _ ls hm decl hd'
      refine List.mem_flatten.mpr ⟨l, hl, ?_⟩
      unfold targetSolutions at hfl
      simp only [ht] at hfl
      obtain ⟨t, ht', hft⟩ := mapE_mem_fwd _ sols l hfl sol hs
      simp only [hn, Except.ok.injEq] at hft
      subst hft
      exact ht'

/-- **targets exact (advanced on)**: the focus list of a top-level evaluation of an advanced shape consists of its
    Core targets and of `?this` solutions of its custom targets, and contains all of them when no `focus_nodes`
    filter is given (the two directions are `C02.toplevel_focus_from_targets` and `C02.advanced_targets_validated`
    with `extra` as characterised by `adv_targets_sound`) -/
theorem adv_focus_exact (c : Ctx) (s : Shape) (extra fl : List Term) (hf : c.o.focusNodes = none)
    (h : resolveFocus c s none extra = some fl) (n : Term) :
    n ∈ fl ↔ (n ∈ focusNodes c.sg c.dg s.node ∨ n ∈ extra) := by
  unfold resolveFocus at h
  simp only [hf] at h
  split at h
  · cases h
  · cases h
    rw [mem_dedup, List.mem_append]

/-- **advanced off**: the custom targets are not even looked at -/
theorem advanced_off_no_custom_targets (c : Ctx) (rec' : Rec) (s : Shape) (focus : Option (List Term))
    (path : Option (List PathEntry)) (hadv : c.o.advanced = false) :
    validateBody c rec' s focus path =
      (if s.deactivated then .ok (true, []) else
        match resolveFocus c s focus [] with
        | none => .ok (true, [])
        | some focusList => validateCore c rec' s focusList path) := by
  unfold validateBody
  simp only [hadv, Bool.false_eq_true, and_false, if_false]
  rfl

/-- no row of the regenerated dispatch table leads to the expression component -/
theorem table_no_expression :
    Dispatch.paramTable.all (fun r => decide (CKind.ofClassName r.2.1 ≠ some CKind.expression)) = true := by
  decide +kernel

theorem paramKind_ne_expression (p : Term) : paramKind p ≠ some CKind.expression := by
  unfold paramKind
  cases p with
  | iri x =>
    simp only []
    cases hf : Dispatch.paramTable.find? (fun r => r.1 = x) with
    | none => simp
    | some r =>
      simp only []
      have hr : r ∈ Dispatch.paramTable := List.mem_of_find?_eq_some hf
      have := List.all_eq_true.mp table_no_expression r hr
      simpa using this
  | bnode _ => simp
  | lit _ => simp

/-- **advanced off**: sh:expression is not among the components of a shape -/
theorem advanced_off_no_expression (sg : Graph) (node : Term) :
    CKind.expression ∉ shapeComponents sg node false := by
  unfold shapeComponents
  intro h
  rw [List.mem_reverse, mem_dedup, List.mem_reverse, List.mem_filterMap] at h
  obtain ⟨⟨p, o⟩, _, hk⟩ := h
  simp only [Bool.false_eq_true, false_and, if_false] at hk
  cases hp : paramKind p with
  | none => simp [hp] at hk
  | some k =>
    simp only [hp, Option.some.injEq] at hk
    subst hk
    exact paramKind_ne_expression p hp

/-! ### functions -/

/-- the call order is a permutation of the declared parameters … -/
theorem params_perm (ps : List FnParam) : (paramsInOrder ps).Perm ps := by
  unfold paramsInOrder
  split
  · exact sortBy_perm' _ _
  · exact sortByStr_perm _ _

/-- … ascending in sh:order when every parameter has one -/
theorem params_by_order (ps : List FnParam) (h : ps.all (·.order.isSome) = true) :
    (paramsInOrder ps).Pairwise (fun a b => a.order.getD 0 ≤ b.order.getD 0) := by
  unfold paramsInOrder
  simp only [h, if_true]
  exact sortBy_sorted _ ps

/-- **arguments are bound in call order**: the i-th argument of a call is pre-bound to the local name of the i-th
    parameter in call order (the table lookup receives exactly these pairs, sorted by name) -/
theorem function_binds_in_order (fd : FnDecl) (args : List (Option Term)) (i : Nat) (p : FnParam) (a : Option Term)
    (hp : fd.params[i]? = some p) (ha : args[i]? = some a) :
    (p.name.getD "", a) ∈ namedArgs fd args := by
  unfold namedArgs
  have hperm : ∀ (l : List (String × Option Term)), (sortByStr (·.1) l).Perm l := fun l => sortByStr_perm _ l
  rw [(hperm _).mem_iff]
  have : ((fd.params.map fun p => p.name.getD "").zip args)[i]? = some (p.name.getD "", a) := by
    rw [List.getElem?_zip_eq_some]
    exact ⟨by simp [hp], ha⟩
  exact List.mem_of_getElem? this

/-- **a function's value is its query's result**: what a call contributes to a node expression is exactly the
    table's answer for the named pre-bindings; a call without result contributes nothing -/
theorem function_result_is_query_result (tbl : AdvTables) (fd : FnDecl) (args : List (Option Term)) (rs : List Term)
    (h : callFunction tbl fd [args] = .ok rs) :
    ∃ r, tbl.fn fd.node (namedArgs fd args) = some r ∧ rs = r.toList := by
  unfold callFunction at h
  simp only [mapE] at h
  split at h
  · simp [Except.map] at h
  · rename_i r hr
    split at hr
    · simp at hr
    · split at hr
      · simp at hr
      · split at hr
        · simp at hr
        · split at hr
          · simp at hr
          · split at hr
            · simp at hr
            · rename_i res hres
              simp only [Except.ok.injEq] at hr
              subst hr
              simp only [Except.map, Except.ok.injEq] at h
              subst h
              refine ⟨res, hres, ?_⟩
              cases res <;> simp [dedup]

end Pyshacl.C17
