/-
  C02 — a shape validates exactly the focus nodes its target declarations select.
  `focusNodes` is the mirror of `Shape.focus_nodes` (tied to /repo by the `validate` op: a constraint
  failing once per focus node makes the focus set observable); `IsTarget` is the W3C definition with
  SHACL instances as `rdf:type/rdfs:subClassOf*` (a reflexive-transitive closure, any chain or cycle).
-/
import PyshaclProofs.TargetProofs
import PyshaclModel.Eval
namespace Pyshacl.C02
open Pyshacl

theorem focus_exact (sg dg : Graph) (node n : Term) :
    n ∈ focusNodes sg dg node ↔ IsTarget sg dg node n := Pyshacl.focus_exact sg dg node n

theorem each_focus_once (sg dg : Graph) (node : Term) : (focusNodes sg dg node).Nodup :=
  Pyshacl.focus_nodup sg dg node

/-- a shape without targets validates nothing by itself -/
theorem no_targets_validates_nothing (c : Ctx) (fuel : Nat) (s : Shape)
    (h : ∀ n, ¬ IsTarget c.sg c.dg s.node n) :
    validateShape c fuel s none none = .ok (true, []) := by
  have hf : focusNodes c.sg c.dg s.node = [] := by
    cases hfl : focusNodes c.sg c.dg s.node with
    | nil => rfl
    | cons x xs =>
      exfalso
      exact h x ((Pyshacl.focus_exact c.sg c.dg s.node x).1 (by rw [hfl]; simp))
  cases fuel <;> simp [validateShape, validateBody, resolveFocus, hf]

/-- the focus list a top-level evaluation works on is the target set (filtered by `focus_nodes` if given) -/
theorem toplevel_focus_from_targets (c : Ctx) (s : Shape) (fl : List Term)
    (h : resolveFocus c s none = some fl) : ∀ n ∈ fl, IsTarget c.sg c.dg s.node n := by
  intro n hn
  unfold resolveFocus at h
  simp only [] at h
  split at h
  · cases h
  · split at h
    · split at h
      · split at h
        · cases h
        · cases h
          rw [mem_dedup, List.mem_filter] at hn
          exact (Pyshacl.focus_exact _ _ _ _).1 hn.1
      · cases h
        rw [mem_dedup] at hn
        exact (Pyshacl.focus_exact _ _ _ _).1 hn
    · cases h
      rw [mem_dedup] at hn
      exact (Pyshacl.focus_exact _ _ _ _).1 hn

/-! non-vacuity: a subclass cycle and an instance of a subclass -/
def exN (s : String) : Term := .iri ("http://ex.test/" ++ s)
def dgEx : Graph :=
  [⟨exN "a", rdfType, exN "D"⟩, ⟨exN "D", rdfsSubClassOf, exN "C"⟩, ⟨exN "C", rdfsSubClassOf, exN "D"⟩,
   ⟨exN "b", exN "p", .lit ⟨"x", "", "", .str, false⟩⟩]
def sgEx : Graph := [⟨exN "S", shTargetClass, exN "C"⟩, ⟨exN "S", shTargetObjectsOf, exN "p"⟩]
example : focusNodes sgEx dgEx (exN "S") = [exN "a", .lit ⟨"x", "", "", .str, false⟩] := by decide

end Pyshacl.C02
