/-
  C02 — a shape validates exactly the focus nodes its target declarations select.
  `focusNodes` is the mirror of `Shape.focus_nodes` (tied to /repo by the `validate` op: a constraint
  failing once per focus node makes the focus set observable); `IsTarget` is the W3C definition with
  SHACL instances as `rdf:type/rdfs:subClassOf*` (a reflexive-transitive closure, any chain or cycle).
-/
import PyshaclProofs.TargetProofs
import PyshaclModel.Eval
namespace Pyshacl.C02
open Pyshacl

theorem focus_exact (sg dg : Graph) (node n : Term) :
    n ∈ focusNodes sg dg node ↔ IsTarget sg dg node n := Pyshacl.focus_exact sg dg node n

theorem each_focus_once (sg dg : Graph) (node : Term) : (focusNodes sg dg node).Nodup :=
  Pyshacl.focus_nodup sg dg node

/-- a shape without targets validates nothing by itself -/
theorem no_targets_validates_nothing (c : Ctx) (fuel : Nat) (s : Shape) (hadv : c.o.advanced = false)
    (h : ∀ n, ¬ IsTarget c.sg c.dg s.node n) :
    validateShape c fuel s none none = .ok (true, []) := by
  have hf : focusNodes c.sg c.dg s.node = [] := by
    cases hfl : focusNodes c.sg c.dg s.node with
    | nil => rfl
    | cons x xs =>
      exfalso
      exact h x ((Pyshacl.focus_exact c.sg c.dg s.node x).1 (by rw [hfl]; simp))
  cases fuel <;> simp [validateShape, validateBody, resolveFocus, hf, hadv]

/-- the focus list a top-level evaluation works on is the target set — plus, in advanced mode, the `?this`
    solutions `extra` of the shape's custom targets — filtered by `focus_nodes` if given -/
theorem toplevel_focus_from_targets (c : Ctx) (s : Shape) (extra fl : List Term)
    (h : resolveFocus c s none extra = some fl) : ∀ n ∈ fl, IsTarget c.sg c.dg s.node n ∨ n ∈ extra := by
  intro n hn
  have key : n ∈ focusNodes c.sg c.dg s.node ++ extra → IsTarget c.sg c.dg s.node n ∨ n ∈ extra := by
    intro hm
    rcases List.mem_append.mp hm with h1 | h1
    · exact .inl ((Pyshacl.focus_exact _ _ _ _).1 h1)
    · exact .inr h1
  unfold resolveFocus at h
  simp only [] at h
  split at h
  · cases h
  · split at h
    · split at h
      · split at h
        · cases h
        · cases h
          rw [mem_dedup, List.mem_filter] at hn
          exact key hn.1
      · cases h
        rw [mem_dedup] at hn
        exact key hn
    · cases h
      rw [mem_dedup] at hn
      exact key hn

/-- advanced mode: every `?this` solution of a custom target is validated (absent a `focus_nodes` filter) -/
theorem advanced_targets_validated (c : Ctx) (s : Shape) (extra : List Term) (hf : c.o.focusNodes = none)
    (n : Term) (hn : n ∈ extra) : ∃ fl, resolveFocus c s none extra = some fl ∧ n ∈ fl := by
  unfold resolveFocus
  simp only [hf]
  have hne : focusNodes c.sg c.dg s.node ++ extra ≠ [] := by
    intro h0
    have : n ∈ focusNodes c.sg c.dg s.node ++ extra := List.mem_append.mpr (.inr hn)
    rw [h0] at this; cases this
  simp only [hne, if_false]
  exact ⟨_, rfl, by rw [mem_dedup]; exact List.mem_append.mpr (.inr hn)⟩

/-! non-vacuity: a subclass cycle and an instance of a subclass -/
def exN (s : String) : Term := .iri ("http://ex.test/" ++ s)
def dgEx : Graph :=
  [⟨exN "a", rdfType, exN "D"⟩, ⟨exN "D", rdfsSubClassOf, exN "C"⟩, ⟨exN "C", rdfsSubClassOf, exN "D"⟩,
   ⟨exN "b", exN "p", .lit ⟨"x", "", "", .str, false⟩⟩]
def sgEx : Graph := [⟨exN "S", shTargetClass, exN "C"⟩, ⟨exN "S", shTargetObjectsOf, exN "p"⟩]
example : focusNodes sgEx dgEx (exN "S") = [exN "a", .lit ⟨"x", "", "", .str, false⟩] := by decide

end Pyshacl.C02
