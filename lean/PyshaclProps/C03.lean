/-
  C03 — Property-path value nodes follow SPARQL 1.1 property-path semantics.

  `Path.eval` is the mirror of `value_nodes_from_path` (tied to /repo by the correspondence check
  `path` op); `PathRel` is the SPARQL 1.1 relation.  The statements quantify over every path
  expression, every data graph (any size, any cycles, literal / blank-node objects) and every focus
  node (whether or not it occurs in the graph).  No bound appears anywhere except the code's own
  recursion cap, which is regenerated from the source into `Caps.pathDepth`.
-/
import PyshaclProofs.PathProofs
import PyshaclModel.Generated.Caps
namespace Pyshacl.C03
open Pyshacl Pyshacl.Path

/-- Whenever the evaluation returns, the value nodes are exactly the nodes related to the focus
    node by the equivalent SPARQL 1.1 path — for every path of any depth: nothing is ever silently
    truncated by the recursion cap. -/
theorem value_nodes_exact_or_loud (cap : Nat) (p : Path) (g : Graph) (f : Term) (vs : List Term)
    (h : Path.eval cap p false 0 g f = .ok vs) : ∀ t, t ∈ vs ↔ PathRel p g f t := by
  intro t
  have := eval_ok_exact cap p g false 0 f vs h
  subst this
  simpa [DirRel] using evalPure_correct p g false f t

/-- Well-formed paths whose recursion measure is within the code's cap are evaluated (no error),
    and exactly. -/
theorem value_nodes_exact (p : Path) (g : Graph) (f : Term)
    (hwf : p.wf true = true) (hd : p.depth ≤ Caps.pathDepth) :
    ∃ vs, Path.eval Caps.pathDepth p false 0 g f = .ok vs ∧ ∀ t, t ∈ vs ↔ PathRel p g f t := by
  refine ⟨evalPure p false g f, eval_within_cap _ p g false 0 f (by simpa using hwf) (by omega), ?_⟩
  intro t
  simpa [DirRel] using evalPure_correct p g false f t

/-- The same holds under the code's `inverse` flag (used when a path is met below sh:inversePath). -/
theorem value_nodes_exact_inverse (cap : Nat) (p : Path) (g : Graph) (f : Term) (vs : List Term)
    (h : Path.eval cap p true 0 g f = .ok vs) : ∀ t, t ∈ vs ↔ PathRel p g t f := by
  intro t
  have := eval_ok_exact cap p g true 0 f vs h
  subst this
  simpa [DirRel] using evalPure_correct p g true f t

/-- Zero-length paths include the focus node itself even when it does not occur in the data graph. -/
theorem zero_length_includes_focus (q : Path) (g : Graph) (f : Term) :
    f ∈ evalPure (.star q) false g f ∧ f ∈ evalPure (.opt q) false g f := by
  constructor
  · exact (evalPure_correct (.star q) g false f f).2 (by simp [DirRel, PathRel]; exact Relation.ReflTransGen.refl)
  · simp [evalPure]

/-- Termination on cyclic data: `Path.eval` is a total function (structural recursion on the path,
    worklist loop with fuel `closureFuel`), and the fuel is provably never the reason for an answer:
    the loop result is closed under the step relation (`closure_closed`), which is what
    `evalPure_correct` rests on.  Stated here as: the one-or-more loop over a self-loop returns. -/
theorem terminates_on_self_loop (p a : Term) :
    evalPure (.plus (.pred p)) false [⟨a, p, a⟩] a = [a] := by
  simp [evalPure, closureFuel, pot, univ, Graph.nodes, Graph.objects, closure]

/-- obligation over the regenerated cap table: the nesting depth the property quantifies over
    (4 levels of unary/binary nesting) is inside the supported depth of the code. -/
theorem supported_depth_covers_quantifier : 4 < Caps.pathDepth := by decide

/-! non-vacuity: a concrete path meets the hypotheses of `value_nodes_exact`, and the defect
    repaired by the `fix:` commit (^(p/q)) is answered correctly by the model. -/
def ex (s : String) : Term := .iri ("http://ex.test/" ++ s)
def gEx : Graph := [⟨ex "a", ex "p", ex "b"⟩, ⟨ex "b", ex "q", ex "c"⟩]
def invSeq : Path := .inv (.seqCons (.pred (ex "p")) (.seqLast (.pred (ex "q"))))

example : invSeq.wf true = true ∧ invSeq.depth ≤ Caps.pathDepth := by decide
example : (Path.eval Caps.pathDepth invSeq false 0 gEx (ex "c")).toOption = some [ex "a"] := by decide
example : PathRel invSeq gEx (ex "c") (ex "a") := by
  simp [invSeq, PathRel, gEx]

end Pyshacl.C03
