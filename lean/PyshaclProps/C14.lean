/-
  C14 — multi-graph data = union graph; mix-in / pre-inference = validating pre-expanded.
  Proved: the searches of the validator (paths, targets) see a Dataset only through the triples of
  its union view; the mix-in keeps every data triple, adds only ontology triples, and depends on the
  ontology only through its triples.  `…_partial`: the equality of complete reports is decided on
  the code by the metamorphic oracle; the RDFS / OWL-RL closure (owlrl) is a parameter, not verified.
-/
import PyshaclProofs.MixinProofs
import PyshaclProofs.PipelineProofs
namespace Pyshacl.C14
export Pyshacl (union_value_nodes union_focus_nodes inoculate_keeps_data inoculate_only_ontology inoculated_congr)

/-- **mix-in / pre-inference = validating the pre-expanded graph** (pipeline level): what `Validator.run` hands to the
    validation loop is `rules(infer(inoculate(data)))` for every heap content and every mix-in / closure / rule function
    (owlrl is a parameter), with `inplace` on or off — so validating with the options is validating that graph -/
theorem validated_graph_is_preexpanded {G} (c : Pipeline.Cfg) (w : Pipeline.Stage → G → G) (h : Pipeline.Heap G) :
    (Pipeline.exec w h (Pipeline.plan c).1 (Pipeline.plan c).1.length) (Pipeline.plan c).2 = Pipeline.expand c w (h .data) :=
  Pipeline.validated_graph_is_expansion c w h

/-- without ontology, pre-inference and rules the validated graph is the data graph as handed over -/
theorem nothing_added_without_options {G} (c : Pipeline.Cfg) (w : Pipeline.Stage → G → G) (h : Pipeline.Heap G)
    (h1 : c.hasOnt = false) (h2 : c.inference = false) (h3 : c.hasRules = false) :
    (Pipeline.exec w h (Pipeline.plan c).1 (Pipeline.plan c).1.length) (Pipeline.plan c).2 = h .data := by
  rw [Pipeline.validated_graph_is_expansion]; simp [Pipeline.expand, h1, h2, h3]
end Pyshacl.C14
