/-
  C14 — multi-graph data = union graph; mix-in / pre-inference = validating pre-expanded.
  Proved: the searches of the validator (paths, targets) see a Dataset only through the triples of
  its union view; the mix-in keeps every data triple, adds only ontology triples, and depends on the
  ontology only through its triples.  `…_partial`: the equality of complete reports is decided on
  the code by the metamorphic oracle; the RDFS / OWL-RL closure (owlrl) is a parameter, not verified.
-/
import PyshaclProofs.MixinProofs
namespace Pyshacl.C14
export Pyshacl (union_value_nodes union_focus_nodes inoculate_keeps_data inoculate_only_ontology inoculated_congr)
end Pyshacl.C14
