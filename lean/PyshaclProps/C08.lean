/-
  C08 — the caller's data and ontology graphs are not modified unless inplace is set.
  The theorems live in `PyshaclProofs/PipelineProofs.lean` (namespace `Pyshacl.Pipeline`) because they
  are about the pipeline model alone; they are re-exported here unchanged.
-/
import PyshaclProofs.PipelineProofs
namespace Pyshacl.C08
export Pyshacl.Pipeline (caller_unchanged plan_no_caller_writes inplace_alias working_is_copy)
end Pyshacl.C08
