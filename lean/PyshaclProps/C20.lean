/-
  C20 — the report does not depend on how the graphs are handed over.
  Theorems about the source-kind / format heuristics of `load_from_source` (`PyshaclModel/Load.lean`, tables regenerated
  from pyshacl/rdfutil/load.py): when inline RDF text is recognised as such, which headers and extensions select which
  parser.  That rdflib's parsers read the four formats into the same graph is outside the model (third-party code).
-/
import PyshaclModel.Load
namespace Pyshacl.C20
open Pyshacl.Load

theorem file_chars : "file:".toList = ['f', 'i', 'l', 'e', ':'] := by decide
theorem http_chars : "http:".toList = ['h', 't', 't', 'p', ':'] := by decide
theorem https_chars : "https:".toList = ['h', 't', 't', 'p', 's', ':'] := by decide
theorem dotslash_chars : "./".toList = ['.', '/'] := by decide

/-- the marker characters, as regenerated -/
theorem marker_chars : LoadTable.markers.map String.toList = [['#'], ['@'], ['<'], ['\n'], ['{'], ['[']] := by decide

theorem isMarker_cases (c : Char) (h : isMarker c = true) : c ∈ ['#', '@', '<', '\n', '{', '['] := by
  unfold isMarker at h
  simp only [List.any_eq_true, decide_eq_true_eq] at h
  obtain ⟨m, hm, hmc⟩ := h
  have : m.toList ∈ LoadTable.markers.map String.toList := List.mem_map.mpr ⟨m, hm, rfl⟩
  rw [marker_chars, hmc] at this
  simp only [List.mem_cons, List.cons.injEq, and_true, List.mem_nil_iff, or_false] at this
  simp only [List.mem_cons, List.mem_nil_iff, or_false]
  exact this

/-- a text that starts with one of the marker characters (# @ < { [ or a line break) is inline RDF, whatever follows -/
theorem marker_start_is_inline (ex : List Char → Bool) (c : Char) (rest : List Char) (h : isMarker c = true) :
    classifyStr ex (c :: rest) = .inline := by
  have hm := isMarker_cases c h
  have hc : c ≠ 'f' ∧ c ≠ 'h' ∧ c ≠ '/' ∧ c ≠ '.' := by
    simp only [List.mem_cons, List.mem_nil_iff, or_false] at hm
    rcases hm with rfl | rfl | rfl | rfl | rfl | rfl <;> decide
  obtain ⟨h1, h2, h3, h4⟩ := hc
  unfold classifyStr pfx
  rw [file_chars, http_chars, https_chars, dotslash_chars]
  have g1 : ¬ ('f' = c) := fun e => h1 e.symm
  have g2 : ¬ ('h' = c) := fun e => h2 e.symm
  have g4 : ¬ ('.' = c) := fun e => h4 e.symm
  simp [List.isPrefixOf, g1, g2, h3, g4, h]

/-- the same for a `bytes` source -/
theorem marker_start_is_inline_bytes (ex : List Char → Bool) (c : Char) (rest : List Char) (n : Nat) (h : isMarker c = true) :
    classifyBytes ex (c :: rest) n = .inline := by
  have hm := isMarker_cases c h
  have hc : c ≠ 'f' ∧ c ≠ 'h' := by
    simp only [List.mem_cons, List.mem_nil_iff, or_false] at hm
    rcases hm with rfl | rfl | rfl | rfl | rfl | rfl <;> decide
  obtain ⟨h1, h2⟩ := hc
  unfold classifyBytes pfx
  rw [file_chars, http_chars, https_chars]
  have g1 : ¬ ('f' = c) := fun e => h1 e.symm
  have g2 : ¬ ('h' = c) := fun e => h2 e.symm
  simp [List.isPrefixOf, g1, g2, h]

/-- a text with a line break is never opened as a file, unless it looks like a path or URI (starts with `/`, `./`,
    `file:`, `http:` or `https:`) -/
theorem line_break_is_inline (ex : List Char → Bool) (s : List Char) (hnl : '\n' ∈ s)
    (h1 : pfx "file:" s = false) (h2 : pfx "http:" s = false) (h3 : pfx "https:" s = false)
    (h4 : s.head? ≠ some '/') (h5 : pfx "./" s = false) : classifyStr ex s = .inline := by
  unfold classifyStr
  simp only [h1, h2, h3, Bool.false_eq_true, or_self, if_false]
  cases s with
  | nil => simp at hnl
  | cons c rest =>
    have hc : c ≠ '/' := by intro hh; apply h4; simp [hh]
    simp only [hc, h5, Bool.false_eq_true, and_false, or_self, if_false]
    split
    · rfl
    · split
      · rfl
      · split
        · rename_i hs
          exfalso
          have : shortTextIsRdf ex (c :: rest) = true := by unfold shortTextIsRdf; simp [hnl]
          simp [this] at hs
        · rfl

/-- a text of at least `shortLimit` characters is never opened as a file either, under the same provisos -/
theorem long_text_is_inline (ex : List Char → Bool) (s : List Char) (hlen : LoadTable.shortLimit ≤ s.length)
    (h1 : pfx "file:" s = false) (h2 : pfx "http:" s = false) (h3 : pfx "https:" s = false)
    (h4 : s.head? ≠ some '/') (h5 : pfx "./" s = false) : classifyStr ex s = .inline := by
  unfold classifyStr
  simp only [h1, h2, h3, Bool.false_eq_true, or_self, if_false]
  cases s with
  | nil => simp [LoadTable.shortLimit] at hlen
  | cons c rest =>
    have hc : c ≠ '/' := by intro hh; apply h4; simp [hh]
    simp only [hc, h5, Bool.false_eq_true, and_false, or_self, if_false]
    split
    · rfl
    · split
      · rfl
      · split
        · rename_i hs; exfalso; omega
        · rfl

/-- the standard headers select the parser: `@prefix` / `@base` Turtle, `<?xml` / `<rdf:RDF` RDF/XML (in any letter case) -/
theorem standard_headers_sniffed :
    sniff "@prefix ex: <http://ex.test/> .".toList = .turtle ∧ sniff "@base <http://ex.test/> .".toList = .turtle ∧
    sniff "<?xml version=\"1.0\" encoding=\"utf-8\"?>".toList = .xml ∧ sniff "<rdf:RDF".toList = .xml ∧
    sniff "@PREFIX ex: <http://ex.test/> .".toList = .turtle := by decide

/-- N-Triples and JSON-LD have no header the loader knows: the format is left to the caller or to rdflib's default -/
theorem no_header_unknown :
    sniff "<http://ex.test/a> <http://ex.test/p> \"v\" .".toList = .unknown ∧ sniff "{ \"@context\": {} }".toList = .unknown ∧
    sniff "_:b <http://ex.test/p> <http://ex.test/o> .".toList = .unknown := by decide

/-- the file extensions of the four formats of the property -/
theorem extensions_select_format :
    extFormat "data.ttl".toList = some "turtle" ∧ extFormat "data.nt".toList = some "nt" ∧
    extFormat "data.rdf".toList = some "xml" ∧ extFormat "data.xml".toList = some "xml" ∧
    extFormat "data.json".toList = some "json-ld" := by decide

/-- non-vacuity / regression witness of the repaired defect: a one-line N-Triples document whose subject is a blank node
    is inline RDF when no file of that name exists, both as str and as bytes -/
example : classifyStr (fun _ => false) "_:t1 <http://ex.test/p0> <http://ex.test/n0> .\n".toList = .inline := by decide
example : classifyStr (fun _ => false) "_:t1 <http://ex.test/p0> <http://ex.test/n0> .".toList = .inline := by decide
example : classifyBytes (fun _ => false) "_:t1 <http://ex.test/p0> <http://ex.test/n0> .".toList 47 = .inline := by decide
example : classifyStr (fun _ => true) "my data.ttl".toList = .fileName := by decide
example : classifyStr (fun _ => false) "data.ttl".toList = .fileName := by decide

end Pyshacl.C20
