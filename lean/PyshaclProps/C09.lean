/-
  C09 — validation is deterministic up to blank-node labels and result order.
  Model level: the two places where a graph is *searched* (property paths, targets) depend on a graph
  only through membership of triples; an arbitrary pick out of a python set is irrelevant when the
  set has at most one element (and relevant otherwise: two sh:severity values are ill-formed input).
  The Core components that look into the data graph (sh:class, sh:equals, sh:disjoint, sh:closed) report the same
  results for any two data graphs with the same triples, and every per-value component reports the same results
  for any two focus → value-node maps with the same pairs (consequences of the `_exact` theorems of C01).
  `data_graph_order_irrelevant` composes these facts through `Shape.validate` for the data graph: a complete run over
  two data graphs with the same triples (any insertion order, any multiplicity — hence also any iteration order of the
  value-node sets computed from them) returns the same verdict and the same results, nested sh:detail lists up to their
  order (`GraphOrder.lean`: every Core and SPARQL-based component incl. the count-based ones, both loops, nested
  evaluations, focus resolution; the SPARQL engine's answer tables are parameters, so rdflib's own insensitivity to
  triple order is assumed, not proved).  Still `…_partial` in the sense of DESIGN.md: the same for the *shapes* graph's
  triple order, blank-node relabelling and prefix bindings is not proved; abort_on_first and advanced mode are excluded
  from the theorem.  Those are decided on the code by the multi-process oracle.
-/
import PyshaclProofs.InvarianceProofs
import PyshaclProofs.CoreInvariance
import PyshaclProofs.FocusSet
import PyshaclProofs.EvalTransfer
import PyshaclProofs.GraphOrder
namespace Pyshacl.C09
open Pyshacl

theorem value_nodes_order_invariant_partial (p : Path) (g g' : Graph) (h : SameTriples g g') (inverse : Bool) (f x : Term) :
    x ∈ Path.evalPure p inverse g f ↔ x ∈ Path.evalPure p inverse g' f :=
  Pyshacl.value_nodes_order_invariant p g g' h inverse f x

theorem focus_nodes_order_invariant_partial (sg sg' dg dg' : Graph) (hs : SameTriples sg sg') (hd : SameTriples dg dg')
    (node n : Term) : n ∈ focusNodes sg dg node ↔ n ∈ focusNodes sg' dg' node :=
  Pyshacl.focus_nodes_order_invariant sg sg' dg dg' hs hd node n

/-- the raising evaluator itself (depth cap, ill-formed paths, loops): whether it returns does not depend on the
    insertion order or multiplicity of the graph's triples either, and what it returns has the same members -/
theorem value_nodes_outcome_order_invariant (cap : Nat) (p : Path) (g g' : Graph) (h : SameTriples g g')
    (inverse : Bool) (r : Nat) (f : Term) (vs : List Term) (hok : Path.eval cap p inverse r g f = .ok vs) :
    ∃ vs', Path.eval cap p inverse r g' f = .ok vs' ∧ ∀ x, x ∈ vs ↔ x ∈ vs' := by
  refine ⟨_, eval_transfer cap p g g' h inverse r f vs hok, fun x => ?_⟩
  rw [eval_ok_exact cap p g inverse r f vs hok]
  exact Pyshacl.value_nodes_order_invariant p g g' h inverse f x

theorem picks_irrelevant {α} [DecidableEq α] (l l' : List α) (hsame : ∀ x, x ∈ l ↔ x ∈ l')
    (hone : ∀ x ∈ l, ∀ y ∈ l, x = y) : (dedup l).head? = (dedup l').head? :=
  Pyshacl.pick_irrelevant l l' hsame hone

theorem picks_relevant_when_ill_formed : (dedup [1, 2]).head? ≠ (dedup [2, 1]).head? :=
  Pyshacl.pick_relevant_counterexample

/-- triple order / multiplicity of the data graph does not change what the graph-reading Core components report -/
theorem core_results_graph_order_invariant (s : Shape) (dg dg' : Graph) (h : SameTriples dg dg') (fv : FV)
    (ts ignored allowed : List Term) (r : Result) :
    (r ∈ evalClass s dg fv ts ↔ r ∈ evalClass s dg' fv ts) ∧
    (r ∈ evalEquals s dg fv ts ↔ r ∈ evalEquals s dg' fv ts) ∧
    (r ∈ evalDisjoint s dg fv ts ↔ r ∈ evalDisjoint s dg' fv ts) ∧
    (r ∈ evalClosed s dg fv true ignored allowed ↔ r ∈ evalClosed s dg' fv true ignored allowed) :=
  ⟨class_graph_invariant s dg dg' h fv ts r, equals_graph_invariant s dg dg' h fv ts r,
   disjoint_graph_invariant s dg dg' h fv ts r, closed_graph_invariant s dg dg' h fv ignored allowed r⟩

/-- the order in which focus nodes and value nodes come out of python sets does not change what a per-value component reports -/
theorem per_value_results_set_order_invariant (s : Shape) (k : CKind) (fv fv' : FV) (ok : Term → Term → Bool)
    (h : SamePairs fv fv') (r : Result) : r ∈ perValue s k fv ok ↔ r ∈ perValue s k fv' ok :=
  perValue_pairs_invariant s k fv fv' ok h r

/-- **set iteration order of the focus nodes is irrelevant**: a shape evaluated on two focus lists with the same members
    (any order, any repetition) returns the same verdict and the same set of results — every Core and SPARQL-based
    component, nested evaluations included, complete runs (`…_partial`: advanced-mode sh:expression is sampled) -/
theorem focus_order_irrelevant (c : Ctx) (hab : c.o.abortOnFirst = false) (hadv : c.o.advanced = false) (rec' : Rec)
    (s : Shape) (fl fl' : List Term) (hm : SameMem fl fl') (path : Option (List PathEntry)) :
    OutSim (validateCore c rec' s fl path) (validateCore c rec' s fl' path) :=
  validateCore_focus_set c hab hadv rec' s fl fl' hm path

/-- **the insertion order (and multiplicity) of the data graph's triples is irrelevant for a complete run** -/
theorem data_graph_order_irrelevant (o : Opts) (hab : o.abortOnFirst = false) (hadv : o.advanced = false) (sg dg dg' : Graph)
    (hd : SameTriples dg dg') (rx : Regex) (focus useShapes : List Term) (sq : Term → Term → Option (List Sol))
    (sqInfo : Term → Option SparqlTemplate) (va : Term → Term → Term → Term → Option ValidatorAnswer) (adv : AdvTables)
    (conf : Bool) (rs : List Result) (h : runValidate o sg dg rx focus useShapes sq sqInfo va adv = .ok (conf, rs)) :
    ∃ rs', runValidate o sg dg' rx focus useShapes sq sqInfo va adv = .ok (conf, rs') ∧
      (∀ r ∈ rs, ∃ r' ∈ rs', Result.Le r r') ∧ (∀ r' ∈ rs', ∃ r ∈ rs, Result.Le r' r) := by
  obtain ⟨rs', h1, e⟩ := runValidate_dg o hab hadv sg dg dg' hd rx focus useShapes sq sqInfo va adv conf rs h
  exact ⟨rs', h1, (listLe_iff rs rs').1 e.1, (listLe_iff rs' rs).1 e.2⟩

/-- the same for one constraint component: any permutation of each focus node's value nodes, any data graph with the
    same triples, nested evaluations related in the same way -/
theorem component_value_and_graph_order_irrelevant (e : Env) (dg' : Graph) (hd : SameTriples e.dg dg') (rec rec' : Rec)
    (hR : RecEqv rec rec') (s : Shape) (k : CKind) (fv fv' : FV) (h : FVPerm fv fv') (path : List PathEntry)
    (hk : k ≠ .expression) :
    OutEqv (evalConstraint e rec s k fv path) (evalConstraint (e.withDg dg') rec' s k fv' path) :=
  evalConstraint_eqv e dg' hd rec rec' hR s k fv fv' h path hk

/-! non-vacuity: the same three triples in two orders, one duplicated; a class and a count constraint -/
def exN (s : String) : Term := .iri ("http://ex.test/" ++ s)
def sgO : Graph :=
  [⟨exN "S", rdfType, shNodeShape⟩, ⟨exN "S", sh "targetSubjectsOf", exN "p"⟩, ⟨exN "S", shProperty, exN "P"⟩,
   ⟨exN "P", shPath, exN "p"⟩, ⟨exN "P", sh "class", exN "C"⟩, ⟨exN "P", sh "maxCount", .lit ⟨"1", xsd "integer", "", .int 1, false⟩⟩]
def dgO : Graph := [⟨exN "a", exN "p", exN "b"⟩, ⟨exN "a", exN "p", exN "c"⟩, ⟨exN "b", rdfType, exN "C"⟩]
def dgO' : Graph := [⟨exN "b", rdfType, exN "C"⟩, ⟨exN "a", exN "p", exN "c"⟩, ⟨exN "a", exN "p", exN "b"⟩, ⟨exN "a", exN "p", exN "c"⟩]
example : SameTriples dgO dgO' := by intro t; simp [dgO, dgO']; tauto
example : (runValidate {} sgO dgO (fun _ _ _ => none) [] []).toOption.map (fun p => (p.1, p.2.length)) = some (false, 2) := by decide
example : (runValidate {} sgO dgO' (fun _ _ _ => none) [] []).toOption.map (fun p => (p.1, p.2.length)) = some (false, 2) := by decide

end Pyshacl.C09
