/-
  C09 — validation is deterministic up to blank-node labels and result order.
  Model level: the two places where a graph is *searched* (property paths, targets) depend on a graph
  only through membership of triples; an arbitrary pick out of a python set is irrelevant when the
  set has at most one element (and relevant otherwise: two sh:severity values are ill-formed input).
  `…_partial`: invariance of the complete run under permutation and blank-node relabelling is not
  yet proved for the constraint components (they are list functions over the same searches); the
  property is decided on the code by the multi-process oracle.
-/
import PyshaclProofs.InvarianceProofs
namespace Pyshacl.C09
open Pyshacl

theorem value_nodes_order_invariant_partial (p : Path) (g g' : Graph) (h : SameTriples g g') (inverse : Bool) (f x : Term) :
    x ∈ Path.evalPure p inverse g f ↔ x ∈ Path.evalPure p inverse g' f :=
  Pyshacl.value_nodes_order_invariant p g g' h inverse f x

theorem focus_nodes_order_invariant_partial (sg sg' dg dg' : Graph) (hs : SameTriples sg sg') (hd : SameTriples dg dg')
    (node n : Term) : n ∈ focusNodes sg dg node ↔ n ∈ focusNodes sg' dg' node :=
  Pyshacl.focus_nodes_order_invariant sg sg' dg dg' hs hd node n

theorem picks_irrelevant {α} [DecidableEq α] (l l' : List α) (hsame : ∀ x, x ∈ l ↔ x ∈ l')
    (hone : ∀ x ∈ l, ∀ y ∈ l, x = y) : (dedup l).head? = (dedup l').head? :=
  Pyshacl.pick_irrelevant l l' hsame hone

theorem picks_relevant_when_ill_formed : (dedup [1, 2]).head? ≠ (dedup [2, 1]).head? :=
  Pyshacl.pick_relevant_counterexample

end Pyshacl.C09
