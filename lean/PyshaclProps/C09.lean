/-
  C09 — validation is deterministic up to blank-node labels and result order.
  Model level: the two places where a graph is *searched* (property paths, targets) depend on a graph
  only through membership of triples; an arbitrary pick out of a python set is irrelevant when the
  set has at most one element (and relevant otherwise: two sh:severity values are ill-formed input).
  The Core components that look into the data graph (sh:class, sh:equals, sh:disjoint, sh:closed) report the same
  results for any two data graphs with the same triples, and every per-value component reports the same results
  for any two focus → value-node maps with the same pairs (consequences of the `_exact` theorems of C01).
  `…_partial`: invariance of the *complete* run under permutation and blank-node relabelling (composition of
  these facts through `Shape.validate`, the count-based components, relabelling equivariance) is not proved;
  the property is decided on the code by the multi-process oracle.
-/
import PyshaclProofs.InvarianceProofs
import PyshaclProofs.CoreInvariance
import PyshaclProofs.FocusSet
import PyshaclProofs.EvalTransfer
namespace Pyshacl.C09
open Pyshacl

theorem value_nodes_order_invariant_partial (p : Path) (g g' : Graph) (h : SameTriples g g') (inverse : Bool) (f x : Term) :
    x ∈ Path.evalPure p inverse g f ↔ x ∈ Path.evalPure p inverse g' f :=
  Pyshacl.value_nodes_order_invariant p g g' h inverse f x

theorem focus_nodes_order_invariant_partial (sg sg' dg dg' : Graph) (hs : SameTriples sg sg') (hd : SameTriples dg dg')
    (node n : Term) : n ∈ focusNodes sg dg node ↔ n ∈ focusNodes sg' dg' node :=
  Pyshacl.focus_nodes_order_invariant sg sg' dg dg' hs hd node n

/-- the raising evaluator itself (depth cap, ill-formed paths, loops): whether it returns does not depend on the
    insertion order or multiplicity of the graph's triples either, and what it returns has the same members -/
theorem value_nodes_outcome_order_invariant (cap : Nat) (p : Path) (g g' : Graph) (h : SameTriples g g')
    (inverse : Bool) (r : Nat) (f : Term) (vs : List Term) (hok : Path.eval cap p inverse r g f = .ok vs) :
    ∃ vs', Path.eval cap p inverse r g' f = .ok vs' ∧ ∀ x, x ∈ vs ↔ x ∈ vs' := by
  refine ⟨_, eval_transfer cap p g g' h inverse r f vs hok, fun x => ?_⟩
  rw [eval_ok_exact cap p g inverse r f vs hok]
  exact Pyshacl.value_nodes_order_invariant p g g' h inverse f x

theorem picks_irrelevant {α} [DecidableEq α] (l l' : List α) (hsame : ∀ x, x ∈ l ↔ x ∈ l')
    (hone : ∀ x ∈ l, ∀ y ∈ l, x = y) : (dedup l).head? = (dedup l').head? :=
  Pyshacl.pick_irrelevant l l' hsame hone

theorem picks_relevant_when_ill_formed : (dedup [1, 2]).head? ≠ (dedup [2, 1]).head? :=
  Pyshacl.pick_relevant_counterexample

/-- triple order / multiplicity of the data graph does not change what the graph-reading Core components report -/
theorem core_results_graph_order_invariant (s : Shape) (dg dg' : Graph) (h : SameTriples dg dg') (fv : FV)
    (ts ignored allowed : List Term) (r : Result) :
    (r ∈ evalClass s dg fv ts ↔ r ∈ evalClass s dg' fv ts) ∧
    (r ∈ evalEquals s dg fv ts ↔ r ∈ evalEquals s dg' fv ts) ∧
    (r ∈ evalDisjoint s dg fv ts ↔ r ∈ evalDisjoint s dg' fv ts) ∧
    (r ∈ evalClosed s dg fv true ignored allowed ↔ r ∈ evalClosed s dg' fv true ignored allowed) :=
  ⟨class_graph_invariant s dg dg' h fv ts r, equals_graph_invariant s dg dg' h fv ts r,
   disjoint_graph_invariant s dg dg' h fv ts r, closed_graph_invariant s dg dg' h fv ignored allowed r⟩

/-- the order in which focus nodes and value nodes come out of python sets does not change what a per-value component reports -/
theorem per_value_results_set_order_invariant (s : Shape) (k : CKind) (fv fv' : FV) (ok : Term → Term → Bool)
    (h : SamePairs fv fv') (r : Result) : r ∈ perValue s k fv ok ↔ r ∈ perValue s k fv' ok :=
  perValue_pairs_invariant s k fv fv' ok h r

/-- **set iteration order of the focus nodes is irrelevant**: a shape evaluated on two focus lists with the same members
    (any order, any repetition) returns the same verdict and the same set of results — every Core and SPARQL-based
    component, nested evaluations included, complete runs (`…_partial`: advanced-mode sh:expression is sampled) -/
theorem focus_order_irrelevant (c : Ctx) (hab : c.o.abortOnFirst = false) (hadv : c.o.advanced = false) (rec' : Rec)
    (s : Shape) (fl fl' : List Term) (hm : SameMem fl fl') (path : Option (List PathEntry)) :
    OutSim (validateCore c rec' s fl path) (validateCore c rec' s fl' path) :=
  validateCore_focus_set c hab hadv rec' s fl fl' hm path

end Pyshacl.C09
