/-
  C10 — validate() depends only on its current arguments, not on process history.
  The theorems are about the global-state machine `History.step` alone and live in
  `PyshaclProofs/HistoryProofs.lean`; they are re-exported here unchanged.
  What the model cannot exhibit: CPython re-using the address (`id()`) of a collected graph for a new one
  — the two caches keyed by `id(graph)` are reset at the start of every call (fix 622a3c5), so a re-used id
  cannot be observed across calls; within a call the graphs are alive and their ids distinct.
-/
import PyshaclProofs.HistoryProofs
namespace Pyshacl.C10
export Pyshacl.History (history_independent clean_step obs_clean failed_call_restores)
end Pyshacl.C10
