/-
  C05 — SPARQL-based constraints report exactly their query's solutions, one result each.

  rdflib's SPARQL engine is outside the model: the solutions of the declared query for a pre-bound focus node
  are a parameter (`sols`, shipped by the harness, which runs the same query text directly through rdflib with
  the same bindings).  What is proved is pySHACL's part, for every list of solutions (any number, any
  duplicates, any order), every shape and every focus node:
  de-duplication, solution → result mapping, per-result messages, component matching, forbidden syntax.
  `forbidden_is_failure_partial`: the screens of `check_invalid_sparql` are regular expressions on query text;
  the theorem covers the template family described by `SparqlTemplate`, not arbitrary query text.
-/
import PyshaclProofs.SparqlProofs
namespace Pyshacl.C05
open Pyshacl

/-- the results of a sh:sparql constraint for a focus node are the images of its distinct violations -/
theorem results_are_images (s : Shape) (cn : Term) (extraMsgs : List Term) (f : Term) (sols : List Sol) :
    sparqlResults s cn extraMsgs f sols = (violationsOf sols []).map (resultOfViolation s cn extraMsgs f) :=
  sparqlResults_eq s cn extraMsgs f sols

/-- exactly the distinct solutions: a (?this, ?path, ?value, other bindings) tuple is reported iff some
    solution projects onto it … -/
theorem solutions_exact (sols : List Sol) (t p v : Option Term) (o : List (String × Term)) :
    Violation.tpv t p v o ∈ violationsOf sols [] ↔ ∃ s ∈ sols, projOf s = some (.tpv t p v o) := by
  rw [violationsOf_mem_tpv]; simp

/-- … each once (no duplicate results), whatever the multiplicity of the solution -/
theorem one_result_per_distinct_solution (s : Shape) (cn : Term) (extraMsgs : List Term) (f : Term) (sols : List Sol) :
    (violationsOf sols []).Nodup ∧
    (sparqlResults s cn extraMsgs f sols).length = (violationsOf sols []).length ∧
    ((violationsOf sols []).filter Violation.isFailure).length ≤ 1 := by
  refine ⟨violationsOf_nodup sols [] List.nodup_nil, ?_, violationsOf_failures_le_one sols [] (by simp)⟩
  rw [sparqlResults_eq, List.length_map]

/-- sh:value and sh:resultPath come from ?value / ?path, the focus node from ?this (default: the pre-bound
    focus node; default value of a node shape: the focus node; default path: the shape's path) -/
theorem value_and_path_from_bindings (s : Shape) (cn : Term) (extraMsgs : List Term) (f : Term)
    (t p v : Option Term) (o : List (String × Term)) :
    let r := resultOfViolation s cn extraMsgs f (.tpv t p v o)
    r.focus = t.getD f ∧
    r.value = (match v with | some x => some x | none => if s.isProp then none else some f) ∧
    (match r with | .mk _ _ path _ _ _ _ _ _ => path) = (match p with | some x => some x | none => if s.isProp then s.path else none) ∧
    r.component = sh "SPARQLConstraintComponent" ∧ r.shape = s.node ∧ r.severity = s.severity := by
  cases v <;> cases p <;> simp [resultOfViolation, mkResult, Result.focus, Result.value, Result.component, Result.shape,
    Result.severity] <;> decide

/-- messages are filled from that solution's own bindings only: the messages of a result are a function of
    its own violation — the other solutions of the query, earlier results and other focus nodes do not occur -/
theorem messages_local (s : Shape) (cn : Term) (extraMsgs : List Term) (f : Term) (sols sols' : List Sol) (vio : Violation)
    (h : vio ∈ violationsOf sols []) (h' : vio ∈ violationsOf sols' []) :
    ∃ r ∈ sparqlResults s cn extraMsgs f sols, ∃ r' ∈ sparqlResults s cn extraMsgs f sols',
      r = resultOfViolation s cn extraMsgs f vio ∧ r' = r := by
  refine ⟨resultOfViolation s cn extraMsgs f vio, ?_, resultOfViolation s cn extraMsgs f vio, ?_, rfl, rfl⟩
  · rw [sparqlResults_eq]; exact List.mem_map.2 ⟨vio, h, rfl⟩
  · rw [sparqlResults_eq]; exact List.mem_map.2 ⟨vio, h', rfl⟩

/-- the declared templates with `{$var}` / `{?var}` replaced by this solution's bindings: the message list of
    a result is `resultMessages` of the constraint's and the shape's declared messages over `fdict` -/
theorem messages_are_filled_templates (s : Shape) (cn : Term) (extraMsgs : List Term) (f : Term)
    (t p v : Option Term) (o : List (String × Term)) :
    (resultOfViolation s cn extraMsgs f (.tpv t p v o)).messages =
      resultMessages s.messages extraMsgs (some (o ++ (match t with | some x => [("this", x)] | none => []) ++
        (match p with | some x => [("path", x)] | none => []) ++
        (match (match v with | some x => some x | none => if s.isProp then none else some f) with
          | some x => [("value", x)] | none => []))) := by
  cases v <;> cases hp : s.isProp <;> simp [resultOfViolation, mkResult, Result.messages, hp, List.append_assoc] <;> (try rfl)

/-- a SPARQL-based constraint component applies to a shape iff all its mandatory parameters have values -/
theorem component_matching_exact (sg : Graph) (comps : List Component) (shape : Term) (c : Component) :
    c ∈ applicableComponents sg comps shape ↔
      c ∈ comps ∧ ∀ p ∈ c.params, p.optional = false → ∃ v, (⟨shape, p.path, v⟩ : Triple) ∈ sg :=
  mem_applicableComponents sg comps shape c

/-- what SHACL-SPARQL forbids, on the template family -/
def Forbidden (t : SparqlTemplate) (prebound : List String) : Prop :=
  t.minus = true ∨ t.values = true ∨ t.service = true ∨
  (∃ vars, t.nested = some vars ∧ (vars = [] ∨ vars = ["*"] ∨
      ∃ p ∈ prebound, p ≠ "shapesGraph" ∧ p ≠ "currentShape" ∧ p ∉ vars)) ∨
  (∃ v, t.asVar = some v ∧ v ∈ prebound)

theorem checkInvalid_iff (t : SparqlTemplate) (prebound : List String) :
    checkInvalid t prebound = true ↔ Forbidden t prebound := by
  unfold checkInvalid Forbidden
  cases hn : t.nested <;> cases ha : t.asVar <;>
    simp [List.any_eq_true, or_assoc]

/-- a forbidden query produces a validation failure instead of a verdict (sh:sparql constraints) -/
theorem forbidden_is_failure_partial (c : Env) (rec : Rec) (s : Shape) (fv : FV) (path : List PathEntry)
    (cn : Term) (sel : Lit) (t : SparqlTemplate) (f : Term) (vs : List Term)
    (hone : dedup (c.sg.objects s.node shSparql) = [cn])
    (hsel : dedup (c.sg.objects cn shSelect) = [.lit sel]) (hstr : isStrVal sel = true)
    (hmsg : dedup (c.sg.objects cn shMessage) = []) (hdeact : dedup (c.sg.objects cn shDeactivated) = [])
    (hfv : fv = [(f, vs)]) (ht : c.sqInfo cn = some t)
    (hforb : Forbidden t ["this", "shapesGraph", "currentShape"]) :
    evalConstraint c rec s .sparql fv path = .error .validationFailure := by
  have hci := (checkInvalid_iff t _).2 hforb
  simp [evalConstraint, hone, hsel, hstr, hmsg, hdeact, hfv, ht, hci, foldOut]

/-! non-vacuity: three solutions, two of them equal, one without ?this/?path/?value -/
def exN (s : String) : Term := .iri ("http://ex.test/" ++ s)
def sols3 : List Sol :=
  [⟨[("this", exN "a"), ("value", exN "v1")]⟩, ⟨[("this", exN "a"), ("value", exN "v1")]⟩,
   ⟨[("x", exN "z")]⟩, ⟨[("this", exN "a"), ("value", exN "v2")]⟩]
example : (violationsOf sols3 []).length = 2 := by decide
example : Forbidden { minus := true } ["this"] := Or.inl rfl

end Pyshacl.C05
