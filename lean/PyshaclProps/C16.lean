/-
  C16 — outcomes use only the documented channels (exception families, exit codes).
  What is proved here is the command-line half of the statement, on the mapping regenerated from pyshacl/cli.py and
  pyshacl/errors.py on every run: the theorems are re-checked against what the code says now.  The API half ("no
  undocumented raw exception") is decided by the correspondence check on the malformed stream (see DESIGN.md); the
  theorems `raw_needs_catch_all` / `uncaught_collides` say why it matters for the exit status.
-/
import PyshaclProofs.RawProofs
import PyshaclModel.Cli
namespace Pyshacl.C16
open Pyshacl.Cli

/-- the documented exception family of validate() -/
def family : List String := ["ReportableRuntimeError", "ShapeLoadError", "ConstraintLoadError", "RuleLoadError"]

/-- every `Exception` class this model knows (pyshacl's own, and the built-in / third-party ones it can meet);
    interrupts (KeyboardInterrupt, SystemExit) are not outcomes of validate() -/
def knownClasses : List String :=
  ((Errors.hierarchy ++ builtinBases).map (·.1)).filter fun c => isSubclass 8 c "Exception"

theorem raised_never_zero : ∀ c ∈ knownClasses, exitStatus (.raised c) ≠ 0 := by decide

theorem raised_one_only_failure : ∀ c ∈ knownClasses, exitStatus (.raised c) = 1 → c = "ValidationFailure" := by decide

/-- **0 only after a conforming report, 1 only after a non-conforming report or a validation failure** -/
theorem exit_zero_iff (o : Outcome) (h : ∀ c, o = .raised c → c ∈ knownClasses) :
    exitStatus o = 0 ↔ o = .report true := by
  cases o with
  | report b => cases b <;> decide
  | failure => decide
  | raised c =>
    have hc := h c rfl
    simp only [reduceCtorEq, iff_false]
    exact raised_never_zero c hc

theorem exit_one_iff (o : Outcome) (h : ∀ c, o = .raised c → c ∈ knownClasses) :
    exitStatus o = 1 ↔ (o = .report false ∨ o = .failure ∨ o = .raised "ValidationFailure") := by
  cases o with
  | report b => cases b <;> decide
  | failure => decide
  | raised c =>
    have hc := h c rfl
    constructor
    · intro h1
      exact .inr (.inr (by rw [raised_one_only_failure c hc h1]))
    · intro h1
      rcases h1 with h1 | h1 | h1
      · cases h1
      · cases h1
      · cases h1; decide

/-- **2 for errors of the documented family, 3 for unimplemented features** -/
theorem family_exits_two : ∀ c ∈ family, exitStatus (.raised c) = 2 := by decide

theorem not_implemented_exits_three : exitStatus (.raised "NotImplementedError") = 3 := by decide

/-- the early input errors (no data file, unreadable file, malformed endpoint) are errors, never "non-conformant" -/
theorem early_exits_are_errors : ∀ e ∈ CliTable.earlyExits, e = 2 := by decide

/-- every known exception class is caught by some clause, and no clause but ValidationFailure's yields status 1 -/
theorem every_exception_handled : ∀ c ∈ knownClasses, (handlerFor c).isSome := by decide

/-- why the API clause matters for the CLI: an exception no clause catches ends the process with status 1,
    the status documented for "non-conformant" -/
theorem uncaught_collides (c : String) (h : handlerFor c = none) : exitStatus (.raised c) = 1 := by
  simp [exitStatus, h]

/-- NotImplementedError is a RuntimeError: its clause must come before the RuntimeError clause (it does) -/
theorem not_implemented_before_runtime :
    (CliTable.handlers.map (·.1)).idxOf "NotImplementedError" < (CliTable.handlers.map (·.1)).idxOf "RuntimeError" := by decide

/-- **API clause, model level (`…_partial`)**: a constraint component of the Core / SHACL-SPARQL families (everything but the
    advanced-mode sh:expression) lets an exception outside the documented family through only if a nested shape
    evaluation raised it, or it is one of `rawAllowed`: `ValueError` (a looping rdf:List — rejected at load time by
    `hasLoopingList`), `AttributeError` (a sibling qualified value shape missing from the shape cache — the cache builders
    gather them since fix 9a07337) and the oracle-table-miss markers of the harness.  Every other failure is
    ShapeLoadError / ConstraintLoadError / ReportableRuntimeError / ValidationFailure / NotImplementedError.
    Partial: path evaluation, target resolution and advanced mode are covered by the enumeration on the real code only. -/
theorem component_raw_classes_partial (e : Env) (rec : Rec) (s : Shape) (k : CKind) (fv : FV) (path : List PathEntry)
    (hk : k ≠ .expression) (cls : String) (h : evalConstraint e rec s k fv path = .error (.raw cls)) :
    cls ∈ rawAllowed ∨ ∃ s' v p, rec s' v p = .error (.raw cls) :=
  nnr_evalConstraint e rec s k fv path hk cls h

end Pyshacl.C16
