/-
  C04 — logical / shape-based components compose by conformance, not by leaked results.
  All statements: every shapes graph, data graph, option vector, evaluation path and nesting depth.
-/
import PyshaclProofs.LogicalLemmas
namespace Pyshacl.C04
open Pyshacl

/-- a node conforms to a referenced shape exactly when validating it against that shape yields no
    results (nested evaluations, any option vector incl. waivers and abort_on_first) -/
theorem conforms_iff_no_results (c : Ctx) (fuel : Nat) (s : Shape) (v : Term) (p : List PathEntry)
    (conf : Bool) (rs : List Result) (h : validateShape c fuel s (some [v]) (some p) = .ok (conf, rs)) :
    conf = true ↔ rs = [] := by
  have := validateShape_verdict c fuel s (some [v]) (some p) conf rs h
  simp [okSet] at this
  rw [this]; cases rs <;> simp

/-- every node conforms to a deactivated shape -/
theorem deactivated_conforms (c : Ctx) (fuel : Nat) (s : Shape) (focus : Option (List Term))
    (p : Option (List PathEntry)) (hd : s.deactivated = true) :
    validateShape c fuel s focus p = .ok (true, []) := by
  cases fuel <;> simp [validateShape, validateBody, hd]

/-- sh:not, sh:and, sh:or, sh:xone: results from the members' conformance facts alone -/
theorem logical_from_conformance (rec : Rec) (s : Shape) (k : CKind) (path : List PathEntry) (fv : FV)
    (members : List Shape) (bad : List Bool → Bool)
    (hok : ∀ m ∈ members, ∀ f vs, (f, vs) ∈ fv → ∀ v ∈ vs, ∃ c r, rec m v path = .ok (c, r)) :
    ∃ conf, logicalOver rec s k path fv members bad = .ok (conf,
      fv.flatMap fun (f, vs) => vs.flatMap fun v =>
        if bad (members.map fun m => confOf rec path m v) then [mkResult s k f (some v)] else []) :=
  logicalOver_spec rec s k path fv members bad hok

/-- sh:node: one result per non-conforming value; consulted results only under sh:detail -/
theorem node_from_conformance (rec : Rec) (s : Shape) (path : List PathEntry) (fv : FV) (ns : Shape)
    (g : Term → Bool × List Result)
    (hok : ∀ f vs, (f, vs) ∈ fv → ∀ v ∈ vs, rec ns v path = .ok (g v))
    (hgood : ∀ v, (g v).1 = (g v).2.isEmpty) :
    ∃ conf, nodeOver rec s path fv ns = .ok (conf,
      fv.flatMap fun (f, vs) => vs.flatMap fun v =>
        if (g v).1 then [] else [mkResult s .node f (some v) (details := (g v).2)]) :=
  nodeOver_spec rec s path fv ns g hok hgood
/-- sh:property contributes the nested property shape's own results -/
theorem property_forwards (rec : Rec) (path : List PathEntry) (fv : FV) (ps : Shape)
    (g : Term → Bool × List Result)
    (hok : ∀ f vs, (f, vs) ∈ fv → ∀ v ∈ vs, rec ps v path = .ok (g v)) :
    ∃ conf, propertyOver rec path fv ps = .ok (conf, fv.flatMap fun (_, vs) => vs.flatMap fun v => (g v).2) :=
  propertyOver_spec rec path fv ps g hok

/-- each result carries the severity and declared messages of the shape that owns the constraint -/
theorem result_owner (s : Shape) (k : CKind) (f : Term) (v p comp : Option Term) (d : List Result) :
    (mkResult s k f v p comp d).shape = s.node ∧ (mkResult s k f v p comp d).severity = s.severity ∧
    (mkResult s k f v p comp d).messages = s.messages := by
  simp [mkResult, Result.shape, Result.severity, Result.messages]

/-! non-vacuity: sh:or of two failing members reports one OrConstraintComponent result and nothing of the members -/
def exN (s : String) : Term := .iri ("http://ex.test/" ++ s)
def sgOr : Graph :=
  [⟨exN "S", rdfType, shNodeShape⟩, ⟨exN "S", shTargetNode, exN "a"⟩, ⟨exN "S", shOr, .bnode "l1"⟩,
   ⟨.bnode "l1", rdfFirst, exN "A"⟩, ⟨.bnode "l1", rdfRest, .bnode "l2"⟩,
   ⟨.bnode "l2", rdfFirst, exN "B"⟩, ⟨.bnode "l2", rdfRest, rdfNil⟩,
   ⟨exN "A", rdfType, shNodeShape⟩, ⟨exN "A", sh "class", exN "C"⟩,
   ⟨exN "B", rdfType, shNodeShape⟩, ⟨exN "B", sh "nodeKind", sh "Literal"⟩]
example : (runValidate {} sgOr [] (fun _ _ _ => none) [] []).toOption.map
    (fun p => (p.1, p.2.map (·.component))) = some (false, [sh "OrConstraintComponent"]) := by decide

end Pyshacl.C04
