/-
  C06 — verdict, report graph and report text agree; the verdict formula.

  Proved here (model level, every shapes graph / data graph / option vector, with and without
  abort_on_first and focus_nodes): the boolean verdict is `false` exactly when at least one reported
  top-level result has a severity not waived by allow_infos / allow_warnings; with neither option,
  exactly when there is any result.  The agreement of the three renderings of the verdict
  (sh:conforms literal, "Conforms:" line, result count = number of sh:result links) and the
  well-formedness of each result node are proved over the model of the report assembly
  (`PyshaclModel/Report.lean`: create_validation_report, make_v_result, clone_blank_node), for every
  verdict and every list of (nested) results; the same facts are checked on the real return triple by
  the harness (B), and the model's report graph is compared with the real one up to blank-node labels (A).

  Two things are hypotheses or left to the comparison, and why:
  * `single_report_node` needs "no copied description says `rdf:type sh:ValidationReport`": a blank focus or
    value node of the data graph that is itself typed sh:ValidationReport is copied with its description,
    which the property also demands; the two demands meet only in that corner.
  * `blank_node_description_copied` is for blank nodes that are not rdf:List nodes; a list node is rebuilt
    member by member (`clone_list`), which is modelled and compared but not restated as a theorem — except that
    the statements about it besides rdf:first / rdf:rest are copied like anyone else's
    (`blank_node_statements_copied`; the code dropped them until fix a592404).
  That the reported terms are terms of the validated graphs is checked on the real report only.
-/
import PyshaclProofs.EvalLemmas
import PyshaclProofs.ReportProofs
namespace Pyshacl.C06
open Pyshacl

theorem verdict_formula (o : Opts) (sg dg : Graph) (rx : Regex) (focus : List Term)
    (conf : Bool) (rs : List Result) (h : runValidate o sg dg rx focus [] = .ok (conf, rs)) :
    conf = false ↔ ∃ r ∈ rs, r.severity ∉ allowedSeverities o := by
  rw [runValidate_verdict o sg dg rx focus conf rs h]
  unfold allWaived
  rw [← Bool.not_eq_true, List.all_eq_true]
  simp

theorem no_option_verdict (o : Opts) (sg dg : Graph) (rx : Regex) (focus : List Term)
    (h1 : o.allowInfos = false) (h2 : o.allowWarnings = false)
    (conf : Bool) (rs : List Result) (h : runValidate o sg dg rx focus [] = .ok (conf, rs)) :
    conf = true ↔ rs = [] := by
  rw [runValidate_verdict o sg dg rx focus conf rs h, allWaived_no_option o h1 h2]
  cases rs <;> simp

/-- a non-conforming verdict always comes with at least one result, so the
    `RuntimeError("A Non-Conformant Validation Report must have at least one result.")` of
    `create_validation_report` is unreachable — under every option vector. -/
theorem nonconforming_has_result (o : Opts) (sg dg : Graph) (rx : Regex) (focus : List Term)
    (rs : List Result) (h : runValidate o sg dg rx focus [] = .ok (false, rs)) : rs ≠ [] := by
  have := runValidate_verdict o sg dg rx focus false rs h
  intro hn; subst hn; simp [allWaived] at this

/-! ### the report graph and the report text -/

/-- the verdict, the `sh:conforms` literal and the "Conforms:" line are the same boolean; the text's result
    count is the number of results, which is the number of `sh:result` links (`result_links`) -/
theorem three_renderings_agree (sg dg : Graph) (desc : Result → String) (conf : Bool) (rs : List Result)
    (b : Bool) (g : List RTriple) (text : String) (h : createReport sg dg desc conf rs = .ok (b, g, text)) :
    b = conf ∧ (∀ o, (⟨.fresh [], shConforms, o⟩ : RTriple) ∈ g ↔ o = .term (boolLit conf)) ∧
    text = "Validation Report\nConforms: " ++ (if conf then "True" else "False") ++ "\n"
      ++ (if rs.length > 0 then "Results (" ++ toString rs.length ++ "):\n" else "") ++ String.join (rs.map desc) := by
  unfold createReport at h
  split at h
  · simp at h
  · injection h with h; injection h with h1 h2; injection h2 with h2 h3
    subst h1 h2 h3
    refine ⟨rfl, fun o => ?_, rfl⟩
    rw [mem_reportGraph_root]
    constructor
    · rintro (⟨h, _⟩ | ⟨_, h⟩ | ⟨h, _⟩)
      · exact absurd h (by decide)
      · exact h
      · exact absurd h (by decide)
    · intro h; exact Or.inr (Or.inl ⟨rfl, h⟩)

/-- a non-conforming verdict is never reported without a result: the assembly refuses it -/
theorem nonconforming_report_has_result (sg dg : Graph) (desc : Result → String) (rs : List Result)
    (g : List RTriple) (text : String) (h : createReport sg dg desc false rs = .ok (false, g, text)) : rs ≠ [] := by
  unfold createReport at h
  intro hn; subst hn; simp at h

/-- the `sh:result` links of the report node: one per result, pairwise distinct -/
theorem result_links (sg dg : Graph) (conf : Bool) (rs : List Result) (o : RNode) :
    (⟨.fresh [], shResult, o⟩ : RTriple) ∈ reportGraph sg dg conf rs ↔ ∃ i, i < rs.length ∧ o = .fresh [i] := by
  rw [mem_reportGraph_root]
  constructor
  · rintro (⟨h, _⟩ | ⟨h, _⟩ | ⟨_, h⟩)
    · exact absurd h (by decide)
    · exact absurd h (by decide)
    · exact h
  · intro h; exact Or.inr (Or.inr ⟨rfl, h⟩)

theorem result_links_distinct (i j : Nat) (h : RNode.fresh [i] = RNode.fresh [j]) : i = j := by
  injection h with h; injection h

/-- exactly one node is typed sh:ValidationReport — provided no copied description says so too -/
theorem single_report_node (sg dg : Graph) (conf : Bool) (rs : List Result)
    (hc : ∀ t ∈ clones sg dg (resultsPending dg 0 rs), ¬ (t.p = rdfType ∧ t.o = .term shValidationReport)) (n : RNode) :
    (⟨n, rdfType, .term shValidationReport⟩ : RTriple) ∈ reportGraph sg dg conf rs ↔ n = .fresh [] := by
  rw [mem_reportGraph]
  constructor
  · rintro (h | h | ⟨i, _, h⟩ | ⟨x, hx, h⟩ | h)
    · injection h
    · have := congrArg RTriple.p h; dsimp only at this; exact absurd this (by decide)
    · have := congrArg RTriple.p h; dsimp only at this; exact absurd this (by decide)
    · exfalso
      injection h with h1 h2 h3
      rw [mem_resultsPending] at hx
      obtain ⟨i, r, _, hx⟩ := hx
      -- every prepared triple with predicate rdf:type says sh:ValidationResult
      have key : ∀ (idx : List Nat) (r : Result), ∀ x ∈ resultPending dg idx r, x.p = rdfType → x.o.resolve = .term shValidationResult := by
        intro idx r
        refine resultPending.induct
          (motive_1 := fun idx r => ∀ x ∈ resultPending dg idx r, x.p = rdfType → x.o.resolve = .term shValidationResult)
          (motive_2 := fun idx j ds => ∀ x ∈ detailPending dg idx j ds, x.p = rdfType → x.o.resolve = .term shValidationResult)
          ?_ ?_ ?_ idx r
        · intro idx f v p c s sev msgs det src ih x hx hp
          rw [resultPending_eq, List.mem_append] at hx
          rcases hx with hx | hx
          · rw [mem_ownPending] at hx
            rcases hx with hx | hx | hx | hx | hx | ⟨t, _, hx⟩ | ⟨t, _, hx⟩ | ⟨t, _, hx⟩ | ⟨m, _, hx⟩ <;> subst hx
            · rfl
            all_goals (dsimp only at hp; exact absurd hp (by decide))
          · exact ih x hx hp
        · intro idx j x hx; simp [detailPending] at hx
        · intro idx j d ds ih1 ih2 x hx hp
          simp only [detailPending, List.mem_cons, List.mem_append] at hx
          rcases hx with hx | hx | hx
          · subst hx; dsimp only at hp; exact absurd hp (by decide)
          · exact ih1 x hx hp
          · exact ih2 x hx hp
      have := key _ r x hx h2.symm
      rw [← h3] at this
      injection this with this
      exact absurd this (by decide)
    · exact absurd ⟨rfl, rfl⟩ (hc _ h)
  · intro h; subst h; exact Or.inl rfl

/-- the hypothesis of `single_report_node` follows from a condition on the validated graphs alone -/
theorem no_report_type_in_clones (sg dg : Graph) (ps : List Pending)
    (h : ∀ t ∈ sg ++ dg, ¬ (t.p = rdfType ∧ t.o = shValidationReport)) :
    ∀ t ∈ clones sg dg ps, ¬ (t.p = rdfType ∧ t.o = .term shValidationReport) := by
  intro t ht ⟨hp, ho⟩
  unfold clones at ht
  rw [List.mem_flatMap] at ht
  obtain ⟨⟨⟨src, b⟩, k⟩, _, ht⟩ := ht
  have horig := cloneBnode_origin _ _ _ _ _ _ t ht
  unfold Origin at horig
  rcases horig with (h1 | h1) | ⟨t', ht', hp', ho' | ⟨k, hk⟩⟩
  · rw [hp] at h1; exact absurd h1 (by decide)
  · rw [hp] at h1; exact absurd h1 (by decide)
  · refine h t' ?_ ⟨hp'.trans hp, ?_⟩
    · cases src <;> simp [srcGraph] at ht' <;> simp [ht']
    · rw [ho] at ho'; injection ho' with ho'; exact ho'.symm
  · rw [ho] at hk; injection hk

/-- what it means for node `idx` of report graph `G` to be a well-formed rendering of result `r`: exactly one
    sh:focusNode, sh:resultSeverity, sh:sourceConstraintComponent and sh:sourceShape, at most one sh:value and
    sh:resultPath, each being the corresponding term of `r`, and no rdf:type but sh:ValidationResult -/
def WellFormedNode (G : List RTriple) (idx : List Nat) (r : Result) : Prop :=
  (∀ o, (⟨.fresh idx, shFocusNode, o⟩ : RTriple) ∈ G ↔ o = .term r.focus) ∧
  (∀ o, (⟨.fresh idx, shResultSeverity, o⟩ : RTriple) ∈ G ↔ o = .term r.severity) ∧
  (∀ o, (⟨.fresh idx, shSourceConstraintComponent, o⟩ : RTriple) ∈ G ↔ o = .term r.component) ∧
  (∀ o, (⟨.fresh idx, shSourceShape, o⟩ : RTriple) ∈ G ↔ o = .term r.shape) ∧
  (∀ o, (⟨.fresh idx, shValue, o⟩ : RTriple) ∈ G ↔ ∃ t, r.value = some t ∧ o = .term t) ∧
  (∀ o, (⟨.fresh idx, shResultPath, o⟩ : RTriple) ∈ G ↔ ∃ t, r.rpath = some t ∧ o = .term t) ∧
  (∀ o, (⟨.fresh idx, rdfType, o⟩ : RTriple) ∈ G ↔ o = .term shValidationResult)

theorem wellformed_of_stands_for (sg dg : Graph) (conf : Bool) (rs : List Result) (idx : List Nat) (hne : idx ≠ [])
    (r : Result) (hr : ∀ x, (x ∈ resultsPending dg 0 rs ∧ x.s = .fresh idx) ↔ NodeTriples dg idx r x) :
    WellFormedNode (reportGraph sg dg conf rs) idx r := by
  -- the triples about this node with a given predicate, read off the prepared triples of `r`
  have key : ∀ (p : Term) (o : RNode), (⟨.fresh idx, p, o⟩ : RTriple) ∈ reportGraph sg dg conf rs ↔
      ∃ y, NodeTriples dg idx r y ∧ y.p = p ∧ y.o.resolve = o := by
    intro p o
    rw [mem_reportGraph_fresh sg dg conf rs idx hne]
    constructor
    · rintro ⟨y, hy, h1, h2, h3⟩; exact ⟨y, (hr y).1 ⟨hy, h1⟩, h2, h3⟩
    · rintro ⟨y, hy, h2, h3⟩; have := (hr y).2 hy; exact ⟨y, this.1, this.2, h2, h3⟩
  refine ⟨?_, ?_, ?_, ?_, ?_, ?_, ?_⟩
  all_goals
    intro o
    rw [key]
    unfold NodeTriples
    simp only [mem_ownPending]
    constructor
    · rintro ⟨y, (hy | hy | hy | hy | hy | ⟨t, ht, hy⟩ | ⟨t, ht, hy⟩ | ⟨t, ht, hy⟩ | ⟨m, _, hy⟩) | ⟨j, d, _, hy⟩, hp, ho⟩ <;> subst hy
      all_goals dsimp only [PObj.resolve, detailLink] at hp ho
      all_goals first
        | exact absurd hp (by decide)
        | exact ho.symm
        | exact ⟨_, ‹_›, ho.symm⟩
  · intro ho; subst ho; exact ⟨_, Or.inl (Or.inr (Or.inr (Or.inr (Or.inr (Or.inl rfl))))), rfl, rfl⟩
  · intro ho; subst ho; exact ⟨_, Or.inl (Or.inr (Or.inr (Or.inr (Or.inl rfl)))), rfl, rfl⟩
  · intro ho; subst ho; exact ⟨_, Or.inl (Or.inr (Or.inl rfl)), rfl, rfl⟩
  · intro ho; subst ho; exact ⟨_, Or.inl (Or.inr (Or.inr (Or.inl rfl))), rfl, rfl⟩
  · rintro ⟨t, ht, ho⟩; subst ho
    exact ⟨_, Or.inl (Or.inr (Or.inr (Or.inr (Or.inr (Or.inr (Or.inl ⟨t, ht, rfl⟩)))))), rfl, rfl⟩
  · rintro ⟨t, ht, ho⟩; subst ho
    exact ⟨_, Or.inl (Or.inr (Or.inr (Or.inr (Or.inr (Or.inr (Or.inr (Or.inl ⟨t, ht, rfl⟩))))))), rfl, rfl⟩
  · intro ho; subst ho; exact ⟨_, Or.inl (Or.inl rfl), rfl, rfl⟩

/-- **every result node is well-formed**: a node typed sh:ValidationResult stands for one result `r` — nested
    results below sh:detail included — and is a well-formed rendering of it -/
theorem result_node_wellformed (sg dg : Graph) (conf : Bool) (rs : List Result) (idx : List Nat)
    (h : (⟨.fresh idx, rdfType, .term shValidationResult⟩ : RTriple) ∈ reportGraph sg dg conf rs) :
    ∃ r : Result, WellFormedNode (reportGraph sg dg conf rs) idx r := by
  have hne : idx ≠ [] := by
    intro he; subst he
    rw [mem_reportGraph_root] at h
    rcases h with ⟨_, h⟩ | ⟨h, _⟩ | ⟨h, _⟩
    · injection h with h; exact absurd h (by decide)
    · exact absurd h (by decide)
    · exact absurd h (by decide)
  rw [mem_reportGraph_fresh sg dg conf rs idx hne] at h
  obtain ⟨x, hx, hs, _, _⟩ := h
  obtain ⟨r, hr⟩ := top_node_stands_for dg rs idx ⟨x, hx, hs⟩
  exact ⟨r, wellformed_of_stands_for sg dg conf rs idx hne r hr⟩

/-- the node behind the i-th `sh:result` link is a well-formed rendering of the i-th result -/
theorem top_result_wellformed (sg dg : Graph) (conf : Bool) (rs : List Result) (i : Nat) (r : Result)
    (hi : rs[i]? = some r) : WellFormedNode (reportGraph sg dg conf rs) [i] r :=
  wellformed_of_stands_for sg dg conf rs [i] (by simp) r (top_node_is dg rs i r hi)

/-- **the verdict read off the report graph**: for a run that returns, `sh:conforms` is false exactly when some
    node linked by `sh:result` has a `sh:resultSeverity` that is not waived by allow_infos / allow_warnings -/
theorem report_verdict_formula (o : Opts) (sg dg : Graph) (rx : Regex) (focus : List Term) (desc : Result → String)
    (conf : Bool) (rs : List Result) (h : runValidate o sg dg rx focus [] = .ok (conf, rs))
    (b : Bool) (g : List RTriple) (text : String) (hrep : createReport sg dg desc conf rs = .ok (b, g, text)) :
    (⟨.fresh [], shConforms, .term (boolLit false)⟩ : RTriple) ∈ g ↔
      ∃ n sev, (⟨.fresh [], shResult, n⟩ : RTriple) ∈ g ∧ (⟨n, shResultSeverity, .term sev⟩ : RTriple) ∈ g ∧
        sev ∉ allowedSeverities o := by
  have h3 := three_renderings_agree sg dg desc conf rs b g text hrep
  have hg : g = reportGraph sg dg conf rs := by
    unfold createReport at hrep
    split at hrep
    · simp at hrep
    · injection hrep with hrep; injection hrep with _ h2; injection h2 with h2 _; exact h2.symm
  rw [h3.2.1]
  have hv := verdict_formula o sg dg rx focus conf rs h
  constructor
  · intro hc
    have hconf : conf = false := by
      injection hc with hc; cases conf <;> simp_all [boolLit]
    obtain ⟨r, hr, hsev⟩ := hv.1 hconf
    obtain ⟨i, hi⟩ := List.mem_iff_getElem?.1 hr
    have hlt : i < rs.length := by
      rcases Nat.lt_or_ge i rs.length with h' | h'
      · exact h'
      · rw [List.getElem?_eq_none h'] at hi; cases hi
    refine ⟨.fresh [i], r.severity, ?_, ?_, hsev⟩
    · rw [hg, result_links]; exact ⟨i, hlt, rfl⟩
    · rw [hg]; exact ((top_result_wellformed sg dg conf rs i r hi).2.1 _).2 rfl
  · rintro ⟨n, sev, hl, hs, hw⟩
    rw [hg, result_links] at hl
    obtain ⟨i, hlt, hn⟩ := hl
    subst hn
    have hi : rs[i]? = some rs[i] := List.getElem?_eq_getElem hlt
    rw [hg] at hs
    have := ((top_result_wellformed sg dg conf rs i rs[i] hi).2.1 _).1 hs
    injection this with this
    have hconf : conf = false := hv.2 ⟨rs[i], List.getElem_mem hlt, by rw [← this]; exact hw⟩
    rw [hconf]

/-- the i-th `sh:result` link leads to a node that stands for the i-th result -/
theorem top_result_node (sg dg : Graph) (conf : Bool) (rs : List Result) (i : Nat) (r : Result) (hi : rs[i]? = some r) :
    (⟨.fresh [i], rdfType, .term shValidationResult⟩ : RTriple) ∈ reportGraph sg dg conf rs ∧
    (⟨.fresh [i], shFocusNode, .term r.focus⟩ : RTriple) ∈ reportGraph sg dg conf rs ∧
    (⟨.fresh [i], shResultSeverity, .term r.severity⟩ : RTriple) ∈ reportGraph sg dg conf rs := by
  have own : ∀ y, y ∈ ownPending dg [i] r → (⟨y.s, y.p, y.o.resolve⟩ : RTriple) ∈ reportGraph sg dg conf rs := by
    intro y hy
    rw [mem_reportGraph]
    exact Or.inr (Or.inr (Or.inr (Or.inl ⟨y, ((top_node_is dg rs i r hi y).2 (Or.inl hy)).1, rfl⟩)))
  refine ⟨?_, ?_, ?_⟩
  · exact own ⟨.fresh [i], rdfType, .direct shValidationResult⟩ ((mem_ownPending dg [i] r _).2 (Or.inl rfl))
  · exact own ⟨.fresh [i], shFocusNode, .from (focusSrc dg) r.focus⟩
      ((mem_ownPending dg [i] r _).2 (Or.inr (Or.inr (Or.inr (Or.inr (Or.inl rfl))))))
  · exact own ⟨.fresh [i], shResultSeverity, .direct r.severity⟩
      ((mem_ownPending dg [i] r _).2 (Or.inr (Or.inr (Or.inr (Or.inl rfl)))))

/-- a blank focus node of a top-level result comes with a copy of its description: every triple about it in the
    graph it was taken from (the data graph; the shapes graph when the data graph is empty) is in the report,
    a blank-node object replaced by a freshly minted node (which carries its own copy, to the clone depth) -/
theorem blank_focus_description_copied (sg dg : Graph) (conf : Bool) (rs : List Result) (i : Nat) (r : Result)
    (hi : rs[i]? = some r) (b : String) (hf : r.focus = .bnode b)
    (hl : isListNode (srcGraph sg dg (focusSrc dg)) (.bnode b) = false)
    (p o : Term) (h : (⟨.bnode b, p, o⟩ : Triple) ∈ srcGraph sg dg (focusSrc dg)) :
    (o.isBnode = false → (⟨.term (.bnode b), p, .term o⟩ : RTriple) ∈ reportGraph sg dg conf rs) ∧
    (o.isBnode = true → ∃ k, (⟨.term (.bnode b), p, .cl k⟩ : RTriple) ∈ reportGraph sg dg conf rs) := by
  have hk : (focusSrc dg, Term.bnode b) ∈ cloneKeys (resultsPending dg 0 rs) := by
    rw [mem_cloneKeys]
    refine ⟨⟨.fresh [i], shFocusNode, .from (focusSrc dg) r.focus⟩, ?_, by rw [hf]⟩
    exact ((top_node_is dg rs i r hi _).2 (Or.inl ((mem_ownPending dg [i] r _).2
      (Or.inr (Or.inr (Or.inr (Or.inr (Or.inl rfl)))))))).1
  have := clones_copy sg dg _ _ b hk hl p o h
  constructor
  · intro hb; rw [mem_reportGraph]; exact Or.inr (Or.inr (Or.inr (Or.inr (this.1 hb))))
  · intro hb; obtain ⟨k, hk⟩ := this.2 hb
    exact ⟨k, by rw [mem_reportGraph]; exact Or.inr (Or.inr (Or.inr (Or.inr hk)))⟩

/-- the same for every blank node the assembly resolves — value nodes (from the data graph), source shapes,
    result paths and source constraints (from the shapes graph), of top-level and nested results alike -/
theorem blank_node_description_copied (sg dg : Graph) (conf : Bool) (rs : List Result) (src : Src) (b : String)
    (x : Pending) (hx : x ∈ resultsPending dg 0 rs) (hxo : x.o = .from src (.bnode b))
    (hl : isListNode (srcGraph sg dg src) (.bnode b) = false)
    (p o : Term) (h : (⟨.bnode b, p, o⟩ : Triple) ∈ srcGraph sg dg src) :
    (o.isBnode = false → (⟨.term (.bnode b), p, .term o⟩ : RTriple) ∈ reportGraph sg dg conf rs) ∧
    (o.isBnode = true → ∃ k, (⟨.term (.bnode b), p, .cl k⟩ : RTriple) ∈ reportGraph sg dg conf rs) := by
  have hk : (src, Term.bnode b) ∈ cloneKeys (resultsPending dg 0 rs) := (mem_cloneKeys _ _ _).2 ⟨x, hx, hxo⟩
  have := clones_copy sg dg _ _ b hk hl p o h
  constructor
  · intro hb; rw [mem_reportGraph]; exact Or.inr (Or.inr (Or.inr (Or.inr (this.1 hb))))
  · intro hb; obtain ⟨k, hk⟩ := this.2 hb
    exact ⟨k, by rw [mem_reportGraph]; exact Or.inr (Or.inr (Or.inr (Or.inr hk)))⟩

/-- every statement other than rdf:first / rdf:rest about a resolved blank node is copied — list node or not -/
theorem blank_node_statements_copied (sg dg : Graph) (conf : Bool) (rs : List Result) (src : Src) (b : String)
    (x : Pending) (hx : x ∈ resultsPending dg 0 rs) (hxo : x.o = .from src (.bnode b))
    (p o : Term) (h : (⟨.bnode b, p, o⟩ : Triple) ∈ srcGraph sg dg src) (hp1 : p ≠ rdfFirst) (hp2 : p ≠ rdfRest) :
    (o.isBnode = false → (⟨.term (.bnode b), p, .term o⟩ : RTriple) ∈ reportGraph sg dg conf rs) ∧
    (o.isBnode = true → ∃ k, (⟨.term (.bnode b), p, .cl k⟩ : RTriple) ∈ reportGraph sg dg conf rs) := by
  have hk : (src, Term.bnode b) ∈ cloneKeys (resultsPending dg 0 rs) := (mem_cloneKeys _ _ _).2 ⟨x, hx, hxo⟩
  have := clones_copy_statements sg dg _ _ b hk p o h hp1 hp2
  constructor
  · intro hb; rw [mem_reportGraph]; exact Or.inr (Or.inr (Or.inr (Or.inr (this.1 hb))))
  · intro hb; obtain ⟨k, hk⟩ := this.2 hb
    exact ⟨k, by rw [mem_reportGraph]; exact Or.inr (Or.inr (Or.inr (Or.inr hk)))⟩

/-! non-vacuity: a concrete run with one Warning result, waived or not -/
def exN (s : String) : Term := .iri ("http://ex.test/" ++ s)
def sgEx : Graph :=
  [⟨exN "S", rdfType, shNodeShape⟩, ⟨exN "S", shTargetNode, exN "a"⟩, ⟨exN "S", sh "class", exN "C"⟩,
   ⟨exN "S", shSeverity, shWarning⟩]
example : (runValidate {} sgEx [] (fun _ _ _ => none) [] []).toOption.map (fun p => (p.1, p.2.length)) = some (false, 1) := by decide
example : (runValidate { allowWarnings := true } sgEx [] (fun _ _ _ => none) [] []).toOption.map (fun p => (p.1, p.2.length)) = some (true, 1) := by decide

/-! non-vacuity for the report assembly: a blank focus node with a description, one nested result -/
def dEx : Result := .mk (exN "v") none none (sh "ClassConstraintComponent") (exN "T") shWarning [] [] none
def rEx : Result := .mk (.bnode "b0") (some (exN "v")) none (sh "NodeConstraintComponent") (exN "S") shWarning [] [dEx] none
def dgEx : Graph := [⟨.bnode "b0", exN "p", exN "v"⟩, ⟨.bnode "b0", exN "q", .bnode "b1"⟩, ⟨.bnode "b1", exN "p", exN "w"⟩]
example : (⟨.fresh [0], rdfType, .term shValidationResult⟩ : RTriple) ∈ reportGraph sgEx dgEx false [rEx] := by decide
example : (⟨.fresh [0, 0], rdfType, .term shValidationResult⟩ : RTriple) ∈ reportGraph sgEx dgEx false [rEx] := by decide
example : (⟨.fresh [0], shDetail, .fresh [0, 0]⟩ : RTriple) ∈ reportGraph sgEx dgEx false [rEx] := by decide
example : (⟨.term (.bnode "b0"), exN "p", .term (exN "v")⟩ : RTriple) ∈ reportGraph sgEx dgEx false [rEx] := by decide
example : (reportGraph sgEx dgEx false [rEx]).length = 18 := by decide
example : isListNode dgEx (.bnode "b0") = false := by decide
example : ∀ t ∈ sgEx ++ dgEx, ¬ (t.p = rdfType ∧ t.o = shValidationReport) := by decide

end Pyshacl.C06
