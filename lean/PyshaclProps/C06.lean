/-
  C06 — verdict, report graph and report text agree; the verdict formula.

  Proved here (model level, every shapes graph / data graph / option vector, with and without
  abort_on_first and focus_nodes): the boolean verdict is `false` exactly when at least one reported
  top-level result has a severity not waived by allow_infos / allow_warnings; with neither option,
  exactly when there is any result.  The agreement of the three renderings of the verdict
  (sh:conforms literal, "Conforms:" line, result count = number of sh:result links) and the
  well-formedness of each result node are checked on the real return triple by the harness (B).
-/
import PyshaclProofs.EvalLemmas
namespace Pyshacl.C06
open Pyshacl

theorem verdict_formula (o : Opts) (sg dg : Graph) (rx : Regex) (focus : List Term)
    (conf : Bool) (rs : List Result) (h : runValidate o sg dg rx focus [] = .ok (conf, rs)) :
    conf = false ↔ ∃ r ∈ rs, r.severity ∉ allowedSeverities o := by
  rw [runValidate_verdict o sg dg rx focus conf rs h]
  unfold allWaived
  rw [← Bool.not_eq_true, List.all_eq_true]
  simp

theorem no_option_verdict (o : Opts) (sg dg : Graph) (rx : Regex) (focus : List Term)
    (h1 : o.allowInfos = false) (h2 : o.allowWarnings = false)
    (conf : Bool) (rs : List Result) (h : runValidate o sg dg rx focus [] = .ok (conf, rs)) :
    conf = true ↔ rs = [] := by
  rw [runValidate_verdict o sg dg rx focus conf rs h, allWaived_no_option o h1 h2]
  cases rs <;> simp

/-- a non-conforming verdict always comes with at least one result, so the
    `RuntimeError("A Non-Conformant Validation Report must have at least one result.")` of
    `create_validation_report` is unreachable — under every option vector. -/
theorem nonconforming_has_result (o : Opts) (sg dg : Graph) (rx : Regex) (focus : List Term)
    (rs : List Result) (h : runValidate o sg dg rx focus [] = .ok (false, rs)) : rs ≠ [] := by
  have := runValidate_verdict o sg dg rx focus false rs h
  intro hn; subst hn; simp [allWaived] at this

/-! non-vacuity: a concrete run with one Warning result, waived or not -/
def exN (s : String) : Term := .iri ("http://ex.test/" ++ s)
def sgEx : Graph :=
  [⟨exN "S", rdfType, shNodeShape⟩, ⟨exN "S", shTargetNode, exN "a"⟩, ⟨exN "S", sh "class", exN "C"⟩,
   ⟨exN "S", shSeverity, shWarning⟩]
example : (runValidate {} sgEx [] (fun _ _ _ => none) [] []).toOption.map (fun p => (p.1, p.2.length)) = some (false, 1) := by decide
example : (runValidate { allowWarnings := true } sgEx [] (fun _ _ _ => none) [] []).toOption.map (fun p => (p.1, p.2.length)) = some (true, 1) := by decide

end Pyshacl.C06
