/-
  C15 — SHACL rules only add justified triples, in the documented order.
  Property theorems about the rule engine model `PyshaclModel/Rules.lean` (`runRules` = `RuleExpandRunner.run` and the
  rules step of advanced-mode `Validator.run`, on prepared graphs).  Helper lemmas live in `PyshaclProofs/RulesProofs.lean`.
-/
import PyshaclProofs.RulesProofs
namespace Pyshacl.C15
open Pyshacl

/-- the context and the gathered rules a successful `runRules` ran with -/
theorem runRules_unfold {o : Opts} {iterate : Bool} {sg dg : Graph} {rx : Regex} {focus useShapes : List Term}
    {constructs : Term → List Construct} {g' : Graph}
    (h : runRules o iterate sg dg rx focus useShapes constructs = .ok g') :
    ∃ (c : RCtx) (groups : List (Shape × List Rule)) (fromShapes : Option (List Term)),
      c.sg = sg ∧ c.iterate = iterate ∧ gatherRules sg c.shapes constructs fromShapes = .ok groups ∧
      applyRules c groups dg = .ok g' := by
  unfold runRules at h
  split at h
  · cases h
  cases hs : rulesShapes sg useShapes with
  | error e => simp [hs] at h
  | ok pr =>
    obtain ⟨shapes, selected⟩ := pr
    simp only [hs] at h
    cases htt : gatherTargetTypes sg with
    | error e => simp [htt] at h
    | ok tts =>
    cases hfn : gatherFunctions sg with
    | error e => simp [htt, hfn] at h
    | ok fns =>
    simp only [htt, hfn] at h
    cases hg : gatherRules sg shapes constructs (selected.map fun l => l.map (·.node)) with
    | error e => simp [hg] at h
    | ok groups =>
      simp only [hg] at h
      exact ⟨_, groups, _, rfl, rfl, hg, h⟩

/-- `applyRules`: every input triple is kept and every other triple is justified by a firing of an active rule -/
theorem applyRules_spec {c : RCtx} {groups : List (Shape × List Rule)} {g g' : Graph}
    (h : applyRules c groups g = .ok g') :
    Sub g g' ∧ Just c (groups.flatMap (·.2)) g g' := by
  unfold applyRules at h
  split at h
  · simp at h
  · rename_i keyed hk
    have hmem : ∀ grp ∈ sortBy (·.1) keyed, ∀ r ∈ grp.2, r ∈ groups.flatMap (·.2) := by
      intro grp hgrp r hr
      have hgrp' : grp ∈ keyed := (sortBy_perm' _ _).mem_iff.mp hgrp
      obtain ⟨x, hx, hfx⟩ := mapE_mem _ groups keyed hk grp hgrp'
      obtain ⟨s, rs⟩ := x
      simp only at hfx
      cases hso : shapeOrderKey c.sg s with
      | error e => simp [hso, Except.map] at hfx
      | ok k =>
        simp only [hso, Except.map, Except.ok.injEq] at hfx
        subst hfx
        exact List.mem_flatMap.mpr ⟨(s, rs), hx, hr⟩
    exact applyGroups_spec _ hmem g g' h (Sub.refl _) (Just.init _ _ _)

/-- **input preserved**: the expanded graph contains every triple of the data graph -/
theorem input_preserved {o : Opts} {iterate : Bool} {sg dg : Graph} {rx : Regex} {focus useShapes : List Term}
    {constructs : Term → List Construct} {g' : Graph}
    (h : runRules o iterate sg dg rx focus useShapes constructs = .ok g') : ∀ t ∈ dg, t ∈ g' := by
  obtain ⟨c, groups, _, _, _, _, ha⟩ := runRules_unfold h
  exact (applyRules_spec ha).1

/-- **only justified triples**: every triple of the expanded graph that is not an input triple was produced by an
    active (not deactivated) rule gathered from the shapes graph, fired on a focus node `a` of the rule's shape
    (`ruleFocus`, on a graph `gf ⊇ dg`) that conformed to all of the rule's sh:condition shapes (`applicable`) on the
    graph `gr ⊇ gf` on which the rule's node expressions / CONSTRUCT query were evaluated (`FiresOn`). -/
theorem only_justified {o : Opts} {iterate : Bool} {sg dg : Graph} {rx : Regex} {focus useShapes : List Term}
    {constructs : Term → List Construct} {g' : Graph}
    (h : runRules o iterate sg dg rx focus useShapes constructs = .ok g') :
    ∃ (c : RCtx) (groups : List (Shape × List Rule)) (fromShapes : Option (List Term)),
      c.sg = sg ∧ c.iterate = iterate ∧ gatherRules sg c.shapes constructs fromShapes = .ok groups ∧
      ∀ t ∈ g', t ∈ dg ∨ Firing c (groups.flatMap (·.2)) dg t := by
  obtain ⟨c, groups, fs, h1, h2, h3, ha⟩ := runRules_unfold h
  exact ⟨c, groups, fs, h1, h2, h3, (applyRules_spec ha).2⟩

/-- **deactivated rules never fire** (pass level): a pass over a shape's rules is the pass over its active rules -/
theorem deactivated_never_fire (c : RCtx) (rs : List Rule) (n : Nat) (g : Graph) :
    shapeLoop c (rs.filter fun r => !r.deactivated) n g = shapeLoop c rs n g :=
  shapeLoop_filter_active c rs n g

/-- … and, the sh:order values of the shape's rules being pairwise distinct, removing the deactivated rules before
    the sort gives the same run -/
theorem deactivated_never_fire_sorted (c : RCtx) (rs : List Rule) (n : Nat) (g : Graph)
    (hd : rs.Pairwise (fun a b => a.order ≠ b.order)) :
    shapeLoop c (sortBy (·.order) (rs.filter fun r => !r.deactivated)) n g = shapeLoop c (sortBy (·.order) rs) n g := by
  rw [sortBy_filter (fun (r : Rule) => r.order) (fun r => !r.deactivated) hd]
  exact shapeLoop_filter_active c _ n g

/-- **ascending sh:order of a shape's rules**: the rules run in ascending order … -/
theorem rules_run_ascending (rs : List Rule) : (sortBy (·.order) rs).Pairwise (fun a b => a.order ≤ b.order) :=
  sortBy_sorted _ rs

/-- … and with pairwise distinct sh:order values the run does not depend on the order in which the rules are met
    in the shapes graph -/
theorem rules_order_respected (c : RCtx) {rs rs' : List Rule} (hp : rs.Perm rs')
    (hd : rs.Pairwise (fun a b => a.order ≠ b.order)) (n : Nat) (g : Graph) :
    shapeLoop c (sortBy (·.order) rs) n g = shapeLoop c (sortBy (·.order) rs') n g := by
  rw [sortBy_perm_eq (·.order) hp hd]

/-- **ascending sh:order of the shapes**, independent of the order in which the shapes are met -/
theorem shapes_order_respected (c : RCtx) {keyed keyed' : List (Rat × List Rule)} (hp : keyed.Perm keyed')
    (hd : keyed.Pairwise (fun a b => a.1 ≠ b.1)) (g : Graph) :
    applyGroups c (sortBy (·.1) keyed) g = applyGroups c (sortBy (·.1) keyed') g := by
  rw [sortBy_perm_eq (·.1) hp hd]

theorem shapes_run_ascending (keyed : List (Rat × List Rule)) :
    (sortBy (·.1) keyed).Pairwise (fun a b => a.1 ≤ b.1) := sortBy_sorted _ keyed

/-- **later rules see the triples of earlier ones**: the graph a rule is applied to contains everything the rules
    before it in the pass produced (the pass threads the graph) -/
theorem later_sees_earlier (c : RCtx) (r : Rule) (rs : List Rule) (g g1 : Graph) (n m : Nat)
    (hact : r.deactivated = false) (h1 : applyRule c r g = .ok (g1, n)) :
    passRules c (r :: rs) g m = passRules c rs g1 (m + n) := by
  simp [passRules, hact, h1]

/-- **iterate_rules reaches a fixpoint**: when the rules of a shape end normally with `iterate_rules`, one more pass
    over the shape's rules adds nothing (and reports 0 modifications) -/
theorem iterate_fixpoint (c : RCtx) (rs : List Rule) (n : Nat) (g g' : Graph)
    (hit : c.iterate = true) (h : shapeLoop c rs n g = .ok g') : passRules c rs g' 0 = .ok (g', 0) :=
  (shapeLoop_spec (rules := rs) (g0 := g) rs (fun _ hr => hr) n g g' h (Sub.refl _) (Just.init _ _ _)).2.2 hit

/-- **the iteration limit is loud**: a loop that runs out of its budget raises, it never returns a truncated graph -/
theorem limit_is_loud (c : RCtx) (rs : List Rule) (g : Graph) :
    shapeLoop c rs 0 g = .error (.runtime "iteration-limit") := rfl

theorem rule_limit_is_loud (c : RCtx) (r : Rule) (foci : List Term) (iter : Bool) (g : Graph) (all : Nat) :
    ruleLoop c r foci iter 0 g all = .error (.runtime "iteration-limit") := rfl

/-! ### non-vacuity: concrete runs that meet the hypotheses above (kernel-evaluated) -/

private def ex (s : String) : Term := .iri ("http://ex.test/" ++ s)
private def intLit (z : Int) : Term :=
  .lit { lex := toString z, dt := "http://www.w3.org/2001/XMLSchema#integer", lang := "", val := .int z }
private def trueLit : Term :=
  .lit { lex := "true", dt := "http://www.w3.org/2001/XMLSchema#boolean", lang := "", val := .bool true }

/-- three rules met in the order R2, R1, R0: R1 (order 1) derives `a p b`, R2 (order 2) copies the p-values to q and
    therefore needs R1's triple, R0 is deactivated -/
private def sgEx : Graph := [⟨ex "S", rdfType, shNodeShape⟩, ⟨ex "S", sh "targetNode", ex "a"⟩,
  ⟨ex "S", shRule, ex "R2"⟩, ⟨ex "S", shRule, ex "R1"⟩, ⟨ex "S", shRule, ex "R0"⟩,
  ⟨ex "R2", rdfType, shTripleRule⟩, ⟨ex "R2", shOrder, intLit 2⟩, ⟨ex "R2", shSubject, shThis⟩,
  ⟨ex "R2", shPredicate, ex "q"⟩, ⟨ex "R2", shObject, .bnode "e"⟩, ⟨.bnode "e", shPath, ex "p"⟩,
  ⟨ex "R1", rdfType, shTripleRule⟩, ⟨ex "R1", shOrder, intLit 1⟩, ⟨ex "R1", shSubject, shThis⟩,
  ⟨ex "R1", shPredicate, ex "p"⟩, ⟨ex "R1", shObject, ex "b"⟩,
  ⟨ex "R0", rdfType, shTripleRule⟩, ⟨ex "R0", shDeactivated, trueLit⟩,
  ⟨ex "R0", shSubject, shThis⟩, ⟨ex "R0", shPredicate, ex "never"⟩, ⟨ex "R0", shObject, ex "b"⟩]

example : (runRules {} false sgEx [] (fun _ _ _ => none) [] [] (fun _ => []) {}).toOption =
    some [⟨ex "a", ex "p", ex "b"⟩, ⟨ex "a", ex "q", ex "b"⟩] := by decide +kernel

example : (runRules {} true sgEx [⟨ex "x", ex "y", ex "z"⟩] (fun _ _ _ => none) [] [] (fun _ => []) {}).toOption =
    some [⟨ex "x", ex "y", ex "z"⟩, ⟨ex "a", ex "p", ex "b"⟩, ⟨ex "a", ex "q", ex "b"⟩] := by decide +kernel

end Pyshacl.C15
