/-
  C18 — a serialized report is the report; CLI and API agree.   (level: other)
  rdflib's serialisers and parsers are third-party code: that each of the five formats round-trips is validated by the
  harness on generated reports, not proved.  Proved here: pySHACL's own glue (on tables regenerated from pyshacl/cli.py) —
  which formats are handed to `serialize_report_graph`, the exit status after a report — and, as a check of my reading of
  the simplest format, that N-Triples string escaping is invertible.
-/
import PyshaclModel.Cli
namespace Pyshacl.C18
open Pyshacl.Cli

/-- the five graph formats of the property -/
def graphFormats : List String := ["turtle", "xml", "json-ld", "nt", "n3"]

/-- every graph format is accepted by `-f` and is handed to validate(serialize_report_graph=fmt) (it is not one of the
    formats the command line writes itself), so the CLI prints exactly the bytes the API returns for the same inputs -/
theorem graph_formats_passed_through : ∀ f ∈ graphFormats, f ∈ CliTable.formatChoices ∧ f ∉ CliTable.textFormats := by decide

/-- the two text formats are the remaining choices -/
theorem text_formats_are_the_rest : ∀ f ∈ CliTable.formatChoices, f ∈ graphFormats ∨ f ∈ CliTable.textFormats := by decide

/-- **the exit status matches the verdict** -/
theorem exit_matches_verdict (c : Bool) : exitStatus (.report c) = if c then 0 else 1 := by
  cases c <;> decide

/-! ### N-Triples string escaping (writer / reader of literals) -/

def escChar : Char → List Char
  | '\\' => ['\\', '\\']
  | '"' => ['\\', '"']
  | '\n' => ['\\', 'n']
  | '\r' => ['\\', 'r']
  | c => [c]

def ntEscape (s : List Char) : List Char := s.flatMap escChar

def unescChar : Char → Option Char
  | '\\' => some '\\'
  | '"' => some '"'
  | 'n' => some '\n'
  | 'r' => some '\r'
  | _ => none

def ntUnescape : List Char → Option (List Char)
  | [] => some []
  | [c] => if c = '\\' then none else some [c]
  | c :: d :: rest =>
    if c = '\\' then
      match unescChar d with
      | none => none
      | some x => (ntUnescape rest).map (x :: ·)
    else (ntUnescape (d :: rest)).map (c :: ·)

theorem unesc_cons (c : Char) (rest : List Char) (h : c ≠ '\\') (hr : rest ≠ [] ∨ True) :
    ntUnescape (c :: rest) = (ntUnescape rest).map (c :: ·) := by
  cases rest with
  | nil => simp [ntUnescape, h]
  | cons d r => simp [ntUnescape, h]

theorem unesc_pair (d x : Char) (rest : List Char) (h : unescChar d = some x) :
    ntUnescape ('\\' :: d :: rest) = (ntUnescape rest).map (x :: ·) := by
  simp [ntUnescape, h]

/-- **N-Triples escaping round-trips**: reading back what the writer wrote gives the string -/
theorem nt_roundtrip (s : List Char) : ntUnescape (ntEscape s) = some s := by
  induction s with
  | nil => rfl
  | cons c cs ih =>
    unfold ntEscape at ih ⊢
    simp only [List.flatMap_cons]
    by_cases h1 : c = '\\'
    · subst h1; simp only [escChar, List.cons_append, List.nil_append]
      rw [unesc_pair '\\' '\\' _ rfl, ih]; rfl
    · by_cases h2 : c = '"'
      · subst h2; simp only [escChar, List.cons_append, List.nil_append]
        rw [unesc_pair '"' '"' _ rfl, ih]; rfl
      · by_cases h3 : c = '\n'
        · subst h3; simp only [escChar, List.cons_append, List.nil_append]
          rw [unesc_pair 'n' '\n' _ rfl, ih]; rfl
        · by_cases h4 : c = '\r'
          · subst h4; simp only [escChar, List.cons_append, List.nil_append]
            rw [unesc_pair 'r' '\r' _ rfl, ih]; rfl
          · have : escChar c = [c] := by
              unfold escChar
              split <;> first | contradiction | rfl
            rw [this]
            simp only [List.cons_append, List.nil_append]
            rw [unesc_cons c _ h1 (.inr trivial), ih]; rfl

example : ntUnescape (ntEscape "a\"b\\c\nd".toList) = some "a\"b\\c\nd".toList := nt_roundtrip _

end Pyshacl.C18
