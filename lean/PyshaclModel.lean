import PyshaclModel.Rdf
import PyshaclModel.Closure
import PyshaclModel.Path
import PyshaclModel.Wire
