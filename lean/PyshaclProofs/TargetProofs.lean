/-
  TargetProofs.lean — C02: the focus nodes of a shape are exactly the nodes its target declarations
  select, for every shapes graph and data graph (subclass chains and cycles of any length, literal and
  blank-node objects, target nodes absent from the data).
-/
import PyshaclModel.Target
import PyshaclProofs.ClosureLemmas
namespace Pyshacl

/-- `c' rdfs:subClassOf* c` in graph g -/
def SubClassStar (g : Graph) (c' c : Term) : Prop :=
  Relation.ReflTransGen (fun a b => (⟨a, rdfsSubClassOf, b⟩ : Triple) ∈ g) c' c

/-- SHACL instance: `n rdf:type/rdfs:subClassOf* c` -/
def IsShaclInstance (g : Graph) (n c : Term) : Prop :=
  ∃ c', (⟨n, rdfType, c'⟩ : Triple) ∈ g ∧ SubClassStar g c' c

/-- the W3C definition of "n is a target of shape `node`" (core targets) -/
def IsTarget (sg dg : Graph) (node n : Term) : Prop :=
  (⟨node, shTargetNode, n⟩ : Triple) ∈ sg ∨
  (∃ c, ((⟨node, shTargetClass, c⟩ : Triple) ∈ sg ∨ (c = node ∧ IsShaclInstance sg node rdfsClass)) ∧
        IsShaclInstance dg n c) ∨
  (∃ p o, (⟨node, shTargetSubjectsOf, p⟩ : Triple) ∈ sg ∧ (⟨n, p, o⟩ : Triple) ∈ dg) ∨
  (∃ p s, (⟨node, shTargetObjectsOf, p⟩ : Triple) ∈ sg ∧ (⟨s, p, n⟩ : Triple) ∈ dg)

/-- membership in a worklist closure started from a single node = reflexive-transitive reachability -/
theorem closure_from_mem (step : Term → List Term) (S : Term → Term → Prop)
    (hS : ∀ a b, b ∈ step a ↔ S a b) (U : List Term) (c t : Term) (hc : c ∈ U)
    (hU : ∀ u ∈ U, ∀ v, S u v → v ∈ U) :
    t ∈ closure step (closureFuel step U [c]) [c] [] ↔ Relation.ReflTransGen S c t := by
  have hrel : (fun a b => b ∈ step a) = S := by funext a b; exact propext (hS a b)
  constructor
  · intro h
    rcases closure_sound step _ _ _ _ h with h1 | ⟨w, hw, hr⟩
    · simp at h1
    · simp at hw; subst hw; rw [← hrel]; exact hr
  · intro h
    have hU' : ∀ u ∈ U, ∀ v ∈ step u, v ∈ U := fun u hu v hv => hU u hu v ((hS u v).1 hv)
    have hcl := closure_closed step U hU' (closureFuel step U [c]) [c] []
      (by intro w hw; simp at hw; subst hw; exact hc) (by intro s hs; simp at hs)
      (by intro s hs; simp at hs) (by unfold closureFuel; omega)
    rw [← hrel] at h
    exact closed_reach hcl.2 (hcl.1 c (by simp)) h

theorem mem_transitiveSubjects (g : Graph) (c x : Term) :
    x ∈ transitiveSubjects g rdfsSubClassOf c ↔ SubClassStar g x c := by
  unfold transitiveSubjects SubClassStar
  rw [closure_from_mem (fun u => g.subjects rdfsSubClassOf u)
      (fun a b => (⟨b, rdfsSubClassOf, a⟩ : Triple) ∈ g) (fun a b => Graph.mem_subjects) (c :: g.nodes) c x (by simp)
      (by intro u _ v hv; exact List.mem_cons_of_mem _ (Graph.mem_nodes_of_s hv))]
  have : (fun a b => (⟨b, rdfsSubClassOf, a⟩ : Triple) ∈ g) = Function.swap (fun a b => (⟨a, rdfsSubClassOf, b⟩ : Triple) ∈ g) := rfl
  rw [this]
  exact Relation.reflTransGen_swap

theorem mem_transitiveObjects (g : Graph) (c x : Term) :
    x ∈ transitiveObjects g c rdfsSubClassOf ↔ SubClassStar g c x := by
  unfold transitiveObjects SubClassStar
  exact closure_from_mem (fun u => g.objects u rdfsSubClassOf)
      (fun a b => (⟨a, rdfsSubClassOf, b⟩ : Triple) ∈ g) (fun a b => Graph.mem_objects) (c :: g.nodes) c x (by simp)
      (by intro u _ v hv; exact List.mem_cons_of_mem _ (Graph.mem_nodes_of_o hv))

theorem mem_classInstances (dg : Graph) (c n : Term) :
    n ∈ classInstances dg c ↔ IsShaclInstance dg n c := by
  unfold classInstances IsShaclInstance
  simp only [List.mem_append, List.mem_flatMap, List.mem_filter, Graph.mem_subjects, mem_transitiveSubjects]
  constructor
  · rintro (h | ⟨sc, ⟨hsc, _⟩, hn⟩)
    · exact ⟨c, h, Relation.ReflTransGen.refl⟩
    · exact ⟨sc, hn, hsc⟩
  · rintro ⟨c', hn, hsc⟩
    by_cases hcc : c' = c
    · subst hcc; exact Or.inl hn
    · exact Or.inr ⟨c', ⟨hsc, by simpa using hcc⟩, hn⟩

theorem mem_implicitClassTargets (sg : Graph) (node c : Term) :
    c ∈ implicitClassTargets sg node ↔ (c = node ∧ IsShaclInstance sg node rdfsClass) := by
  unfold implicitClassTargets IsShaclInstance
  simp only []
  split
  · rename_i h
    simp only [List.any_eq_true, decide_eq_true_eq, Graph.mem_objects, mem_transitiveSubjects] at h
    obtain ⟨t, ht, hs⟩ := h
    simp only [List.mem_singleton]
    exact ⟨fun hc => ⟨hc, t, ht, hs⟩, fun hc => hc.1⟩
  · rename_i h
    simp only [List.any_eq_true, decide_eq_true_eq, Graph.mem_objects, mem_transitiveSubjects] at h
    simp only [List.not_mem_nil, false_iff]
    rintro ⟨_, t, ht, hs⟩
    exact h ⟨t, ht, hs⟩

theorem mem_subjectsOfPred {g : Graph} {p s : Term} : s ∈ g.subjectsOfPred p ↔ ∃ o, (⟨s, p, o⟩ : Triple) ∈ g := by
  unfold Graph.subjectsOfPred
  simp only [List.mem_filterMap]
  constructor
  · rintro ⟨t, ht, h⟩
    split at h
    · rename_i hc; cases t; simp_all; exact ⟨_, ht⟩
    · simp at h
  · rintro ⟨o, h⟩; exact ⟨_, h, by simp⟩

theorem mem_objectsOfPred {g : Graph} {p o : Term} : o ∈ g.objectsOfPred p ↔ ∃ s, (⟨s, p, o⟩ : Triple) ∈ g := by
  unfold Graph.objectsOfPred
  simp only [List.mem_filterMap]
  constructor
  · rintro ⟨t, ht, h⟩
    split at h
    · rename_i hc; cases t; simp_all; exact ⟨_, ht⟩
    · simp at h
  · rintro ⟨s, h⟩; exact ⟨_, h, by simp⟩

/-- **C02**: the focus nodes of a shape are exactly its targets -/
theorem focus_exact (sg dg : Graph) (node n : Term) :
    n ∈ focusNodes sg dg node ↔ IsTarget sg dg node n := by
  unfold focusNodes IsTarget
  simp only [mem_dedup, List.mem_append, List.mem_flatMap, Graph.mem_objects, mem_classInstances,
    mem_implicitClassTargets, mem_subjectsOfPred, mem_objectsOfPred]
  constructor
  · rintro (((h | ⟨c, hc, hi⟩) | ⟨p, hp, o, ho⟩) | ⟨p, hp, s, hs⟩)
    · exact Or.inl h
    · exact Or.inr (Or.inl ⟨c, hc, hi⟩)
    · exact Or.inr (Or.inr (Or.inl ⟨p, o, hp, ho⟩))
    · exact Or.inr (Or.inr (Or.inr ⟨p, s, hp, hs⟩))
  · rintro (h | ⟨c, hc, hi⟩ | ⟨p, o, hp, ho⟩ | ⟨p, s, hp, hs⟩)
    · exact Or.inl (Or.inl (Or.inl h))
    · exact Or.inl (Or.inl (Or.inr ⟨c, hc, hi⟩))
    · exact Or.inl (Or.inr ⟨p, hp, o, ho⟩)
    · exact Or.inr ⟨p, hp, s, hs⟩

/-- each selected node is validated once per shape: the focus list has no duplicates -/
theorem focus_nodup (sg dg : Graph) (node : Term) : (focusNodes sg dg node).Nodup := by
  unfold focusNodes; exact nodup_dedup _

end Pyshacl
