/-
  AbortSubset.lean — C12, second half: every result the run with abort_on_first reports is a result of the
  complete run, possibly with fewer nested details.
  `Result.Le r1 r0`: same focus, value, path, component, shape, severity, messages and source constraint, and every
  sh:detail of `r1` is (recursively) below some sh:detail of `r0`.
  `AbortSub o1 o0`: whenever the complete computation `o0` returns (conf, results), the early-exit computation `o1`
  returns the same conformance flag and results that are all below results of `o0`.
-/
import PyshaclProofs.AbortProofs
namespace Pyshacl

mutual
inductive Result.Le : Result → Result → Prop
  | mk (f : Term) (v p : Option Term) (c s sev : Term) (m : List Term) (det1 det0 : List Result) (src : Option Term)
      (h : ListLe det1 det0) :
      Result.Le (.mk f v p c s sev m det1 src) (.mk f v p c s sev m det0 src)
inductive ListLe : List Result → List Result → Prop
  | nil (ys : List Result) : ListLe [] ys
  | cons (x : Result) (xs ys : List Result) (y : Result) : y ∈ ys → Result.Le x y → ListLe xs ys → ListLe (x :: xs) ys
end

theorem listLe_iff (xs ys : List Result) : ListLe xs ys ↔ ∀ x ∈ xs, ∃ y ∈ ys, Result.Le x y := by
  induction xs with
  | nil => exact ⟨fun _ x hx => by simp at hx, fun _ => ListLe.nil ys⟩
  | cons x xs ih =>
    constructor
    · intro h
      cases h with
      | cons _ _ _ y hy hle hrest =>
        intro z hz
        rcases List.mem_cons.1 hz with hz | hz
        · subst hz; exact ⟨y, hy, hle⟩
        · exact ih.1 hrest z hz
    · intro h
      obtain ⟨y, hy, hle⟩ := h x List.mem_cons_self
      exact ListLe.cons x xs ys y hy hle (ih.2 fun z hz => h z (List.mem_cons_of_mem _ hz))

mutual
theorem Result.Le.refl : ∀ r : Result, Result.Le r r
  | .mk f v p c s sev m det src => Result.Le.mk f v p c s sev m det det src (listLe_refl_aux det)
theorem listLe_refl_aux : ∀ ds : List Result, ListLe ds ds
  | [] => ListLe.nil []
  | d :: ds => ListLe.cons d ds (d :: ds) d List.mem_cons_self (Result.Le.refl d)
      ((listLe_iff ds (d :: ds)).2 fun x hx => ⟨x, List.mem_cons_of_mem _ hx, Result.Le.refl x⟩)
end

theorem ListLe.refl (rs : List Result) : ListLe rs rs := listLe_refl_aux rs

theorem ListLe.mono {xs ys ys' : List Result} (h : ListLe xs ys) (hs : ∀ y ∈ ys, y ∈ ys') : ListLe xs ys' := by
  rw [listLe_iff] at h ⊢
  intro x hx
  obtain ⟨y, hy, hle⟩ := h x hx
  exact ⟨y, hs y hy, hle⟩

theorem ListLe.append {xs xs' ys ys' : List Result} (h : ListLe xs ys) (h' : ListLe xs' ys') :
    ListLe (xs ++ xs') (ys ++ ys') := by
  rw [listLe_iff] at h h' ⊢
  intro x hx
  rcases List.mem_append.1 hx with hx | hx
  · obtain ⟨y, hy, hle⟩ := h x hx; exact ⟨y, List.mem_append_left _ hy, hle⟩
  · obtain ⟨y, hy, hle⟩ := h' x hx; exact ⟨y, List.mem_append_right _ hy, hle⟩

def AbortSub (o1 o0 : Out) : Prop := ∀ c r0, o0 = .ok (c, r0) → ∃ r1, o1 = .ok (c, r1) ∧ ListLe r1 r0

theorem AbortSub.refl (o : Out) : AbortSub o o := fun _ r0 h => ⟨r0, h, ListLe.refl r0⟩

theorem AbortSub.toRefines {o1 o0 : Out} (h : AbortSub o1 o0) : Refines o1 o0 :=
  fun c r0 h0 => let ⟨r1, h1, _⟩ := h c r0 h0; ⟨r1, h1⟩

def RecAbortSub (rec1 rec0 : Rec) : Prop := ∀ s v p, AbortSub (rec1 s v p) (rec0 s v p)

theorem RecAbortSub.toRefines {rec1 rec0 : Rec} (h : RecAbortSub rec1 rec0) : RecRefines rec1 rec0 :=
  fun s v p => (h s v p).toRefines

theorem foldOut_sub {α} (xs : List α) (f1 f0 : α → Out) (h : ∀ x, AbortSub (f1 x) (f0 x)) :
    AbortSub (foldOut xs f1) (foldOut xs f0) := by
  induction xs with
  | nil => intro c r0 h0; exact ⟨r0, h0, ListLe.refl r0⟩
  | cons x xs ih =>
    intro c r0 h0
    simp only [foldOut] at h0 ⊢
    cases hx : f0 x with
    | error e => simp [hx] at h0
    | ok p =>
      obtain ⟨cx, rx⟩ := p
      simp only [hx] at h0
      cases hr : foldOut xs f0 with
      | error e => simp [hr] at h0
      | ok q =>
        obtain ⟨c2, rs2⟩ := q
        simp only [hr, Except.ok.injEq, Prod.mk.injEq] at h0
        obtain ⟨rx1, hx1, hle1⟩ := h x cx rx hx
        obtain ⟨rs21, hr1, hle2⟩ := ih c2 rs2 hr
        refine ⟨rx1 ++ rs21, by simp [hx1, hr1, h0.1], ?_⟩
        rw [← h0.2]
        exact hle1.append hle2

theorem logicalOver_sub (rec1 rec0 : Rec) (hR : RecAbortSub rec1 rec0) (s : Shape) (k : CKind)
    (path : List PathEntry) (fv : FV) (members : List Shape) (bad : List Bool → Bool) :
    AbortSub (logicalOver rec1 s k path fv members bad) (logicalOver rec0 s k path fv members bad) := by
  unfold logicalOver
  apply foldOut_sub
  rintro ⟨f, vs⟩
  apply foldOut_sub
  intro v c r0 h0
  cases hm : evalMembers rec0 path members v with
  | error e => simp [hm] at h0
  | ok cs =>
    simp only [hm] at h0
    rw [evalMembers_refines rec1 rec0 hR.toRefines path members v cs hm]
    exact ⟨r0, h0, ListLe.refl r0⟩

theorem mkResult_node_le (s : Shape) (f v : Term) (rs1 rs : List Result) (h : ListLe rs1 rs) :
    Result.Le (mkResult s .node f (some v) (details := rs1)) (mkResult s .node f (some v) (details := rs)) := by
  unfold mkResult
  exact Result.Le.mk _ _ _ _ _ _ _ _ _ _ h

theorem nodeOver_sub (rec1 rec0 : Rec) (hR : RecAbortSub rec1 rec0)
    (hG0 : ∀ s v p, Good (rec0 s v p)) (hG1 : ∀ s v p, Good (rec1 s v p))
    (s : Shape) (path : List PathEntry) (fv : FV) (ns : Shape) :
    AbortSub (nodeOver rec1 s path fv ns) (nodeOver rec0 s path fv ns) := by
  unfold nodeOver
  apply foldOut_sub
  rintro ⟨f, vs⟩
  apply foldOut_sub
  intro v c r0 h0
  cases hm : rec0 ns v path with
  | error e => simp [hm] at h0
  | ok p =>
    obtain ⟨cf, rs⟩ := p
    simp only [hm] at h0
    obtain ⟨rs1, hm1, hle⟩ := hR ns v path cf rs hm
    have g0 := hG0 ns v path cf rs hm
    have g1 := hG1 ns v path cf rs1 hm1
    simp only [hm1]
    have hcond : ((!cf) = true ∨ (!rs1.isEmpty) = true) ↔ ((!cf) = true ∨ (!rs.isEmpty) = true) := by
      rw [← g0, ← g1]
    by_cases hc : ((!cf) = true ∨ (!rs.isEmpty) = true)
    · rw [if_pos hc] at h0
      rw [if_pos (hcond.2 hc)]
      simp only [Except.ok.injEq, Prod.mk.injEq] at h0
      refine ⟨_, by rw [← h0.1], ?_⟩
      rw [← h0.2]
      exact ListLe.cons _ _ _ _ List.mem_cons_self (mkResult_node_le s f v rs1 rs hle) (ListLe.nil _)
    · rw [if_neg hc] at h0
      rw [if_neg (fun h => hc (hcond.1 h))]
      exact ⟨r0, h0, ListLe.refl r0⟩

theorem propertyOver_sub (rec1 rec0 : Rec) (hR : RecAbortSub rec1 rec0)
    (path : List PathEntry) (fv : FV) (ps : Shape) :
    AbortSub (propertyOver rec1 path fv ps) (propertyOver rec0 path fv ps) := by
  unfold propertyOver
  apply foldOut_sub
  rintro ⟨f, vs⟩
  apply foldOut_sub
  intro v
  exact hR ps v path

theorem qualifiedOver_sub (rec1 rec0 : Rec) (hR : RecAbortSub rec1 rec0) (s : Shape) (k : CKind)
    (path : List PathEntry) (fv : FV) (other : Shape) (siblings : List Shape) (minC maxC : Option Int) :
    AbortSub (qualifiedOver rec1 s k path fv other siblings minC maxC)
      (qualifiedOver rec0 s k path fv other siblings minC maxC) := by
  unfold qualifiedOver
  apply foldOut_sub
  rintro ⟨f, vs⟩
  intro c r0 h0
  dsimp only at h0 ⊢
  cases hm : mapE (qualFlag rec0 path other siblings) vs with
  | error e => rw [hm] at h0; cases h0
  | ok flags =>
    rw [hm] at h0
    rw [mapE_refines _ _ (qualFlag_refines rec1 rec0 hR.toRefines path other siblings) vs flags hm]
    exact ⟨r0, h0, ListLe.refl r0⟩

theorem evalConstraint_sub (e : Env) (rec1 rec0 : Rec) (hR : RecAbortSub rec1 rec0)
    (hG0 : ∀ s v p, Good (rec0 s v p)) (hG1 : ∀ s v p, Good (rec1 s v p))
    (s : Shape) (k : CKind) (fv : FV) (path : List PathEntry) :
    AbortSub (evalConstraint e rec1 s k fv path) (evalConstraint e rec0 s k fv path) := by
  cases k
  case not =>
    simp only [evalConstraint]
    apply foldOut_sub
    intro n
    repeat' first
      | exact AbortSub.refl _
      | exact logicalOver_sub rec1 rec0 hR _ _ _ _ _ _
      | split
  case and =>
    simp only [evalConstraint]
    apply foldOut_sub
    intro l
    repeat' first
      | exact AbortSub.refl _
      | exact logicalOver_sub rec1 rec0 hR _ _ _ _ _ _
      | split
  case or =>
    simp only [evalConstraint]
    apply foldOut_sub
    intro l
    repeat' first
      | exact AbortSub.refl _
      | exact logicalOver_sub rec1 rec0 hR _ _ _ _ _ _
      | split
  case xone =>
    simp only [evalConstraint]
    apply foldOut_sub
    intro l
    repeat' first
      | exact AbortSub.refl _
      | exact logicalOver_sub rec1 rec0 hR _ _ _ _ _ _
      | split
  case property =>
    simp only [evalConstraint]
    split
    · exact AbortSub.refl _
    · apply foldOut_sub
      intro n
      repeat' first
        | exact AbortSub.refl _
        | exact propertyOver_sub rec1 rec0 hR _ _ _
        | split
  case node =>
    simp only [evalConstraint]
    split
    · exact AbortSub.refl _
    · apply foldOut_sub
      intro n
      repeat' first
        | exact AbortSub.refl _
        | exact nodeOver_sub rec1 rec0 hR hG0 hG1 _ _ _ _
        | split
  case qualified =>
    simp only [evalConstraint]
    repeat' first
      | exact AbortSub.refl _
      | split
    all_goals (apply foldOut_sub; intro vsNode)
    all_goals repeat' first
      | exact AbortSub.refl _
      | exact qualifiedOver_sub rec1 rec0 hR _ _ _ _ _ _ _ _
      | split
  all_goals exact AbortSub.refl _

theorem loopE_abort_sub {α} (ab : Bool) (fails : Bool → List Result → Bool) (f1 f0 : α → Out)
    (h : ∀ x c r0, f0 x = .ok (c, r0) → ∃ r1, f1 x = .ok (c, r1) ∧ fails c r1 = fails c r0 ∧ ListLe r1 r0) :
    ∀ (xs : List α) (nc : Bool) (rs0 : List Result), loopE false fails f0 xs = .ok (nc, rs0) →
      ∃ rs1, loopE ab fails f1 xs = .ok (nc, rs1) ∧ ListLe rs1 rs0 := by
  intro xs
  induction xs with
  | nil =>
    intro nc rs0 h0
    simp only [loopE, Except.ok.injEq, Prod.mk.injEq] at h0 ⊢
    exact ⟨[], ⟨h0.1, rfl⟩, ListLe.nil _⟩
  | cons x xs ih =>
    intro nc rs0 h0
    simp only [loopE, Bool.and_false, Bool.false_eq_true, if_false] at h0
    cases hx : f0 x with
    | error e => simp [hx] at h0
    | ok p =>
      obtain ⟨c, r0⟩ := p
      simp only [hx] at h0
      cases hl : loopE false fails f0 xs with
      | error e => simp [hl] at h0
      | ok q =>
        obtain ⟨nc', rs'⟩ := q
        simp only [hl, Except.ok.injEq, Prod.mk.injEq] at h0
        obtain ⟨r1, hx1, hf, hle⟩ := h x c r0 hx
        obtain ⟨rs1', hl1, hle'⟩ := ih nc' rs' hl
        simp only [loopE, hx1]
        by_cases hb : (fails c r1 && ab) = true
        · simp only [hb, if_true]
          simp only [Bool.and_eq_true] at hb
          refine ⟨r1, ?_, ?_⟩
          · rw [← h0.1, ← hf, hb.1]; rfl
          · rw [← h0.2]; exact hle.mono (fun y hy => List.mem_append_left _ hy)
        · have hb' : (fails c r1 && ab) = false := by simpa using hb
          simp only [hb', hl1]
          refine ⟨r1 ++ rs1', by simp [hf, h0.1], ?_⟩
          rw [← h0.2]; exact hle.append hle'

/-- the verdict-relevant predicate of the constraint loop sees only severities, which `Le` preserves -/
theorem Result.Le.severity {r1 r0 : Result} (h : Result.Le r1 r0) : r1.severity = r0.severity := by
  cases h; rfl

theorem validateCore_sub (c : Ctx) (h0 : c.o.abortOnFirst = false) (rec1 rec0 : Rec)
    (hR : RecAbortSub rec1 rec0) (hG0 : ∀ s v p, Good (rec0 s v p)) (hG1 : ∀ s v p, Good (rec1 s v p))
    (s : Shape) (fl : List Term) (path : Option (List PathEntry))
    (hreg : ((c.o.allowInfos = true ∨ c.o.allowWarnings = true) ∧ path.isNone = true) → rec1 = rec0) :
    AbortSub (validateCore c.withAbort rec1 s fl path) (validateCore c rec0 s fl path) := by
  intro conf rs hfull
  unfold validateCore at hfull ⊢
  have henv : c.withAbort.toEnv = c.toEnv := rfl
  have hmd : c.withAbort.o.maxDepth = c.o.maxDepth := rfl
  have hadv : c.withAbort.o.advanced = c.o.advanced := rfl
  have hai : c.withAbort.o.allowInfos = c.o.allowInfos := rfl
  have haw : c.withAbort.o.allowWarnings = c.o.allowWarnings := rfl
  have hsg : c.withAbort.sg = c.sg := rfl
  have hcomp : c.withAbort.components = c.components := rfl
  have hab : c.withAbort.o.abortOnFirst = true := rfl
  have hfails : constraintFails c.withAbort.o = constraintFails c.o := by
    funext top cf r; unfold constraintFails allowedSeverities; simp only [hai, haw]
  simp only [henv, hmd, hadv, hai, haw, hsg, hcomp, hab, hfails, Bool.true_and] at ⊢
  simp only [h0, Bool.false_and] at hfull
  split at hfull
  · cases hfull
  · rename_i hdepth
    rw [if_neg hdepth]
    split at hfull
    · cases hfull
    · rename_i fv hfv
      split at hfull
      · cases hfull
      · rename_i nc rs1 hl1
        have hstep : ∀ k cf r0,
            evalConstraint c.toEnv rec0 s k fv (path.getD [] ++ [PathEntry.shape s.node] ++ [PathEntry.constr k s.node]) = .ok (cf, r0) →
            ∃ r1, evalConstraint c.toEnv rec1 s k fv (path.getD [] ++ [PathEntry.shape s.node] ++ [PathEntry.constr k s.node]) = .ok (cf, r1) ∧
              constraintFails c.o path.isNone cf r1 = constraintFails c.o path.isNone cf r0 ∧ ListLe r1 r0 := by
          intro k cf r0 hk
          by_cases hw : (c.o.allowInfos = true ∨ c.o.allowWarnings = true) ∧ path.isNone = true
          · have := hreg hw; subst this; exact ⟨r0, hk, rfl, ListLe.refl r0⟩
          · obtain ⟨r1, hk1, hle⟩ := evalConstraint_sub c.toEnv rec1 rec0 hR hG0 hG1 s k fv _ cf r0 hk
            exact ⟨r1, hk1, by rw [constraintFails_not_waived _ _ hw, constraintFails_not_waived _ _ hw], hle⟩
        obtain ⟨rs1', hl1', hle1⟩ := loopE_abort_sub (path.isNone || !(c.o.allowInfos || c.o.allowWarnings))
          (constraintFails c.o path.isNone) _ _ hstep _ nc rs1 hl1
        rw [hl1']
        simp only []
        split at hfull
        · cases hfull
        · rename_i comps hcomps
          simp only [Bool.and_false, Bool.false_eq_true, if_false] at hfull
          split at hfull
          · cases hfull
          · rename_i nc2 rs2 hl2
            cases hfull
            obtain ⟨rs2', hl2', hle2⟩ := loopE_abort_sub (path.isNone || !(c.o.allowInfos || c.o.allowWarnings))
              (constraintFails c.o path.isNone) (fun comp => evalComponent c.toEnv s comp fv) (fun comp => evalComponent c.toEnv s comp fv)
              (fun x cf r0 hx => ⟨r0, hx, rfl, ListLe.refl r0⟩) _ nc2 rs2 hl2
            by_cases hearly : (nc && (path.isNone || !(c.o.allowInfos || c.o.allowWarnings))) = true
            · simp only [hearly, if_true]
              simp only [Bool.and_eq_true] at hearly
              exact ⟨rs1', by simp [hearly.1], hle1.mono (fun y hy => List.mem_append_left _ hy)⟩
            · simp only [hearly, if_false, hl2']
              exact ⟨_, rfl, hle1.append hle2⟩

theorem validateBody_sub (c : Ctx) (h0 : c.o.abortOnFirst = false) (rec1 rec0 : Rec)
    (hR : RecAbortSub rec1 rec0) (hG0 : ∀ s v p, Good (rec0 s v p)) (hG1 : ∀ s v p, Good (rec1 s v p))
    (s : Shape) (focus : Option (List Term)) (path : Option (List PathEntry))
    (hreg : ((c.o.allowInfos = true ∨ c.o.allowWarnings = true) ∧ path.isNone = true) → rec1 = rec0) :
    AbortSub (validateBody c.withAbort rec1 s focus path) (validateBody c rec0 s focus path) := by
  unfold validateBody
  have h1 : c.withAbort.o.advanced = c.o.advanced := rfl
  have h2 : c.withAbort.sg = c.sg := rfl
  have h3 : c.withAbort.tts = c.tts := rfl
  have h4 : c.withAbort.adv = c.adv := rfl
  have h5 : ∀ extra, resolveFocus c.withAbort s focus extra = resolveFocus c s focus extra := fun _ => rfl
  simp only [h1, h2, h3, h4, h5]
  split
  · exact AbortSub.refl _
  · split
    · exact AbortSub.refl _
    · split
      · exact AbortSub.refl _
      · exact validateCore_sub c h0 rec1 rec0 hR hG0 hG1 s _ path hreg

/-- **every result of the early-exit evaluation is below a result of the complete evaluation** — every shape, focus,
    evaluation path, depth -/
theorem validateShape_sub (c : Ctx) (h0 : c.o.abortOnFirst = false) :
    ∀ (fuel : Nat) (s : Shape) (focus : Option (List Term)) (path : Option (List PathEntry)),
      AbortSub (validateShape c.withAbort fuel s focus path) (validateShape c fuel s focus path) := by
  intro fuel
  induction fuel with
  | zero =>
    intro s focus path
    simp only [validateShape]
    exact validateBody_sub c h0 _ _ (fun _ _ _ => AbortSub.refl _) (fun _ _ _ => good_error _)
      (fun _ _ _ => good_error _) s focus path (fun _ => rfl)
  | succ f ih =>
    intro s focus path
    simp only [validateShape]
    refine validateBody_sub c h0 _ _ (fun s' v p' => ih s' (some [v]) (some p'))
      (fun s' v p' => good_validateShape_nested c f s' v p')
      (fun s' v p' => good_validateShape_nested c.withAbort f s' v p') s focus path ?_
    intro hw
    funext s' v p'
    exact nested_same_when_waivers c h0 hw.1 f s' (some [v]) p'

theorem validateAll_sub (c : Ctx) (h0 : c.o.abortOnFirst = false) (shapes : List Shape) (focus : Option (List Term)) :
    AbortSub (validateAll c.withAbort shapes focus) (validateAll c shapes focus) := by
  intro conf rs h
  unfold validateAll at h ⊢
  have hmd : c.withAbort.o.maxDepth = c.o.maxDepth := rfl
  have hab : c.withAbort.o.abortOnFirst = true := rfl
  simp only [hmd, hab]
  simp only [h0] at h
  split at h
  · cases h
  · rename_i nc rs0 hl
    obtain ⟨rs1, hl1, hle⟩ := loopE_abort_sub true (fun conf _ => !conf)
      (fun s => validateShape c.withAbort (c.o.maxDepth + 1) s focus none)
      (fun s => validateShape c (c.o.maxDepth + 1) s focus none)
      (fun s cf r0 hs => by
        obtain ⟨r1, h1, hle⟩ := validateShape_sub c h0 _ s focus none cf r0 hs
        exact ⟨r1, h1, rfl, hle⟩) shapes nc rs0 hl
    cases h
    rw [hl1]
    exact ⟨rs1, rfl, hle⟩

/-- **C12, results**: whenever the complete run returns (conf, rs), the run with abort_on_first returns the same verdict
    and results each of which is a result of the complete run, possibly with fewer nested details -/
theorem runValidate_abort_subset (o : Opts) (h0 : o.abortOnFirst = false) (sg dg : Graph) (rx : Regex)
    (focus useShapes : List Term) (conf : Bool) (rs : List Result)
    (h : runValidate o sg dg rx focus useShapes = .ok (conf, rs)) :
    ∃ rs', runValidate { o with abortOnFirst := true } sg dg rx focus useShapes = .ok (conf, rs') ∧ ListLe rs' rs := by
  unfold runValidate at h ⊢
  simp only [] at h ⊢
  split at h
  · cases h
  · rename_i hloop
    rw [if_neg hloop]
    cases useShapes with
    | nil =>
      dsimp only at h ⊢
      split at h
      · cases h
      · rename_i shapes hshapes
        split at h
        · cases h
        · rename_i fns tts hadv
          rw [hadv]
          exact validateAll_sub ⟨⟨sg, dg, shapes, rx, _, _, findComponents sg, _, fns, tts, {}⟩,
            { o with focusNodes := if focus = [] then none else some focus }⟩ h0 shapes none conf rs h
    | cons u us =>
      dsimp only at h ⊢
      split at h
      · cases h
      · rename_i shapes hshapes
        split at h
        · cases h
        · rename_i selected hsel
          split at h
          · cases h
          · rename_i fns tts hadv
            rw [hadv]
            dsimp only
            split at h
            · rename_i hf
              rw [if_pos hf]
              exact validateAll_sub ⟨⟨sg, dg, shapes, rx, _, _, findComponents sg, _, fns, tts, {}⟩, o⟩ h0 selected none conf rs h
            · rename_i hf
              rw [if_neg hf]
              exact validateAll_sub ⟨⟨sg, dg, shapes, rx, _, _, findComponents sg, _, fns, tts, {}⟩, o⟩ h0 selected (some focus) conf rs h

end Pyshacl
