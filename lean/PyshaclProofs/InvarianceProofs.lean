/-
  InvarianceProofs.lean — C09 at model level: value nodes and focus nodes depend on a graph only
  through membership of triples (so: not on insertion order, not on duplicates), and an arbitrary
  pick out of a set is irrelevant when the set has at most one element.
-/
import PyshaclProofs.PathProofs
import PyshaclProofs.TargetProofs
namespace Pyshacl

/-- two triple lists that hold the same triples -/
def SameTriples (g g' : Graph) : Prop := ∀ t : Triple, t ∈ g ↔ t ∈ g'

theorem PathRel_congr (p : Path) (g g' : Graph) (h : SameTriples g g') :
    ∀ a b, PathRel p g a b ↔ PathRel p g' a b := by
  induction p with
  | pred q => intro a b; exact h _
  | bad e i => intro a b; exact Iff.rfl
  | seqCons x y ihx ihy =>
    intro a b; simp only [PathRel]
    constructor
    · rintro ⟨m, h1, h2⟩; exact ⟨m, (ihx _ _).1 h1, (ihy _ _).1 h2⟩
    · rintro ⟨m, h1, h2⟩; exact ⟨m, (ihx _ _).2 h1, (ihy _ _).2 h2⟩
  | seqLast x ih => intro a b; exact ih a b
  | seqNoRest x ih => intro a b; exact ih a b
  | inv q ih => intro a b; exact ih b a
  | alt m ih => intro a b; exact ih a b
  | altCons x r ihx ihr => intro a b; simp only [PathRel]; rw [ihx a b, ihr a b]
  | altLast x ih => intro a b; exact ih a b
  | altNil => intro a b; exact Iff.rfl
  | star q ih =>
    intro a b
    have : PathRel q g = PathRel q g' := by funext x y; exact propext (ih x y)
    simp only [PathRel, this]
  | plus q ih =>
    intro a b
    have : PathRel q g = PathRel q g' := by funext x y; exact propext (ih x y)
    simp only [PathRel, this]
  | opt q ih => intro a b; simp only [PathRel]; rw [ih a b]

/-- the value nodes of a focus node do not depend on the insertion order of the data graph's triples -/
theorem value_nodes_order_invariant (p : Path) (g g' : Graph) (h : SameTriples g g') (inverse : Bool) (f x : Term) :
    x ∈ Path.evalPure p inverse g f ↔ x ∈ Path.evalPure p inverse g' f := by
  rw [evalPure_correct, evalPure_correct]
  unfold DirRel
  split
  · exact PathRel_congr p g g' h x f
  · exact PathRel_congr p g g' h f x

theorem SubClassStar_congr (g g' : Graph) (h : SameTriples g g') (a b : Term) :
    SubClassStar g a b ↔ SubClassStar g' a b := by
  unfold SubClassStar
  have : (fun a b => (⟨a, rdfsSubClassOf, b⟩ : Triple) ∈ g) = (fun a b => (⟨a, rdfsSubClassOf, b⟩ : Triple) ∈ g') := by
    funext x y; exact propext (h _)
  rw [this]

theorem IsShaclInstance_congr (g g' : Graph) (h : SameTriples g g') (n c : Term) :
    IsShaclInstance g n c ↔ IsShaclInstance g' n c := by
  unfold IsShaclInstance
  constructor
  · rintro ⟨c', h1, h2⟩; exact ⟨c', (h _).1 h1, (SubClassStar_congr g g' h _ _).1 h2⟩
  · rintro ⟨c', h1, h2⟩; exact ⟨c', (h _).2 h1, (SubClassStar_congr g g' h _ _).2 h2⟩

/-- the focus nodes of a shape do not depend on the insertion order of either graph -/
theorem focus_nodes_order_invariant (sg sg' dg dg' : Graph) (hs : SameTriples sg sg') (hd : SameTriples dg dg')
    (node n : Term) : n ∈ focusNodes sg dg node ↔ n ∈ focusNodes sg' dg' node := by
  rw [focus_exact, focus_exact]
  unfold IsTarget
  simp only [hs _, IsShaclInstance_congr sg sg' hs, IsShaclInstance_congr dg dg' hd, hd _]

/-- an arbitrary pick (`next(iter(set))`) out of a set with at most one element does not depend on the order -/
theorem pick_irrelevant {α} [DecidableEq α] (l l' : List α) (hsame : ∀ x, x ∈ l ↔ x ∈ l')
    (hone : ∀ x ∈ l, ∀ y ∈ l, x = y) : (dedup l).head? = (dedup l').head? := by
  have key : ∀ (m : List α), (∀ x ∈ m, ∀ y ∈ m, x = y) → ∀ a, a ∈ m → (dedup m).head? = some a := by
    intro m hm a ha
    have hne : dedup m ≠ [] := by
      intro he; have := (mem_dedup (a := a) (l := m)).2 ha; rw [he] at this; simp at this
    cases hd : dedup m with
    | nil => exact absurd hd hne
    | cons b bs =>
      have hb : b ∈ m := (mem_dedup).1 (by rw [hd]; simp)
      simp [hm b hb a ha]
  cases l with
  | nil =>
    have : l' = [] := by
      cases l' with
      | nil => rfl
      | cons y ys => exact absurd ((hsame y).2 (by simp)) (by simp)
    subst this; rfl
  | cons a as =>
    have ha' : a ∈ l' := (hsame a).1 (by simp)
    have hone' : ∀ x ∈ l', ∀ y ∈ l', x = y := fun x hx y hy => hone x ((hsame x).2 hx) y ((hsame y).2 hy)
    rw [key (a :: as) hone a (by simp), key l' hone' a ha']

/-- and it is needed: with two declared values the pick depends on the order (ill-formed input) -/
theorem pick_relevant_counterexample : (dedup [1, 2]).head? ≠ (dedup [2, 1]).head? := by decide

end Pyshacl
