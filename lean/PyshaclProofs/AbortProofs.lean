/-
  AbortProofs.lean — C12: a run with abort_on_first decides what the complete run decides.
  `Refines o1 o0`: whenever the complete computation `o0` returns (conf, results), the early-exit
  computation `o1` returns too, with the same conformance flag (and possibly fewer results).
-/
import PyshaclProofs.EvalLemmas
namespace Pyshacl

def Refines (o1 o0 : Out) : Prop := ∀ c r0, o0 = .ok (c, r0) → ∃ r1, o1 = .ok (c, r1)

theorem Refines.refl (o : Out) : Refines o o := fun c r0 h => ⟨r0, h⟩

def RecRefines (rec1 rec0 : Rec) : Prop := ∀ s v p, Refines (rec1 s v p) (rec0 s v p)

theorem foldOut_refines {α} (xs : List α) (f1 f0 : α → Out) (h : ∀ x, Refines (f1 x) (f0 x)) :
    Refines (foldOut xs f1) (foldOut xs f0) := by
  induction xs with
  | nil => intro c r0 h0; exact ⟨r0, h0⟩
  | cons x xs ih =>
    intro c r0 h0
    simp only [foldOut] at h0 ⊢
    cases hx : f0 x with
    | error e => simp [hx] at h0
    | ok p =>
      obtain ⟨cx, rx⟩ := p
      simp only [hx] at h0
      cases hr : foldOut xs f0 with
      | error e => simp [hr] at h0
      | ok q =>
        obtain ⟨c2, rs2⟩ := q
        simp only [hr, Except.ok.injEq, Prod.mk.injEq] at h0
        obtain ⟨rx1, hx1⟩ := h x cx rx hx
        obtain ⟨rs21, hr1⟩ := ih c2 rs2 hr
        exact ⟨rx1 ++ rs21, by simp [hx1, hr1, h0.1]⟩

theorem evalMembers_refines (rec1 rec0 : Rec) (hR : RecRefines rec1 rec0) (path : List PathEntry)
    (members : List Shape) (v : Term) (cs : List Bool) (h : evalMembers rec0 path members v = .ok cs) :
    evalMembers rec1 path members v = .ok cs := by
  unfold evalMembers at h ⊢
  induction members generalizing cs with
  | nil => simpa [mapE] using h
  | cons m ms ih =>
    simp only [mapE] at h ⊢
    cases hm : rec0 m v path with
    | error e => simp [hm] at h
    | ok p =>
      obtain ⟨c, r⟩ := p
      simp only [hm] at h
      obtain ⟨r1, hm1⟩ := hR m v path c r hm
      simp only [hm1]
      split at h
      · cases h
      · rename_i ys hys
        rw [ih ys hys]
        exact h

theorem logicalOver_refines (rec1 rec0 : Rec) (hR : RecRefines rec1 rec0) (s : Shape) (k : CKind)
    (path : List PathEntry) (fv : FV) (members : List Shape) (bad : List Bool → Bool) :
    Refines (logicalOver rec1 s k path fv members bad) (logicalOver rec0 s k path fv members bad) := by
  unfold logicalOver
  apply foldOut_refines
  rintro ⟨f, vs⟩
  apply foldOut_refines
  intro v c r0 h0
  cases hm : evalMembers rec0 path members v with
  | error e => simp [hm] at h0
  | ok cs =>
    simp only [hm] at h0
    rw [evalMembers_refines rec1 rec0 hR path members v cs hm]
    exact ⟨r0, h0⟩

theorem nodeOver_refines (rec1 rec0 : Rec) (hR : RecRefines rec1 rec0)
    (hG0 : ∀ s v p, Good (rec0 s v p)) (hG1 : ∀ s v p, Good (rec1 s v p))
    (s : Shape) (path : List PathEntry) (fv : FV) (ns : Shape) :
    Refines (nodeOver rec1 s path fv ns) (nodeOver rec0 s path fv ns) := by
  unfold nodeOver
  apply foldOut_refines
  rintro ⟨f, vs⟩
  apply foldOut_refines
  intro v c r0 h0
  cases hm : rec0 ns v path with
  | error e => simp [hm] at h0
  | ok p =>
    obtain ⟨cf, rs⟩ := p
    simp only [hm] at h0
    obtain ⟨rs1, hm1⟩ := hR ns v path cf rs hm
    have g0 := hG0 ns v path cf rs hm
    have g1 := hG1 ns v path cf rs1 hm1
    simp only [hm1]
    subst g0
    cases rs with
    | nil =>
      have : rs1 = [] := by cases rs1 with | nil => rfl | cons a b => simp at g1
      subst this
      exact ⟨r0, h0⟩
    | cons a b =>
      have : rs1 ≠ [] := by intro hh; subst hh; simp at g1
      cases rs1 with
      | nil => exact absurd rfl this
      | cons a1 b1 =>
        simp at h0 ⊢
        exact h0.1

theorem propertyOver_refines (rec1 rec0 : Rec) (hR : RecRefines rec1 rec0)
    (path : List PathEntry) (fv : FV) (ps : Shape) :
    Refines (propertyOver rec1 path fv ps) (propertyOver rec0 path fv ps) := by
  unfold propertyOver
  apply foldOut_refines
  rintro ⟨f, vs⟩
  apply foldOut_refines
  intro v
  exact hR ps v path

end Pyshacl

namespace Pyshacl

theorem mapE_refines {α β} (g1 g0 : α → Except Failure β) (h : ∀ x b, g0 x = .ok b → g1 x = .ok b) :
    ∀ (xs : List α) (l : List β), mapE g0 xs = .ok l → mapE g1 xs = .ok l := by
  intro xs
  induction xs with
  | nil => intro l hl; simpa [mapE] using hl
  | cons x xs ih =>
    intro l hl
    simp only [mapE] at hl ⊢
    cases hx : g0 x with
    | error e => simp [hx] at hl
    | ok b =>
      simp only [hx] at hl
      rw [h x b hx]
      simp only []
      cases hr : mapE g0 xs with
      | error e => simp [hr] at hl
      | ok ys =>
        simp only [hr] at hl
        rw [ih ys hr]
        exact hl

theorem qualFlag_refines (rec1 rec0 : Rec) (hR : RecRefines rec1 rec0) (path : List PathEntry)
    (other : Shape) (siblings : List Shape) (v : Term) (b : Bool)
    (h : qualFlag rec0 path other siblings v = .ok b) : qualFlag rec1 path other siblings v = .ok b := by
  unfold qualFlag at h ⊢
  cases hm : rec0 other v path with
  | error e => simp [hm] at h
  | ok p =>
    obtain ⟨c, r⟩ := p
    obtain ⟨r1, hm1⟩ := hR other v path c r hm
    simp only [hm] at h
    simp only [hm1]
    cases c with
    | false => simpa using h
    | true =>
      simp only [Bool.not_true, Bool.false_eq_true, if_false] at h ⊢
      cases hs : evalMembers rec0 path siblings v with
      | error e => simp [hs] at h
      | ok cs =>
        simp only [hs] at h
        rw [evalMembers_refines rec1 rec0 hR path siblings v cs hs]
        exact h

theorem qualifiedOver_refines (rec1 rec0 : Rec) (hR : RecRefines rec1 rec0) (s : Shape) (k : CKind)
    (path : List PathEntry) (fv : FV) (other : Shape) (siblings : List Shape) (minC maxC : Option Int) :
    Refines (qualifiedOver rec1 s k path fv other siblings minC maxC)
      (qualifiedOver rec0 s k path fv other siblings minC maxC) := by
  unfold qualifiedOver
  apply foldOut_refines
  rintro ⟨f, vs⟩
  intro c r0 h0
  dsimp only at h0 ⊢
  cases hm : mapE (qualFlag rec0 path other siblings) vs with
  | error e => rw [hm] at h0; cases h0
  | ok flags =>
    rw [hm] at h0
    rw [mapE_refines _ _ (qualFlag_refines rec1 rec0 hR path other siblings) vs flags hm]
    exact ⟨r0, h0⟩

/-- every constraint component decides the same under nested evaluations that decide the same -/
theorem evalConstraint_refines (e : Env) (rec1 rec0 : Rec) (hR : RecRefines rec1 rec0)
    (hG0 : ∀ s v p, Good (rec0 s v p)) (hG1 : ∀ s v p, Good (rec1 s v p))
    (s : Shape) (k : CKind) (fv : FV) (path : List PathEntry) :
    Refines (evalConstraint e rec1 s k fv path) (evalConstraint e rec0 s k fv path) := by
  cases k
  case not =>
    simp only [evalConstraint]
    apply foldOut_refines
    intro n
    split
    · exact Refines.refl _
    · split
      · exact Refines.refl _
      · exact logicalOver_refines rec1 rec0 hR _ _ _ _ _ _
  case and =>
    simp only [evalConstraint]
    apply foldOut_refines
    intro l
    split
    · exact Refines.refl _
    · exact Refines.refl _
    · split
      · exact Refines.refl _
      · exact logicalOver_refines rec1 rec0 hR _ _ _ _ _ _
  case or =>
    simp only [evalConstraint]
    apply foldOut_refines
    intro l
    split
    · exact Refines.refl _
    · exact Refines.refl _
    · split
      · exact Refines.refl _
      · exact logicalOver_refines rec1 rec0 hR _ _ _ _ _ _
  case xone =>
    simp only [evalConstraint]
    apply foldOut_refines
    intro l
    split
    · exact Refines.refl _
    · exact Refines.refl _
    · split
      · exact Refines.refl _
      · exact logicalOver_refines rec1 rec0 hR _ _ _ _ _ _
  case property =>
    simp only [evalConstraint]
    split
    · exact Refines.refl _
    · apply foldOut_refines
      intro n
      split
      · exact Refines.refl _
      · split
        · exact Refines.refl _
        · split
          · exact Refines.refl _
          · exact propertyOver_refines rec1 rec0 hR _ _ _
  case node =>
    simp only [evalConstraint]
    split
    · exact Refines.refl _
    · apply foldOut_refines
      intro n
      split
      · exact Refines.refl _
      · split
        · exact Refines.refl _
        · split
          · exact Refines.refl _
          · exact nodeOver_refines rec1 rec0 hR hG0 hG1 _ _ _ _
  case qualified =>
    simp only [evalConstraint]
    repeat' first
      | exact Refines.refl _
      | split
    all_goals (apply foldOut_refines; intro vsNode)
    all_goals repeat' first
      | exact Refines.refl _
      | exact qualifiedOver_refines rec1 rec0 hR _ _ _ _ _ _ _ _
      | split
  all_goals exact Refines.refl _

end Pyshacl

namespace Pyshacl

theorem loopE_abort_refines {α} (ab : Bool) (fails : Bool → List Result → Bool) (f1 f0 : α → Out)
    (h : ∀ x c r0, f0 x = .ok (c, r0) → ∃ r1, f1 x = .ok (c, r1) ∧ fails c r1 = fails c r0) :
    ∀ (xs : List α) (nc : Bool) (rs0 : List Result), loopE false fails f0 xs = .ok (nc, rs0) →
      ∃ rs1, loopE ab fails f1 xs = .ok (nc, rs1) := by
  intro xs
  induction xs with
  | nil => intro nc rs0 h0; simp [loopE] at h0 ⊢; exact h0.1
  | cons x xs ih =>
    intro nc rs0 h0
    simp only [loopE, Bool.and_false, Bool.false_eq_true, if_false] at h0
    cases hx : f0 x with
    | error e => simp [hx] at h0
    | ok p =>
      obtain ⟨c, r0⟩ := p
      simp only [hx] at h0
      cases hl : loopE false fails f0 xs with
      | error e => simp [hl] at h0
      | ok q =>
        obtain ⟨nc', rs'⟩ := q
        simp only [hl, Except.ok.injEq, Prod.mk.injEq] at h0
        obtain ⟨r1, hx1, hf⟩ := h x c r0 hx
        obtain ⟨rs1', hl1⟩ := ih nc' rs' hl
        simp only [loopE, hx1]
        by_cases hb : (fails c r1 && ab) = true
        · simp only [hb, if_true]
          simp only [Bool.and_eq_true] at hb
          refine ⟨r1, ?_⟩
          rw [← h0.1, ← hf, hb.1]; rfl
        · have hb' : (fails c r1 && ab) = false := by simpa using hb
          simp only [hb', hl1]
          exact ⟨r1 ++ rs1', by simp [hf, h0.1]⟩

theorem constraintFails_not_waived (o : Opts) (top : Bool) (h : ¬ ((o.allowInfos = true ∨ o.allowWarnings = true) ∧ top = true))
    (conf : Bool) (rs : List Result) : constraintFails o top conf rs = !conf := by
  unfold constraintFails
  rw [if_pos (Or.inr h)]

/-- the same context with abort_on_first switched on -/
def Ctx.withAbort (c : Ctx) : Ctx := { c with o := { c.o with abortOnFirst := true } }

theorem validateCore_refines (c : Ctx) (h0 : c.o.abortOnFirst = false) (rec1 rec0 : Rec)
    (hR : RecRefines rec1 rec0) (hG0 : ∀ s v p, Good (rec0 s v p)) (hG1 : ∀ s v p, Good (rec1 s v p))
    (s : Shape) (fl : List Term) (path : Option (List PathEntry))
    (hreg : ((c.o.allowInfos = true ∨ c.o.allowWarnings = true) ∧ path.isNone = true) → rec1 = rec0) :
    Refines (validateCore c.withAbort rec1 s fl path) (validateCore c rec0 s fl path) := by
  intro conf rs hfull
  unfold validateCore at hfull ⊢
  have henv : c.withAbort.toEnv = c.toEnv := rfl
  have hmd : c.withAbort.o.maxDepth = c.o.maxDepth := rfl
  have hadv : c.withAbort.o.advanced = c.o.advanced := rfl
  have hai : c.withAbort.o.allowInfos = c.o.allowInfos := rfl
  have haw : c.withAbort.o.allowWarnings = c.o.allowWarnings := rfl
  have hsg : c.withAbort.sg = c.sg := rfl
  have hcomp : c.withAbort.components = c.components := rfl
  have hab : c.withAbort.o.abortOnFirst = true := rfl
  have hfails : constraintFails c.withAbort.o = constraintFails c.o := by
    funext top cf r; unfold constraintFails allowedSeverities; simp only [hai, haw]
  simp only [henv, hmd, hadv, hai, haw, hsg, hcomp, hab, hfails, Bool.true_and] at ⊢
  simp only [h0, Bool.false_and] at hfull
  split at hfull
  · cases hfull
  · rename_i hdepth
    rw [if_neg hdepth]
    split at hfull
    · cases hfull
    · rename_i fv hfv
      split at hfull
      · cases hfull
      · rename_i nc rs1 hl1
        -- first loop
        have hstep : ∀ k cf r0,
            evalConstraint c.toEnv rec0 s k fv (path.getD [] ++ [PathEntry.shape s.node] ++ [PathEntry.constr k s.node]) = .ok (cf, r0) →
            ∃ r1, evalConstraint c.toEnv rec1 s k fv (path.getD [] ++ [PathEntry.shape s.node] ++ [PathEntry.constr k s.node]) = .ok (cf, r1) ∧
              constraintFails c.o path.isNone cf r1 = constraintFails c.o path.isNone cf r0 := by
          intro k cf r0 hk
          by_cases hw : (c.o.allowInfos = true ∨ c.o.allowWarnings = true) ∧ path.isNone = true
          · have := hreg hw; subst this; exact ⟨r0, hk, rfl⟩
          · obtain ⟨r1, hk1⟩ := evalConstraint_refines c.toEnv rec1 rec0 hR hG0 hG1 s k fv _ cf r0 hk
            exact ⟨r1, hk1, by rw [constraintFails_not_waived _ _ hw, constraintFails_not_waived _ _ hw]⟩
        obtain ⟨rs1', hl1'⟩ := loopE_abort_refines (path.isNone || !(c.o.allowInfos || c.o.allowWarnings))
          (constraintFails c.o path.isNone) _ _ hstep _ nc rs1 hl1
        rw [hl1']
        simp only []
        split at hfull
        · cases hfull
        · rename_i comps hcomps
          simp only [Bool.and_false, Bool.false_eq_true, if_false] at hfull
          split at hfull
          · cases hfull
          · rename_i nc2 rs2 hl2
            cases hfull
            obtain ⟨rs2', hl2'⟩ := loopE_abort_refines (path.isNone || !(c.o.allowInfos || c.o.allowWarnings))
              (constraintFails c.o path.isNone) (fun comp => evalComponent c.toEnv s comp fv) (fun comp => evalComponent c.toEnv s comp fv)
              (fun x cf r0 hx => ⟨r0, hx, rfl⟩) _ nc2 rs2 hl2
            by_cases hearly : (nc && (path.isNone || !(c.o.allowInfos || c.o.allowWarnings))) = true
            · simp only [hearly, if_true]
              simp only [Bool.and_eq_true] at hearly
              exact ⟨rs1', by simp [hearly.1]⟩
            · simp only [hearly, if_false, hl2']
              exact ⟨_, rfl⟩

end Pyshacl

namespace Pyshacl

theorem validateBody_refines (c : Ctx) (h0 : c.o.abortOnFirst = false) (rec1 rec0 : Rec)
    (hR : RecRefines rec1 rec0) (hG0 : ∀ s v p, Good (rec0 s v p)) (hG1 : ∀ s v p, Good (rec1 s v p))
    (s : Shape) (focus : Option (List Term)) (path : Option (List PathEntry))
    (hreg : ((c.o.allowInfos = true ∨ c.o.allowWarnings = true) ∧ path.isNone = true) → rec1 = rec0) :
    Refines (validateBody c.withAbort rec1 s focus path) (validateBody c rec0 s focus path) := by
  unfold validateBody
  have h1 : c.withAbort.o.advanced = c.o.advanced := rfl
  have h2 : c.withAbort.sg = c.sg := rfl
  have h3 : c.withAbort.tts = c.tts := rfl
  have h4 : c.withAbort.adv = c.adv := rfl
  have h5 : ∀ extra, resolveFocus c.withAbort s focus extra = resolveFocus c s focus extra := fun _ => rfl
  simp only [h1, h2, h3, h4, h5]
  split
  · exact Refines.refl _
  · split
    · exact Refines.refl _
    · split
      · exact Refines.refl _
      · exact validateCore_refines c h0 rec1 rec0 hR hG0 hG1 s _ path hreg

/-- with a severity waiver on, nested evaluations never stop early: they are the same computation -/
theorem nested_same_when_waivers (c : Ctx) (h0 : c.o.abortOnFirst = false)
    (hw : c.o.allowInfos = true ∨ c.o.allowWarnings = true) :
    ∀ (fuel : Nat) (s : Shape) (focus : Option (List Term)) (p : List PathEntry),
      validateShape c.withAbort fuel s focus (some p) = validateShape c fuel s focus (some p) := by
  have hbody : ∀ (rec' : Rec) (s : Shape) (focus : Option (List Term)) (p : List PathEntry),
      validateBody c.withAbort rec' s focus (some p) = validateBody c rec' s focus (some p) := by
    intro rec' s focus p
    have hwb : (c.o.allowInfos || c.o.allowWarnings) = true := by
      rcases hw with h | h <;> simp [h]
    unfold validateBody validateCore Ctx.withAbort
    simp only [h0, hwb, Option.isNone_some, Bool.false_or, Bool.not_true, Bool.and_false, Bool.false_and]
    rfl
  intro fuel
  induction fuel with
  | zero => intro s focus p; simp only [validateShape]; exact hbody _ s focus p
  | succ f ih =>
    intro s focus p
    simp only [validateShape]
    rw [hbody]
    congr 1
    funext s' v p'
    exact ih s' (some [v]) p'

theorem good_validateShape_nested (c : Ctx) (fuel : Nat) (s : Shape) (v : Term) (p : List PathEntry) :
    Good (validateShape c fuel s (some [v]) (some p)) := by
  intro cf r h
  have := validateShape_verdict c fuel s (some [v]) (some p) cf r h
  simpa [okSet] using this

/-- **abort_on_first decides what the complete run decides** — every shape, focus, evaluation path, depth -/
theorem validateShape_refines (c : Ctx) (h0 : c.o.abortOnFirst = false) :
    ∀ (fuel : Nat) (s : Shape) (focus : Option (List Term)) (path : Option (List PathEntry)),
      Refines (validateShape c.withAbort fuel s focus path) (validateShape c fuel s focus path) := by
  intro fuel
  induction fuel with
  | zero =>
    intro s focus path
    simp only [validateShape]
    exact validateBody_refines c h0 _ _ (fun _ _ _ => Refines.refl _) (fun _ _ _ => good_error _)
      (fun _ _ _ => good_error _) s focus path (fun _ => rfl)
  | succ f ih =>
    intro s focus path
    simp only [validateShape]
    refine validateBody_refines c h0 _ _ (fun s' v p' => ih s' (some [v]) (some p'))
      (fun s' v p' => good_validateShape_nested c f s' v p')
      (fun s' v p' => good_validateShape_nested c.withAbort f s' v p') s focus path ?_
    intro hw
    funext s' v p'
    exact nested_same_when_waivers c h0 hw.1 f s' (some [v]) p'

theorem validateAll_refines (c : Ctx) (h0 : c.o.abortOnFirst = false) (shapes : List Shape) (focus : Option (List Term)) :
    Refines (validateAll c.withAbort shapes focus) (validateAll c shapes focus) := by
  intro conf rs h
  unfold validateAll at h ⊢
  have hmd : c.withAbort.o.maxDepth = c.o.maxDepth := rfl
  have hab : c.withAbort.o.abortOnFirst = true := rfl
  simp only [hmd, hab]
  simp only [h0] at h
  split at h
  · cases h
  · rename_i nc rs0 hl
    obtain ⟨rs1, hl1⟩ := loopE_abort_refines true (fun conf _ => !conf)
      (fun s => validateShape c.withAbort (c.o.maxDepth + 1) s focus none)
      (fun s => validateShape c (c.o.maxDepth + 1) s focus none)
      (fun s cf r0 hs => by
        obtain ⟨r1, h1⟩ := validateShape_refines c h0 _ s focus none cf r0 hs
        exact ⟨r1, h1, rfl⟩) shapes nc rs0 hl
    cases h
    rw [hl1]
    exact ⟨rs1, rfl⟩

/-- **C12, verdict**: whenever the complete run returns a verdict, the run with abort_on_first returns the
    same verdict (for every shapes graph, data graph, waiver options, focus_nodes / use_shapes selection) -/
theorem runValidate_abort_same_verdict (o : Opts) (h0 : o.abortOnFirst = false) (sg dg : Graph) (rx : Regex)
    (focus useShapes : List Term) (conf : Bool) (rs : List Result)
    (h : runValidate o sg dg rx focus useShapes = .ok (conf, rs)) :
    ∃ rs', runValidate { o with abortOnFirst := true } sg dg rx focus useShapes = .ok (conf, rs') := by
  unfold runValidate at h ⊢
  simp only [] at h ⊢
  split at h
  · cases h
  · rename_i hloop
    rw [if_neg hloop]
    cases useShapes with
    | nil =>
      dsimp only at h ⊢
      split at h
      · cases h
      · rename_i shapes hshapes
        split at h
        · cases h
        · rename_i fns tts hadv
          rw [hadv]
          exact validateAll_refines ⟨⟨sg, dg, shapes, rx, _, _, findComponents sg, _, fns, tts, {}⟩,
            { o with focusNodes := if focus = [] then none else some focus }⟩ h0 shapes none conf rs h
    | cons u us =>
      dsimp only at h ⊢
      split at h
      · cases h
      · rename_i shapes hshapes
        split at h
        · cases h
        · rename_i selected hsel
          split at h
          · cases h
          · rename_i fns tts hadv
            rw [hadv]
            dsimp only
            split at h
            · rename_i hf
              rw [if_pos hf]
              exact validateAll_refines ⟨⟨sg, dg, shapes, rx, _, _, findComponents sg, _, fns, tts, {}⟩, o⟩ h0 selected none conf rs h
            · rename_i hf
              rw [if_neg hf]
              exact validateAll_refines ⟨⟨sg, dg, shapes, rx, _, _, findComponents sg, _, fns, tts, {}⟩, o⟩ h0 selected (some focus) conf rs h

end Pyshacl
