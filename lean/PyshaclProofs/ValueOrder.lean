/-
  ValueOrder.lean — C09: what a Core constraint component reports does not depend on the order in which the value
  nodes of a focus node come out of a python set, nor on the insertion order / multiplicity of the data graph.
  `FVPerm fv fv'`: the same focus nodes in the same order, each with a permutation of its value nodes
  (the order of focus nodes is handled in `FocusSet.lean`).
-/
import PyshaclProofs.CoreInvariance
import PyshaclProofs.FocusSet
namespace Pyshacl
open Spec

def FVPerm (fv fv' : FV) : Prop := List.Forall₂ (fun a b => a.1 = b.1 ∧ a.2.Perm b.2) fv fv'

theorem FVPerm.refl (fv : FV) : FVPerm fv fv := by
  induction fv with
  | nil => exact List.Forall₂.nil
  | cons a fv ih => exact List.Forall₂.cons ⟨rfl, List.Perm.refl _⟩ ih

theorem FVPerm.left : ∀ {fv fv' : FV}, FVPerm fv fv' → ∀ {f : Term} {vs : List Term}, (f, vs) ∈ fv →
    ∃ vs', (f, vs') ∈ fv' ∧ vs.Perm vs'
  | [], _, _, _, _, hm => by simp at hm
  | a :: l, [], h, _, _, _ => by cases h
  | a :: l, b :: l', h, f, vs, hm => by
    cases h with
    | cons hab hrest =>
      rcases List.mem_cons.1 hm with hm | hm
      · obtain ⟨b1, b2⟩ := b
        rw [← hm] at hab
        exact ⟨b2, by rw [show f = b1 from hab.1]; exact List.mem_cons_self, hab.2⟩
      · obtain ⟨vs', h1, h2⟩ := FVPerm.left hrest hm
        exact ⟨vs', List.mem_cons_of_mem _ h1, h2⟩

theorem FVPerm.right : ∀ {fv fv' : FV}, FVPerm fv fv' → ∀ {f : Term} {vs' : List Term}, (f, vs') ∈ fv' →
    ∃ vs, (f, vs) ∈ fv ∧ vs.Perm vs'
  | _, [], _, _, _, hm => by simp at hm
  | [], b :: l', h, _, _, _ => by cases h
  | a :: l, b :: l', h, f, vs', hm => by
    cases h with
    | cons hab hrest =>
      rcases List.mem_cons.1 hm with hm | hm
      · obtain ⟨a1, a2⟩ := a
        rw [← hm] at hab
        exact ⟨a2, by rw [show f = a1 from hab.1.symm]; exact List.mem_cons_self, hab.2⟩
      · obtain ⟨vs, h1, h2⟩ := FVPerm.right hrest hm
        exact ⟨vs, List.mem_cons_of_mem _ h1, h2⟩

/-- a statement about one entry that does not depend on the order of its value nodes holds of some entry of the one
    map iff it holds of some entry of the other -/
theorem mem_transfer {fv fv' : FV} (h : FVPerm fv fv') (Q : Term → List Term → Prop)
    (hQ : ∀ f vs vs', vs.Perm vs' → (Q f vs ↔ Q f vs')) :
    (∃ f vs, (f, vs) ∈ fv ∧ Q f vs) ↔ (∃ f vs, (f, vs) ∈ fv' ∧ Q f vs) := by
  constructor
  · rintro ⟨f, vs, hm, hq⟩
    obtain ⟨vs', hm', hp⟩ := h.left hm
    exact ⟨f, vs', hm', (hQ f vs vs' hp).1 hq⟩
  · rintro ⟨f, vs', hm', hq⟩
    obtain ⟨vs, hm, hp⟩ := h.right hm'
    exact ⟨f, vs, hm, (hQ f vs vs' hp).2 hq⟩

theorem perValue_perm (s : Shape) (k : CKind) (fv fv' : FV) (h : FVPerm fv fv') (ok : Term → Term → Bool) (r : Result) :
    r ∈ perValue s k fv ok ↔ r ∈ perValue s k fv' ok := by
  rw [mem_perValue, mem_perValue]
  exact mem_transfer h (fun f vs => ∃ v ∈ vs, ok f v = false ∧ r = mkResult s k f (some v))
    (fun f vs vs' hp => by
      constructor <;> rintro ⟨v, hv, h1⟩
      · exact ⟨v, hp.mem_iff.1 hv, h1⟩
      · exact ⟨v, hp.mem_iff.2 hv, h1⟩)

theorem flatMap_perValue_perm {α} (xs : List α) (s : Shape) (k : CKind) (fv fv' : FV) (h : FVPerm fv fv')
    (ok : α → Term → Term → Bool) (r : Result) :
    r ∈ xs.flatMap (fun x => perValue s k fv (ok x)) ↔ r ∈ xs.flatMap (fun x => perValue s k fv' (ok x)) := by
  simp only [List.mem_flatMap]
  constructor <;> rintro ⟨x, hx, hr⟩
  · exact ⟨x, hx, (perValue_perm s k fv fv' h _ r).1 hr⟩
  · exact ⟨x, hx, (perValue_perm s k fv fv' h _ r).2 hr⟩

theorem class_perm (s : Shape) (dg dg' : Graph) (hd : SameTriples dg dg') (fv fv' : FV) (h : FVPerm fv fv')
    (classes : List Term) (r : Result) : r ∈ evalClass s dg fv classes ↔ r ∈ evalClass s dg' fv' classes := by
  rw [← class_graph_invariant s dg dg' hd fv' classes r]
  unfold evalClass
  exact flatMap_perValue_perm classes s .cls fv fv' h _ r

theorem datatype_perm (s : Shape) (fv fv' : FV) (h : FVPerm fv fv') (rule : Term) (r : Result) :
    r ∈ evalDatatype s fv rule ↔ r ∈ evalDatatype s fv' rule := by
  unfold evalDatatype; exact perValue_perm s _ fv fv' h _ r

theorem nodeKind_perm (s : Shape) (fv fv' : FV) (h : FVPerm fv fv') (rule : Term) (r : Result) :
    r ∈ evalNodeKind s fv rule ↔ r ∈ evalNodeKind s fv' rule := by
  unfold evalNodeKind; exact perValue_perm s _ fv fv' h _ r

theorem range_perm (s : Shape) (k : CKind) (fv fv' : FV) (h : FVPerm fv fv') (bs : List Term) (test : Int → Bool) (r : Result) :
    r ∈ evalRange s k fv bs test ↔ r ∈ evalRange s k fv' bs test := by
  unfold evalRange; exact flatMap_perValue_perm bs s k fv fv' h _ r

theorem minLength_perm (s : Shape) (fv fv' : FV) (h : FVPerm fv fv') (ns : List Int) (r : Result) :
    r ∈ evalMinLength s fv ns ↔ r ∈ evalMinLength s fv' ns := by
  unfold evalMinLength; exact flatMap_perValue_perm ns s _ fv fv' h _ r

theorem maxLength_perm (s : Shape) (fv fv' : FV) (h : FVPerm fv fv') (ns : List Int) (r : Result) :
    r ∈ evalMaxLength s fv ns ↔ r ∈ evalMaxLength s fv' ns := by
  unfold evalMaxLength; exact flatMap_perValue_perm ns s _ fv fv' h _ r

theorem languageIn_perm (s : Shape) (fv fv' : FV) (h : FVPerm fv fv') (ranges : List String) (r : Result) :
    r ∈ evalLanguageIn s fv ranges ↔ r ∈ evalLanguageIn s fv' ranges := by
  unfold evalLanguageIn; exact perValue_perm s _ fv fv' h _ r

theorem in_perm (s : Shape) (fv fv' : FV) (h : FVPerm fv fv') (members : List Term) (r : Result) :
    r ∈ evalIn s fv members ↔ r ∈ evalIn s fv' members := by
  unfold evalIn; exact perValue_perm s _ fv fv' h _ r

theorem minCount_perm (s : Shape) (fv fv' : FV) (h : FVPerm fv fv') (n : Int) (r : Result) :
    r ∈ evalMinCount s fv n ↔ r ∈ evalMinCount s fv' n := by
  rw [minCount_exact, minCount_exact]
  exact mem_transfer h (fun f vs => (vs.length : Int) < n ∧ r = mkResult s .minCount f none)
    (fun f vs vs' hp => by rw [hp.length_eq])

theorem maxCount_perm (s : Shape) (fv fv' : FV) (h : FVPerm fv fv') (n : Int) (r : Result) :
    r ∈ evalMaxCount s fv n ↔ r ∈ evalMaxCount s fv' n := by
  rw [maxCount_exact, maxCount_exact]
  exact mem_transfer h (fun f vs => (vs.length : Int) > n ∧ r = mkResult s .maxCount f none)
    (fun f vs vs' hp => by rw [hp.length_eq])

theorem hasValue_perm (s : Shape) (fv fv' : FV) (h : FVPerm fv fv') (vals : List Term) (r : Result) :
    r ∈ evalHasValue s fv vals ↔ r ∈ evalHasValue s fv' vals := by
  rw [hasValue_exact, hasValue_exact]
  constructor <;> rintro ⟨hv, hhv, hex⟩ <;> refine ⟨hv, hhv, ?_⟩
  · exact (mem_transfer h (fun f vs => hv ∉ vs ∧ r = mkResult s .hasValue f none)
      (fun f vs vs' hp => by rw [hp.mem_iff])).1 hex
  · exact (mem_transfer h (fun f vs => hv ∉ vs ∧ r = mkResult s .hasValue f none)
      (fun f vs vs' hp => by rw [hp.mem_iff])).2 hex

theorem equals_perm (s : Shape) (dg dg' : Graph) (hd : SameTriples dg dg') (fv fv' : FV) (h : FVPerm fv fv')
    (props : List Term) (r : Result) : r ∈ evalEquals s dg fv props ↔ r ∈ evalEquals s dg' fv' props := by
  rw [← equals_graph_invariant s dg dg' hd fv' props r, equals_exact, equals_exact]
  constructor <;> rintro ⟨p, hp, hex⟩ <;> refine ⟨p, hp, ?_⟩
  · exact (mem_transfer h (fun f vs => ∃ v, ((v ∈ vs ∧ (⟨f, p, v⟩ : Triple) ∉ dg) ∨ ((⟨f, p, v⟩ : Triple) ∈ dg ∧ v ∉ vs)) ∧
        r = mkResult s .equals f (some v))
      (fun f vs vs' hpm => by simp only [hpm.mem_iff])).1 hex
  · exact (mem_transfer h (fun f vs => ∃ v, ((v ∈ vs ∧ (⟨f, p, v⟩ : Triple) ∉ dg) ∨ ((⟨f, p, v⟩ : Triple) ∈ dg ∧ v ∉ vs)) ∧
        r = mkResult s .equals f (some v))
      (fun f vs vs' hpm => by simp only [hpm.mem_iff])).2 hex

theorem disjoint_perm (s : Shape) (dg dg' : Graph) (hd : SameTriples dg dg') (fv fv' : FV) (h : FVPerm fv fv')
    (props : List Term) (r : Result) : r ∈ evalDisjoint s dg fv props ↔ r ∈ evalDisjoint s dg' fv' props := by
  rw [← disjoint_graph_invariant s dg dg' hd fv' props r, disjoint_exact, disjoint_exact]
  constructor <;> rintro ⟨p, hp, hex⟩ <;> refine ⟨p, hp, ?_⟩
  · exact (mem_transfer h (fun f vs => ∃ v ∈ vs, (⟨f, p, v⟩ : Triple) ∈ dg ∧ r = mkResult s .disjoint f (some v))
      (fun f vs vs' hpm => by simp only [hpm.mem_iff])).1 hex
  · exact (mem_transfer h (fun f vs => ∃ v ∈ vs, (⟨f, p, v⟩ : Triple) ∈ dg ∧ r = mkResult s .disjoint f (some v))
      (fun f vs vs' hpm => by simp only [hpm.mem_iff])).2 hex

theorem closed_perm (s : Shape) (dg dg' : Graph) (hd : SameTriples dg dg') (fv fv' : FV) (h : FVPerm fv fv')
    (isClosed : Bool) (ignored allowed : List Term) (r : Result) :
    r ∈ evalClosed s dg fv isClosed ignored allowed ↔ r ∈ evalClosed s dg' fv' isClosed ignored allowed := by
  cases isClosed with
  | false => simp [evalClosed]
  | true =>
    rw [← closed_graph_invariant s dg dg' hd fv' ignored allowed r, closed_exact_partial, closed_exact_partial]
    exact mem_transfer h (fun f vs => ∃ v ∈ vs, ∃ p o, (⟨v, p, o⟩ : Triple) ∈ dg ∧ p ∉ ignored ∧ p ∉ allowed ∧
        ¬ (p = rdfType ∧ o = rdfsResource) ∧ r = mkResult s .closed f (some o) (resultPath := some p))
      (fun f vs vs' hpm => by simp only [hpm.mem_iff])

theorem uniqueLang_perm (s : Shape) (fv fv' : FV) (h : FVPerm fv fv') (flag : Bool) (r : Result) :
    r ∈ evalUniqueLang s fv flag ↔ r ∈ evalUniqueLang s fv' flag := by
  cases flag with
  | false => simp [evalUniqueLang]
  | true =>
    have key : ∀ (fv : FV), r ∈ evalUniqueLang s fv true ↔
        ∃ f vs, (f, vs) ∈ fv ∧ (∃ l ∈ vs.filterMap langOf, ((vs.filterMap langOf).filter (· = l)).length ≥ 2) ∧
          r = mkResult s .uniqueLang f none := by
      intro fv
      unfold evalUniqueLang
      simp only [Bool.not_true, Bool.false_eq_true, if_false, List.mem_flatMap, List.mem_map, mem_dedup, List.mem_filter,
        Prod.exists, decide_eq_true_eq]
      constructor
      · rintro ⟨f, vs, hm, l, ⟨hl, hc⟩, hr⟩; exact ⟨f, vs, hm, ⟨l, hl, hc⟩, hr.symm⟩
      · rintro ⟨f, vs, hm, ⟨l, hl, hc⟩, hr⟩; exact ⟨f, vs, hm, l, ⟨hl, hc⟩, hr.symm⟩
    rw [key, key]
    exact mem_transfer h (fun f vs => (∃ l ∈ vs.filterMap langOf, ((vs.filterMap langOf).filter (· = l)).length ≥ 2) ∧
        r = mkResult s .uniqueLang f none)
      (fun f vs vs' hpm => by
        have hp2 : (vs.filterMap langOf).Perm (vs'.filterMap langOf) := hpm.filterMap _
        simp only [hp2.mem_iff, (hp2.filter _).length_eq])

end Pyshacl
