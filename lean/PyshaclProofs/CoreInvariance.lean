/-
  CoreInvariance.lean — C09: the Core components that look into the data graph report the same results for
  any two data graphs with the same triples (whatever their insertion order or multiplicity), and the per-value
  components report the same results for any two focus → value-node maps with the same (focus, value) pairs.
  Consequences of the `_exact` theorems of C01: their right-hand sides mention the graph only through membership.
-/
import PyshaclProofs.CoreSpec2
import PyshaclProofs.InvarianceProofs
namespace Pyshacl
open Spec

/-- two focus → value-node maps with the same (focus, value) pairs -/
def SamePairs (fv fv' : FV) : Prop :=
  ∀ f v, (∃ vs, (f, vs) ∈ fv ∧ v ∈ vs) ↔ (∃ vs, (f, vs) ∈ fv' ∧ v ∈ vs)

theorem perValue_pairs_invariant (s : Shape) (k : CKind) (fv fv' : FV) (ok : Term → Term → Bool)
    (h : SamePairs fv fv') (r : Result) : r ∈ perValue s k fv ok ↔ r ∈ perValue s k fv' ok := by
  rw [mem_perValue, mem_perValue]
  constructor
  · rintro ⟨f, vs, hfv, v, hv, hok, rfl⟩
    obtain ⟨vs', h1, h2⟩ := (h f v).1 ⟨vs, hfv, hv⟩
    exact ⟨f, vs', h1, v, h2, hok, rfl⟩
  · rintro ⟨f, vs, hfv, v, hv, hok, rfl⟩
    obtain ⟨vs', h1, h2⟩ := (h f v).2 ⟨vs, hfv, hv⟩
    exact ⟨f, vs', h1, v, h2, hok, rfl⟩

theorem class_graph_invariant (s : Shape) (dg dg' : Graph) (h : SameTriples dg dg') (fv : FV) (classes : List Term)
    (r : Result) : r ∈ evalClass s dg fv classes ↔ r ∈ evalClass s dg' fv classes := by
  rw [Spec.class_exact, Spec.class_exact]
  have key : ∀ v c, ClassOk dg v c ↔ ClassOk dg' v c := by
    intro v c; unfold ClassOk; rw [IsShaclInstance_congr dg dg' h]
  constructor <;>
  · rintro ⟨c, hc, f, vs, hfv, v, hv, hno, rfl⟩
    exact ⟨c, hc, f, vs, hfv, v, hv, by first | rwa [← key] | rwa [key], rfl⟩

theorem equals_graph_invariant (s : Shape) (dg dg' : Graph) (h : SameTriples dg dg') (fv : FV) (props : List Term)
    (r : Result) : r ∈ evalEquals s dg fv props ↔ r ∈ evalEquals s dg' fv props := by
  rw [Spec.equals_exact, Spec.equals_exact]
  constructor <;>
  · rintro ⟨p, hp, f, vs, hfv, v, hcond, rfl⟩
    refine ⟨p, hp, f, vs, hfv, v, ?_, rfl⟩
    rcases hcond with ⟨a, b⟩ | ⟨a, b⟩
    · exact Or.inl ⟨a, by first | rwa [← h _] | rwa [h _]⟩
    · exact Or.inr ⟨by first | rwa [← h _] | rwa [h _], b⟩

theorem disjoint_graph_invariant (s : Shape) (dg dg' : Graph) (h : SameTriples dg dg') (fv : FV) (props : List Term)
    (r : Result) : r ∈ evalDisjoint s dg fv props ↔ r ∈ evalDisjoint s dg' fv props := by
  rw [Spec.disjoint_exact, Spec.disjoint_exact]
  constructor <;>
  · rintro ⟨p, hp, f, vs, hfv, v, hv, hd, rfl⟩
    exact ⟨p, hp, f, vs, hfv, v, hv, by first | rwa [← h _] | rwa [h _], rfl⟩

theorem closed_graph_invariant (s : Shape) (dg dg' : Graph) (h : SameTriples dg dg') (fv : FV) (ignored allowed : List Term)
    (r : Result) : r ∈ evalClosed s dg fv true ignored allowed ↔ r ∈ evalClosed s dg' fv true ignored allowed := by
  rw [Spec.closed_exact_partial, Spec.closed_exact_partial]
  constructor <;>
  · rintro ⟨f, vs, hfv, v, hv, p, o, hm, h1, h2, h3, rfl⟩
    exact ⟨f, vs, hfv, v, hv, p, o, by first | rwa [← h _] | rwa [h _], h1, h2, h3, rfl⟩

end Pyshacl
