/-
  GraphOrder.lean — C09: a whole shape evaluation does not depend on the insertion order (or multiplicity) of the data
  graph's triples, nor on the order in which value nodes come out of python sets.
  `OutEqv o o'`: whenever `o` returns (conf, results), `o'` returns the same conformance flag and results that are the
  same up to the order of nested `sh:detail` lists (`ListLe` both ways).
-/
import PyshaclProofs.ValueOrder
import PyshaclProofs.AbortSubset
import PyshaclProofs.EvalTransfer
namespace Pyshacl
open Spec

def ListEqv (rs rs' : List Result) : Prop := ListLe rs rs' ∧ ListLe rs' rs

theorem ListEqv.refl (rs : List Result) : ListEqv rs rs := ⟨ListLe.refl rs, ListLe.refl rs⟩

theorem ListEqv.symm {rs rs' : List Result} (h : ListEqv rs rs') : ListEqv rs' rs := ⟨h.2, h.1⟩

theorem ListLe.of_subset {rs rs' : List Result} (h : ∀ r ∈ rs, r ∈ rs') : ListLe rs rs' :=
  (listLe_iff rs rs').2 fun r hr => ⟨r, h r hr, Result.Le.refl r⟩

theorem ListEqv.of_mem {rs rs' : List Result} (h : ∀ r, r ∈ rs ↔ r ∈ rs') : ListEqv rs rs' :=
  ⟨ListLe.of_subset fun r hr => (h r).1 hr, ListLe.of_subset fun r hr => (h r).2 hr⟩

theorem ListEqv.append {a a' b b' : List Result} (h : ListEqv a a') (h' : ListEqv b b') : ListEqv (a ++ b) (a' ++ b') :=
  ⟨h.1.append h'.1, h.2.append h'.2⟩

mutual
theorem Result.Le.trans : ∀ {a b c : Result}, Result.Le a b → Result.Le b c → Result.Le a c
  | _, _, _, .mk f v p cc s sev m d1 d2 src h1, h2 => by
    cases h2 with
    | mk _ _ _ _ _ _ _ _ d3 _ h2' => exact Result.Le.mk f v p cc s sev m d1 d3 src (listLe_trans_aux h1 h2')
theorem listLe_trans_aux : ∀ {xs ys zs : List Result}, ListLe xs ys → ListLe ys zs → ListLe xs zs
  | _, _, zs, .nil _, _ => ListLe.nil zs
  | _, _, zs, .cons x xs ys y hy hle hrest, h2 => by
    obtain ⟨z, hz, hyz⟩ := (listLe_iff ys zs).1 h2 y hy
    exact ListLe.cons x xs zs z hz (Result.Le.trans hle hyz) (listLe_trans_aux hrest h2)
end

theorem ListLe.trans {xs ys zs : List Result} (h : ListLe xs ys) (h' : ListLe ys zs) : ListLe xs zs := listLe_trans_aux h h'

theorem ListEqv.trans {a b c : List Result} (h : ListEqv a b) (h' : ListEqv b c) : ListEqv a c :=
  ⟨h.1.trans h'.1, h'.2.trans h.2⟩

theorem ListEqv.isEmpty {rs rs' : List Result} (h : ListEqv rs rs') : rs.isEmpty = rs'.isEmpty := by
  cases rs with
  | nil =>
    cases rs' with
    | nil => rfl
    | cons a b => obtain ⟨y, hy, _⟩ := (listLe_iff _ _).1 h.2 a List.mem_cons_self; simp at hy
  | cons a b =>
    cases rs' with
    | nil => obtain ⟨y, hy, _⟩ := (listLe_iff _ _).1 h.1 a List.mem_cons_self; simp at hy
    | cons a' b' => rfl

def OutEqv (o o' : Out) : Prop := ∀ c rs, o = .ok (c, rs) → ∃ rs', o' = .ok (c, rs') ∧ ListEqv rs rs'

theorem OutEqv.refl (o : Out) : OutEqv o o := fun _ rs h => ⟨rs, h, ListEqv.refl rs⟩

theorem OutEqv.of_outSim {o o' : Out} (h : OutSim o o') : OutEqv o o' :=
  fun c rs h0 => let ⟨rs', h1, hm⟩ := h c rs h0; ⟨rs', h1, ListEqv.of_mem hm⟩

theorem OutEqv.trans {a b c : Out} (h : OutEqv a b) (h' : OutEqv b c) : OutEqv a c := by
  intro cf rs h0
  obtain ⟨rs1, h1, e1⟩ := h cf rs h0
  obtain ⟨rs2, h2, e2⟩ := h' cf rs1 h1
  exact ⟨rs2, h2, e1.trans e2⟩

theorem outEqv_ofResults (rs rs' : List Result) (h : ∀ r, r ∈ rs ↔ r ∈ rs') : OutEqv (ofResults rs) (ofResults rs') :=
  OutEqv.of_outSim (outSim_ofResults rs rs' h)

theorem liftResults_eqv (x x' : Except Failure (List Result))
    (h : ∀ rs, x = .ok rs → ∃ rs', x' = .ok rs' ∧ ∀ r, r ∈ rs ↔ r ∈ rs') : OutEqv (liftResults x) (liftResults x') :=
  OutEqv.of_outSim (liftResults_sim x x' h)

/-- the constraint loop looks at results only through their severities -/
theorem constraintFails_eqv (o : Opts) (top c : Bool) (rs rs' : List Result) (h : ListEqv rs rs') :
    constraintFails o top c rs = constraintFails o top c rs' := by
  unfold constraintFails
  split
  · rfl
  · have key : ∀ (a b : List Result), ListLe a b →
        a.any (fun r => decide (r.severity ∉ allowedSeverities o)) = true →
        b.any (fun r => decide (r.severity ∉ allowedSeverities o)) = true := by
      intro a b hab ha
      rw [List.any_eq_true] at ha ⊢
      obtain ⟨x, hx, hg⟩ := ha
      obtain ⟨y, hy, hle⟩ := (listLe_iff a b).1 hab x hx
      exact ⟨y, hy, by rw [← hle.severity]; exact hg⟩
    cases h1 : rs.any (fun r => decide (r.severity ∉ allowedSeverities o)) <;>
    cases h2 : rs'.any (fun r => decide (r.severity ∉ allowedSeverities o)) <;> try rfl
    · have := key rs' rs h.2 h2; rw [h1] at this; cases this
    · have := key rs rs' h.1 h1; rw [h2] at this; cases this

/-- `foldOut` over two aligned lists, element outcomes related by `OutEqv` -/
theorem foldOut_eqv_forall₂ {α} (R : α → α → Prop) (xs xs' : List α) (f f' : α → Out) (hm : List.Forall₂ R xs xs')
    (hf : ∀ x x', R x x' → OutEqv (f x) (f' x')) : OutEqv (foldOut xs f) (foldOut xs' f') := by
  induction hm with
  | nil => exact OutEqv.refl _
  | cons hab hrest ih =>
    rename_i a b l l'
    intro c r0 h0
    simp only [foldOut] at h0 ⊢
    cases hx : f a with
    | error e => simp [hx] at h0
    | ok p =>
      obtain ⟨cx, rx⟩ := p
      simp only [hx] at h0
      cases hr : foldOut l f with
      | error e => simp [hr] at h0
      | ok q =>
        obtain ⟨c2, rs2⟩ := q
        simp only [hr, Except.ok.injEq, Prod.mk.injEq] at h0
        obtain ⟨rx1, hx1, e1⟩ := hf a b hab cx rx hx
        obtain ⟨rs21, hr1, e2⟩ := ih c2 rs2 hr
        refine ⟨rx1 ++ rs21, by simp [hx1, hr1, h0.1], ?_⟩
        rw [← h0.2]
        exact e1.append e2

/-- `foldOut` over two lists with the same members, the same element outcomes up to `OutEqv` -/
theorem foldOut_eqv_sameMem {α} (xs xs' : List α) (f f' : α → Out) (hm : SameMem xs xs') (hf : ∀ x, OutEqv (f x) (f' x)) :
    OutEqv (foldOut xs f) (foldOut xs' f') := by
  intro c rs h
  obtain ⟨i1, i2, i3⟩ := foldOut_ok_iff xs f c rs h
  have tot : ∀ x ∈ xs', ∃ cx rx, f' x = .ok (cx, rx) := by
    intro x hx
    obtain ⟨cx, rx, hfx⟩ := i1 x ((hm x).2 hx)
    obtain ⟨rx', hfx', _⟩ := hf x cx rx hfx
    exact ⟨cx, rx', hfx'⟩
  obtain ⟨c', rs', h'⟩ := foldOut_total xs' f' tot
  obtain ⟨j1, j2, j3⟩ := foldOut_ok_iff xs' f' c' rs' h'
  have hcc : c' = c := by
    cases hc : c with
    | true =>
      rw [j3]
      intro x hx cx rx hfx
      obtain ⟨cx0, rx0, hfx0⟩ := i1 x ((hm x).2 hx)
      obtain ⟨rx', hfx', _⟩ := hf x cx0 rx0 hfx0
      have e := Except.ok.inj (hfx'.symm.trans hfx)
      rw [← (Prod.mk.inj e).1]
      exact (i3.1 hc) x ((hm x).2 hx) cx0 rx0 hfx0
    | false =>
      cases hc' : c' with
      | false => rfl
      | true =>
        exfalso
        have : c = true := by
          rw [i3]
          intro x hx cx rx hfx
          obtain ⟨rx', hfx', _⟩ := hf x cx rx hfx
          exact (j3.1 hc') x ((hm x).1 hx) cx rx' hfx'
        rw [hc] at this; cases this
  subst hcc
  refine ⟨rs', h', ?_, ?_⟩
  · rw [listLe_iff]
    intro r hr
    obtain ⟨x, hx, cx, rx, hfx, hrx⟩ := (i2 r).1 hr
    obtain ⟨rx', hfx', e⟩ := hf x cx rx hfx
    obtain ⟨r', hr', hle⟩ := (listLe_iff rx rx').1 e.1 r hrx
    exact ⟨r', (j2 r').2 ⟨x, (hm x).1 hx, cx, rx', hfx', hr'⟩, hle⟩
  · rw [listLe_iff]
    intro r' hr'
    obtain ⟨x, hx, cx', rx', hfx', hrx'⟩ := (j2 r').1 hr'
    obtain ⟨cx, rx, hfx⟩ := i1 x ((hm x).2 hx)
    obtain ⟨rx'', hfx'', e⟩ := hf x cx rx hfx
    have e2 : rx'' = rx' := (Prod.mk.inj (Except.ok.inj (hfx''.symm.trans hfx'))).2
    rw [e2] at e
    obtain ⟨r, hr, hle⟩ := (listLe_iff rx' rx).1 e.2 r' hrx'
    exact ⟨r, (i2 r).2 ⟨x, (hm x).2 hx, cx, rx, hfx, hr⟩, hle⟩

theorem perm_sameMem {α} {l l' : List α} (h : l.Perm l') : SameMem l l' := fun _ => h.mem_iff

def RecEqv (rec rec' : Rec) : Prop := ∀ s v p, OutEqv (rec s v p) (rec' s v p)

theorem RecEqv.toRefines {rec rec' : Rec} (h : RecEqv rec rec') : RecRefines rec' rec :=
  fun s v p c r0 h0 => let ⟨r1, h1, _⟩ := h s v p c r0 h0; ⟨r1, h1⟩

/-! ### the components that evaluate other shapes -/

theorem evalMembers_eqv (rec rec' : Rec) (hR : RecEqv rec rec') (path : List PathEntry) (members : List Shape) (v : Term)
    (cs : List Bool) (h : evalMembers rec path members v = .ok cs) : evalMembers rec' path members v = .ok cs :=
  evalMembers_refines rec' rec hR.toRefines path members v cs h

theorem logicalOver_eqv (rec rec' : Rec) (hR : RecEqv rec rec') (s : Shape) (k : CKind) (path : List PathEntry)
    (fv fv' : FV) (h : FVPerm fv fv') (members : List Shape) (bad : List Bool → Bool) :
    OutEqv (logicalOver rec s k path fv members bad) (logicalOver rec' s k path fv' members bad) := by
  unfold logicalOver
  refine foldOut_eqv_forall₂ _ fv fv' _ _ h ?_
  rintro ⟨f, vs⟩ ⟨f', vs'⟩ ⟨hf, hp⟩
  simp only at hf hp
  subst hf
  refine foldOut_eqv_sameMem vs vs' _ _ (perm_sameMem hp) ?_
  intro v c r0 h0
  cases hm : evalMembers rec path members v with
  | error e => simp [hm] at h0
  | ok cs =>
    simp only [hm] at h0
    rw [evalMembers_eqv rec rec' hR path members v cs hm]
    exact ⟨r0, h0, ListEqv.refl r0⟩

theorem nodeOver_eqv (rec rec' : Rec) (hR : RecEqv rec rec') (s : Shape) (path : List PathEntry)
    (fv fv' : FV) (h : FVPerm fv fv') (ns : Shape) :
    OutEqv (nodeOver rec s path fv ns) (nodeOver rec' s path fv' ns) := by
  unfold nodeOver
  refine foldOut_eqv_forall₂ _ fv fv' _ _ h ?_
  rintro ⟨f, vs⟩ ⟨f', vs'⟩ ⟨hf, hp⟩
  simp only at hf hp
  subst hf
  refine foldOut_eqv_sameMem vs vs' _ _ (perm_sameMem hp) ?_
  intro v c r0 h0
  cases hm : rec ns v path with
  | error e => simp [hm] at h0
  | ok p =>
    obtain ⟨cf, rs⟩ := p
    simp only [hm] at h0
    obtain ⟨rs1, hm1, e⟩ := hR ns v path cf rs hm
    simp only [hm1]
    rw [← e.isEmpty]
    by_cases hc : ((!cf) = true ∨ (!rs.isEmpty) = true)
    · rw [if_pos hc] at h0 ⊢
      simp only [Except.ok.injEq, Prod.mk.injEq] at h0
      refine ⟨_, by rw [← h0.1], ?_⟩
      rw [← h0.2]
      exact ⟨ListLe.cons _ _ _ _ List.mem_cons_self (mkResult_node_le s f v rs rs1 e.1) (ListLe.nil _),
             ListLe.cons _ _ _ _ List.mem_cons_self (mkResult_node_le s f v rs1 rs e.2) (ListLe.nil _)⟩
    · rw [if_neg hc] at h0 ⊢
      exact ⟨r0, h0, ListEqv.refl r0⟩

theorem propertyOver_eqv (rec rec' : Rec) (hR : RecEqv rec rec') (path : List PathEntry)
    (fv fv' : FV) (h : FVPerm fv fv') (ps : Shape) :
    OutEqv (propertyOver rec path fv ps) (propertyOver rec' path fv' ps) := by
  unfold propertyOver
  refine foldOut_eqv_forall₂ _ fv fv' _ _ h ?_
  rintro ⟨f, vs⟩ ⟨f', vs'⟩ ⟨hf, hp⟩
  simp only at hf hp
  subst hf
  exact foldOut_eqv_sameMem vs vs' _ _ (perm_sameMem hp) (fun v => hR ps v path)

/-- `mapE` over a permutation of the list returns a permutation of the answers -/
theorem mapE_perm {α β} (g : α → Except Failure β) {xs xs' : List α} (hp : xs.Perm xs') :
    ∀ ys, mapE g xs = .ok ys → ∃ ys', mapE g xs' = .ok ys' ∧ ys.Perm ys' := by
  induction hp with
  | nil => intro ys h; exact ⟨ys, h, List.Perm.refl _⟩
  | cons x _ ih =>
    intro ys h
    simp only [mapE] at h ⊢
    cases hx : g x with
    | error e => simp [hx] at h
    | ok b =>
      simp only [hx] at h ⊢
      split at h
      · cases h
      · rename_i zs hzs
        obtain ⟨zs', hzs', hperm⟩ := ih zs hzs
        simp only [hzs']
        cases h
        exact ⟨b :: zs', rfl, List.Perm.cons b hperm⟩
  | swap x y l =>
    intro ys h
    simp only [mapE] at h ⊢
    cases hy : g y with
    | error e => simp [hy] at h
    | ok by' =>
      cases hx : g x with
      | error e => simp [hy, hx] at h
      | ok bx =>
        simp only [hy, hx] at h ⊢
        cases hl : mapE g l with
        | error e => simp [hl] at h
        | ok zs =>
          simp only [hl] at h ⊢
          cases h
          exact ⟨bx :: by' :: zs, rfl, List.Perm.swap _ _ _⟩
  | trans _ _ ih1 ih2 =>
    intro ys h
    obtain ⟨ys1, h1, p1⟩ := ih1 ys h
    obtain ⟨ys2, h2, p2⟩ := ih2 ys1 h1
    exact ⟨ys2, h2, p1.trans p2⟩

theorem qualifiedOver_eqv (rec rec' : Rec) (hR : RecEqv rec rec') (s : Shape) (k : CKind) (path : List PathEntry)
    (fv fv' : FV) (h : FVPerm fv fv') (other : Shape) (siblings : List Shape) (minC maxC : Option Int) :
    OutEqv (qualifiedOver rec s k path fv other siblings minC maxC)
      (qualifiedOver rec' s k path fv' other siblings minC maxC) := by
  unfold qualifiedOver
  refine foldOut_eqv_forall₂ _ fv fv' _ _ h ?_
  rintro ⟨f, vs⟩ ⟨f', vs'⟩ ⟨hf, hp⟩
  simp only at hf hp
  subst hf
  intro c r0 h0
  dsimp only at h0 ⊢
  cases hm : mapE (qualFlag rec path other siblings) vs with
  | error e => rw [hm] at h0; cases h0
  | ok flags =>
    rw [hm] at h0
    have h1 := mapE_refines _ _ (qualFlag_refines rec' rec hR.toRefines path other siblings) vs flags hm
    obtain ⟨flags', h2, hperm⟩ := mapE_perm _ hp flags h1
    rw [h2]
    have hn : (flags'.filter id).length = (flags.filter id).length := ((hperm.filter id).length_eq).symm
    dsimp only
    rw [hn]
    exact ⟨r0, h0, ListEqv.refl r0⟩

/-! ### the two evaluators that can fail -/

theorem lessThan_eqv (s : Shape) (k : CKind) (dg dg' : Graph) (hd : SameTriples dg dg') (fv fv' : FV) (h : FVPerm fv fv')
    (props : List Term) (test : Int → Bool) :
    OutEqv (liftResults (evalLessThan s k dg fv props test)) (liftResults (evalLessThan s k dg' fv' props test)) := by
  apply liftResults_eqv
  intro rs h0
  unfold evalLessThan at h0 ⊢
  split at h0
  · cases h0
  · rename_i hno
    cases h0
    rw [if_neg hno]
    refine ⟨_, rfl, ?_⟩
    intro r
    have hobj : ∀ f p c, c ∈ dedup (dg.objects f p) ↔ c ∈ dedup (dg'.objects f p) := by
      intro f p c
      rw [mem_dedup, mem_dedup, Graph.mem_objects, Graph.mem_objects]
      exact hd _
    have key : ∀ (g : Graph) (fv : FV), (r ∈ props.flatMap fun p => fv.flatMap fun (x : Term × List Term) =>
          x.2.flatMap fun v => (dedup (g.objects x.1 p)).filterMap fun c =>
            if pairOk test v c then none else some (mkResult s k x.1 (some v))) ↔
        ∃ p ∈ props, ∃ f vs, (f, vs) ∈ fv ∧ ∃ v ∈ vs, ∃ c ∈ dedup (g.objects f p), pairOk test v c = false ∧
          r = mkResult s k f (some v) := by
      intro g fv
      simp only [List.mem_flatMap, List.mem_filterMap, Prod.exists]
      constructor
      · rintro ⟨p, hp, f, vs, hm, v, hv, c, hc, hr⟩
        split at hr
        · cases hr
        · rename_i hpo
          exact ⟨p, hp, f, vs, hm, v, hv, c, hc, by simpa using hpo, by injection hr with hr; exact hr.symm⟩
      · rintro ⟨p, hp, f, vs, hm, v, hv, c, hc, hpo, hr⟩
        exact ⟨p, hp, f, vs, hm, v, hv, c, hc, by rw [hpo, hr]; simp⟩
    rw [key dg fv, key dg' fv']
    constructor <;> rintro ⟨p, hp, hex⟩ <;> refine ⟨p, hp, ?_⟩
    · exact (mem_transfer h (fun f vs => ∃ v ∈ vs, ∃ c ∈ dedup (dg'.objects f p), pairOk test v c = false ∧
          r = mkResult s k f (some v)) (fun f vs vs' hpm => by simp only [hpm.mem_iff])).1
        (by obtain ⟨f, vs, hm, v, hv, c, hc, hrest⟩ := hex; exact ⟨f, vs, hm, v, hv, c, (hobj f p c).1 hc, hrest⟩)
    · obtain ⟨f, vs, hm, v, hv, c, hc, hrest⟩ := (mem_transfer h (fun f vs => ∃ v ∈ vs, ∃ c ∈ dedup (dg'.objects f p),
          pairOk test v c = false ∧ r = mkResult s k f (some v)) (fun f vs vs' hpm => by simp only [hpm.mem_iff])).2 hex
      exact ⟨f, vs, hm, v, hv, c, (hobj f p c).2 hc, hrest⟩

theorem pattern_eqv (s : Shape) (fv fv' : FV) (h : FVPerm fv fv') (rx : Regex) (ps : List Term) (flags : String) :
    OutEqv (liftResults (evalPattern s fv rx ps flags)) (liftResults (evalPattern s fv' rx ps flags)) := by
  apply liftResults_eqv
  intro rs h0
  unfold evalPattern at h0 ⊢
  simp only [] at h0 ⊢
  split at h0
  · cases h0
  · rename_i hno
    cases h0
    rw [if_neg]
    · exact ⟨_, rfl, fun r => flatMap_perValue_perm ps s .pattern fv fv' h _ r⟩
    · intro hc
      apply hno
      rw [List.any_eq_true] at hc ⊢
      obtain ⟨p, hp, hc⟩ := hc
      refine ⟨p, hp, ?_⟩
      rw [List.any_eq_true] at hc ⊢
      obtain ⟨⟨f, vs'⟩, hm', hg⟩ := hc
      obtain ⟨vs, hm, hperm⟩ := h.right hm'
      refine ⟨(f, vs), hm, ?_⟩
      simp only at hg ⊢
      rw [List.any_eq_true] at hg ⊢
      obtain ⟨v, hv, hgv⟩ := hg
      exact ⟨v, hperm.mem_iff.2 hv, hgv⟩

/-! ### every constraint component -/

/-- the same environment over another data graph -/
def Env.withDg (e : Env) (dg' : Graph) : Env := { e with dg := dg' }

@[simp] theorem Env.withDg_sg (e : Env) (g : Graph) : (e.withDg g).sg = e.sg := rfl
@[simp] theorem Env.withDg_dg (e : Env) (g : Graph) : (e.withDg g).dg = g := rfl
@[simp] theorem Env.withDg_shapes (e : Env) (g : Graph) : (e.withDg g).shapes = e.shapes := rfl
@[simp] theorem Env.withDg_rx (e : Env) (g : Graph) : (e.withDg g).rx = e.rx := rfl
@[simp] theorem Env.withDg_sq (e : Env) (g : Graph) : (e.withDg g).sq = e.sq := rfl
@[simp] theorem Env.withDg_sqInfo (e : Env) (g : Graph) : (e.withDg g).sqInfo = e.sqInfo := rfl
@[simp] theorem Env.withDg_components (e : Env) (g : Graph) : (e.withDg g).components = e.components := rfl
@[simp] theorem Env.withDg_va (e : Env) (g : Graph) : (e.withDg g).va = e.va := rfl
@[simp] theorem resolveMembers_withDg (e : Env) (g : Graph) (ns : List Term) :
    resolveMembers (e.withDg g) ns = resolveMembers e ns := rfl

theorem valueCount_perm (fv fv' : FV) (h : FVPerm fv fv') : valueCount fv = valueCount fv' := by
  unfold valueCount
  induction h with
  | nil => rfl
  | cons hab _ ih => simp only [List.map_cons, List.sum_cons, ih, hab.2.length_eq]

/-- a fold whose element function looks at the focus node only -/
theorem foldOut_eqv_fst (fv fv' : FV) (h : FVPerm fv fv') (F : Term × List Term → Out)
    (hF : ∀ f vs vs', F (f, vs) = F (f, vs')) : OutEqv (foldOut fv F) (foldOut fv' F) := by
  refine foldOut_eqv_forall₂ _ fv fv' _ _ h ?_
  rintro ⟨f, vs⟩ ⟨f', vs'⟩ ⟨hf, _⟩
  simp only at hf
  subst hf
  rw [hF f vs vs']
  exact OutEqv.refl _

theorem outEqv_ite (P : Prop) [Decidable P] {a a' b b' : Out} (h1 : OutEqv a a') (h2 : OutEqv b b') :
    OutEqv (if P then a else b) (if P then a' else b') := by
  split <;> assumption

theorem sparqlConstraint_eqv (e : Env) (rec : Rec) (s : Shape) (fv fv' : FV) (h : FVPerm fv fv') (path : List PathEntry) :
    OutEqv (evalConstraint e rec s .sparql fv path) (evalConstraint e rec s .sparql fv' path) := by
  simp only [evalConstraint]
  refine foldOut_eqv_sameMem _ _ _ _ (fun _ => Iff.rfl) ?_
  intro cn
  repeat' first
    | exact OutEqv.refl _
    | (apply foldOut_eqv_fst fv fv' h; intro f vs vs'; rfl)
    | apply outEqv_ite
    | split

theorem sparqlConstraint_env (e : Env) (dg' : Graph) (rec rec' : Rec) (s : Shape) (fv : FV) (path : List PathEntry) :
    evalConstraint (e.withDg dg') rec' s .sparql fv path = evalConstraint e rec s .sparql fv path := by
  rfl

/-- **every constraint component** (all but advanced-mode sh:expression): the same verdict and the same results, up to
    the order of nested details, on any permutation of each focus node's value nodes and any data graph with the same
    triples — given nested evaluations that are related in the same way -/
theorem evalConstraint_eqv (e : Env) (dg' : Graph) (hd : SameTriples e.dg dg') (rec rec' : Rec) (hR : RecEqv rec rec')
    (s : Shape) (k : CKind) (fv fv' : FV) (h : FVPerm fv fv') (path : List PathEntry) (hk : k ≠ .expression) :
    OutEqv (evalConstraint e rec s k fv path) (evalConstraint (e.withDg dg') rec' s k fv' path) := by
  have hvc := valueCount_perm fv fv' h
  cases k
  case expression => exact absurd rfl hk
  case sparql => rw [sparqlConstraint_env]; exact sparqlConstraint_eqv e rec s fv fv' h path
  all_goals simp only [evalConstraint, Env.withDg_sg, Env.withDg_dg, Env.withDg_shapes, Env.withDg_rx, resolveMembers_withDg, hvc]
  all_goals
    repeat' first
      | exact OutEqv.refl _
      | exact logicalOver_eqv rec rec' hR _ _ _ fv fv' h _ _
      | exact nodeOver_eqv rec rec' hR _ _ fv fv' h _
      | exact propertyOver_eqv rec rec' hR _ fv fv' h _
      | exact qualifiedOver_eqv rec rec' hR _ _ _ fv fv' h _ _ _ _
      | exact pattern_eqv _ fv fv' h _ _ _
      | exact lessThan_eqv _ _ _ _ hd fv fv' h _ _
      | exact outEqv_ofResults _ _ (fun r => class_perm _ _ _ hd fv fv' h _ r)
      | exact outEqv_ofResults _ _ (fun r => datatype_perm _ fv fv' h _ r)
      | exact outEqv_ofResults _ _ (fun r => nodeKind_perm _ fv fv' h _ r)
      | exact outEqv_ofResults _ _ (fun r => minCount_perm _ fv fv' h _ r)
      | exact outEqv_ofResults _ _ (fun r => maxCount_perm _ fv fv' h _ r)
      | exact outEqv_ofResults _ _ (fun r => range_perm _ _ fv fv' h _ _ r)
      | exact outEqv_ofResults _ _ (fun r => minLength_perm _ fv fv' h _ r)
      | exact outEqv_ofResults _ _ (fun r => maxLength_perm _ fv fv' h _ r)
      | exact outEqv_ofResults _ _ (fun r => languageIn_perm _ fv fv' h _ r)
      | exact outEqv_ofResults _ _ (fun r => uniqueLang_perm _ fv fv' h _ r)
      | exact outEqv_ofResults _ _ (fun r => equals_perm _ _ _ hd fv fv' h _ r)
      | exact outEqv_ofResults _ _ (fun r => disjoint_perm _ _ _ hd fv fv' h _ r)
      | exact outEqv_ofResults _ _ (fun r => hasValue_perm _ fv fv' h _ r)
      | exact outEqv_ofResults _ _ (fun r => in_perm _ fv fv' h _ r)
      | exact outEqv_ofResults _ _ (fun r => closed_perm _ _ _ hd fv fv' h _ _ _ r)
      | (apply foldOut_eqv_sameMem _ _ _ _ (fun _ => Iff.rfl); intro _)
      | apply outEqv_ite
      | split

/-! ### SPARQL-based constraint components -/

theorem componentResults_perm (s : Shape) (comp : Component) (kind : ValidatorKind) (valMsgs : List Term)
    (paramMap : List (String × Term)) (f : Term) (vs vs' : List Term) (hp : vs.Perm vs')
    (answer : Term → Option ValidatorAnswer) (rs : List Result)
    (h : componentResults s comp kind valMsgs paramMap f vs answer = .ok rs) :
    ∃ rs', componentResults s comp kind valMsgs paramMap f vs' answer = .ok rs' ∧ ∀ r, r ∈ rs ↔ r ∈ rs' := by
  unfold componentResults at h ⊢
  cases kind with
  | select => exact ⟨rs, h, fun _ => Iff.rfl⟩
  | ask =>
    simp only [] at h ⊢
    split at h
    · cases h
    · rename_i answers hans
      obtain ⟨answers', hans', hperm⟩ := mapE_perm _ hp answers hans
      rw [hans']
      cases h
      exact ⟨_, rfl, fun r => by simp only [List.mem_flatMap, hperm.mem_iff]⟩

theorem evalComponent_eqv (e : Env) (dg' : Graph) (s : Shape) (comp : Component) (fv fv' : FV) (h : FVPerm fv fv') :
    OutEqv (evalComponent e s comp fv) (evalComponent (e.withDg dg') s comp fv') := by
  have henv : evalComponent (e.withDg dg') s comp fv' = evalComponent e s comp fv' := rfl
  rw [henv]
  unfold evalComponent
  split
  · exact OutEqv.refl _
  · dsimp only
    apply outEqv_ite _ (OutEqv.refl _)
    apply outEqv_ite _ (OutEqv.refl _)
    refine foldOut_eqv_forall₂ _ fv fv' _ _ h ?_
    rintro ⟨f, vs⟩ ⟨f', vs'⟩ ⟨hf, hp⟩
    simp only at hf hp
    subst hf
    have hnil : vs = [] ↔ vs' = [] := by
      constructor <;> intro hh
      · subst hh; exact hp.symm.eq_nil
      · subst hh; exact hp.eq_nil
    simp only [hnil]
    apply outEqv_ite _ (OutEqv.refl _)
    split
    · exact OutEqv.refl _
    · apply outEqv_ite _ (OutEqv.refl _)
      apply outEqv_ite _ (OutEqv.refl _)
      apply outEqv_ite _ (OutEqv.refl _)
      intro c r0 h0
      split at h0
      · cases h0
      · rename_i rs hcr
        obtain ⟨rs', h1, hm⟩ := componentResults_perm _ _ _ _ _ _ vs vs' hp _ _ hcr
        rw [h1]
        exact outEqv_ofResults rs rs' hm c r0 h0

/-! ### a whole shape evaluation -/

theorem loopE_eqv_gen {α} (fails : Bool → List Result → Bool)
    (hfails : ∀ c rs rs', ListEqv rs rs' → fails c rs = fails c rs') (f f' : α → Out) :
    ∀ (xs : List α), (∀ x ∈ xs, OutEqv (f x) (f' x)) → ∀ (nc : Bool) (rs : List Result),
      loopE false fails f xs = .ok (nc, rs) →
      ∃ rs', loopE false fails f' xs = .ok (nc, rs') ∧ ListEqv rs rs' := by
  intro xs
  induction xs with
  | nil =>
    intro _ nc rs h
    simp only [loopE, Except.ok.injEq, Prod.mk.injEq] at h
    obtain ⟨h1, h2⟩ := h
    subst h1; subst h2
    exact ⟨[], rfl, ListEqv.refl []⟩
  | cons x xs ih =>
    intro hf nc rs h
    simp only [loopE, Bool.and_false, Bool.false_eq_true, if_false] at h ⊢
    cases hx : f x with
    | error e => simp [hx] at h
    | ok p =>
      obtain ⟨cx, rx⟩ := p
      simp only [hx] at h
      obtain ⟨rx', hx', e1⟩ := hf x List.mem_cons_self cx rx hx
      simp only [hx']
      cases hl : loopE false fails f xs with
      | error e => simp [hl] at h
      | ok q =>
        obtain ⟨nc2, rs2⟩ := q
        simp only [hl, Except.ok.injEq, Prod.mk.injEq] at h
        obtain ⟨rs2', hl', e2⟩ := ih (fun y hy => hf y (List.mem_cons_of_mem _ hy)) nc2 rs2 hl
        simp only [hl']
        refine ⟨rx' ++ rs2', ?_, ?_⟩
        · rw [← hfails cx rx rx' e1, h.1]
        · rw [← h.2]; exact e1.append e2

theorem loopE_eqv {α} (o : Opts) (top : Bool) (f f' : α → Out) :
    ∀ (xs : List α), (∀ x ∈ xs, OutEqv (f x) (f' x)) → ∀ (nc : Bool) (rs : List Result),
      loopE false (constraintFails o top) f xs = .ok (nc, rs) →
      ∃ rs', loopE false (constraintFails o top) f' xs = .ok (nc, rs') ∧ ListEqv rs rs' :=
  loopE_eqv_gen _ (fun c rs rs' e => constraintFails_eqv o top c rs rs' e) f f'

theorem dedup_perm_of_mem {α} [DecidableEq α] (l l' : List α) (h : ∀ x, x ∈ l ↔ x ∈ l') : (dedup l).Perm (dedup l') :=
  (List.perm_ext_iff_of_nodup (nodup_dedup l) (nodup_dedup l')).2 fun a => by rw [mem_dedup, mem_dedup]; exact h a

/-- the focus → value-node map over another data graph with the same triples: the same focus nodes, each with a
    permutation of its value nodes — and it is returned whenever the first one is -/
theorem valueNodes_dg (e : Env) (dg' : Graph) (hd : SameTriples e.dg dg') (s : Shape) (fl : List Term) (fv : FV)
    (h : valueNodes e s fl = .ok fv) : ∃ fv', valueNodes (e.withDg dg') s fl = .ok fv' ∧ FVPerm fv fv' := by
  unfold valueNodes at h ⊢
  by_cases hp : (!s.isProp) = true
  · simp only [hp, if_true, Except.ok.injEq] at h ⊢
    subst h
    exact ⟨_, rfl, FVPerm.refl _⟩
  · simp only [hp, Bool.false_eq_true, if_false] at h ⊢
    cases hpath : s.path with
    | none => simp [hpath] at h
    | some pn =>
      simp only [hpath, Env.withDg_sg, Env.withDg_dg] at h ⊢
      induction fl generalizing fv with
      | nil => simp only [mapE, Except.ok.injEq] at h ⊢; subst h; exact ⟨[], rfl, List.Forall₂.nil⟩
      | cons f fl ih =>
        simp only [mapE] at h ⊢
        cases hev : Path.eval Caps.pathDepth (decodePath e.sg pathDecodeFuel pn) false 0 e.dg f with
        | error er => simp [hev] at h
        | ok vs =>
          simp only [hev] at h
          have hev' := eval_transfer Caps.pathDepth _ e.dg dg' hd false 0 f vs hev
          have hvs := eval_ok_exact Caps.pathDepth _ e.dg false 0 f vs hev
          simp only [hev']
          split at h
          · cases h
          · rename_i rest hrest
            obtain ⟨rest', hrest', hperm⟩ := ih rest hrest
            simp only [hrest']
            cases h
            refine ⟨_, rfl, List.Forall₂.cons ⟨rfl, ?_⟩ hperm⟩
            rw [hvs]
            exact dedup_perm_of_mem _ _ (fun x => value_nodes_order_invariant _ e.dg dg' hd false f x)

/-- the same context over another data graph -/
def Ctx.withDg (c : Ctx) (dg' : Graph) : Ctx := { toEnv := c.toEnv.withDg dg', o := c.o }

theorem validateCore_dg (c : Ctx) (dg' : Graph) (hd : SameTriples c.dg dg') (hab : c.o.abortOnFirst = false)
    (hadv : c.o.advanced = false) (rec rec' : Rec) (hR : RecEqv rec rec') (s : Shape) (fl : List Term)
    (path : Option (List PathEntry)) :
    OutEqv (validateCore c rec s fl path) (validateCore (c.withDg dg') rec' s fl path) := by
  intro conf rs h
  unfold validateCore at h ⊢
  have henv : (c.withDg dg').toEnv = c.toEnv.withDg dg' := rfl
  have ho : (c.withDg dg').o = c.o := rfl
  simp only [henv, ho, Env.withDg_sg, Env.withDg_components, hab, hadv, Bool.false_and] at h ⊢
  split at h
  · cases h
  · rename_i hdepth
    rw [if_neg hdepth]
    cases hv : valueNodes c.toEnv s fl with
    | error e => rw [hv] at h; cases h
    | ok fv =>
      rw [hv] at h
      obtain ⟨fv', hv', hperm⟩ := valueNodes_dg c.toEnv dg' hd s fl fv hv
      rw [hv']
      simp only [] at h ⊢
      split at h
      · cases h
      · rename_i nc rs1 hl1
        have hne : ∀ k ∈ shapeComponents c.sg s.node false, k ≠ .expression :=
          fun k hk => shapeComponents_no_expression c.sg s.node k hk
        obtain ⟨rs1', hl1', e1⟩ := loopE_eqv c.o path.isNone
          (fun k => evalConstraint c.toEnv rec s k fv (path.getD [] ++ [PathEntry.shape s.node] ++ [PathEntry.constr k s.node]))
          (fun k => evalConstraint (c.toEnv.withDg dg') rec' s k fv' (path.getD [] ++ [PathEntry.shape s.node] ++ [PathEntry.constr k s.node]))
          (shapeComponents c.sg s.node false)
          (fun k hk => evalConstraint_eqv c.toEnv dg' hd rec rec' hR s k fv fv' hperm _ (hne k hk)) nc rs1 hl1
        rw [hl1']
        simp only []
        split at h
        · cases h
        · rename_i comps hcomps
          simp only [Bool.and_false, Bool.false_eq_true, if_false] at h ⊢
          split at h
          · cases h
          · rename_i nc2 rs2 hl2
            obtain ⟨rs2', hl2', e2⟩ := loopE_eqv c.o path.isNone
              (fun comp => evalComponent c.toEnv s comp fv) (fun comp => evalComponent (c.toEnv.withDg dg') s comp fv') _
              (fun comp _ => evalComponent_eqv c.toEnv dg' s comp fv fv' hperm) nc2 rs2 hl2
            rw [hl2']
            cases h
            exact ⟨rs1' ++ rs2', rfl, e1.append e2⟩

theorem sameMem_nil_iff {α} {l l' : List α} (h : SameMem l l') : l = [] ↔ l' = [] := by
  constructor <;> intro hh
  · subst hh
    cases l' with
    | nil => rfl
    | cons a b => exact absurd ((h a).2 List.mem_cons_self) (by simp)
  · subst hh
    cases l with
    | nil => rfl
    | cons a b => exact absurd ((h a).1 List.mem_cons_self) (by simp)

theorem sameMem_filter {α} {l l' : List α} (h : SameMem l l') (P : α → Bool) : SameMem (l.filter P) (l'.filter P) :=
  fun x => by simp only [List.mem_filter, h x]

theorem sameMem_dedup {α} [DecidableEq α] {l l' : List α} (h : SameMem l l') : SameMem (dedup l) (dedup l') :=
  fun x => by simp only [mem_dedup, h x]

/-- the focus nodes a shape that resolves its own targets is left with under the `focus_nodes` option -/
def focusCandidates (o : Opts) (l : List Term) : List Term :=
  match o.focusNodes with
  | some fns => if fns ≠ [] then l.filter (fun f => decide (f.isIri = true ∧ f ∈ fns)) else l
  | none => l

theorem resolveFocus_none_eq (c : Ctx) (s : Shape) :
    resolveFocus c s none [] =
      if focusCandidates c.o (focusNodes c.sg c.dg s.node) = [] then none
      else some (dedup (focusCandidates c.o (focusNodes c.sg c.dg s.node))) := by
  unfold resolveFocus focusCandidates
  simp only [List.append_nil, Option.isNone_none, true_and]
  cases c.o.focusNodes with
  | none => by_cases h0 : focusNodes c.sg c.dg s.node = [] <;> simp [h0]
  | some fns =>
    by_cases hc : fns = [] <;> by_cases h0 : focusNodes c.sg c.dg s.node = [] <;> simp [hc, h0]

theorem focusCandidates_sameMem (o : Opts) (l l' : List Term) (h : SameMem l l') :
    SameMem (focusCandidates o l) (focusCandidates o l') := by
  unfold focusCandidates
  cases o.focusNodes with
  | none => exact h
  | some fns =>
    dsimp only
    split
    · exact sameMem_filter h _
    · exact h

/-- focus resolution over another data graph with the same triples: skipped iff skipped, else the same focus nodes -/
theorem resolveFocus_dg (c : Ctx) (dg' : Graph) (hd : SameTriples c.dg dg') (s : Shape) (focus : Option (List Term)) :
    (resolveFocus c s focus [] = none → resolveFocus (c.withDg dg') s focus [] = none) ∧
    (∀ fl, resolveFocus c s focus [] = some fl → ∃ fl', resolveFocus (c.withDg dg') s focus [] = some fl' ∧ SameMem fl fl') := by
  cases focus with
  | some fs =>
    have : resolveFocus (c.withDg dg') s (some fs) [] = resolveFocus c s (some fs) [] := rfl
    rw [this]
    exact ⟨fun h => h, fun fl h => ⟨fl, h, fun _ => Iff.rfl⟩⟩
  | none =>
    have hfl : SameMem (focusNodes c.sg c.dg s.node) (focusNodes c.sg dg' s.node) :=
      fun n => focus_nodes_order_invariant c.sg c.sg c.dg dg' (fun _ => Iff.rfl) hd s.node n
    have hc := focusCandidates_sameMem c.o _ _ hfl
    have hnil := sameMem_nil_iff hc
    rw [resolveFocus_none_eq, resolveFocus_none_eq]
    have ho : (c.withDg dg').o = c.o := rfl
    have hsg : (c.withDg dg').sg = c.sg := rfl
    have hdg : (c.withDg dg').dg = dg' := rfl
    rw [ho, hsg, hdg]
    by_cases h0 : focusCandidates c.o (focusNodes c.sg c.dg s.node) = []
    · rw [if_pos h0, if_pos (hnil.1 h0)]
      exact ⟨fun _ => rfl, fun fl h => (by cases h)⟩
    · rw [if_neg h0, if_neg (fun h => h0 (hnil.2 h))]
      exact ⟨fun h => (by cases h), fun fl h => (by cases h; exact ⟨_, rfl, sameMem_dedup hc⟩)⟩

theorem validateBody_dg (c : Ctx) (dg' : Graph) (hd : SameTriples c.dg dg') (hab : c.o.abortOnFirst = false)
    (hadv : c.o.advanced = false) (rec rec' : Rec) (hR : RecEqv rec rec') (s : Shape) (focus : Option (List Term))
    (path : Option (List PathEntry)) :
    OutEqv (validateBody c rec s focus path) (validateBody (c.withDg dg') rec' s focus path) := by
  unfold validateBody
  have ho : (c.withDg dg').o = c.o := rfl
  simp only [ho, hadv, Bool.false_eq_true, and_false, if_false]
  split
  · exact OutEqv.refl _
  · obtain ⟨h1, h2⟩ := resolveFocus_dg c dg' hd s focus
    cases hr : resolveFocus c s focus [] with
    | none => rw [h1 hr]; exact OutEqv.refl _
    | some fl =>
      obtain ⟨fl', hr', hm⟩ := h2 fl hr
      rw [hr']
      dsimp only
      exact (OutEqv.of_outSim (validateCore_focus_set c hab hadv rec s fl fl' hm path)).trans
        (validateCore_dg c dg' hd hab hadv rec rec' hR s fl' path)

/-- **a shape evaluation over two data graphs with the same triples** (any insertion order, any multiplicity): the same
    verdict, the same results up to the order of nested details — every focus, evaluation path and depth -/
theorem validateShape_dg (c : Ctx) (dg' : Graph) (hd : SameTriples c.dg dg') (hab : c.o.abortOnFirst = false)
    (hadv : c.o.advanced = false) :
    ∀ (fuel : Nat) (s : Shape) (focus : Option (List Term)) (path : Option (List PathEntry)),
      OutEqv (validateShape c fuel s focus path) (validateShape (c.withDg dg') fuel s focus path) := by
  intro fuel
  induction fuel with
  | zero =>
    intro s focus path
    simp only [validateShape]
    exact validateBody_dg c dg' hd hab hadv _ _ (fun _ _ _ => OutEqv.refl _) s focus path
  | succ f ih =>
    intro s focus path
    simp only [validateShape]
    exact validateBody_dg c dg' hd hab hadv _ _ (fun s' v p' => ih s' (some [v]) (some p')) s focus path

theorem validateAll_dg (c : Ctx) (dg' : Graph) (hd : SameTriples c.dg dg') (hab : c.o.abortOnFirst = false)
    (hadv : c.o.advanced = false) (shapes : List Shape) (focus : Option (List Term)) :
    OutEqv (validateAll c shapes focus) (validateAll (c.withDg dg') shapes focus) := by
  intro conf rs h
  unfold validateAll at h ⊢
  have ho : (c.withDg dg').o = c.o := rfl
  simp only [ho, hab] at h ⊢
  split at h
  · cases h
  · rename_i nc rs0 hl
    obtain ⟨rs1, hl1, e⟩ := loopE_eqv_gen (fun conf _ => !conf) (fun _ _ _ _ => rfl)
      (fun s => validateShape c (c.o.maxDepth + 1) s focus none)
      (fun s => validateShape (c.withDg dg') (c.o.maxDepth + 1) s focus none) shapes
      (fun s _ => validateShape_dg c dg' hd hab hadv _ s focus none) nc rs0 hl
    rw [hl1]
    cases h
    exact ⟨rs1, rfl, e⟩

/-- **C09, data graph**: validating two data graphs that hold the same triples — in any insertion order, with any
    multiplicity — gives the same verdict and the same results (nested details up to their order), for every shapes
    graph, option vector without abort_on_first / advanced, SPARQL tables, focus_nodes / use_shapes selection -/
theorem runValidate_dg (o : Opts) (hab : o.abortOnFirst = false) (hadv : o.advanced = false) (sg dg dg' : Graph)
    (hd : SameTriples dg dg') (rx : Regex) (focus useShapes : List Term) (sq : Term → Term → Option (List Sol))
    (sqInfo : Term → Option SparqlTemplate) (va : Term → Term → Term → Term → Option ValidatorAnswer) (adv : AdvTables) :
    OutEqv (runValidate o sg dg rx focus useShapes sq sqInfo va adv) (runValidate o sg dg' rx focus useShapes sq sqInfo va adv) := by
  intro conf rs h
  unfold runValidate at h ⊢
  simp only [] at h ⊢
  split at h
  · cases h
  · rename_i hloop
    rw [if_neg hloop]
    cases useShapes with
    | nil =>
      dsimp only at h ⊢
      split at h
      · cases h
      · rename_i shapes hshapes
        split at h
        · cases h
        · rename_i fns tts hadvE
          try rw [hadvE]
          exact validateAll_dg ⟨⟨sg, dg, shapes, rx, sq, sqInfo, findComponents sg, va, fns, tts, adv⟩,
            { o with focusNodes := if focus = [] then none else some focus }⟩ dg' hd hab hadv shapes none conf rs h
    | cons u us =>
      dsimp only at h ⊢
      split at h
      · cases h
      · rename_i shapes hshapes
        split at h
        · cases h
        · rename_i selected hsel
          split at h
          · cases h
          · rename_i fns tts hadvE
            try rw [hadvE]
            try dsimp only
            split at h
            · rename_i hf
              try rw [if_pos hf]
              exact validateAll_dg ⟨⟨sg, dg, shapes, rx, sq, sqInfo, findComponents sg, va, fns, tts, adv⟩, o⟩ dg' hd hab hadv selected none conf rs h
            · rename_i hf
              try rw [if_neg hf]
              exact validateAll_dg ⟨⟨sg, dg, shapes, rx, sq, sqInfo, findComponents sg, va, fns, tts, adv⟩, o⟩ dg' hd hab hadv selected (some focus) conf rs h

end Pyshacl
