/-
  DepthLemmas.lean — C19: the depth test is loud, the back-out heuristic is silent on fresh shapes.
-/
import PyshaclModel.Eval
namespace Pyshacl

/-- at or beyond the depth limit a nested evaluation that gets as far as its constraints fails with
    "Validation path too deep" — it never returns a (truncated) verdict -/
theorem validateCore_too_deep (c : Ctx) (rec' : Rec) (s : Shape) (fl : List Term) (p : List PathEntry)
    (h : p.length / Caps.depthDivisor ≥ c.o.maxDepth) :
    validateCore c rec' s fl (some p) = .error (.runtime "pathTooDeep") := by
  unfold validateCore
  simp [h]

/-- the recursion back-out heuristic proposes nothing to skip when the current shape does not occur
    earlier on the evaluation path — in particular never on a non-recursive shapes graph, where a
    shape cannot occur twice on one evaluation path -/
theorem triggers_silent_of_fresh (path : List PathEntry) (self : Term) (k : CKind)
    (h : ∀ i, i < path.length - 2 → path[i]? ≠ some (.shape self)) (x : Term) :
    inTriggers (recursionTriggers path self k) x = false := by
  have hidx : ((List.range (path.take (path.length - 2)).length).filter
      fun i => decide ((path.take (path.length - 2))[i]? = some (PathEntry.shape self))) = [] := by
    rw [List.filter_eq_nil_iff]
    intro i hi
    simp only [List.mem_range, List.length_take] at hi
    have hi' : i < path.length - 2 := by omega
    simp only [decide_eq_true_eq]
    rw [List.getElem?_take]
    simp only [hi', if_true]
    exact h i hi'
  have key : ∀ (o : Option (List Term)), (o = none ∨ o = some []) → inTriggers o x = false := by
    intro o ho; rcases ho with rfl | rfl <;> simp [inTriggers]
  apply key
  unfold recursionTriggers
  simp only [hidx, List.filterMap_nil]
  repeat' split
  all_goals simp

end Pyshacl
