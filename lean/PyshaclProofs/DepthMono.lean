/-
  DepthMono.lean — C19: what the depth limit can do to an evaluation.
  `Trunc lo hi`: the evaluation under the smaller limit (`lo`) either is the evaluation under the larger
  limit (`hi`) — same verdict, same results, same failure — or it is the loud "Validation path too deep"
  failure.  Nothing else: the limit never changes a verdict or a result ("never silently truncated").
-/
import PyshaclProofs.AbortProofs
namespace Pyshacl

def tooDeep : Failure := .runtime "pathTooDeep"

def Trunc {α} (lo hi : Except Failure α) : Prop := lo = hi ∨ lo = .error tooDeep

theorem Trunc.refl {α} (o : Except Failure α) : Trunc o o := Or.inl rfl

def RecTrunc (lo hi : Rec) : Prop := ∀ s v p, Trunc (lo s v p) (hi s v p)

theorem foldOut_trunc {α} (xs : List α) (f1 f0 : α → Out) (h : ∀ x, Trunc (f1 x) (f0 x)) :
    Trunc (foldOut xs f1) (foldOut xs f0) := by
  induction xs with
  | nil => exact Or.inl rfl
  | cons x xs ih =>
    simp only [foldOut]
    rcases h x with hx | hx
    · rw [hx]
      cases f0 x with
      | error e => exact Or.inl rfl
      | ok p =>
        obtain ⟨cx, rx⟩ := p
        rcases ih with hr | hr
        · rw [hr]; exact Or.inl rfl
        · rw [hr]; exact Or.inr rfl
    · rw [hx]; exact Or.inr rfl

theorem mapE_trunc {α β} (g1 g0 : α → Except Failure β) (h : ∀ x, Trunc (g1 x) (g0 x)) (xs : List α) :
    Trunc (mapE g1 xs) (mapE g0 xs) := by
  induction xs with
  | nil => exact Or.inl rfl
  | cons x xs ih =>
    simp only [mapE]
    rcases h x with hx | hx
    · rw [hx]
      cases g0 x with
      | error e => exact Or.inl rfl
      | ok b =>
        rcases ih with hr | hr
        · rw [hr]; exact Or.inl rfl
        · rw [hr]; exact Or.inr rfl
    · rw [hx]; exact Or.inr rfl

theorem evalMembers_trunc (rec1 rec0 : Rec) (hR : RecTrunc rec1 rec0) (path : List PathEntry)
    (members : List Shape) (v : Term) : Trunc (evalMembers rec1 path members v) (evalMembers rec0 path members v) := by
  unfold evalMembers
  apply mapE_trunc
  intro m
  rcases hR m v path with h | h
  · rw [h]; exact Or.inl rfl
  · rw [h]; exact Or.inr rfl

theorem logicalOver_trunc (rec1 rec0 : Rec) (hR : RecTrunc rec1 rec0) (s : Shape) (k : CKind)
    (path : List PathEntry) (fv : FV) (members : List Shape) (bad : List Bool → Bool) :
    Trunc (logicalOver rec1 s k path fv members bad) (logicalOver rec0 s k path fv members bad) := by
  unfold logicalOver
  apply foldOut_trunc
  rintro ⟨f, vs⟩
  apply foldOut_trunc
  intro v
  rcases evalMembers_trunc rec1 rec0 hR path members v with h | h
  · rw [h]; exact Or.inl rfl
  · rw [h]; exact Or.inr rfl

theorem nodeOver_trunc (rec1 rec0 : Rec) (hR : RecTrunc rec1 rec0)
    (s : Shape) (path : List PathEntry) (fv : FV) (ns : Shape) :
    Trunc (nodeOver rec1 s path fv ns) (nodeOver rec0 s path fv ns) := by
  unfold nodeOver
  apply foldOut_trunc
  rintro ⟨f, vs⟩
  apply foldOut_trunc
  intro v
  rcases hR ns v path with h | h
  · rw [h]; exact Or.inl rfl
  · rw [h]; exact Or.inr rfl

theorem propertyOver_trunc (rec1 rec0 : Rec) (hR : RecTrunc rec1 rec0)
    (path : List PathEntry) (fv : FV) (ps : Shape) :
    Trunc (propertyOver rec1 path fv ps) (propertyOver rec0 path fv ps) := by
  unfold propertyOver
  apply foldOut_trunc
  rintro ⟨f, vs⟩
  apply foldOut_trunc
  intro v
  exact hR ps v path

theorem qualFlag_trunc (rec1 rec0 : Rec) (hR : RecTrunc rec1 rec0) (path : List PathEntry)
    (other : Shape) (siblings : List Shape) (v : Term) :
    Trunc (qualFlag rec1 path other siblings v) (qualFlag rec0 path other siblings v) := by
  unfold qualFlag
  rcases hR other v path with h | h
  · rw [h]
    cases rec0 other v path with
    | error e => exact Or.inl rfl
    | ok p =>
      obtain ⟨c, r⟩ := p
      dsimp only
      split
      · exact Or.inl rfl
      · rcases evalMembers_trunc rec1 rec0 hR path siblings v with hs | hs
        · rw [hs]; exact Or.inl rfl
        · rw [hs]; exact Or.inr rfl
  · rw [h]; exact Or.inr rfl

theorem qualifiedOver_trunc (rec1 rec0 : Rec) (hR : RecTrunc rec1 rec0) (s : Shape) (k : CKind)
    (path : List PathEntry) (fv : FV) (other : Shape) (siblings : List Shape) (minC maxC : Option Int) :
    Trunc (qualifiedOver rec1 s k path fv other siblings minC maxC)
      (qualifiedOver rec0 s k path fv other siblings minC maxC) := by
  unfold qualifiedOver
  apply foldOut_trunc
  rintro ⟨f, vs⟩
  dsimp only
  rcases mapE_trunc _ _ (qualFlag_trunc rec1 rec0 hR path other siblings) vs with h | h
  · rw [h]; exact Or.inl rfl
  · rw [h]; exact Or.inr rfl

/-- every constraint component: the nested evaluations being truncated or not is all that can differ -/
theorem evalConstraint_trunc (e : Env) (rec1 rec0 : Rec) (hR : RecTrunc rec1 rec0)
    (s : Shape) (k : CKind) (fv : FV) (path : List PathEntry) :
    Trunc (evalConstraint e rec1 s k fv path) (evalConstraint e rec0 s k fv path) := by
  cases k
  case not =>
    simp only [evalConstraint]
    apply foldOut_trunc
    intro n
    repeat' first
      | exact Trunc.refl _
      | exact logicalOver_trunc rec1 rec0 hR _ _ _ _ _ _
      | split
  case and =>
    simp only [evalConstraint]
    apply foldOut_trunc
    intro l
    repeat' first
      | exact Trunc.refl _
      | exact logicalOver_trunc rec1 rec0 hR _ _ _ _ _ _
      | split
  case or =>
    simp only [evalConstraint]
    apply foldOut_trunc
    intro l
    repeat' first
      | exact Trunc.refl _
      | exact logicalOver_trunc rec1 rec0 hR _ _ _ _ _ _
      | split
  case xone =>
    simp only [evalConstraint]
    apply foldOut_trunc
    intro l
    repeat' first
      | exact Trunc.refl _
      | exact logicalOver_trunc rec1 rec0 hR _ _ _ _ _ _
      | split
  case property =>
    simp only [evalConstraint]
    split
    · exact Trunc.refl _
    · apply foldOut_trunc
      intro n
      repeat' first
        | exact Trunc.refl _
        | exact propertyOver_trunc rec1 rec0 hR _ _ _
        | split
  case node =>
    simp only [evalConstraint]
    split
    · exact Trunc.refl _
    · apply foldOut_trunc
      intro n
      repeat' first
        | exact Trunc.refl _
        | exact nodeOver_trunc rec1 rec0 hR _ _ _ _
        | split
  case qualified =>
    simp only [evalConstraint]
    repeat' first
      | exact Trunc.refl _
      | split
    all_goals (apply foldOut_trunc; intro vsNode)
    all_goals repeat' first
      | exact Trunc.refl _
      | exact qualifiedOver_trunc rec1 rec0 hR _ _ _ _ _ _ _ _
      | split
  all_goals exact Trunc.refl _

theorem loopE_trunc {α} (ab : Bool) (fails : Bool → List Result → Bool) (f1 f0 : α → Out)
    (h : ∀ x, Trunc (f1 x) (f0 x)) (xs : List α) : Trunc (loopE ab fails f1 xs) (loopE ab fails f0 xs) := by
  induction xs with
  | nil => exact Or.inl rfl
  | cons a xs ih =>
    simp only [loopE]
    rcases h a with hx | hx
    · rw [hx]
      cases f0 a with
      | error e => exact Or.inl rfl
      | ok p =>
        obtain ⟨cf, rs⟩ := p
        dsimp only
        split
        · exact Or.inl rfl
        · rcases ih with hr | hr
          · rw [hr]; exact Or.inl rfl
          · rw [hr]; exact Or.inr rfl
    · rw [hx]; exact Or.inr rfl

/-- the same context with another depth limit -/
def Ctx.withDepth (c : Ctx) (n : Nat) : Ctx := { c with o := { c.o with maxDepth := n } }

theorem validateCore_trunc (c : Ctx) (n : Nat) (hn : c.o.maxDepth ≤ n) (rec1 rec0 : Rec) (hR : RecTrunc rec1 rec0)
    (s : Shape) (fl : List Term) (path : Option (List PathEntry)) :
    Trunc (validateCore c rec1 s fl path) (validateCore (c.withDepth n) rec0 s fl path) := by
  unfold validateCore
  dsimp only
  have henv : (c.withDepth n).toEnv = c.toEnv := rfl
  have hmd : (c.withDepth n).o.maxDepth = n := rfl
  have hadv : (c.withDepth n).o.advanced = c.o.advanced := rfl
  have hai : (c.withDepth n).o.allowInfos = c.o.allowInfos := rfl
  have haw : (c.withDepth n).o.allowWarnings = c.o.allowWarnings := rfl
  have hab : (c.withDepth n).o.abortOnFirst = c.o.abortOnFirst := rfl
  have hfails : constraintFails (c.withDepth n).o = constraintFails c.o := by
    funext top cf r; unfold constraintFails allowedSeverities; simp only [hai, haw]
  simp only [henv, hmd, hadv, hai, haw, hab, hfails]
  split
  · exact Or.inr rfl
  · rename_i hdepth
    have hdepth' : ¬ ((!path.isNone) = true ∧ (path.getD []).length / Caps.depthDivisor ≥ n) := by
      intro hh; exact hdepth ⟨hh.1, Nat.le_trans hn hh.2⟩
    rw [if_neg hdepth']
    split
    · exact Or.inl rfl
    · rename_i fv hfv
      rcases loopE_trunc (c.o.abortOnFirst && (path.isNone || !(c.o.allowInfos || c.o.allowWarnings)))
          (constraintFails c.o path.isNone) _ _
          (fun k => evalConstraint_trunc c.toEnv rec1 rec0 hR s k fv
            (path.getD [] ++ [PathEntry.shape s.node] ++ [PathEntry.constr k s.node]))
          (shapeComponents c.sg s.node c.o.advanced) with hl | hl
      · rw [hl]; exact Or.inl rfl
      · rw [hl]; exact Or.inr rfl

theorem validateBody_trunc (c : Ctx) (n : Nat) (hn : c.o.maxDepth ≤ n) (rec1 rec0 : Rec) (hR : RecTrunc rec1 rec0)
    (s : Shape) (focus : Option (List Term)) (path : Option (List PathEntry)) :
    Trunc (validateBody c rec1 s focus path) (validateBody (c.withDepth n) rec0 s focus path) := by
  unfold validateBody
  have h1 : (c.withDepth n).o.advanced = c.o.advanced := rfl
  have h2 : (c.withDepth n).sg = c.sg := rfl
  have h3 : (c.withDepth n).tts = c.tts := rfl
  have h4 : (c.withDepth n).adv = c.adv := rfl
  have h5 : ∀ extra, resolveFocus (c.withDepth n) s focus extra = resolveFocus c s focus extra := fun _ => rfl
  simp only [h1, h2, h3, h4, h5]
  repeat' first
    | exact Trunc.refl _
    | exact validateCore_trunc c n hn rec1 rec0 hR s _ path
    | split

/-- **a smaller limit, or less fuel, can only truncate loudly** -/
theorem validateShape_trunc (c : Ctx) (n : Nat) (hn : c.o.maxDepth ≤ n) :
    ∀ (fuel fuel' : Nat), fuel ≤ fuel' → ∀ (s : Shape) (focus : Option (List Term)) (path : Option (List PathEntry)),
      Trunc (validateShape c fuel s focus path) (validateShape (c.withDepth n) fuel' s focus path) := by
  intro fuel
  induction fuel with
  | zero =>
    intro fuel' _ s focus path
    cases fuel' with
    | zero =>
      simp only [validateShape]
      exact validateBody_trunc c n hn _ _ (fun _ _ _ => Trunc.refl _) s focus path
    | succ f' =>
      simp only [validateShape]
      exact validateBody_trunc c n hn _ _ (fun _ _ _ => Or.inr rfl) s focus path
  | succ f ih =>
    intro fuel' hle s focus path
    cases fuel' with
    | zero => omega
    | succ f' =>
      simp only [validateShape]
      exact validateBody_trunc c n hn _ _ (fun s' v p' => ih f' (by omega) s' (some [v]) (some p')) s focus path

theorem validateAll_trunc (c : Ctx) (n : Nat) (hn : c.o.maxDepth ≤ n) (shapes : List Shape) (focus : Option (List Term)) :
    Trunc (validateAll c shapes focus) (validateAll (c.withDepth n) shapes focus) := by
  unfold validateAll
  have hmd : (c.withDepth n).o.maxDepth = n := rfl
  have hab : (c.withDepth n).o.abortOnFirst = c.o.abortOnFirst := rfl
  simp only [hmd, hab]
  rcases loopE_trunc c.o.abortOnFirst (fun conf _ => !conf) _ _
      (fun s => validateShape_trunc c n hn (c.o.maxDepth + 1) (n + 1) (by omega) s focus none) shapes with hl | hl
  · rw [hl]; exact Or.inl rfl
  · rw [hl]; exact Or.inr rfl

/-- **C19**: a run under depth limit `o.maxDepth` is the run under any larger limit `n` — same verdict, same
    results, same failure — or it is the loud "Validation path too deep" failure (every shapes graph, data graph,
    option vector, SPARQL tables, focus_nodes / use_shapes selection) -/
theorem runValidate_trunc (o : Opts) (n : Nat) (hn : o.maxDepth ≤ n) (sg dg : Graph) (rx : Regex)
    (focus useShapes : List Term) (sq : Term → Term → Option (List Sol)) (sqInfo : Term → Option SparqlTemplate)
    (va : Term → Term → Term → Term → Option ValidatorAnswer) (adv : AdvTables) :
    Trunc (runValidate o sg dg rx focus useShapes sq sqInfo va adv)
      (runValidate { o with maxDepth := n } sg dg rx focus useShapes sq sqInfo va adv) := by
  generalize hhi : runValidate { o with maxDepth := n } sg dg rx focus useShapes sq sqInfo va adv = hi
  unfold runValidate at hhi ⊢
  simp only [] at hhi ⊢
  split at hhi
  · rename_i hloop; rw [if_pos hloop]; exact Or.inl hhi
  · rename_i hloop
    rw [if_neg hloop]
    cases useShapes with
    | nil =>
      dsimp only at hhi ⊢
      split at hhi
      · rename_i e hshapes; (try rw [hshapes]); exact Or.inl hhi
      · rename_i shapes hshapes
        try rw [hshapes]
        try dsimp only
        split at hhi
        · rename_i e hadv; (try rw [hadv]); exact Or.inl hhi
        · rename_i fns tts hadv
          try rw [hadv]
          rw [← hhi]
          exact validateAll_trunc ⟨⟨sg, dg, shapes, rx, sq, sqInfo, findComponents sg, va, fns, tts, adv⟩,
            { o with focusNodes := if focus = [] then none else some focus }⟩ n hn shapes none
    | cons u us =>
      dsimp only at hhi ⊢
      split at hhi
      · rename_i e hshapes; (try rw [hshapes]); exact Or.inl hhi
      · rename_i shapes hshapes
        try rw [hshapes]
        try dsimp only
        split at hhi
        · rename_i e hsel; (try rw [hsel]); exact Or.inl hhi
        · rename_i selected hsel
          try rw [hsel]
          try dsimp only
          split at hhi
          · rename_i e hadv; (try rw [hadv]); exact Or.inl hhi
          · rename_i fns tts hadv
            try rw [hadv]
            rw [← hhi]
            try dsimp only
            split
            · exact validateAll_trunc ⟨⟨sg, dg, shapes, rx, sq, sqInfo, findComponents sg, va, fns, tts, adv⟩, o⟩ n hn selected none
            · exact validateAll_trunc ⟨⟨sg, dg, shapes, rx, sq, sqInfo, findComponents sg, va, fns, tts, adv⟩, o⟩ n hn selected (some focus)

/-- corollary: whenever the run under the smaller limit returns a report, the run under the larger limit returns
    exactly that report -/
theorem runValidate_limit_irrelevant (o : Opts) (n : Nat) (hn : o.maxDepth ≤ n) (sg dg : Graph) (rx : Regex)
    (focus useShapes : List Term) (sq : Term → Term → Option (List Sol)) (sqInfo : Term → Option SparqlTemplate)
    (va : Term → Term → Term → Term → Option ValidatorAnswer) (adv : AdvTables) (x : Bool × List Result)
    (h : runValidate o sg dg rx focus useShapes sq sqInfo va adv = .ok x) :
    runValidate { o with maxDepth := n } sg dg rx focus useShapes sq sqInfo va adv = .ok x := by
  rcases runValidate_trunc o n hn sg dg rx focus useShapes sq sqInfo va adv with h' | h'
  · rw [← h', h]
  · rw [h] at h'; cases h'

end Pyshacl
