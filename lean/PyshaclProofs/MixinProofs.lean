import PyshaclModel.Mixin
import PyshaclProofs.InvarianceProofs
namespace Pyshacl

/-- two ways of distributing the same triples over the default and named graphs of a Dataset give
    union views holding the same triples -/
theorem unionView_same (d d' : Dataset) (h : ∀ t, t ∈ d.unionView ↔ t ∈ d'.unionView) :
    SameTriples d.unionView d'.unionView := h

/-- a Dataset and a plain Graph holding the same triples: same value nodes and same focus nodes -/
theorem union_value_nodes (d : Dataset) (T : Graph) (h : SameTriples d.unionView T) (p : Path) (inverse : Bool) (f x : Term) :
    x ∈ Path.evalPure p inverse d.unionView f ↔ x ∈ Path.evalPure p inverse T f :=
  value_nodes_order_invariant p _ _ h inverse f x

theorem union_focus_nodes (sg : Graph) (d : Dataset) (T : Graph) (h : SameTriples d.unionView T) (node n : Term) :
    n ∈ focusNodes sg d.unionView node ↔ n ∈ focusNodes sg T node :=
  focus_nodes_order_invariant sg sg _ _ (fun _ => Iff.rfl) h node n

/-- mix-in never removes a data triple and only adds triples of the ontology -/
theorem inoculate_keeps_data (data ont : Graph) : ∀ t ∈ data, t ∈ inoculate data ont := by
  intro t ht; unfold inoculate; exact List.mem_append_left _ ht

theorem inoculate_only_ontology (data ont : Graph) : ∀ t ∈ inoculate data ont, t ∈ data ∨ t ∈ ont := by
  intro t ht
  unfold inoculate inoculated at ht
  simp only [List.mem_append, List.mem_filter] at ht
  rcases ht with h | (((h | h) | h) | h)
  · exact Or.inl h
  all_goals exact Or.inr h.1

/-- mixing in depends on the ontology only through its triples (Graph or Dataset union view alike) -/
theorem inoculated_congr (ont ont' : Graph) (h : SameTriples ont ont') : SameTriples (inoculated ont) (inoculated ont') := by
  intro t
  unfold inoculated
  simp only [List.mem_append, List.mem_filter, List.mem_map, decide_eq_true_eq, Bool.and_eq_true, h t]
  have hind : ∀ x, (∃ a, (a ∈ ont ∧ a.p = rdfType ∧ a.o = owlNamedIndividual) ∧ a.s = x) ↔
      (∃ a, (a ∈ ont' ∧ a.p = rdfType ∧ a.o = owlNamedIndividual) ∧ a.s = x) := by
    intro x
    constructor
    · rintro ⟨a, ⟨ha, hp⟩, hs⟩; exact ⟨a, ⟨(h a).1 ha, hp⟩, hs⟩
    · rintro ⟨a, ⟨ha, hp⟩, hs⟩; exact ⟨a, ⟨(h a).2 ha, hp⟩, hs⟩
  simp only [hind]

end Pyshacl
