/-
  PrintProofs.lean — C07: the SPARQL property-path text pySHACL prints in SPARQL remote-graph mode.

  `SPath` is the abstract syntax of SPARQL 1.1 property paths with the grammar's own levels
  (PathPrimary / PathElt / PathEltOrInverse / PathSequence / PathAlternative, §19.8 productions 88–94);
  `render` writes an `SPath` down without adding a single parenthesis of its own (only `group` nodes print
  parentheses), so a rendering that satisfies the level predicate `wf` is a sentence of the grammar whose
  parse is that `SPath` (the grammar is unambiguous — trusted, not proved).  `tr` reads off which `SPath`
  the printer's output is; the theorems say: the printer prints exactly `render (tr p)`, `tr p` is
  well-formed at every level (one modifier per element, `^` applied to an element, members of sequences and
  alternatives at the right level), and its SPARQL semantics is the SHACL path's (`PathRel`).
-/
import PyshaclModel.PathPrint
import PyshaclProofs.PathSpec
namespace Pyshacl

inductive PMod where | star | plus | opt
  deriving DecidableEq, Repr

inductive SPath where
  | iri (s : String)                 -- PathPrimary: iri
  | group (p : SPath)                -- PathPrimary: '(' Path ')'
  | inv (e : SPath)                  -- PathEltOrInverse: '^' PathElt
  | mod (prim : SPath) (m : PMod)    -- PathElt: PathPrimary PathMod
  | seq2 (a b : SPath)               -- PathSequence: a '/' b…
  | alt2 (a b : SPath)               -- PathAlternative: a '|' b…
  deriving DecidableEq, Repr

namespace SPath
def isPrimary : SPath → Bool | iri _ => true | group _ => true | _ => false
def isElt : SPath → Bool | mod p _ => p.isPrimary | x => x.isPrimary
def isEltOrInv : SPath → Bool | inv e => e.isElt | x => x.isElt
def isSeq : SPath → Bool | seq2 a b => a.isEltOrInv && b.isSeq | x => x.isEltOrInv
def isAlt : SPath → Bool | alt2 a b => a.isSeq && b.isAlt | x => x.isSeq

/-- every node sits at a level the grammar allows for its position -/
def wf : SPath → Bool
  | iri _ => true
  | group p => p.isAlt && p.wf
  | inv e => e.isElt && e.wf
  | mod p _ => p.isPrimary && p.wf
  | seq2 a b => a.isEltOrInv && b.isSeq && a.wf && b.wf
  | alt2 a b => a.isSeq && b.isAlt && a.wf && b.wf

def modText : PMod → String | .star => "*" | .plus => "+" | .opt => "?"

def render (pf : List (String × String)) : SPath → String
  | iri s => printIri pf s
  | group p => "(" ++ render pf p ++ ")"
  | inv e => "^" ++ render pf e
  | mod p m => render pf p ++ modText m
  | seq2 a b => render pf a ++ " / " ++ render pf b
  | alt2 a b => render pf a ++ " | " ++ render pf b

/-- SPARQL 1.1 §18.4 semantics of the path (set semantics) -/
def sem : SPath → Graph → Term → Term → Prop
  | iri s, g, a, b => (⟨a, .iri s, b⟩ : Triple) ∈ g
  | group p, g, a, b => sem p g a b
  | inv e, g, a, b => sem e g b a
  | mod p .star, g, a, b => Relation.ReflTransGen (sem p g) a b
  | mod p .plus, g, a, b => Relation.TransGen (sem p g) a b
  | mod p .opt, g, a, b => a = b ∨ sem p g a b
  | seq2 x y, g, a, b => ∃ m, sem x g a m ∧ sem y g m b
  | alt2 x y, g, a, b => sem x g a b ∨ sem y g a b
end SPath

inductive TMode where | path | seqRest | altRest
  deriving DecidableEq

open Path in
/-- the SPARQL path the printer's output denotes for SHACL path `p` printed at recursion level `r`
    (`none` where the printer raises) -/
def tr : TMode → Path → Nat → Option SPath
  | .path, .pred (.iri s), _ => some (.iri s)
  | .path, .seqCons a rest, r =>
    if r ≥ Caps.sparqlPathDepth then none else
    match tr .path a (r+1), tr .seqRest rest (r+1) with
    | some x, some y => some (if r = 0 then .seq2 x y else .group (.seq2 x y))
    | _, _ => none
  | .seqRest, .seqCons a rest, r =>
    match tr .path a r, tr .seqRest rest r with
    | some x, some y => some (.seq2 x y)
    | _, _ => none
  | .seqRest, .seqLast a, r => tr .path a r
  | .path, .alt (.altCons a rest), r =>
    if r ≥ Caps.sparqlPathDepth then none else
    match tr .path a (r+1), tr .altRest rest (r+1) with
    | some x, some y => some (if r = 0 then .alt2 x y else .group (.alt2 x y))
    | _, _ => none
  | .altRest, .altCons a rest, r =>
    match tr .path a r, tr .altRest rest r with
    | some x, some y => some (.alt2 x y)
    | _, _ => none
  | .altRest, .altLast a, r => tr .path a r
  | .path, .inv q, r =>
    if r ≥ Caps.sparqlPathDepth then none else
    (tr .path q (r+1)).map fun s => .inv (if q.printsAsPrimary then s else .group s)
  | .path, .star q, r =>
    if r ≥ Caps.sparqlPathDepth then none else
    (tr .path q (r+1)).map fun s => .mod (if q.printsAsPrimary then s else .group s) .star
  | .path, .plus q, r =>
    if r ≥ Caps.sparqlPathDepth then none else
    (tr .path q (r+1)).map fun s => .mod (if q.printsAsPrimary then s else .group s) .plus
  | .path, .opt q, r =>
    if r ≥ Caps.sparqlPathDepth then none else
    (tr .path q (r+1)).map fun s => .mod (if q.printsAsPrimary then s else .group s) .opt
  | _, _, _ => none

end Pyshacl

namespace Pyshacl
open SPath

/-- **same meaning**: the SPARQL path denoted by the printed text relates exactly the pairs the SHACL path
    relates (SPARQL 1.1 semantics on both sides), in every graph -/
theorem tr_sem (mode : TMode) (p : Path) (r : Nat) :
    ∀ sp, tr mode p r = some sp → ∀ g a b, sem sp g a b ↔ PathRel p g a b := by
  fun_induction tr mode p r with
  | case1 s r => intro sp h g a b; cases h; simp [sem, PathRel]
  | case2 a rest r hr => intro sp h; cases h
  | case3 a rest r hr x y hy hx iha ihr =>
    intro sp h g a' b
    cases h
    have e : ∀ a' b, sem (.seq2 x y) g a' b ↔ PathRel (.seqCons a rest) g a' b := by
      intro a' b
      simp only [sem, PathRel]
      constructor
      · rintro ⟨m, h1, h2⟩; exact ⟨m, (iha x hx g a' m).1 h1, (ihr y hy g m b).1 h2⟩
      · rintro ⟨m, h1, h2⟩; exact ⟨m, (iha x hx g a' m).2 h1, (ihr y hy g m b).2 h2⟩
    split
    · exact e a' b
    · simp only [sem]; exact e a' b
  | case4 a rest r hr hno iha ihr => intro sp h; cases h
  | case5 a rest r x y hy hx iha ihr =>
    intro sp h g a' b
    cases h
    simp only [sem, PathRel]
    constructor
    · rintro ⟨m, h1, h2⟩; exact ⟨m, (iha x hx g a' m).1 h1, (ihr y hy g m b).1 h2⟩
    · rintro ⟨m, h1, h2⟩; exact ⟨m, (iha x hx g a' m).2 h1, (ihr y hy g m b).2 h2⟩
  | case6 a rest r hno iha ihr => intro sp h; cases h
  | case7 a r ih => intro sp h g a' b; simp only [PathRel]; exact ih sp h g a' b
  | case8 a rest r hr => intro sp h; cases h
  | case9 a rest r hr x y hy hx iha ihr =>
    intro sp h g a' b
    cases h
    have e : ∀ a' b, sem (.alt2 x y) g a' b ↔ PathRel (.alt (.altCons a rest)) g a' b := by
      intro a' b
      simp only [sem, PathRel]
      rw [iha x hx g a' b, ihr y hy g a' b]
    split
    · exact e a' b
    · simp only [sem]; exact e a' b
  | case10 a rest r hr hno iha ihr => intro sp h; cases h
  | case11 a rest r x y hy hx iha ihr =>
    intro sp h g a' b
    cases h
    simp only [sem, PathRel]
    rw [iha x hx g a' b, ihr y hy g a' b]
  | case12 a rest r hno iha ihr => intro sp h; cases h
  | case13 a r ih => intro sp h g a' b; simp only [PathRel]; exact ih sp h g a' b
  | case14 q r hr => intro sp h; cases h
  | case15 q r hr ih =>
    intro sp h g a b
    obtain ⟨s, hs, rfl⟩ : ∃ s, tr .path q (r+1) = some s ∧ _ = sp := by
      cases hq : tr .path q (r+1) with
      | none => simp [hq] at h
      | some s => simp only [hq, Option.map_some, Option.some.injEq] at h; exact ⟨s, rfl, h⟩
    simp only [sem, PathRel]
    split <;> (try simp only [sem]) <;> exact ih s hs g b a
  | case16 q r hr => intro sp h; cases h
  | case17 q r hr ih =>
    intro sp h g a b
    obtain ⟨s, hs, rfl⟩ : ∃ s, tr .path q (r+1) = some s ∧ _ = sp := by
      cases hq : tr .path q (r+1) with
      | none => simp [hq] at h
      | some s => simp only [hq, Option.map_some, Option.some.injEq] at h; exact ⟨s, rfl, h⟩
    have e : sem s g = PathRel q g := by funext x y; exact propext (ih s hs g x y)
    simp only [sem, PathRel]
    split <;> (try simp only [sem]) <;> rw [e]
  | case18 q r hr => intro sp h; cases h
  | case19 q r hr ih =>
    intro sp h g a b
    obtain ⟨s, hs, rfl⟩ : ∃ s, tr .path q (r+1) = some s ∧ _ = sp := by
      cases hq : tr .path q (r+1) with
      | none => simp [hq] at h
      | some s => simp only [hq, Option.map_some, Option.some.injEq] at h; exact ⟨s, rfl, h⟩
    have e : sem s g = PathRel q g := by funext x y; exact propext (ih s hs g x y)
    simp only [sem, PathRel]
    split <;> (try simp only [sem]) <;> rw [e]
  | case20 q r hr => intro sp h; cases h
  | case21 q r hr ih =>
    intro sp h g a b
    obtain ⟨s, hs, rfl⟩ : ∃ s, tr .path q (r+1) = some s ∧ _ = sp := by
      cases hq : tr .path q (r+1) with
      | none => simp [hq] at h
      | some s => simp only [hq, Option.map_some, Option.some.injEq] at h; exact ⟨s, rfl, h⟩
    simp only [sem, PathRel]
    split <;> (try simp only [sem]) <;> rw [ih s hs g a b]
  | case22 => intro sp h; cases h

end Pyshacl

namespace Pyshacl
open SPath

theorem SPath.elt_of_primary {s : SPath} (h : s.isPrimary = true) : s.isElt = true := by
  cases s <;> simp_all [SPath.isPrimary, SPath.isElt]
theorem SPath.eltOrInv_of_elt {s : SPath} (h : s.isElt = true) : s.isEltOrInv = true := by
  cases s <;> simp_all [SPath.isElt, SPath.isEltOrInv, SPath.isPrimary]
theorem SPath.seq_of_eltOrInv {s : SPath} (h : s.isEltOrInv = true) : s.isSeq = true := by
  cases s <;> simp_all [SPath.isElt, SPath.isEltOrInv, SPath.isPrimary, SPath.isSeq]
theorem SPath.alt_of_seq {s : SPath} (h : s.isSeq = true) : s.isAlt = true := by
  cases s <;> simp_all [SPath.isElt, SPath.isEltOrInv, SPath.isPrimary, SPath.isSeq, SPath.isAlt]
theorem SPath.alt_of_eltOrInv {s : SPath} (h : s.isEltOrInv = true) : s.isAlt = true :=
  SPath.alt_of_seq (SPath.seq_of_eltOrInv h)

/-- the level invariant of the printer's output -/
def LevelOk (mode : TMode) (p : Path) (r : Nat) (sp : SPath) : Prop :=
  match mode with
  | .path => sp.wf = true ∧ sp.isAlt = true ∧ (r > 0 → sp.isEltOrInv = true) ∧
      (r > 0 → p.printsAsPrimary = true → sp.isPrimary = true)
  | .seqRest => r > 0 → (sp.wf = true ∧ sp.isSeq = true)
  | .altRest => r > 0 → (sp.wf = true ∧ sp.isAlt = true)

theorem wrap_primary (q : Path) (r : Nat) (s : SPath) (h : LevelOk .path q (r+1) s) :
    (if q.printsAsPrimary then s else SPath.group s).isPrimary = true ∧
    (if q.printsAsPrimary then s else SPath.group s).wf = true := by
  obtain ⟨hwf, halt, _, hprim⟩ := h
  split
  · rename_i hp; exact ⟨hprim (by omega) hp, hwf⟩
  · exact ⟨rfl, by simp [SPath.wf, halt, hwf]⟩

/-- **well-formed at every level**: at most one modifier per element and every modifier on a PathPrimary,
    `^` on a PathElt, sequence members PathEltOrInverse, alternative members PathSequence, groups around Paths -/
theorem tr_level (mode : TMode) (p : Path) (r : Nat) :
    ∀ sp, tr mode p r = some sp → LevelOk mode p r sp := by
  fun_induction tr mode p r with
  | case1 s r => intro sp h; cases h; simp [LevelOk, SPath.wf, SPath.isAlt, SPath.isSeq, SPath.isEltOrInv, SPath.isElt, SPath.isPrimary]
  | case2 a rest r hr => intro sp h; cases h
  | case3 a rest r hr x y hy hx iha ihr =>
    intro sp h
    cases h
    obtain ⟨wx, _, ex, _⟩ := iha x hx
    obtain ⟨wy, sy'⟩ := ihr y hy (by omega)
    have ex' := ex (by omega)
    have hseq : (SPath.seq2 x y).isSeq = true := by simp [SPath.isSeq, ex', sy']
    have hw : (SPath.seq2 x y).wf = true := by simp [SPath.wf, ex', sy', wx, wy]
    by_cases h0 : r = 0
    · subst h0
      simp only [if_true]
      exact ⟨hw, SPath.alt_of_seq hseq, by omega, by omega⟩
    · simp only [h0, if_false]
      refine ⟨by simp [SPath.wf, SPath.isAlt, SPath.isSeq, ex', sy', wx, wy], ?_, ?_, ?_⟩ <;>
        simp [SPath.isAlt, SPath.isSeq, SPath.isEltOrInv, SPath.isElt, SPath.isPrimary]
  | case4 a rest r hr hno iha ihr => intro sp h; cases h
  | case5 a rest r x y hy hx iha ihr =>
    intro sp h
    cases h
    obtain ⟨wx, _, ex, _⟩ := iha x hx
    intro hr
    obtain ⟨wy, sy⟩ := ihr y hy hr
    exact ⟨by simp [SPath.wf, ex hr, sy, wx, wy], by simp [SPath.isSeq, ex hr, sy]⟩
  | case6 a rest r hno iha ihr => intro sp h; cases h
  | case7 a r ih =>
    intro sp h
    obtain ⟨w, _, e, _⟩ := ih sp h
    exact fun hr => ⟨w, SPath.seq_of_eltOrInv (e hr)⟩
  | case8 a rest r hr => intro sp h; cases h
  | case9 a rest r hr x y hy hx iha ihr =>
    intro sp h
    cases h
    obtain ⟨wx, _, ex, _⟩ := iha x hx
    obtain ⟨wy, sy'⟩ := ihr y hy (by omega)
    have ex' := SPath.seq_of_eltOrInv (ex (by omega))
    have halt : (SPath.alt2 x y).isAlt = true := by simp [SPath.isAlt, ex', sy']
    have hw : (SPath.alt2 x y).wf = true := by simp [SPath.wf, ex', sy', wx, wy]
    by_cases h0 : r = 0
    · subst h0
      simp only [if_true]
      exact ⟨hw, halt, by omega, by omega⟩
    · simp only [h0, if_false]
      refine ⟨by simp [SPath.wf, SPath.isAlt, ex', sy', wx, wy], ?_, ?_, ?_⟩ <;>
        simp [SPath.isAlt, SPath.isSeq, SPath.isEltOrInv, SPath.isElt, SPath.isPrimary]
  | case10 a rest r hr hno iha ihr => intro sp h; cases h
  | case11 a rest r x y hy hx iha ihr =>
    intro sp h
    cases h
    obtain ⟨wx, _, ex, _⟩ := iha x hx
    intro hr
    obtain ⟨wy, sy⟩ := ihr y hy hr
    have ex' := SPath.seq_of_eltOrInv (ex hr)
    exact ⟨by simp [SPath.wf, ex', sy, wx, wy], by simp [SPath.isAlt, ex', sy]⟩
  | case12 a rest r hno iha ihr => intro sp h; cases h
  | case13 a r ih =>
    intro sp h
    obtain ⟨w, al, _, _⟩ := ih sp h
    exact fun _ => ⟨w, al⟩
  | case14 q r hr => intro sp h; cases h
  | case15 q r hr ih =>
    intro sp h
    obtain ⟨s, hs, rfl⟩ : ∃ s, tr .path q (r+1) = some s ∧ _ = sp := by
      cases hq : tr .path q (r+1) with
      | none => simp [hq] at h
      | some s => simp only [hq, Option.map_some, Option.some.injEq] at h; exact ⟨s, rfl, h⟩
    obtain ⟨hp, hw⟩ := wrap_primary q r s (ih s hs)
    have he := SPath.elt_of_primary hp
    refine ⟨by simp [SPath.wf, he, hw], ?_, ?_, ?_⟩
    · simp [SPath.isAlt, SPath.isSeq, SPath.isEltOrInv, he]
    · intro _; simp [SPath.isEltOrInv, he]
    · intro _ hpp; simp [Path.printsAsPrimary] at hpp
  | case16 q r hr => intro sp h; cases h
  | case17 q r hr ih =>
    intro sp h
    obtain ⟨s, hs, rfl⟩ : ∃ s, tr .path q (r+1) = some s ∧ _ = sp := by
      cases hq : tr .path q (r+1) with
      | none => simp [hq] at h
      | some s => simp only [hq, Option.map_some, Option.some.injEq] at h; exact ⟨s, rfl, h⟩
    obtain ⟨hp, hw⟩ := wrap_primary q r s (ih s hs)
    refine ⟨by simp [SPath.wf, hp, hw], ?_, ?_, ?_⟩
    · simp [SPath.isAlt, SPath.isSeq, SPath.isEltOrInv, SPath.isElt, hp]
    · intro _; simp [SPath.isEltOrInv, SPath.isElt, hp]
    · intro _ hpp; simp [Path.printsAsPrimary] at hpp
  | case18 q r hr => intro sp h; cases h
  | case19 q r hr ih =>
    intro sp h
    obtain ⟨s, hs, rfl⟩ : ∃ s, tr .path q (r+1) = some s ∧ _ = sp := by
      cases hq : tr .path q (r+1) with
      | none => simp [hq] at h
      | some s => simp only [hq, Option.map_some, Option.some.injEq] at h; exact ⟨s, rfl, h⟩
    obtain ⟨hp, hw⟩ := wrap_primary q r s (ih s hs)
    refine ⟨by simp [SPath.wf, hp, hw], ?_, ?_, ?_⟩
    · simp [SPath.isAlt, SPath.isSeq, SPath.isEltOrInv, SPath.isElt, hp]
    · intro _; simp [SPath.isEltOrInv, SPath.isElt, hp]
    · intro _ hpp; simp [Path.printsAsPrimary] at hpp
  | case20 q r hr => intro sp h; cases h
  | case21 q r hr ih =>
    intro sp h
    obtain ⟨s, hs, rfl⟩ : ∃ s, tr .path q (r+1) = some s ∧ _ = sp := by
      cases hq : tr .path q (r+1) with
      | none => simp [hq] at h
      | some s => simp only [hq, Option.map_some, Option.some.injEq] at h; exact ⟨s, rfl, h⟩
    obtain ⟨hp, hw⟩ := wrap_primary q r s (ih s hs)
    refine ⟨by simp [SPath.wf, hp, hw], ?_, ?_, ?_⟩
    · simp [SPath.isAlt, SPath.isSeq, SPath.isEltOrInv, SPath.isElt, hp]
    · intro _; simp [SPath.isEltOrInv, SPath.isElt, hp]
    · intro _ hpp; simp [Path.printsAsPrimary] at hpp
  | case22 => intro sp h; cases h

end Pyshacl

namespace Pyshacl
open SPath Path

def psize : Path → Nat
  | .pred _ => 1
  | .bad _ _ => 1
  | .seqCons a r => psize a + psize r + 1
  | .seqLast a => psize a + 1
  | .seqNoRest a => psize a + 1
  | .inv q => psize q + 1
  | .alt m => psize m + 1
  | .altCons a r => psize a + psize r + 1
  | .altLast a => psize a + 1
  | .altNil => 1
  | .star q => psize q + 1
  | .plus q => psize q + 1
  | .opt q => psize q + 1

theorem joinWith_cons (sep s : String) (ss : List String) (h : 1 ≤ ss.length) :
    joinWith sep (s :: ss) = s ++ sep ++ joinWith sep ss := by
  cases ss with
  | nil => simp at h
  | cons x xs => rfl

/-- what the printer does for each translation mode -/
def PrintsAs (pf : List (String × String)) (mode : TMode) (p : Path) (r : Nat) (sp : SPath) : Prop :=
  match mode with
  | .path => ∀ fuel, psize p ≤ fuel → Path.print pf fuel p r = .ok (render pf sp)
  | .seqRest => ∀ fuel, psize p ≤ fuel → ∃ ss, mapPrint (fun m => Path.print pf fuel m r) (seqMembers p) = .ok ss ∧
      1 ≤ ss.length ∧ joinWith " / " ss = render pf sp
  | .altRest => ∀ fuel, psize p ≤ fuel → ∃ ss, mapPrint (fun m => Path.print pf fuel m r) (altMembers p) = .ok ss ∧
      1 ≤ ss.length ∧ joinWith " | " ss = render pf sp

theorem wrap_render (pf : List (String × String)) (q : Path) (s : SPath) :
    render pf (if q.printsAsPrimary then s else SPath.group s) =
      (if q.printsAsPrimary then render pf s else "(" ++ render pf s ++ ")") := by
  split <;> simp [render]

/-- **the printer prints the rendering of `tr`** -/
theorem tr_prints (pf : List (String × String)) (mode : TMode) (p : Path) (r : Nat) :
    ∀ sp, tr mode p r = some sp → PrintsAs pf mode p r sp := by
  fun_induction tr mode p r with
  | case1 s r =>
    intro sp h; cases h
    intro fuel hf
    cases fuel with
    | zero => simp [psize] at hf
    | succ f => simp [Path.print, render]
  | case2 a rest r hr => intro sp h; cases h
  | case3 a rest r hr x y hy hx iha ihr =>
    intro sp h; cases h
    intro fuel hf
    cases fuel with
    | zero => simp [psize] at hf
    | succ f =>
      simp only [psize] at hf
      have ha := iha x hx f (by omega)
      obtain ⟨ss, hss, hlen, hjoin⟩ := ihr y hy f (by omega)
      simp only [Path.print, hr, if_false, seqMembers, mapPrint, ha, hss]
      have hl : ¬ (ss.length + 1 < 2) := by omega
      simp only [List.length_cons, hl, if_false, joinWith_cons _ _ _ hlen, hjoin]
      split <;> simp [render]
  | case4 a rest r hr hno iha ihr => intro sp h; cases h
  | case5 a rest r x y hy hx iha ihr =>
    intro sp h; cases h
    intro fuel hf
    simp only [psize] at hf
    have ha := iha x hx fuel (by omega)
    obtain ⟨ss, hss, hlen, hjoin⟩ := ihr y hy fuel (by omega)
    refine ⟨render pf x :: ss, by simp [seqMembers, mapPrint, ha, hss], by simp, ?_⟩
    rw [joinWith_cons _ _ _ hlen, hjoin]; simp [render]
  | case6 a rest r hno iha ihr => intro sp h; cases h
  | case7 a r ih =>
    intro sp h
    intro fuel hf
    simp only [psize] at hf
    have ha := ih sp h fuel (by omega)
    exact ⟨[render pf sp], by simp [seqMembers, mapPrint, ha], by simp, by simp [joinWith]⟩
  | case8 a rest r hr => intro sp h; cases h
  | case9 a rest r hr x y hy hx iha ihr =>
    intro sp h; cases h
    intro fuel hf
    cases fuel with
    | zero => simp [psize] at hf
    | succ f =>
      simp only [psize] at hf
      have ha := iha x hx f (by omega)
      obtain ⟨ss, hss, hlen, hjoin⟩ := ihr y hy f (by omega)
      simp only [Path.print, hr, if_false, altMembers, mapPrint, ha, hss]
      have hl : ¬ (ss.length + 1 < 2) := by omega
      simp only [List.length_cons, hl, if_false, joinWith_cons _ _ _ hlen, hjoin]
      split <;> simp [render]
  | case10 a rest r hr hno iha ihr => intro sp h; cases h
  | case11 a rest r x y hy hx iha ihr =>
    intro sp h; cases h
    intro fuel hf
    simp only [psize] at hf
    have ha := iha x hx fuel (by omega)
    obtain ⟨ss, hss, hlen, hjoin⟩ := ihr y hy fuel (by omega)
    refine ⟨render pf x :: ss, by simp [altMembers, mapPrint, ha, hss], by simp, ?_⟩
    rw [joinWith_cons _ _ _ hlen, hjoin]; simp [render]
  | case12 a rest r hno iha ihr => intro sp h; cases h
  | case13 a r ih =>
    intro sp h
    intro fuel hf
    simp only [psize] at hf
    have ha := ih sp h fuel (by omega)
    exact ⟨[render pf sp], by simp [altMembers, mapPrint, ha], by simp, by simp [joinWith]⟩
  | case14 q r hr => intro sp h; cases h
  | case15 q r hr ih =>
    intro sp h
    obtain ⟨s, hs, rfl⟩ : ∃ s, tr .path q (r+1) = some s ∧ _ = sp := by
      cases hq : tr .path q (r+1) with
      | none => simp [hq] at h
      | some s => simp only [hq, Option.map_some, Option.some.injEq] at h; exact ⟨s, rfl, h⟩
    intro fuel hf
    cases fuel with
    | zero => simp [psize] at hf
    | succ f =>
      simp only [psize] at hf
      have hq := ih s hs f (by omega)
      simp only [Path.print, hr, if_false, hq, render, wrap_render]
  | case16 q r hr => intro sp h; cases h
  | case17 q r hr ih =>
    intro sp h
    obtain ⟨s, hs, rfl⟩ : ∃ s, tr .path q (r+1) = some s ∧ _ = sp := by
      cases hq : tr .path q (r+1) with
      | none => simp [hq] at h
      | some s => simp only [hq, Option.map_some, Option.some.injEq] at h; exact ⟨s, rfl, h⟩
    intro fuel hf
    cases fuel with
    | zero => simp [psize] at hf
    | succ f =>
      simp only [psize] at hf
      have hq := ih s hs f (by omega)
      simp only [Path.print, hr, if_false, hq, render, wrap_render, modText]
  | case18 q r hr => intro sp h; cases h
  | case19 q r hr ih =>
    intro sp h
    obtain ⟨s, hs, rfl⟩ : ∃ s, tr .path q (r+1) = some s ∧ _ = sp := by
      cases hq : tr .path q (r+1) with
      | none => simp [hq] at h
      | some s => simp only [hq, Option.map_some, Option.some.injEq] at h; exact ⟨s, rfl, h⟩
    intro fuel hf
    cases fuel with
    | zero => simp [psize] at hf
    | succ f =>
      simp only [psize] at hf
      have hq := ih s hs f (by omega)
      simp only [Path.print, hr, if_false, hq, render, wrap_render, modText]
  | case20 q r hr => intro sp h; cases h
  | case21 q r hr ih =>
    intro sp h
    obtain ⟨s, hs, rfl⟩ : ∃ s, tr .path q (r+1) = some s ∧ _ = sp := by
      cases hq : tr .path q (r+1) with
      | none => simp [hq] at h
      | some s => simp only [hq, Option.map_some, Option.some.injEq] at h; exact ⟨s, rfl, h⟩
    intro fuel hf
    cases fuel with
    | zero => simp [psize] at hf
    | succ f =>
      simp only [psize] at hf
      have hq := ih s hs f (by omega)
      simp only [Path.print, hr, if_false, hq, render, wrap_render, modText]
  | case22 => intro sp h; cases h

end Pyshacl

namespace Pyshacl
open SPath Path

/-- the paths the SPARQL-mode printer supports: predicate paths that are IRIs, sequences and alternatives of
    at least two members, inverse and the three closures, nested arbitrarily -/
def psup : TMode → Path → Bool
  | .path, .pred (.iri _) => true
  | .path, .seqCons a rest => psup .path a && psup .seqRest rest
  | .seqRest, .seqCons a rest => psup .path a && psup .seqRest rest
  | .seqRest, .seqLast a => psup .path a
  | .path, .alt (.altCons a rest) => psup .path a && psup .altRest rest
  | .altRest, .altCons a rest => psup .path a && psup .altRest rest
  | .altRest, .altLast a => psup .path a
  | .path, .inv q => psup .path q
  | .path, .star q => psup .path q
  | .path, .plus q => psup .path q
  | .path, .opt q => psup .path q
  | _, _ => false

/-- the printer's own recursion measure (`recursion` grows by one per compound node, not per list cell) -/
def pd : TMode → Path → Nat
  | .path, .seqCons a rest => max (pd .path a) (pd .seqRest rest) + 1
  | .seqRest, .seqCons a rest => max (pd .path a) (pd .seqRest rest)
  | .seqRest, .seqLast a => pd .path a
  | .path, .alt (.altCons a rest) => max (pd .path a) (pd .altRest rest) + 1
  | .altRest, .altCons a rest => max (pd .path a) (pd .altRest rest)
  | .altRest, .altLast a => pd .path a
  | .path, .inv q => pd .path q + 1
  | .path, .star q => pd .path q + 1
  | .path, .plus q => pd .path q + 1
  | .path, .opt q => pd .path q + 1
  | _, _ => 0

/-- **supported paths within the depth cap are printed** (the cap is the code's own, regenerated) -/
theorem tr_total (mode : TMode) (p : Path) (r : Nat) :
    psup mode p = true → r + pd mode p ≤ Caps.sparqlPathDepth → ∃ sp, tr mode p r = some sp := by
  fun_induction tr mode p r with
  | case1 s r => intro _ _; exact ⟨_, rfl⟩
  | case2 a rest r hr => intro _ hd; simp only [pd] at hd; omega
  | case3 a rest r hr x y hy hx iha ihr => intro _ _; exact ⟨_, rfl⟩
  | case4 a rest r hr hno iha ihr =>
    intro hs hd
    simp only [psup, Bool.and_eq_true] at hs
    simp only [pd] at hd
    obtain ⟨x, hx⟩ := iha hs.1 (by omega)
    obtain ⟨y, hy⟩ := ihr hs.2 (by omega)
    exact (hno x y hx hy).elim
  | case5 a rest r x y hy hx iha ihr => intro _ _; exact ⟨_, rfl⟩
  | case6 a rest r hno iha ihr =>
    intro hs hd
    simp only [psup, Bool.and_eq_true] at hs
    simp only [pd] at hd
    obtain ⟨x, hx⟩ := iha hs.1 (by omega)
    obtain ⟨y, hy⟩ := ihr hs.2 (by omega)
    exact (hno x y hx hy).elim
  | case7 a r ih => intro hs hd; simp only [psup] at hs; simp only [pd] at hd; exact ih hs hd
  | case8 a rest r hr => intro _ hd; simp only [pd] at hd; omega
  | case9 a rest r hr x y hy hx iha ihr => intro _ _; exact ⟨_, rfl⟩
  | case10 a rest r hr hno iha ihr =>
    intro hs hd
    simp only [psup, Bool.and_eq_true] at hs
    simp only [pd] at hd
    obtain ⟨x, hx⟩ := iha hs.1 (by omega)
    obtain ⟨y, hy⟩ := ihr hs.2 (by omega)
    exact (hno x y hx hy).elim
  | case11 a rest r x y hy hx iha ihr => intro _ _; exact ⟨_, rfl⟩
  | case12 a rest r hno iha ihr =>
    intro hs hd
    simp only [psup, Bool.and_eq_true] at hs
    simp only [pd] at hd
    obtain ⟨x, hx⟩ := iha hs.1 (by omega)
    obtain ⟨y, hy⟩ := ihr hs.2 (by omega)
    exact (hno x y hx hy).elim
  | case13 a r ih => intro hs hd; simp only [psup] at hs; simp only [pd] at hd; exact ih hs hd
  | case14 q r hr => intro _ hd; simp only [pd] at hd; omega
  | case15 q r hr ih =>
    intro hs hd; simp only [psup] at hs; simp only [pd] at hd
    obtain ⟨s, hq⟩ := ih hs (by omega); rw [hq]; exact ⟨_, rfl⟩
  | case16 q r hr => intro _ hd; simp only [pd] at hd; omega
  | case17 q r hr ih =>
    intro hs hd; simp only [psup] at hs; simp only [pd] at hd
    obtain ⟨s, hq⟩ := ih hs (by omega); rw [hq]; exact ⟨_, rfl⟩
  | case18 q r hr => intro _ hd; simp only [pd] at hd; omega
  | case19 q r hr ih =>
    intro hs hd; simp only [psup] at hs; simp only [pd] at hd
    obtain ⟨s, hq⟩ := ih hs (by omega); rw [hq]; exact ⟨_, rfl⟩
  | case20 q r hr => intro _ hd; simp only [pd] at hd; omega
  | case21 q r hr ih =>
    intro hs hd; simp only [psup] at hs; simp only [pd] at hd
    obtain ⟨s, hq⟩ := ih hs (by omega); rw [hq]; exact ⟨_, rfl⟩
  | case22 mode p r h1 h2 h3 h4 h5 h6 h7 h8 h9 h10 h11 =>
    intro hs _
    exfalso
    unfold psup at hs
    split at hs <;> simp_all

end Pyshacl
