/-
  RawProofs.lean — C16: which exception classes outside the documented family the evaluator of the model can
  still let through, and from where.  `NoNewRaw rec o`: if outcome `o` is a raw exception, its class is one of
  `rawAllowed`, or it is an exception a nested shape evaluation (`rec`) raised.
-/
import PyshaclProofs.EvalLemmas
namespace Pyshacl

/-- the raw classes the Core evaluator can produce by itself:
    * `ValueError` — `Graph.items` on a looping rdf:List (every entry point checks `hasLoopingList` first);
    * `AttributeError` — a sibling qualified value shape missing from the shape cache (the cache builders gather them);
    * the `*-table-miss` markers — the harness did not ship an oracle answer (an artefact of the correspondence, not of pySHACL) -/
def rawAllowed : List String :=
  ["ValueError", "AttributeError", "regex-table-miss", "sparql-template-miss", "sparql-table-miss", "validator-table-miss"]

def NoNewRaw (rec : Rec) (o : Out) : Prop :=
  ∀ cls, o = .error (.raw cls) → cls ∈ rawAllowed ∨ ∃ s v p, rec s v p = .error (.raw cls)

theorem nnr_ok (rec : Rec) (x : Bool × List Result) : NoNewRaw rec (.ok x) := by intro cls h; cases h
theorem nnr_ofResults (rec : Rec) (rs : List Result) : NoNewRaw rec (ofResults rs) := by intro cls h; cases h
theorem nnr_err (rec : Rec) (e : Failure) (h : ∀ cls, e = .raw cls → cls ∈ rawAllowed) : NoNewRaw rec (.error e) := by
  intro cls hc; cases hc; exact Or.inl (h cls rfl)
theorem nnr_shapeLoad (rec : Rec) : NoNewRaw rec (.error .shapeLoad) := nnr_err rec _ (by intro c h; cases h)
theorem nnr_constraintLoad (rec : Rec) : NoNewRaw rec (.error .constraintLoad) := nnr_err rec _ (by intro c h; cases h)
theorem nnr_runtime (rec : Rec) (w : String) : NoNewRaw rec (.error (.runtime w)) := nnr_err rec _ (by intro c h; cases h)
theorem nnr_validationFailure (rec : Rec) : NoNewRaw rec (.error .validationFailure) := nnr_err rec _ (by intro c h; cases h)
theorem nnr_notImplemented (rec : Rec) : NoNewRaw rec (.error .notImplemented) := nnr_err rec _ (by intro c h; cases h)
theorem nnr_raw (rec : Rec) (c : String) (h : c ∈ rawAllowed) : NoNewRaw rec (.error (.raw c)) :=
  nnr_err rec _ (by intro c' hc; cases hc; exact h)
theorem nnr_rec (rec : Rec) (s : Shape) (v : Term) (p : List PathEntry) : NoNewRaw rec (rec s v p) := by
  intro cls h; exact Or.inr ⟨s, v, p, h⟩

theorem nnr_foldOut {α} (rec : Rec) (xs : List α) (f : α → Out) (h : ∀ x, NoNewRaw rec (f x)) :
    NoNewRaw rec (foldOut xs f) := by
  induction xs with
  | nil => exact nnr_ok rec _
  | cons x xs ih =>
    intro cls hc
    simp only [foldOut] at hc
    cases hx : f x with
    | error e => rw [hx] at hc; simp only [] at hc; cases hc; exact h x cls hx
    | ok p =>
      obtain ⟨c, r⟩ := p
      rw [hx] at hc
      simp only [] at hc
      cases hr : foldOut xs f with
      | error e => rw [hr] at hc; simp only [] at hc; cases hc; exact ih cls hr
      | ok q => rw [hr] at hc; simp only [] at hc; cases hc

/-- a raw failure of `evalMembers` comes from a nested evaluation -/
theorem evalMembers_raw (rec : Rec) (path : List PathEntry) (members : List Shape) (v : Term) (cls : String)
    (h : evalMembers rec path members v = .error (.raw cls)) : ∃ s v p, rec s v p = .error (.raw cls) := by
  unfold evalMembers at h
  induction members with
  | nil => simp [mapE] at h
  | cons m ms ih =>
    simp only [mapE] at h
    cases hm : rec m v path with
    | error e => rw [hm] at h; simp only [] at h; cases h; exact ⟨m, v, path, hm⟩
    | ok p =>
      obtain ⟨c, r⟩ := p
      rw [hm] at h
      simp only [] at h
      split at h
      · rename_i e he; cases h; exact ih he
      · cases h

theorem nnr_logicalOver (rec : Rec) (s : Shape) (k : CKind) (path : List PathEntry) (fv : FV)
    (members : List Shape) (bad : List Bool → Bool) : NoNewRaw rec (logicalOver rec s k path fv members bad) := by
  unfold logicalOver
  apply nnr_foldOut; rintro ⟨f, vs⟩
  apply nnr_foldOut; intro v
  intro cls hc
  cases hm : evalMembers rec path members v with
  | error e => rw [hm] at hc; simp only [] at hc; cases hc; exact Or.inr (evalMembers_raw rec path members v cls hm)
  | ok cs => rw [hm] at hc; simp only [] at hc; split at hc <;> cases hc

theorem nnr_nodeOver (rec : Rec) (s : Shape) (path : List PathEntry) (fv : FV) (ns : Shape) :
    NoNewRaw rec (nodeOver rec s path fv ns) := by
  unfold nodeOver
  apply nnr_foldOut; rintro ⟨f, vs⟩
  apply nnr_foldOut; intro v
  intro cls hc
  cases hm : rec ns v path with
  | error e => rw [hm] at hc; simp only [] at hc; cases hc; exact Or.inr ⟨ns, v, path, hm⟩
  | ok p => obtain ⟨c, r⟩ := p; rw [hm] at hc; simp only [] at hc; split at hc <;> cases hc

theorem nnr_propertyOver (rec : Rec) (path : List PathEntry) (fv : FV) (ps : Shape) :
    NoNewRaw rec (propertyOver rec path fv ps) := by
  unfold propertyOver
  apply nnr_foldOut; rintro ⟨f, vs⟩
  apply nnr_foldOut; intro v
  exact nnr_rec rec ps v path

theorem qualFlag_raw (rec : Rec) (path : List PathEntry) (other : Shape) (siblings : List Shape) (v : Term) (cls : String)
    (h : qualFlag rec path other siblings v = .error (.raw cls)) : ∃ s v p, rec s v p = .error (.raw cls) := by
  unfold qualFlag at h
  cases hm : rec other v path with
  | error e => rw [hm] at h; simp only [] at h; cases h; exact ⟨other, v, path, hm⟩
  | ok p =>
    obtain ⟨c, r⟩ := p
    rw [hm] at h
    simp only [] at h
    split at h
    · cases h
    · cases hs : evalMembers rec path siblings v with
      | error e => rw [hs] at h; simp only [] at h; cases h; exact evalMembers_raw rec path siblings v cls hs
      | ok cs => rw [hs] at h; cases h

theorem mapE_raw {α β} (g : α → Except Failure β) (xs : List α) (cls : String)
    (h : mapE g xs = .error (.raw cls)) : ∃ x ∈ xs, g x = .error (.raw cls) := by
  induction xs with
  | nil => simp [mapE] at h
  | cons x xs ih =>
    simp only [mapE] at h
    cases hx : g x with
    | error e => rw [hx] at h; simp only [] at h; cases h; exact ⟨x, List.mem_cons_self, hx⟩
    | ok b =>
      rw [hx] at h
      simp only [] at h
      split at h
      · rename_i e he; cases h
        obtain ⟨y, hy, hg⟩ := ih he
        exact ⟨y, List.mem_cons_of_mem _ hy, hg⟩
      · cases h

theorem nnr_qualifiedOver (rec : Rec) (s : Shape) (k : CKind) (path : List PathEntry) (fv : FV) (other : Shape)
    (siblings : List Shape) (minC maxC : Option Int) : NoNewRaw rec (qualifiedOver rec s k path fv other siblings minC maxC) := by
  unfold qualifiedOver
  apply nnr_foldOut; rintro ⟨f, vs⟩
  intro cls hc
  dsimp only at hc
  cases hm : mapE (qualFlag rec path other siblings) vs with
  | error e =>
    rw [hm] at hc; simp only [] at hc; cases hc
    obtain ⟨x, _, hx⟩ := mapE_raw _ _ _ hm
    exact Or.inr (qualFlag_raw rec path other siblings x cls hx)
  | ok flags => rw [hm] at hc; cases hc

end Pyshacl

namespace Pyshacl

theorem resolveMembers_err (c : Env) (ns : List Term) (e : Failure) (h : resolveMembers c ns = .error e) : e = .runtime "" := by
  unfold resolveMembers at h
  induction ns with
  | nil => simp [mapE] at h
  | cons n ns ih =>
    simp only [mapE] at h
    split at h
    · rename_i e' he
      cases h
      split at he
      · cases he
      · cases he; rfl
    · split at h
      · rename_i e' he; cases h; exact ih he
      · cases h

theorem evalPattern_err (s : Shape) (fv : FV) (rx : Regex) (ps : List Term) (flags : String) (e : Failure)
    (h : evalPattern s fv rx ps flags = .error e) : e = .raw "regex-table-miss" := by
  unfold evalPattern at h
  simp only [] at h
  split at h
  · cases h; rfl
  · cases h

theorem evalLessThan_err (s : Shape) (k : CKind) (dg : Graph) (fv : FV) (props : List Term) (test : Int → Bool) (e : Failure)
    (h : evalLessThan s k dg fv props test = .error e) : e = .runtime "" := by
  unfold evalLessThan at h
  split at h
  · cases h; rfl
  · cases h

theorem natParam_err (t : Term) (e : Failure) (h : natParam t = .error e) : e = .constraintLoad := by
  unfold natParam at h
  repeat' (split at h)
  all_goals first | (cases h; rfl) | cases h

theorem cnt_err (l : List Term) (e : Failure)
    (h : (match l with
      | [] => Except.ok (none : Option Int)
      | [t] => (match t with
        | .lit l => (match l.val with | .int n => .ok (some n) | .bool b => .ok (some (if b then 1 else 0))
                                      | _ => .error Failure.constraintLoad)
        | _ => .error Failure.constraintLoad)
      | _ => .error Failure.constraintLoad) = Except.error e) : e = .constraintLoad := by
  repeat' (split at h)
  all_goals first | (cases h; rfl) | cases h

theorem nnr_liftResults (rec : Rec) (x : Except Failure (List Result))
    (h : ∀ e, x = .error e → ∀ cls, e = .raw cls → cls ∈ rawAllowed) : NoNewRaw rec (liftResults x) := by
  unfold liftResults
  cases x with
  | error e => exact nnr_err rec e (h e rfl)
  | ok rs => exact nnr_ofResults rec rs

theorem nnr_pattern (rec : Rec) (s : Shape) (fv : FV) (rx : Regex) (ps : List Term) (flags : String) :
    NoNewRaw rec (liftResults (evalPattern s fv rx ps flags)) :=
  nnr_liftResults rec _ (fun e he cls hc => by rw [evalPattern_err _ _ _ _ _ _ he] at hc; cases hc; decide)

theorem nnr_lessThan (rec : Rec) (s : Shape) (k : CKind) (dg : Graph) (fv : FV) (props : List Term) (test : Int → Bool) :
    NoNewRaw rec (liftResults (evalLessThan s k dg fv props test)) :=
  nnr_liftResults rec _ (fun e he cls hc => by rw [evalLessThan_err _ _ _ _ _ _ _ he] at hc; cases hc)

/-- **Core components**: a raw exception out of a constraint component is one of `rawAllowed` or was raised by a
    nested shape evaluation — for every component except sh:expression (advanced mode has its own list) -/
theorem nnr_evalConstraint (e : Env) (rec : Rec) (s : Shape) (k : CKind) (fv : FV) (path : List PathEntry)
    (hk : k ≠ .expression) : NoNewRaw rec (evalConstraint e rec s k fv path) := by
  cases k
  case expression => exact absurd rfl hk
  all_goals simp only [evalConstraint]
  all_goals
    repeat' first
      | exact nnr_ok rec _
      | exact nnr_ofResults rec _
      | exact nnr_shapeLoad rec
      | exact nnr_constraintLoad rec
      | exact nnr_runtime rec _
      | exact nnr_validationFailure rec
      | exact nnr_notImplemented rec
      | exact nnr_raw rec _ (by decide)
      | exact nnr_rec rec _ _ _
      | exact nnr_logicalOver rec _ _ _ _ _ _
      | exact nnr_nodeOver rec _ _ _ _
      | exact nnr_propertyOver rec _ _ _
      | exact nnr_qualifiedOver rec _ _ _ _ _ _ _ _
      | exact nnr_pattern rec _ _ _ _ _
      | exact nnr_lessThan rec _ _ _ _ _ _
      | (apply nnr_foldOut; intro _)
      | split
  all_goals first
    | (rename_i h; rw [natParam_err _ _ h]; exact nnr_constraintLoad rec)
    | (rename_i h; rw [evalPattern_err _ _ _ _ _ _ h]; exact nnr_raw rec _ (by decide))
    | (rename_i h; rw [evalLessThan_err _ _ _ _ _ _ _ h]; exact nnr_runtime rec _)
    | (rename_i h; rw [resolveMembers_err _ _ _ h]; exact nnr_runtime rec _)
    | (rename_i h _; rw [resolveMembers_err _ _ _ h]; exact nnr_runtime rec _)
    | (rename_i h; intro cls hc; cases hc; obtain ⟨x, _, hx⟩ := mapE_raw _ _ _ h; exact Or.inr (qualFlag_raw _ _ _ _ x cls hx))
    | (rename_i h; (repeat' (split at h)) <;> first | (cases h; exact nnr_constraintLoad rec) | (cases h; done))
    | (rename_i h _; (repeat' (split at h)) <;> first | (cases h; exact nnr_constraintLoad rec) | (cases h; done))

end Pyshacl
