/-
  PathSpec.lean — SPARQL 1.1 property-path semantics (set semantics) as a relation on terms.
  Written from the SPARQL 1.1 Query Recommendation §18.4 / §9, not from the code:
    link  : {(s,o) | (s,p,o) ∈ G}            inv  : converse
    seq   : relational composition           alt  : union
    ZeroOrOnePath  : identity ∪ R            ZeroOrMorePath : reflexive-transitive closure
    OneOrMorePath  : transitive closure
  Zero-length paths relate every term to itself whether or not it occurs in the graph.
-/
import PyshaclModel.Path
import Mathlib.Logic.Relation
namespace Pyshacl

def PathRel : Path → Graph → Term → Term → Prop
  | .pred p, g, a, b => (⟨a, p, b⟩ : Triple) ∈ g
  | .bad _ _, _, _, _ => False
  | .seqCons x y, g, a, b => ∃ m, PathRel x g a m ∧ PathRel y g m b
  | .seqLast x, g, a, b => PathRel x g a b
  | .seqNoRest x, g, a, b => PathRel x g a b
  | .inv q, g, a, b => PathRel q g b a
  | .alt m, g, a, b => PathRel m g a b
  | .altCons x r, g, a, b => PathRel x g a b ∨ PathRel r g a b
  | .altLast x, g, a, b => PathRel x g a b
  | .altNil, _, _, _ => False
  | .star q, g, a, b => Relation.ReflTransGen (PathRel q g) a b
  | .plus q, g, a, b => Relation.TransGen (PathRel q g) a b
  | .opt q, g, a, b => a = b ∨ PathRel q g a b

/-- the relation seen from a focus node when the code's `inverse` flag is set -/
def DirRel (inverse : Bool) (R : Term → Term → Prop) (a b : Term) : Prop :=
  if inverse then R b a else R a b

end Pyshacl
