/-
  ReportProofs.lean — helper lemmas about the report assembly of `PyshaclModel/Report.lean`.
  Which prepared triples carry which subject; what the description copies can and cannot contain.
-/
import PyshaclModel.Report
namespace Pyshacl

/-- the triples `make_v_result` prepares about the result node itself -/
def ownPending (dg : Graph) (idx : List Nat) : Result → List Pending
  | .mk f v p c s sev msgs _ src =>
    let n := RNode.fresh idx
    [⟨n, rdfType, .direct shValidationResult⟩,
     ⟨n, shSourceConstraintComponent, .from .sg c⟩,
     ⟨n, shSourceShape, .from .sg s⟩,
     ⟨n, shResultSeverity, .direct sev⟩,
     ⟨n, shFocusNode, .from (focusSrc dg) f⟩]
    ++ optPending n shValue .dg v
    ++ optPending n shResultPath .sg p
    ++ optPending n shSourceConstraint .sg src
    ++ msgs.map (fun m => ⟨n, shResultMessage, .direct m⟩)

def detailLink (idx : List Nat) (j : Nat) : Pending := ⟨.fresh idx, shDetail, .node (.fresh (j :: idx))⟩

theorem resultPending_eq (dg : Graph) (idx : List Nat) (r : Result) :
    resultPending dg idx r = ownPending dg idx r ++ detailPending dg idx 0 r.details := by
  cases r; simp [resultPending, ownPending, Result.details]

theorem mem_detailPending (dg : Graph) (idx : List Nat) (ds : List Result) (j0 : Nat) (x : Pending) :
    x ∈ detailPending dg idx j0 ds ↔
      ∃ j d, ds[j]? = some d ∧ (x = detailLink idx (j0 + j) ∨ x ∈ resultPending dg ((j0 + j) :: idx) d) := by
  induction ds generalizing j0 with
  | nil => simp [detailPending]
  | cons d ds ih =>
    simp only [detailPending, List.mem_cons, List.mem_append, ih]
    constructor
    · rintro (h | h | ⟨j, d', hj, h⟩)
      · exact ⟨0, d, by simp, Or.inl (by simpa [detailLink] using h)⟩
      · exact ⟨0, d, by simp, Or.inr (by simpa using h)⟩
      · refine ⟨j + 1, d', by simpa using hj, ?_⟩
        have : j0 + (j + 1) = j0 + 1 + j := by omega
        rw [this]; exact h
    · rintro ⟨j, d', hj, h⟩
      cases j with
      | zero =>
        simp at hj; subst hj
        rcases h with h | h
        · left; simpa [detailLink] using h
        · right; left; simpa using h
      | succ j =>
        right; right
        refine ⟨j, d', by simpa using hj, ?_⟩
        have : j0 + (j + 1) = j0 + 1 + j := by omega
        rw [this] at h; exact h

theorem mem_resultPending (dg : Graph) (idx : List Nat) (r : Result) (x : Pending) :
    x ∈ resultPending dg idx r ↔ x ∈ ownPending dg idx r ∨
      ∃ j d, r.details[j]? = some d ∧ (x = detailLink idx j ∨ x ∈ resultPending dg (j :: idx) d) := by
  rw [resultPending_eq, List.mem_append, mem_detailPending]
  simp

theorem optPending_subject (n : RNode) (p : Term) (src : Src) (v : Option Term) (x : Pending)
    (h : x ∈ optPending n p src v) : x.s = n := by
  cases v <;> simp [optPending] at h; subst h; rfl

theorem ownPending_subject (dg : Graph) (idx : List Nat) (r : Result) (x : Pending) (h : x ∈ ownPending dg idx r) :
    x.s = .fresh idx := by
  cases r with
  | mk f v p c s sev msgs det src =>
    simp only [ownPending, List.mem_append, List.mem_map] at h
    rcases h with (((h | h) | h) | h) | ⟨m, _, h⟩
    · simp only [List.mem_cons, List.not_mem_nil, or_false] at h
      rcases h with h | h | h | h | h <;> (subst h; rfl)
    · exact optPending_subject _ _ _ _ x h
    · exact optPending_subject _ _ _ _ x h
    · exact optPending_subject _ _ _ _ x h
    · subst h; rfl

/-- a subject at or below the node `idx` -/
def Below (idx : List Nat) (n : RNode) : Prop := ∃ l, n = .fresh (l ++ idx)

theorem resultPending_below (dg : Graph) (idx : List Nat) (r : Result) :
    ∀ x ∈ resultPending dg idx r, Below idx x.s := by
  refine resultPending.induct
    (motive_1 := fun idx r => ∀ x ∈ resultPending dg idx r, Below idx x.s)
    (motive_2 := fun idx j ds => ∀ x ∈ detailPending dg idx j ds, Below idx x.s) ?_ ?_ ?_ idx r
  · intro idx f v p c s sev msgs det src ih x hx
    rw [resultPending_eq, List.mem_append] at hx
    rcases hx with hx | hx
    · exact ⟨[], by simpa using ownPending_subject dg idx _ x hx⟩
    · exact ih x hx
  · intro idx j x hx; simp [detailPending] at hx
  · intro idx j d ds ih1 ih2 x hx
    simp only [detailPending, List.mem_cons, List.mem_append] at hx
    rcases hx with hx | hx | hx
    · subst hx; exact ⟨[], by simp⟩
    · obtain ⟨l, hl⟩ := ih1 x hx
      exact ⟨l ++ [j], by simpa using hl⟩
    · exact ih2 x hx

theorem fresh_suffix_inj {l l' : List Nat} {j j' : Nat} {idx : List Nat}
    (h : l ++ j :: idx = l' ++ j' :: idx) : l = l' ∧ j = j' := by
  have := List.append_inj' h (by simp)
  simpa using this

theorem not_below_child (idx : List Nat) (j : Nat) : ¬ Below (j :: idx) (.fresh idx) := by
  rintro ⟨l, h⟩
  have : idx.length = (l ++ j :: idx).length := by
    injection h with h; rw [← h]
  simp at this; omega

/-- the triples about one node: its own fields and its sh:detail links -/
def NodeTriples (dg : Graph) (idx : List Nat) (r : Result) (x : Pending) : Prop :=
  x ∈ ownPending dg idx r ∨ ∃ j d, r.details[j]? = some d ∧ x = detailLink idx j

theorem node_of_subject (dg : Graph) (idx : List Nat) (r : Result) (x : Pending) :
    (x ∈ resultPending dg idx r ∧ x.s = .fresh idx) ↔ NodeTriples dg idx r x := by
  rw [mem_resultPending]
  constructor
  · rintro ⟨h | ⟨j, d, hj, h | h⟩, hs⟩
    · exact Or.inl h
    · exact Or.inr ⟨j, d, hj, h⟩
    · exfalso
      have := resultPending_below dg (j :: idx) d x h
      rw [hs] at this
      exact not_below_child idx j this
  · rintro (h | ⟨j, d, hj, h⟩)
    · exact ⟨Or.inl h, ownPending_subject dg idx r x h⟩
    · exact ⟨Or.inr ⟨j, d, hj, Or.inl h⟩, by subst h; rfl⟩

/-- every subject that occurs below a result stands for exactly one (nested) result -/
theorem node_stands_for (dg : Graph) (idx0 : List Nat) (r0 : Result) :
    ∀ idx, (∃ x ∈ resultPending dg idx0 r0, x.s = .fresh idx) →
      ∃ r, ∀ x, (x ∈ resultPending dg idx0 r0 ∧ x.s = .fresh idx) ↔ NodeTriples dg idx r x := by
  refine resultPending.induct
    (motive_1 := fun idx0 r0 => ∀ idx, (∃ x ∈ resultPending dg idx0 r0, x.s = .fresh idx) →
      ∃ r, ∀ x, (x ∈ resultPending dg idx0 r0 ∧ x.s = .fresh idx) ↔ NodeTriples dg idx r x)
    (motive_2 := fun idx0 j0 ds => ∀ j d, ds[j]? = some d → ∀ idx, (∃ x ∈ resultPending dg ((j0 + j) :: idx0) d, x.s = .fresh idx) →
      ∃ r, ∀ x, (x ∈ resultPending dg ((j0 + j) :: idx0) d ∧ x.s = .fresh idx) ↔ NodeTriples dg idx r x) ?_ ?_ ?_ idx0 r0
  · intro idx0 f v p c s sev msgs det src ih idx ⟨x, hx, hs⟩
    by_cases hidx : idx = idx0
    · subst hidx
      exact ⟨_, fun x => node_of_subject dg idx _ x⟩
    · rw [mem_resultPending] at hx
      rcases hx with hx | ⟨j, d, hj, hx | hx⟩
      · exfalso; rw [ownPending_subject dg idx0 _ x hx] at hs; injection hs with hs; exact hidx hs.symm
      · exfalso; subst hx; simp [detailLink] at hs; exact hidx hs.symm
      · simp only [Result.details] at hj
        obtain ⟨r, hr⟩ := ih j d hj idx ⟨x, by simpa using hx, hs⟩
        refine ⟨r, fun y => ?_⟩
        rw [← hr y]
        simp only [Nat.zero_add]
        constructor
        · rintro ⟨hy, hys⟩
          refine ⟨?_, hys⟩
          rw [mem_resultPending] at hy
          rcases hy with hy | ⟨j', d', hj', hy | hy⟩
          · exfalso; rw [ownPending_subject dg idx0 _ y hy] at hys; injection hys with hys; exact hidx hys.symm
          · exfalso; subst hy; simp [detailLink] at hys; exact hidx hys.symm
          · obtain ⟨l, hl⟩ := resultPending_below dg (j :: idx0) d x hx
            obtain ⟨l', hl'⟩ := resultPending_below dg (j' :: idx0) d' y hy
            rw [hs] at hl; rw [hys] at hl'
            injection hl with hl; injection hl' with hl'
            have := (fresh_suffix_inj (hl.symm.trans hl')).2
            subst this
            simp only [Result.details] at hj'
            rw [hj] at hj'; injection hj' with hj'; subst hj'
            exact hy
        · rintro ⟨hy, hys⟩
          exact ⟨(mem_resultPending dg idx0 _ y).2 (Or.inr ⟨j, d, by simpa [Result.details] using hj, Or.inr hy⟩), hys⟩
  · intro idx0 j0 j d hj; simp at hj
  · intro idx0 j0 d ds ih1 ih2 j d' hj
    cases j with
    | zero => simp at hj; subst hj; simpa using ih1
    | succ j =>
      have := ih2 j d' (by simpa using hj)
      have e : j0 + (j + 1) = j0 + 1 + j := by omega
      rw [e]; exact this

/-! ### top level -/

theorem mem_resultsPending (dg : Graph) (rs : List Result) (j0 : Nat) (x : Pending) :
    x ∈ resultsPending dg j0 rs ↔ ∃ i r, rs[i]? = some r ∧ x ∈ resultPending dg [j0 + i] r := by
  induction rs generalizing j0 with
  | nil => simp [resultsPending]
  | cons r rs ih =>
    simp only [resultsPending, List.mem_append, ih]
    constructor
    · rintro (h | ⟨i, r', hi, h⟩)
      · exact ⟨0, r, by simp, by simpa using h⟩
      · refine ⟨i + 1, r', by simpa using hi, ?_⟩
        have : j0 + (i + 1) = j0 + 1 + i := by omega
        rw [this]; exact h
    · rintro ⟨i, r', hi, h⟩
      cases i with
      | zero => simp at hi; subst hi; left; simpa using h
      | succ i =>
        right
        refine ⟨i, r', by simpa using hi, ?_⟩
        have : j0 + (i + 1) = j0 + 1 + i := by omega
        rw [this] at h; exact h

theorem below_top_inj {i i' : Nat} {n : RNode} (h : Below [i] n) (h' : Below [i'] n) : i = i' := by
  obtain ⟨l, hl⟩ := h; obtain ⟨l', hl'⟩ := h'
  rw [hl] at hl'; injection hl' with hl'
  exact (fresh_suffix_inj hl').2

theorem not_below_root (i : Nat) : ¬ Below [i] (.fresh []) := by
  rintro ⟨l, h⟩; injection h with h; simp at h

/-- every result node of the report (top-level or nested) stands for exactly one result -/
theorem top_node_stands_for (dg : Graph) (rs : List Result) :
    ∀ idx, (∃ x ∈ resultsPending dg 0 rs, x.s = .fresh idx) →
      ∃ r, ∀ x, (x ∈ resultsPending dg 0 rs ∧ x.s = .fresh idx) ↔ NodeTriples dg idx r x := by
  intro idx ⟨x, hx, hs⟩
  rw [mem_resultsPending] at hx
  obtain ⟨i, r0, hi, hx⟩ := hx
  obtain ⟨r, hr⟩ := node_stands_for dg [0 + i] r0 idx ⟨x, hx, hs⟩
  refine ⟨r, fun y => ?_⟩
  rw [← hr y, mem_resultsPending]
  constructor
  · rintro ⟨⟨i', r', hi', hy⟩, hys⟩
    have b1 := resultPending_below dg [0 + i] r0 x hx
    have b2 := resultPending_below dg [0 + i'] r' y hy
    rw [hs] at b1; rw [hys] at b2
    have := below_top_inj b1 b2
    have : i = i' := by omega
    subst this
    rw [hi] at hi'; injection hi' with hi'; subst hi'
    exact ⟨hy, hys⟩
  · rintro ⟨hy, hys⟩
    exact ⟨⟨i, r0, hi, hy⟩, hys⟩

/-- the i-th top-level result node stands for the i-th result -/
theorem top_node_is (dg : Graph) (rs : List Result) (i : Nat) (r : Result) (hi : rs[i]? = some r) (x : Pending) :
    (x ∈ resultsPending dg 0 rs ∧ x.s = .fresh [i]) ↔ NodeTriples dg [i] r x := by
  rw [mem_resultsPending]
  constructor
  · rintro ⟨⟨i', r', hi', hx⟩, hs⟩
    have b := resultPending_below dg [0 + i'] r' x hx
    rw [hs] at b
    have : i = 0 + i' := below_top_inj ⟨[], by simp⟩ b
    have : i' = i := by omega
    subst this
    rw [hi] at hi'; injection hi' with hi'; subst hi'
    exact (node_of_subject dg [i'] r x).1 ⟨by simpa using hx, hs⟩
  · intro h
    have := (node_of_subject dg [i] r x).2 h
    exact ⟨⟨i, r, hi, by simpa using this.1⟩, this.2⟩

/-- no prepared triple has the report node as its subject -/
theorem resultsPending_not_root (dg : Graph) (rs : List Result) (x : Pending) (h : x ∈ resultsPending dg 0 rs) :
    x.s ≠ .fresh [] := by
  rw [mem_resultsPending] at h
  obtain ⟨i, r, _, h⟩ := h
  intro hs
  have := resultPending_below dg [0 + i] r x h
  rw [hs] at this
  exact not_below_root _ this

theorem resultsPending_subject_fresh (dg : Graph) (rs : List Result) (x : Pending) (h : x ∈ resultsPending dg 0 rs) :
    ∃ idx, x.s = .fresh idx := by
  rw [mem_resultsPending] at h
  obtain ⟨i, r, _, h⟩ := h
  obtain ⟨l, hl⟩ := resultPending_below dg [0 + i] r x h
  exact ⟨_, hl⟩

/-! ### description copies -/

theorem cellNode_cases (self : RNode) (path : List Nat) (i : Nat) : cellNode self path i = self ∨ ∃ k, cellNode self path i = .cl k := by
  cases i with
  | zero => exact Or.inl rfl
  | succ i => exact Or.inr ⟨_, rfl⟩

theorem listSpine_subject (self : RNode) (path : List Nat) (i : Nat) (xs : List RNode) :
    ∀ t ∈ listSpine self path i xs, t.s = self ∨ ∃ k, t.s = .cl k := by
  induction xs generalizing self i with
  | nil => simp [listSpine]
  | cons x rest ih =>
    cases rest with
    | nil => intro t ht; simp [listSpine] at ht; rcases ht with ht | ht <;> (subst ht; exact Or.inl rfl)
    | cons y rest =>
      intro t ht
      simp only [listSpine, List.mem_cons] at ht
      rcases ht with ht | ht | ht
      · subst ht; exact Or.inl rfl
      · subst ht; exact Or.inl rfl
      · rcases ih _ _ t ht with h | h
        · exact Or.inr ⟨_, h⟩
        · exact Or.inr h

theorem objTriples_subject (rec : Term → RNode → List Nat → List RTriple) (self : RNode) (path : List Nat)
    (po : List (Term × Term)) (hrec : ∀ b n p, ∀ t ∈ rec b n p, t.s = n ∨ ∃ k, t.s = .cl k) :
    ∀ t ∈ objTriples rec self path po, t.s = self ∨ ∃ k, t.s = .cl k := by
  intro t ht
  unfold objTriples at ht
  rw [List.mem_flatMap] at ht
  obtain ⟨x, _, ht⟩ := ht
  split at ht
  · rw [List.mem_cons] at ht
    rcases ht with ht | ht
    · subst ht; exact Or.inl rfl
    · rcases hrec _ _ _ t ht with h | h
      · exact Or.inr ⟨_, h⟩
      · exact Or.inr h
  · simp at ht; subst ht; exact Or.inl rfl

/-- a description copy only speaks about the copied node and about nodes minted for the copy -/
theorem cloneBnode_subject (g : Graph) (fuel rec : Nat) (b : Term) (self : RNode) (path : List Nat) :
    ∀ t ∈ cloneBnode g fuel rec b self path, t.s = self ∨ ∃ k, t.s = .cl k := by
  induction fuel generalizing rec b self path with
  | zero => simp [cloneBnode]
  | succ fuel ih =>
    intro t ht
    unfold cloneBnode at ht
    split at ht
    · simp at ht
    · split at ht
      · rw [List.mem_append, List.mem_append] at ht
        rcases ht with (ht | ht) | ht
        · exact listSpine_subject _ _ _ _ t ht
        · rw [List.mem_flatMap] at ht
          obtain ⟨x, _, ht⟩ := ht
          split at ht
          · rcases ih _ _ _ _ t ht with h | h
            · exact Or.inr ⟨_, h⟩
            · exact Or.inr h
          · simp at ht
        · rw [List.mem_flatMap] at ht
          obtain ⟨x, _, ht⟩ := ht
          split at ht
          · rcases objTriples_subject _ _ _ _ (fun b n p => ih (rec + 2) b n p) t ht with h | h
            · rcases cellNode_cases self path x.2 with hc | ⟨k, hc⟩
              · exact Or.inl (h.trans hc)
              · exact Or.inr ⟨k, h.trans hc⟩
            · exact Or.inr h
          · simp at ht
      · exact objTriples_subject _ _ _ _ (fun b n p => ih (rec + 2) b n p) t ht

theorem clones_subject (sg dg : Graph) (ps : List Pending) :
    ∀ t ∈ clones sg dg ps, (∃ b, t.s = .term b) ∨ ∃ k, t.s = .cl k := by
  intro t ht
  unfold clones at ht
  rw [List.mem_flatMap] at ht
  obtain ⟨x, _, ht⟩ := ht
  rcases cloneBnode_subject _ _ _ _ _ _ t ht with h | h
  · exact Or.inl ⟨_, h⟩
  · exact Or.inr h

theorem mem_predicateObjects (g : Graph) (s p o : Term) : (p, o) ∈ g.predicateObjects s ↔ (⟨s, p, o⟩ : Triple) ∈ g := by
  unfold Graph.predicateObjects
  simp only [List.mem_filterMap]
  constructor
  · rintro ⟨t, ht, h⟩
    split at h
    · rename_i hc; cases t; simp_all
    · simp at h
  · intro h; exact ⟨_, h, by simp⟩

theorem listSpine_pred (self : RNode) (path : List Nat) (i : Nat) (xs : List RNode) :
    ∀ t ∈ listSpine self path i xs, t.p = rdfFirst ∨ t.p = rdfRest := by
  induction xs generalizing self i with
  | nil => simp [listSpine]
  | cons x rest ih =>
    cases rest with
    | nil => intro t ht; simp [listSpine] at ht; rcases ht with ht | ht <;> (subst ht; simp)
    | cons y rest =>
      intro t ht
      simp only [listSpine, List.mem_cons] at ht
      rcases ht with ht | ht | ht
      · subst ht; simp
      · subst ht; simp
      · exact ih _ _ t ht

def Origin (g : Graph) (t : RTriple) : Prop :=
  (t.p = rdfFirst ∨ t.p = rdfRest) ∨ (∃ t' ∈ g, t'.p = t.p ∧ (t.o = .term t'.o ∨ ∃ k, t.o = .cl k))

theorem objTriples_origin (g : Graph) (rec : Term → RNode → List Nat → List RTriple) (self : RNode) (path : List Nat)
    (po : List (Term × Term)) (hpo : ∀ x ∈ po, ∃ s, (⟨s, x.1, x.2⟩ : Triple) ∈ g)
    (hrec : ∀ b n p, ∀ t ∈ rec b n p, Origin g t) :
    ∀ t ∈ objTriples rec self path po, Origin g t := by
  intro t ht
  unfold objTriples at ht
  rw [List.mem_flatMap] at ht
  obtain ⟨x, hx, ht⟩ := ht
  obtain ⟨s0, hs0⟩ := hpo _ (List.fst_mem_of_mem_zipIdx hx)
  split at ht
  · rw [List.mem_cons] at ht
    rcases ht with ht | ht
    · subst ht; exact Or.inr ⟨_, hs0, rfl, Or.inr ⟨_, rfl⟩⟩
    · exact hrec _ _ _ t ht
  · simp at ht; subst ht; exact Or.inr ⟨_, hs0, rfl, Or.inl rfl⟩

/-- where a triple of a description copy comes from: the spine of a re-built list, or a triple of the source graph
    with the same predicate and (unless the object is a blank node, which is re-minted) the same object -/
theorem cloneBnode_origin (g : Graph) (fuel rec : Nat) (b : Term) (self : RNode) (path : List Nat) :
    ∀ t ∈ cloneBnode g fuel rec b self path, Origin g t := by
  induction fuel generalizing rec b self path with
  | zero => simp [cloneBnode]
  | succ fuel ih =>
    intro t ht
    unfold cloneBnode at ht
    split at ht
    · simp at ht
    · split at ht
      · rw [List.mem_append, List.mem_append] at ht
        rcases ht with (ht | ht) | ht
        · exact Or.inl (listSpine_pred _ _ _ _ t ht)
        · rw [List.mem_flatMap] at ht
          obtain ⟨x, _, ht⟩ := ht
          split at ht
          · exact ih _ _ _ _ t ht
          · simp at ht
        · rw [List.mem_flatMap] at ht
          obtain ⟨x, _, ht⟩ := ht
          split at ht
          · refine objTriples_origin g _ _ _ _ ?_ (fun b n p => ih (rec + 2) b n p) t ht
            intro y hy
            exact ⟨x.1.1, (mem_predicateObjects g x.1.1 y.1 y.2).1 (List.mem_filter.1 hy).1⟩
          · simp at ht
      · refine objTriples_origin g _ _ _ _ ?_ (fun b n p => ih (rec + 2) b n p) t ht
        intro y hy
        exact ⟨b, (mem_predicateObjects g b y.1 y.2).1 hy⟩

theorem objTriples_copies (rec : Term → RNode → List Nat → List RTriple) (self : RNode) (path : List Nat)
    (po : List (Term × Term)) (p o : Term) (h : (p, o) ∈ po) :
    (o.isBnode = false → (⟨self, p, .term o⟩ : RTriple) ∈ objTriples rec self path po) ∧
    (o.isBnode = true → ∃ k, (⟨self, p, .cl k⟩ : RTriple) ∈ objTriples rec self path po) := by
  obtain ⟨i, hi⟩ := List.mem_iff_getElem?.1 h
  have hz : ((p, o), i) ∈ po.zipIdx := List.mem_zipIdx_iff_getElem?.2 hi
  unfold objTriples
  simp only [List.mem_flatMap]
  constructor
  · intro hb
    refine ⟨_, hz, ?_⟩
    cases o <;> simp_all [Term.isBnode]
  · intro hb
    refine ⟨i :: path, _, hz, ?_⟩
    cases o <;> simp_all [Term.isBnode]

/-- the first level of a description copy of a blank node that is not a list node: every triple of the
    source graph about it is there, blank-node objects replaced by freshly minted nodes -/
theorem cloneBnode_copies (g : Graph) (fuel : Nat) (b : Term) (self : RNode) (path : List Nat)
    (hl : isListNode g b = false) (p o : Term) (h : (⟨b, p, o⟩ : Triple) ∈ g) :
    (o.isBnode = false → (⟨self, p, .term o⟩ : RTriple) ∈ cloneBnode g (fuel + 1) 0 b self path) ∧
    (o.isBnode = true → ∃ k, (⟨self, p, .cl k⟩ : RTriple) ∈ cloneBnode g (fuel + 1) 0 b self path) := by
  have hpo := (mem_predicateObjects g b p o).2 h
  have hcap : ¬ (0 ≥ Caps.cloneDepth) := by decide
  unfold cloneBnode
  rw [if_neg hcap, hl]
  simp only [Bool.false_eq_true, if_false]
  exact objTriples_copies _ self path _ p o hpo

theorem listCells_head (g : Graph) (b : Term) (h : isListNode g b = true) :
    ∃ item, ((b, item), 0) ∈ cloneItems g b := by
  unfold isListNode at h
  rw [List.any_eq_true] at h
  obtain ⟨⟨p, o⟩, hx, hp⟩ := h
  simp only [decide_eq_true_eq] at hp
  subst hp
  have hmem : o ∈ g.objects b rdfFirst := Graph.mem_objects.2 ((mem_predicateObjects g b rdfFirst o).1 hx)
  have hval : ∃ item, g.value b rdfFirst = some item := by
    unfold Graph.value
    cases hobj : g.objects b rdfFirst with
    | nil => rw [hobj] at hmem; simp at hmem
    | cons a as => exact ⟨a, rfl⟩
  obtain ⟨item, hitem⟩ := hval
  refine ⟨item, ?_⟩
  unfold cloneItems
  rw [List.mem_zipIdx_iff_getElem?]
  simp only [listCells, List.not_mem_nil, if_false, hitem]
  rfl

/-- a list node that carries further statements: those (everything but rdf:first / rdf:rest) are copied onto the
    rebuilt list's head too -/
theorem cloneBnode_copies_list_extras (g : Graph) (fuel : Nat) (b : String) (self : RNode) (path : List Nat)
    (hl : isListNode g (.bnode b) = true) (p o : Term) (h : (⟨.bnode b, p, o⟩ : Triple) ∈ g)
    (hp1 : p ≠ rdfFirst) (hp2 : p ≠ rdfRest) :
    (o.isBnode = false → (⟨self, p, .term o⟩ : RTriple) ∈ cloneBnode g (fuel + 1) 0 (.bnode b) self path) ∧
    (o.isBnode = true → ∃ k, (⟨self, p, .cl k⟩ : RTriple) ∈ cloneBnode g (fuel + 1) 0 (.bnode b) self path) := by
  have hpo : (p, o) ∈ (g.predicateObjects (.bnode b)).filter isExtra := by
    rw [List.mem_filter]
    exact ⟨(mem_predicateObjects g _ p o).2 h, by simp [isExtra, hp1, hp2]⟩
  obtain ⟨item, hitem⟩ := listCells_head g (.bnode b) hl
  have hcap : ¬ (0 ≥ Caps.cloneDepth) := by decide
  have key := objTriples_copies (cloneBnode g fuel (0 + 2)) (cellNode self path 0) ((3 * 0 + 2) :: path) _ p o hpo
  unfold cloneBnode
  rw [if_neg hcap, hl]
  simp only [if_true, List.mem_append, List.mem_flatMap]
  constructor
  · intro hb
    exact Or.inr ⟨_, hitem, by simpa [Term.isBnode, cellNode] using key.1 hb⟩
  · intro hb
    obtain ⟨k, hk⟩ := key.2 hb
    exact ⟨k, Or.inr ⟨_, hitem, by simpa [Term.isBnode, cellNode] using hk⟩⟩

theorem mem_cloneKeys (ps : List Pending) (src : Src) (b : String) :
    (src, Term.bnode b) ∈ cloneKeys ps ↔ ∃ x ∈ ps, x.o = .from src (.bnode b) := by
  unfold cloneKeys
  rw [List.mem_eraseDups, List.mem_filterMap]
  constructor
  · rintro ⟨x, hx, h⟩
    refine ⟨x, hx, ?_⟩
    split at h
    · rename_i s' b' he; simp at h; rw [he, h.1, h.2]
    · simp at h
  · rintro ⟨x, hx, h⟩
    exact ⟨x, hx, by rw [h]⟩

theorem clones_copy (sg dg : Graph) (ps : List Pending) (src : Src) (b : String)
    (hk : (src, Term.bnode b) ∈ cloneKeys ps) (hl : isListNode (srcGraph sg dg src) (.bnode b) = false)
    (p o : Term) (h : (⟨.bnode b, p, o⟩ : Triple) ∈ srcGraph sg dg src) :
    (o.isBnode = false → (⟨.term (.bnode b), p, .term o⟩ : RTriple) ∈ clones sg dg ps) ∧
    (o.isBnode = true → ∃ k, (⟨.term (.bnode b), p, .cl k⟩ : RTriple) ∈ clones sg dg ps) := by
  obtain ⟨i, hi⟩ := List.mem_iff_getElem?.1 hk
  have hz : ((src, Term.bnode b), i) ∈ (cloneKeys ps).zipIdx := List.mem_zipIdx_iff_getElem?.2 hi
  have := cloneBnode_copies (srcGraph sg dg src) Caps.cloneDepth (.bnode b) (.term (.bnode b))
    [i, srcTag src] hl p o h
  unfold clones
  simp only [List.mem_flatMap]
  constructor
  · intro hb; exact ⟨_, hz, this.1 hb⟩
  · intro hb; obtain ⟨k, hk⟩ := this.2 hb; exact ⟨k, _, hz, hk⟩

/-- statements other than rdf:first / rdf:rest about a resolved blank node are copied whether or not it is a list node -/
theorem clones_copy_statements (sg dg : Graph) (ps : List Pending) (src : Src) (b : String)
    (hk : (src, Term.bnode b) ∈ cloneKeys ps)
    (p o : Term) (h : (⟨.bnode b, p, o⟩ : Triple) ∈ srcGraph sg dg src) (hp1 : p ≠ rdfFirst) (hp2 : p ≠ rdfRest) :
    (o.isBnode = false → (⟨.term (.bnode b), p, .term o⟩ : RTriple) ∈ clones sg dg ps) ∧
    (o.isBnode = true → ∃ k, (⟨.term (.bnode b), p, .cl k⟩ : RTriple) ∈ clones sg dg ps) := by
  cases hl : isListNode (srcGraph sg dg src) (.bnode b) with
  | false => exact clones_copy sg dg ps src b hk hl p o h
  | true =>
    obtain ⟨i, hi⟩ := List.mem_iff_getElem?.1 hk
    have hz : ((src, Term.bnode b), i) ∈ (cloneKeys ps).zipIdx := List.mem_zipIdx_iff_getElem?.2 hi
    have := cloneBnode_copies_list_extras (srcGraph sg dg src) Caps.cloneDepth b (.term (.bnode b))
      [i, srcTag src] hl p o h hp1 hp2
    unfold clones
    simp only [List.mem_flatMap]
    constructor
    · intro hb; exact ⟨_, hz, this.1 hb⟩
    · intro hb; obtain ⟨k, hk⟩ := this.2 hb; exact ⟨k, _, hz, hk⟩

/-! ### the report graph -/

theorem mem_reportGraph (sg dg : Graph) (conf : Bool) (rs : List Result) (t : RTriple) :
    t ∈ reportGraph sg dg conf rs ↔
      t = ⟨.fresh [], rdfType, .term shValidationReport⟩ ∨ t = ⟨.fresh [], shConforms, .term (boolLit conf)⟩ ∨
      (∃ i, i < rs.length ∧ t = ⟨.fresh [], shResult, .fresh [i]⟩) ∨
      (∃ x ∈ resultsPending dg 0 rs, t = ⟨x.s, x.p, x.o.resolve⟩) ∨
      t ∈ clones sg dg (resultsPending dg 0 rs) := by
  simp only [reportGraph, List.mem_append, List.mem_cons, List.mem_map, List.mem_range, List.not_mem_nil, or_false]
  constructor
  · intro h
    rcases h with h | h
    · rcases h with h | h
      · rcases h with h | h
        · rcases h with h | h
          · exact Or.inl h
          · exact Or.inr (Or.inl h)
        · obtain ⟨i, hi, h⟩ := h
          exact Or.inr (Or.inr (Or.inl ⟨i, hi, h.symm⟩))
      · obtain ⟨x, hx, h⟩ := h
        exact Or.inr (Or.inr (Or.inr (Or.inl ⟨x, hx, h.symm⟩)))
    · exact Or.inr (Or.inr (Or.inr (Or.inr h)))
  · intro h
    rcases h with h | h | h | h | h
    · exact Or.inl (Or.inl (Or.inl (Or.inl h)))
    · exact Or.inl (Or.inl (Or.inl (Or.inr h)))
    · obtain ⟨i, hi, h⟩ := h
      exact Or.inl (Or.inl (Or.inr ⟨i, hi, h.symm⟩))
    · obtain ⟨x, hx, h⟩ := h
      exact Or.inl (Or.inr ⟨x, hx, h.symm⟩)
    · exact Or.inr h

/-- triples of the report graph whose subject is a result node are exactly the prepared ones -/
theorem mem_reportGraph_fresh (sg dg : Graph) (conf : Bool) (rs : List Result) (idx : List Nat) (hne : idx ≠ [])
    (p : Term) (o : RNode) :
    (⟨.fresh idx, p, o⟩ : RTriple) ∈ reportGraph sg dg conf rs ↔
      ∃ x ∈ resultsPending dg 0 rs, x.s = .fresh idx ∧ x.p = p ∧ x.o.resolve = o := by
  rw [mem_reportGraph]
  constructor
  · rintro (h | h | ⟨i, _, h⟩ | ⟨x, hx, h⟩ | h)
    · injection h with h; injection h with h; exact absurd h hne
    · injection h with h; injection h with h; exact absurd h hne
    · injection h with h; injection h with h; exact absurd h hne
    · injection h with h1 h2 h3; exact ⟨x, hx, h1.symm, h2.symm, h3.symm⟩
    · rcases clones_subject sg dg _ _ h with ⟨b, hb⟩ | ⟨k, hk⟩
      · simp at hb
      · simp at hk
  · rintro ⟨x, hx, h1, h2, h3⟩
    exact Or.inr (Or.inr (Or.inr (Or.inl ⟨x, hx, by rw [h1, h2, h3]⟩)))

/-- triples about the report node -/
theorem mem_reportGraph_root (sg dg : Graph) (conf : Bool) (rs : List Result) (p : Term) (o : RNode) :
    (⟨.fresh [], p, o⟩ : RTriple) ∈ reportGraph sg dg conf rs ↔
      (p = rdfType ∧ o = .term shValidationReport) ∨ (p = shConforms ∧ o = .term (boolLit conf)) ∨
      (p = shResult ∧ ∃ i, i < rs.length ∧ o = .fresh [i]) := by
  rw [mem_reportGraph]
  constructor
  · rintro (h | h | ⟨i, hi, h⟩ | ⟨x, hx, h⟩ | h)
    · injection h with _ h2 h3; exact Or.inl ⟨h2, h3⟩
    · injection h with _ h2 h3; exact Or.inr (Or.inl ⟨h2, h3⟩)
    · injection h with _ h2 h3; exact Or.inr (Or.inr ⟨h2, i, hi, h3⟩)
    · injection h with h1 _ _; exact absurd h1.symm (resultsPending_not_root dg rs x hx)
    · rcases clones_subject sg dg _ _ h with ⟨b, hb⟩ | ⟨k, hk⟩
      · simp at hb
      · simp at hk
  · rintro (⟨h1, h2⟩ | ⟨h1, h2⟩ | ⟨h1, i, hi, h2⟩)
    · subst h1 h2; exact Or.inl rfl
    · subst h1 h2; exact Or.inr (Or.inl rfl)
    · subst h1 h2; exact Or.inr (Or.inr (Or.inl ⟨i, hi, rfl⟩))

def Result.rpath : Result → Option Term | .mk _ _ p _ _ _ _ _ _ => p
def Result.source : Result → Option Term | .mk _ _ _ _ _ _ _ _ s => s

theorem mem_ownPending (dg : Graph) (idx : List Nat) (r : Result) (x : Pending) :
    x ∈ ownPending dg idx r ↔
      x = ⟨.fresh idx, rdfType, .direct shValidationResult⟩ ∨
      x = ⟨.fresh idx, shSourceConstraintComponent, .from .sg r.component⟩ ∨
      x = ⟨.fresh idx, shSourceShape, .from .sg r.shape⟩ ∨
      x = ⟨.fresh idx, shResultSeverity, .direct r.severity⟩ ∨
      x = ⟨.fresh idx, shFocusNode, .from (focusSrc dg) r.focus⟩ ∨
      (∃ t, r.value = some t ∧ x = ⟨.fresh idx, shValue, .from .dg t⟩) ∨
      (∃ t, r.rpath = some t ∧ x = ⟨.fresh idx, shResultPath, .from .sg t⟩) ∨
      (∃ t, r.source = some t ∧ x = ⟨.fresh idx, shSourceConstraint, .from .sg t⟩) ∨
      (∃ m ∈ r.messages, x = ⟨.fresh idx, shResultMessage, .direct m⟩) := by
  cases r with
  | mk f v p c s sev msgs det src =>
    simp only [ownPending, List.mem_append, List.mem_map, List.mem_cons, List.not_mem_nil, or_false,
      Result.component, Result.shape, Result.severity, Result.focus, Result.value, Result.rpath, Result.source, Result.messages]
    cases v <;> cases p <;> cases src <;> simp [optPending, or_assoc, eq_comm]

end Pyshacl
