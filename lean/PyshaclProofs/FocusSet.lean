/-
  FocusSet.lean — the outcome of a constraint component, and of a whole shape evaluation, depends on the
  focus → value-node map (and on the focus list) only as a *set*: python hands the focus nodes over in the
  iteration order of a set; any order, and any duplication, gives the same verdict and the same set of results.
  (C09: determinism under set iteration order; C13: the report is a function of the set of focus nodes.)
-/
import PyshaclProofs.EvalLemmas
namespace Pyshacl

def SameMem {α} (l l' : List α) : Prop := ∀ x, x ∈ l ↔ x ∈ l'

/-- same verdict, same set of results (when the first computation returns) -/
def OutSim (o o' : Out) : Prop :=
  ∀ c rs, o = .ok (c, rs) → ∃ rs', o' = .ok (c, rs') ∧ ∀ r, r ∈ rs ↔ r ∈ rs'

theorem OutSim.refl (o : Out) : OutSim o o := fun c rs h => ⟨rs, h, fun _ => Iff.rfl⟩

theorem outSim_ofResults (rs rs' : List Result) (h : ∀ r, r ∈ rs ↔ r ∈ rs') : OutSim (ofResults rs) (ofResults rs') := by
  intro c r0 h0
  simp only [ofResults, Except.ok.injEq, Prod.mk.injEq] at h0
  obtain ⟨hc, hr⟩ := h0
  subst hr
  refine ⟨rs', ?_, h⟩
  simp only [ofResults, Except.ok.injEq, Prod.mk.injEq, and_true]
  rw [← hc]
  cases rs with
  | nil =>
    cases rs' with
    | nil => rfl
    | cons a b => exact absurd ((h a).2 List.mem_cons_self) (by simp)
  | cons a b =>
    cases rs' with
    | nil => exact absurd ((h a).1 List.mem_cons_self) (by simp)
    | cons a' b' => rfl

theorem mem_flatMap_sameMem {α β} (l l' : List α) (g : α → List β) (h : SameMem l l') (r : β) :
    r ∈ l.flatMap g ↔ r ∈ l'.flatMap g := by
  simp only [List.mem_flatMap]
  constructor <;> rintro ⟨x, hx, hr⟩
  · exact ⟨x, (h x).1 hx, hr⟩
  · exact ⟨x, (h x).2 hx, hr⟩

theorem mem_filterMap_sameMem {α β} (l l' : List α) (g : α → Option β) (h : SameMem l l') (r : β) :
    r ∈ l.filterMap g ↔ r ∈ l'.filterMap g := by
  simp only [List.mem_filterMap]
  constructor <;> rintro ⟨x, hx, hr⟩
  · exact ⟨x, (h x).1 hx, hr⟩
  · exact ⟨x, (h x).2 hx, hr⟩

/-- what `foldOut` returns, element-wise -/
theorem foldOut_ok_iff {α} (xs : List α) (f : α → Out) (c : Bool) (rs : List Result) (h : foldOut xs f = .ok (c, rs)) :
    (∀ x ∈ xs, ∃ cx rx, f x = .ok (cx, rx)) ∧
    (∀ r, r ∈ rs ↔ ∃ x ∈ xs, ∃ cx rx, f x = .ok (cx, rx) ∧ r ∈ rx) ∧
    (c = true ↔ ∀ x ∈ xs, ∀ cx rx, f x = .ok (cx, rx) → cx = true) := by
  induction xs generalizing c rs with
  | nil => simp [foldOut] at h; obtain ⟨h1, h2⟩ := h; subst h1; subst h2; simp
  | cons x xs ih =>
    simp only [foldOut] at h
    cases hx : f x with
    | error e => simp [hx] at h
    | ok p =>
      obtain ⟨cx, rx⟩ := p
      simp only [hx] at h
      cases hr : foldOut xs f with
      | error e => simp [hr] at h
      | ok q =>
        obtain ⟨c2, rs2⟩ := q
        simp only [hr, Except.ok.injEq, Prod.mk.injEq] at h
        obtain ⟨hc, hrs⟩ := h
        obtain ⟨i1, i2, i3⟩ := ih c2 rs2 hr
        subst hc; subst hrs
        refine ⟨?_, ?_, ?_⟩
        · intro y hy
          rcases List.mem_cons.1 hy with rfl | hy
          · exact ⟨cx, rx, hx⟩
          · exact i1 y hy
        · intro r
          simp only [List.mem_append, List.mem_cons]
          constructor
          · rintro (h1 | h1)
            · exact ⟨x, Or.inl rfl, cx, rx, hx, h1⟩
            · obtain ⟨y, hy, cy, ry, hfy, hry⟩ := (i2 r).1 h1
              exact ⟨y, Or.inr hy, cy, ry, hfy, hry⟩
          · rintro ⟨y, hy, cy, ry, hfy, hry⟩
            rcases hy with rfl | hy
            · rw [hx] at hfy; cases hfy; exact Or.inl hry
            · exact Or.inr ((i2 r).2 ⟨y, hy, cy, ry, hfy, hry⟩)
        · simp only [Bool.and_eq_true, List.mem_cons]
          constructor
          · rintro ⟨h1, h2⟩ y hy cy ry hfy
            rcases hy with rfl | hy
            · rw [hx] at hfy; cases hfy; exact h1
            · exact i3.1 h2 y hy cy ry hfy
          · intro hall
            exact ⟨hall x (Or.inl rfl) cx rx hx, i3.2 (fun y hy cy ry hfy => hall y (Or.inr hy) cy ry hfy)⟩

/-- `foldOut` returns as soon as every element does -/
theorem foldOut_total {α} (xs : List α) (f : α → Out) (h : ∀ x ∈ xs, ∃ cx rx, f x = .ok (cx, rx)) :
    ∃ c rs, foldOut xs f = .ok (c, rs) := by
  induction xs with
  | nil => exact ⟨true, [], rfl⟩
  | cons x xs ih =>
    obtain ⟨cx, rx, hx⟩ := h x List.mem_cons_self
    obtain ⟨c2, rs2, hr⟩ := ih (fun y hy => h y (List.mem_cons_of_mem _ hy))
    exact ⟨cx && c2, rx ++ rs2, by simp [foldOut, hx, hr]⟩

/-- `foldOut` over two lists with the same members, element outcomes related by `OutSim` -/
theorem foldOut_sim {α} (xs xs' : List α) (f f' : α → Out) (hm : SameMem xs xs') (hf : ∀ x, OutSim (f x) (f' x)) :
    OutSim (foldOut xs f) (foldOut xs' f') := by
  intro c rs h
  obtain ⟨i1, i2, i3⟩ := foldOut_ok_iff xs f c rs h
  have tot : ∀ x ∈ xs', ∃ cx rx, f' x = .ok (cx, rx) := by
    intro x hx
    obtain ⟨cx, rx, hfx⟩ := i1 x ((hm x).2 hx)
    obtain ⟨rx', hfx', _⟩ := hf x cx rx hfx
    exact ⟨cx, rx', hfx'⟩
  obtain ⟨c', rs', h'⟩ := foldOut_total xs' f' tot
  obtain ⟨j1, j2, j3⟩ := foldOut_ok_iff xs' f' c' rs' h'
  have hcc : c' = c := by
    cases hc : c with
    | true =>
      rw [j3]
      intro x hx cx rx hfx
      obtain ⟨cx0, rx0, hfx0⟩ := i1 x ((hm x).2 hx)
      obtain ⟨rx', hfx', _⟩ := hf x cx0 rx0 hfx0
      have e := Except.ok.inj (hfx'.symm.trans hfx)
      rw [← (Prod.mk.inj e).1]
      exact (i3.1 hc) x ((hm x).2 hx) cx0 rx0 hfx0
    | false =>
      cases hc' : c' with
      | false => rfl
      | true =>
        exfalso
        have : c = true := by
          rw [i3]
          intro x hx cx rx hfx
          obtain ⟨rx', hfx', _⟩ := hf x cx rx hfx
          exact (j3.1 hc') x ((hm x).1 hx) cx rx' hfx'
        rw [hc] at this; cases this
  subst hcc
  refine ⟨rs', h', ?_⟩
  intro r
  rw [i2, j2]
  constructor
  · rintro ⟨x, hx, cx, rx, hfx, hr⟩
    obtain ⟨rx', hfx', hmem⟩ := hf x cx rx hfx
    exact ⟨x, (hm x).1 hx, cx, rx', hfx', (hmem r).1 hr⟩
  · rintro ⟨x, hx, cx', rx', hfx', hr⟩
    obtain ⟨cx, rx, hfx⟩ := i1 x ((hm x).2 hx)
    obtain ⟨rx'', hfx'', hmem⟩ := hf x cx rx hfx
    have e := Except.ok.inj (hfx''.symm.trans hfx')
    have e2 : rx'' = rx' := (Prod.mk.inj e).2
    rw [← e2] at hr
    exact ⟨x, (hm x).2 hx, cx, rx, hfx, (hmem r).2 hr⟩

end Pyshacl

namespace Pyshacl

/-! ### component evaluators over two focus → value-node maps with the same entries -/

theorem perValue_sameMem (s : Shape) (k : CKind) (fv fv' : FV) (ok : Term → Term → Bool) (hm : SameMem fv fv') (r : Result) :
    r ∈ perValue s k fv ok ↔ r ∈ perValue s k fv' ok := by
  unfold perValue; exact mem_flatMap_sameMem fv fv' _ hm r

theorem valueCount_lt_one (fv : FV) : valueCount fv < 1 ↔ ∀ e ∈ fv, e.2 = [] := by
  unfold valueCount
  induction fv with
  | nil => simp
  | cons x xs ih =>
    obtain ⟨f, vs⟩ := x
    simp only [List.map_cons, List.sum_cons, List.mem_cons, forall_eq_or_imp]
    constructor
    · intro h
      have h1 : vs.length = 0 := by omega
      have h2 : (List.map (fun x => x.2.length) xs).sum < 1 := by omega
      exact ⟨List.length_eq_zero_iff.1 h1, ih.1 h2⟩
    · rintro ⟨h1, h2⟩
      have := ih.2 h2
      simp [h1] at this ⊢; omega

theorem valueCount_sameMem (fv fv' : FV) (hm : SameMem fv fv') : (valueCount fv < 1) = (valueCount fv' < 1) := by
  apply propext
  rw [valueCount_lt_one, valueCount_lt_one]
  constructor <;> intro h e he
  · exact h e ((hm e).2 he)
  · exact h e ((hm e).1 he)

theorem logicalOver_sim (rec : Rec) (s : Shape) (k : CKind) (path : List PathEntry) (fv fv' : FV) (hm : SameMem fv fv')
    (members : List Shape) (bad : List Bool → Bool) :
    OutSim (logicalOver rec s k path fv members bad) (logicalOver rec s k path fv' members bad) := by
  unfold logicalOver
  exact foldOut_sim fv fv' _ _ hm (fun _ => OutSim.refl _)

theorem nodeOver_sim (rec : Rec) (s : Shape) (path : List PathEntry) (fv fv' : FV) (hm : SameMem fv fv') (ns : Shape) :
    OutSim (nodeOver rec s path fv ns) (nodeOver rec s path fv' ns) := by
  unfold nodeOver
  exact foldOut_sim fv fv' _ _ hm (fun _ => OutSim.refl _)

theorem propertyOver_sim (rec : Rec) (path : List PathEntry) (fv fv' : FV) (hm : SameMem fv fv') (ps : Shape) :
    OutSim (propertyOver rec path fv ps) (propertyOver rec path fv' ps) := by
  unfold propertyOver
  exact foldOut_sim fv fv' _ _ hm (fun _ => OutSim.refl _)

theorem qualifiedOver_sim (rec : Rec) (s : Shape) (k : CKind) (path : List PathEntry) (fv fv' : FV) (hm : SameMem fv fv')
    (other : Shape) (siblings : List Shape) (minC maxC : Option Int) :
    OutSim (qualifiedOver rec s k path fv other siblings minC maxC) (qualifiedOver rec s k path fv' other siblings minC maxC) := by
  unfold qualifiedOver
  exact foldOut_sim fv fv' _ _ hm (fun _ => OutSim.refl _)

theorem liftResults_sim (x x' : Except Failure (List Result))
    (h : ∀ rs, x = .ok rs → ∃ rs', x' = .ok rs' ∧ ∀ r, r ∈ rs ↔ r ∈ rs') : OutSim (liftResults x) (liftResults x') := by
  unfold liftResults
  cases x with
  | error e => intro c rs hc; cases hc
  | ok rs =>
    obtain ⟨rs', hx', hmem⟩ := h rs rfl
    rw [hx']
    exact outSim_ofResults rs rs' hmem

theorem pattern_sim (s : Shape) (fv fv' : FV) (hm : SameMem fv fv') (rx : Regex) (ps : List Term) (flags : String) :
    OutSim (liftResults (evalPattern s fv rx ps flags)) (liftResults (evalPattern s fv' rx ps flags)) := by
  apply liftResults_sim
  intro rs h
  unfold evalPattern at h ⊢
  simp only [] at h ⊢
  have hmiss : ∀ (g : Term × List Term → Bool), (fv.any g) = (fv'.any g) := by
    intro g
    cases h1 : fv.any g <;> cases h2 : fv'.any g <;> try rfl
    · rw [List.any_eq_true] at h2; obtain ⟨x, hx, hg⟩ := h2
      have : fv.any g = true := List.any_eq_true.2 ⟨x, (hm x).2 hx, hg⟩
      rw [h1] at this; cases this
    · rw [List.any_eq_true] at h1; obtain ⟨x, hx, hg⟩ := h1
      have : fv'.any g = true := List.any_eq_true.2 ⟨x, (hm x).1 hx, hg⟩
      rw [h2] at this; cases this
  simp only [hmiss] at h
  split at h
  · cases h
  · rename_i hno
    cases h
    rw [if_neg hno]
    refine ⟨_, rfl, ?_⟩
    intro r
    exact mem_flatMap_sameMem _ _ _ (fun _ => Iff.rfl) r |>.trans (by
      simp only [List.mem_flatMap]
      constructor <;> rintro ⟨p, hp, hr⟩
      · exact ⟨p, hp, (perValue_sameMem s _ fv fv' _ hm r).1 hr⟩
      · exact ⟨p, hp, (perValue_sameMem s _ fv fv' _ hm r).2 hr⟩)

theorem lessThan_sim (s : Shape) (k : CKind) (dg : Graph) (fv fv' : FV) (hm : SameMem fv fv') (props : List Term) (test : Int → Bool) :
    OutSim (liftResults (evalLessThan s k dg fv props test)) (liftResults (evalLessThan s k dg fv' props test)) := by
  apply liftResults_sim
  intro rs h
  unfold evalLessThan at h ⊢
  split at h
  · cases h
  · rename_i hno
    cases h
    rw [if_neg hno]
    refine ⟨_, rfl, ?_⟩
    intro r
    simp only [List.mem_flatMap]
    constructor <;> rintro ⟨p, hp, x, hx, hr⟩
    · exact ⟨p, hp, x, (hm x).1 hx, hr⟩
    · exact ⟨p, hp, x, (hm x).2 hx, hr⟩

end Pyshacl

namespace Pyshacl

/-- membership in the result list of a list-comprehension evaluator depends on `fv` only through membership -/
macro "fv_mem" hm:ident : tactic =>
  `(tactic| (intro r; simp only [perValue, List.mem_flatMap, List.mem_filterMap, List.mem_map, List.mem_append, List.mem_filter, $hm:ident]))

theorem evalConstraint_sim (e : Env) (rec : Rec) (s : Shape) (k : CKind) (fv fv' : FV) (hm : SameMem fv fv')
    (path : List PathEntry) (hk : k ≠ .expression) :
    OutSim (evalConstraint e rec s k fv path) (evalConstraint e rec s k fv' path) := by
  have hm' : ∀ x, x ∈ fv ↔ x ∈ fv' := hm
  have hvc := valueCount_sameMem fv fv' hm
  cases k
  case expression => exact absurd rfl hk
  all_goals simp only [evalConstraint, hvc]
  all_goals
    repeat' first
      | exact OutSim.refl _
      | exact logicalOver_sim rec _ _ _ fv fv' hm _ _
      | exact nodeOver_sim rec _ _ fv fv' hm _
      | exact propertyOver_sim rec _ fv fv' hm _
      | exact qualifiedOver_sim rec _ _ _ fv fv' hm _ _ _ _
      | exact pattern_sim _ fv fv' hm _ _ _
      | exact lessThan_sim _ _ _ fv fv' hm _ _
      | exact foldOut_sim fv fv' _ _ hm (fun _ => OutSim.refl _)
      | (apply foldOut_sim _ _ _ _ (fun _ => Iff.rfl); intro _)
      | split
  all_goals
    apply outSim_ofResults
    intro r
    simp only [evalClass, evalDatatype, evalNodeKind, evalMinCount, evalMaxCount, evalRange, evalMinLength, evalMaxLength,
      evalLanguageIn, evalUniqueLang, evalEquals, evalDisjoint, evalHasValue, evalIn, evalClosed, perValue]
    (try split) <;>
    simp only [List.mem_flatMap, List.mem_filterMap, List.mem_map, List.mem_append, List.mem_filter, hm']

end Pyshacl

namespace Pyshacl

theorem evalComponent_sim (e : Env) (s : Shape) (comp : Component) (fv fv' : FV) (hm : SameMem fv fv') :
    OutSim (evalComponent e s comp fv) (evalComponent e s comp fv') := by
  unfold evalComponent
  repeat' first
    | exact OutSim.refl _
    | exact foldOut_sim fv fv' _ _ hm (fun _ => OutSim.refl _)
    | split
    | dsimp only

theorem constraintFails_mem (o : Opts) (top c : Bool) (rs rs' : List Result) (h : ∀ r, r ∈ rs ↔ r ∈ rs') :
    constraintFails o top c rs = constraintFails o top c rs' := by
  unfold constraintFails
  split
  · rfl
  · cases h1 : rs.any (fun r => decide (r.severity ∉ allowedSeverities o)) <;>
    cases h2 : rs'.any (fun r => decide (r.severity ∉ allowedSeverities o)) <;> try rfl
    · rw [List.any_eq_true] at h2; obtain ⟨x, hx, hg⟩ := h2
      have : rs.any (fun r => decide (r.severity ∉ allowedSeverities o)) = true := List.any_eq_true.2 ⟨x, (h x).2 hx, hg⟩
      rw [h1] at this; cases this
    · rw [List.any_eq_true] at h1; obtain ⟨x, hx, hg⟩ := h1
      have : rs'.any (fun r => decide (r.severity ∉ allowedSeverities o)) = true := List.any_eq_true.2 ⟨x, (h x).1 hx, hg⟩
      rw [h2] at this; cases this

/-- a complete constraint loop over component outcomes that are the same up to the order of their results -/
theorem loopE_sim {α} (o : Opts) (top : Bool) (f f' : α → Out) :
    ∀ (xs : List α), (∀ x ∈ xs, OutSim (f x) (f' x)) → ∀ (nc : Bool) (rs : List Result),
      loopE false (constraintFails o top) f xs = .ok (nc, rs) →
      ∃ rs', loopE false (constraintFails o top) f' xs = .ok (nc, rs') ∧ ∀ r, r ∈ rs ↔ r ∈ rs' := by
  intro xs
  induction xs with
  | nil =>
    intro _ nc rs h
    simp only [loopE, Except.ok.injEq, Prod.mk.injEq] at h
    obtain ⟨h1, h2⟩ := h
    subst h1; subst h2
    exact ⟨[], rfl, fun _ => Iff.rfl⟩
  | cons x xs ih =>
    intro hf nc rs h
    simp only [loopE, Bool.and_false, Bool.false_eq_true, if_false] at h ⊢
    cases hx : f x with
    | error e => simp [hx] at h
    | ok p =>
      obtain ⟨cx, rx⟩ := p
      simp only [hx] at h
      obtain ⟨rx', hx', hmem⟩ := hf x List.mem_cons_self cx rx hx
      simp only [hx']
      cases hl : loopE false (constraintFails o top) f xs with
      | error e => simp [hl] at h
      | ok q =>
        obtain ⟨nc2, rs2⟩ := q
        simp only [hl, Except.ok.injEq, Prod.mk.injEq] at h
        obtain ⟨rs2', hl', hmem2⟩ := ih (fun y hy => hf y (List.mem_cons_of_mem _ hy)) nc2 rs2 hl
        simp only [hl']
        refine ⟨rx' ++ rs2', ?_, ?_⟩
        · rw [← constraintFails_mem o top cx rx rx' hmem, h.1]
        · intro r
          rw [← h.2]
          simp only [List.mem_append, hmem r, hmem2 r]

theorem mapE_sameMem {α β} (g : α → Except Failure β) (xs xs' : List α) (hm : SameMem xs xs') (ys : List β)
    (h : mapE g xs = .ok ys) : ∃ ys', mapE g xs' = .ok ys' ∧ SameMem ys ys' := by
  have key : ∀ (l : List α) (out : List β), mapE g l = .ok out → (∀ x ∈ l, ∃ y, g x = .ok y) ∧ (∀ y, y ∈ out ↔ ∃ x ∈ l, g x = .ok y) := by
    intro l
    induction l with
    | nil => intro out h; simp [mapE] at h; subst h; simp
    | cons a l ih =>
      intro out h
      simp only [mapE] at h
      cases ha : g a with
      | error e => simp [ha] at h
      | ok b =>
        simp only [ha] at h
        cases hr : mapE g l with
        | error e => simp [hr] at h
        | ok bs =>
          simp only [hr, Except.ok.injEq] at h
          subst h
          obtain ⟨i1, i2⟩ := ih bs hr
          refine ⟨?_, ?_⟩
          · intro x hx
            rcases List.mem_cons.1 hx with rfl | hx
            · exact ⟨b, ha⟩
            · exact i1 x hx
          · intro y
            simp only [List.mem_cons]
            constructor
            · rintro (rfl | hy)
              · exact ⟨a, Or.inl rfl, ha⟩
              · obtain ⟨x, hx, hgx⟩ := (i2 y).1 hy; exact ⟨x, Or.inr hx, hgx⟩
            · rintro ⟨x, hx, hgx⟩
              rcases hx with rfl | hx
              · rw [ha] at hgx; cases hgx; exact Or.inl rfl
              · exact Or.inr ((i2 y).2 ⟨x, hx, hgx⟩)
  have tot : ∀ (l : List α), (∀ x ∈ l, ∃ y, g x = .ok y) → ∃ out, mapE g l = .ok out := by
    intro l
    induction l with
    | nil => intro _; exact ⟨[], rfl⟩
    | cons a l ih =>
      intro hall
      obtain ⟨b, hb⟩ := hall a List.mem_cons_self
      obtain ⟨bs, hbs⟩ := ih (fun x hx => hall x (List.mem_cons_of_mem _ hx))
      exact ⟨b :: bs, by simp [mapE, hb, hbs]⟩
  obtain ⟨i1, i2⟩ := key xs ys h
  obtain ⟨ys', hys'⟩ := tot xs' (fun x hx => i1 x ((hm x).2 hx))
  obtain ⟨_, j2⟩ := key xs' ys' hys'
  refine ⟨ys', hys', ?_⟩
  intro y
  rw [i2, j2]
  constructor <;> rintro ⟨x, hx, hg⟩
  · exact ⟨x, (hm x).1 hx, hg⟩
  · exact ⟨x, (hm x).2 hx, hg⟩

theorem valueNodes_sameMem (e : Env) (s : Shape) (fl fl' : List Term) (hm : SameMem fl fl') (fv : FV)
    (h : valueNodes e s fl = .ok fv) : ∃ fv', valueNodes e s fl' = .ok fv' ∧ SameMem fv fv' := by
  unfold valueNodes at h ⊢
  by_cases hp : (!s.isProp) = true
  · simp only [hp, if_true, Except.ok.injEq] at h ⊢
    subst h
    refine ⟨_, rfl, ?_⟩
    intro x
    simp only [List.mem_map]
    constructor <;> rintro ⟨f, hf, rfl⟩
    · exact ⟨f, (hm f).1 hf, rfl⟩
    · exact ⟨f, (hm f).2 hf, rfl⟩
  · simp only [hp, if_false] at h ⊢
    cases hpath : s.path with
    | none => simp [hpath] at h
    | some pn =>
      simp only [hpath] at h ⊢
      exact mapE_sameMem _ fl fl' hm fv h

end Pyshacl

namespace Pyshacl

theorem ofClassName_ne_expression (x : String) : CKind.ofClassName x ≠ some .expression := by
  intro h
  unfold CKind.ofClassName at h
  split at h <;> cases h

theorem shapeComponents_no_expression (sg : Graph) (node : Term) (k : CKind)
    (h : k ∈ shapeComponents sg node false) : k ≠ .expression := by
  unfold shapeComponents at h
  simp only [List.mem_reverse, mem_dedup, List.mem_filterMap] at h
  obtain ⟨⟨p, o⟩, _, hk⟩ := h
  simp only [Bool.false_eq_true, false_and, if_false] at hk
  intro he
  subst he
  unfold paramKind at hk
  cases hp : p with
  | iri sp =>
    rw [hp] at hk
    simp only [] at hk
    cases hf : Dispatch.paramTable.find? (fun r => r.1 = sp) with
    | none => rw [hf] at hk; simp at hk
    | some r =>
      rw [hf] at hk
      simp only [] at hk
      split at hk
      · rename_i k' hk'
        cases hk
        exact ofClassName_ne_expression _ hk'
      · cases hk
  | bnode b => rw [hp] at hk; simp at hk
  | lit l => rw [hp] at hk; simp at hk

/-- **the report of a shape evaluation is a function of the *set* of focus nodes**: two focus lists with the same
    members (any order, any repetition — python hands them over in set iteration order) give the same verdict
    and the same set of results; complete runs, Core and SPARQL components (advanced mode: sampled) -/
theorem validateCore_focus_set (c : Ctx) (hab : c.o.abortOnFirst = false) (hadv : c.o.advanced = false) (rec' : Rec)
    (s : Shape) (fl fl' : List Term) (hm : SameMem fl fl') (path : Option (List PathEntry)) :
    OutSim (validateCore c rec' s fl path) (validateCore c rec' s fl' path) := by
  intro conf rs h
  unfold validateCore at h ⊢
  simp only [hab, hadv, Bool.false_and] at h ⊢
  split at h
  · cases h
  · rename_i hdepth
    rw [if_neg hdepth]
    cases hv : valueNodes c.toEnv s fl with
    | error e => rw [hv] at h; cases h
    | ok fv =>
      rw [hv] at h
      obtain ⟨fv', hv', hmem⟩ := valueNodes_sameMem c.toEnv s fl fl' hm fv hv
      rw [hv']
      simp only [] at h ⊢
      split at h
      · cases h
      · rename_i nc rs1 hl1
        -- every component of the shape is a Core / SPARQL component
        have hcomp : ∀ k ∈ shapeComponents c.sg s.node false, k ≠ .expression :=
          fun k hk => shapeComponents_no_expression c.sg s.node k hk
        have hl1' := loopE_sim c.o path.isNone
          (fun k => evalConstraint c.toEnv rec' s k fv (path.getD [] ++ [PathEntry.shape s.node] ++ [PathEntry.constr k s.node]))
          (fun k => evalConstraint c.toEnv rec' s k fv' (path.getD [] ++ [PathEntry.shape s.node] ++ [PathEntry.constr k s.node]))
          (shapeComponents c.sg s.node false)
          (fun k hk => evalConstraint_sim c.toEnv rec' s k fv fv' hmem _ (hcomp k hk)) nc rs1 hl1
        obtain ⟨rs1', hl1', hmem1⟩ := hl1'
        rw [hl1']
        simp only []
        split at h
        · cases h
        · rename_i comps hcomps
          simp only [Bool.and_false, Bool.false_eq_true, if_false] at h ⊢
          split at h
          · cases h
          · rename_i nc2 rs2 hl2
            obtain ⟨rs2', hl2', hmem2⟩ := loopE_sim c.o path.isNone
              (fun comp => evalComponent c.toEnv s comp fv) (fun comp => evalComponent c.toEnv s comp fv') _
              (fun comp _ => evalComponent_sim c.toEnv s comp fv fv' hmem) nc2 rs2 hl2
            rw [hl2']
            cases h
            exact ⟨rs1' ++ rs2', rfl, fun r => by simp only [List.mem_append, hmem1 r, hmem2 r]⟩

end Pyshacl
