/-
  CoreSpec2.lean — C01 continued: value-range, string-based, property-pair and "other" components
  against the W3C text (see CoreSpec.lean for conventions).
-/
import PyshaclProofs.CoreSpec
namespace Pyshacl
namespace Spec

/-! ### value-range components (W3C 4.3) -/

/-- literals of different python "stringness" are of different operand categories: no SPARQL
    comparison between them returns true (this is the `min_is_string / v_is_string` guard) -/
theorem strGuard (a b : Lit) (h : isStrVal a ≠ isStrVal b) :
    sparqlLt a b ≠ some true ∧ sparqlLt b a ≠ some true ∧ sparqlLe a b ≠ some true ∧ sparqlLe b a ≠ some true := by
  obtain ⟨alex, adt, alang, aval, aill⟩ := a
  obtain ⟨blex, bdt, blang, bval, bill⟩ := b
  cases aill <;> cases bill <;> cases aval <;> cases bval <;>
    simp [isStrVal, sparqlLt, sparqlLe, operand, opLt, opEq] at h ⊢
  all_goals (by_cases ha : alang = "" ∧ (adt = "" ∨ adt = xsdString) <;>
             by_cases hb : blang = "" ∧ (bdt = "" ∨ bdt = xsdString) <;> simp [ha, hb])

/-- `RangeOk op v b`: both are literals and the SPARQL comparison `op` between them returns true -/
def CmpTrue (op : Lit → Lit → Option Bool) (x y : Term) : Prop :=
  ∃ lx ly, x = .lit lx ∧ y = .lit ly ∧ op lx ly = some true

def TermInScope (t : Term) : Prop := ∀ l, t = .lit l → InScope l

/-- not both language-tagged strings (the pairing whose ordering the property leaves unspecified) -/
def NotBothLang (x y : Term) : Prop := ∀ lx ly, x = .lit lx → y = .lit ly → ¬ BothLang lx ly

theorem rangeOk_spec (v b : Term) (hv : TermInScope v) (hb : TermInScope b) (hl : NotBothLang v b) :
    (rangeOk (fun c => c > 0) v b = true ↔ CmpTrue sparqlLt b v) ∧
    (rangeOk (fun c => c ≥ 0) v b = true ↔ CmpTrue sparqlLe b v) ∧
    (rangeOk (fun c => c < 0) v b = true ↔ CmpTrue sparqlLt v b) ∧
    (rangeOk (fun c => c ≤ 0) v b = true ↔ CmpTrue sparqlLe v b) := by
  unfold rangeOk CmpTrue
  cases v with
  | iri x => simp
  | bnode x => simp
  | lit lv =>
    cases b with
    | iri x => simp
    | bnode x => simp
    | lit lb =>
      simp only [Term.lit.injEq, exists_and_left, exists_eq_left']
      by_cases hg : isStrVal lb = isStrVal lv
      · have := cmpFlag_spec lv lb (hv lv rfl) (hb lb rfl) (hl lv lb rfl rfl)
        simp only [hg, ne_eq, not_true_eq_false, if_false]
        exact ⟨this.2.1, this.2.2.2, this.1, this.2.2.1⟩
      · have := strGuard lb lv hg
        simp only [ne_eq, hg, not_false_eq_true, if_true]
        simp [this.1, this.2.1, this.2.2.1, this.2.2.2]

/-- generic statement for the four components; `op`/`swap` select the operator and operand order -/
theorem range_exact (s : Shape) (k : CKind) (fv : FV) (bounds : List Term) (test : Int → Bool)
    (P : Term → Term → Prop) (hP : ∀ v b, TermInScope v → TermInScope b → NotBothLang v b → (rangeOk test v b = true ↔ P v b))
    (hscope : (∀ b ∈ bounds, TermInScope b) ∧ ∀ f vs, (f, vs) ∈ fv → ∀ v ∈ vs, TermInScope v ∧ ∀ b ∈ bounds, NotBothLang v b) (r : Result) :
    r ∈ evalRange s k fv bounds test ↔
      ∃ b ∈ bounds, ∃ f vs, (f, vs) ∈ fv ∧ ∃ v ∈ vs, ¬ P v b ∧ r = mkResult s k f (some v) := by
  unfold evalRange
  simp only [List.mem_flatMap, mem_perValue]
  constructor
  · rintro ⟨b, hb, f, vs, hfv, v, hv, hok, rfl⟩
    refine ⟨b, hb, f, vs, hfv, v, hv, ?_, rfl⟩
    intro hp
    rw [(hP v b (hscope.2 f vs hfv v hv).1 (hscope.1 b hb) ((hscope.2 f vs hfv v hv).2 b hb)).2 hp] at hok
    cases hok
  · rintro ⟨b, hb, f, vs, hfv, v, hv, hno, rfl⟩
    refine ⟨b, hb, f, vs, hfv, v, hv, ?_, rfl⟩
    cases hok : rangeOk test v b with
    | false => rfl
    | true => exact absurd ((hP v b (hscope.2 f vs hfv v hv).1 (hscope.1 b hb) ((hscope.2 f vs hfv v hv).2 b hb)).1 hok) hno

/-- sh:minExclusive: a result for every value node `v` unless `$minExclusive < v` returns true -/
theorem minExclusive_exact (s : Shape) (fv : FV) (bounds : List Term)
    (hscope : (∀ b ∈ bounds, TermInScope b) ∧ ∀ f vs, (f, vs) ∈ fv → ∀ v ∈ vs, TermInScope v ∧ ∀ b ∈ bounds, NotBothLang v b) (r : Result) :
    r ∈ evalRange s .minExclusive fv bounds (fun c => c > 0) ↔
      ∃ b ∈ bounds, ∃ f vs, (f, vs) ∈ fv ∧ ∃ v ∈ vs, ¬ CmpTrue sparqlLt b v ∧ r = mkResult s .minExclusive f (some v) :=
  range_exact s _ fv bounds _ (fun v b => CmpTrue sparqlLt b v) (fun v b hv hb hl => (rangeOk_spec v b hv hb hl).1) hscope r

theorem minInclusive_exact (s : Shape) (fv : FV) (bounds : List Term)
    (hscope : (∀ b ∈ bounds, TermInScope b) ∧ ∀ f vs, (f, vs) ∈ fv → ∀ v ∈ vs, TermInScope v ∧ ∀ b ∈ bounds, NotBothLang v b) (r : Result) :
    r ∈ evalRange s .minInclusive fv bounds (fun c => c ≥ 0) ↔
      ∃ b ∈ bounds, ∃ f vs, (f, vs) ∈ fv ∧ ∃ v ∈ vs, ¬ CmpTrue sparqlLe b v ∧ r = mkResult s .minInclusive f (some v) :=
  range_exact s _ fv bounds _ (fun v b => CmpTrue sparqlLe b v) (fun v b hv hb hl => (rangeOk_spec v b hv hb hl).2.1) hscope r

theorem maxExclusive_exact (s : Shape) (fv : FV) (bounds : List Term)
    (hscope : (∀ b ∈ bounds, TermInScope b) ∧ ∀ f vs, (f, vs) ∈ fv → ∀ v ∈ vs, TermInScope v ∧ ∀ b ∈ bounds, NotBothLang v b) (r : Result) :
    r ∈ evalRange s .maxExclusive fv bounds (fun c => c < 0) ↔
      ∃ b ∈ bounds, ∃ f vs, (f, vs) ∈ fv ∧ ∃ v ∈ vs, ¬ CmpTrue sparqlLt v b ∧ r = mkResult s .maxExclusive f (some v) :=
  range_exact s _ fv bounds _ (fun v b => CmpTrue sparqlLt v b) (fun v b hv hb hl => (rangeOk_spec v b hv hb hl).2.2.1) hscope r

theorem maxInclusive_exact (s : Shape) (fv : FV) (bounds : List Term)
    (hscope : (∀ b ∈ bounds, TermInScope b) ∧ ∀ f vs, (f, vs) ∈ fv → ∀ v ∈ vs, TermInScope v ∧ ∀ b ∈ bounds, NotBothLang v b) (r : Result) :
    r ∈ evalRange s .maxInclusive fv bounds (fun c => c ≤ 0) ↔
      ∃ b ∈ bounds, ∃ f vs, (f, vs) ∈ fv ∧ ∃ v ∈ vs, ¬ CmpTrue sparqlLe v b ∧ r = mkResult s .maxInclusive f (some v) :=
  range_exact s _ fv bounds _ (fun v b => CmpTrue sparqlLe v b) (fun v b hv hb hl => (rangeOk_spec v b hv hb hl).2.2.2) hscope r

/-! ### sh:lessThan / sh:lessThanOrEquals (W3C 4.5.3, 4.5.4) -/

theorem pairOk_spec (v c : Term) (hv : TermInScope v) (hc : TermInScope c) (hl : NotBothLang v c) :
    (pairOk (fun r => r < 0) v c = true ↔ CmpTrue sparqlLt v c) ∧
    (pairOk (fun r => r ≤ 0) v c = true ↔ CmpTrue sparqlLe v c) := by
  unfold pairOk CmpTrue
  cases v with
  | iri x => simp
  | bnode x => simp
  | lit lv =>
    cases c with
    | iri x => simp
    | bnode x => simp
    | lit lc =>
      simp only [Term.lit.injEq, exists_and_left, exists_eq_left']
      have := cmpFlag_spec lv lc (hv lv rfl) (hc lc rfl) (hl lv lc rfl rfl)
      exact ⟨this.1, this.2.2.1⟩

/-- a result for every pair (value node `v`, value `c` of the compared property at the focus node) for
    which the comparison does not return true — including pairs that cannot be compared (IRIs, blank
    nodes, different categories) -/
theorem lessThan_exact (s : Shape) (k : CKind) (dg : Graph) (fv : FV) (props : List Term) (test : Int → Bool)
    (P : Term → Term → Prop)
    (hP : ∀ v c, TermInScope v → TermInScope c → NotBothLang v c → (pairOk test v c = true ↔ P v c))
    (hscope : (∀ t ∈ dg, TermInScope t.o) ∧ ∀ f vs, (f, vs) ∈ fv → ∀ v ∈ vs, TermInScope v ∧ ∀ t ∈ dg, NotBothLang v t.o)
    (rs : List Result) (h : evalLessThan s k dg fv props test = .ok rs) (r : Result) :
    r ∈ rs ↔ ∃ p ∈ props, ∃ f vs, (f, vs) ∈ fv ∧ ∃ v ∈ vs, ∃ c, (⟨f, p, c⟩ : Triple) ∈ dg ∧ ¬ P v c ∧
      r = mkResult s k f (some v) := by
  unfold evalLessThan at h
  split at h
  · cases h
  · cases h
    simp only [List.mem_flatMap, List.mem_filterMap, mem_dedup, Graph.mem_objects, Prod.exists]
    constructor
    · rintro ⟨p, hp, f, vs, hfv, v, hv, c, hc, hr⟩
      split at hr
      · cases hr
      · rename_i hno
        refine ⟨p, hp, f, vs, hfv, v, hv, c, hc, ?_, by simpa using hr.symm⟩
        intro hp'
        exact hno ((hP v c (hscope.2 f vs hfv v hv).1 (hscope.1 _ hc) ((hscope.2 f vs hfv v hv).2 _ hc)).2 hp')
    · rintro ⟨p, hp, f, vs, hfv, v, hv, c, hc, hno, rfl⟩
      refine ⟨p, hp, f, vs, hfv, v, hv, c, hc, ?_⟩
      have : ¬ pairOk test v c = true := fun hok => hno ((hP v c (hscope.2 f vs hfv v hv).1 (hscope.1 _ hc) ((hscope.2 f vs hfv v hv).2 _ hc)).1 hok)
      simp [this]

/-! ### string-based components (W3C 4.4) -/

/-- `str(v)` of SPARQL: the IRI string or the lexical form (blank nodes have none) -/
def strOf : Term → Option String
  | .iri s => some s
  | .lit l => some l.lex
  | .bnode _ => none

/-- sh:minLength n: a result for each value node that is a blank node or whose `str` is shorter than
    n.  (Blank nodes under `sh:minLength 0` are left unspecified by the property: hypothesis `n ≠ 0`.) -/
theorem minLength_exact (s : Shape) (fv : FV) (n : Int) (hn : n ≠ 0) (r : Result) :
    r ∈ evalMinLength s fv [n] ↔
      ∃ f vs, (f, vs) ∈ fv ∧ ∃ v ∈ vs, ¬ (∃ str, strOf v = some str ∧ (str.length : Int) ≥ n) ∧
        r = mkResult s .minLength f (some v) := by
  unfold evalMinLength
  simp only [List.flatMap_cons, List.flatMap_nil, List.append_nil, mem_perValue, hn, if_false]
  constructor
  · rintro ⟨f, vs, hfv, v, hv, hok, rfl⟩
    refine ⟨f, vs, hfv, v, hv, ?_, rfl⟩
    cases v <;> simp_all [strOf, valueNodeToString] <;> omega
  · rintro ⟨f, vs, hfv, v, hv, hno, rfl⟩
    refine ⟨f, vs, hfv, v, hv, ?_, rfl⟩
    cases v <;> simp_all [strOf, valueNodeToString] <;> omega

theorem maxLength_exact (s : Shape) (fv : FV) (n : Int) (r : Result) :
    r ∈ evalMaxLength s fv [n] ↔
      ∃ f vs, (f, vs) ∈ fv ∧ ∃ v ∈ vs, ¬ (∃ str, strOf v = some str ∧ (str.length : Int) ≤ n) ∧
        r = mkResult s .maxLength f (some v) := by
  unfold evalMaxLength
  simp only [List.flatMap_cons, List.flatMap_nil, List.append_nil, mem_perValue]
  have key : ∀ v : Term, (match v with
      | .bnode _ => false
      | _ => decide (((valueNodeToString v).length : Int) ≤ n)) = false ↔
      ¬ (∃ str, strOf v = some str ∧ (str.length : Int) ≤ n) := by
    intro v
    cases v with
    | bnode x => simp [strOf]
    | iri x =>
      have e : valueNodeToString (.iri x) = x := rfl
      by_cases hle : ((x.length : Int) ≤ n) <;> simp [strOf, e, hle]
    | lit l =>
      have e : valueNodeToString (.lit l) = l.lex := rfl
      by_cases hle : ((l.lex.length : Int) ≤ n) <;> simp [strOf, e, hle]
  constructor
  · rintro ⟨f, vs, hfv, v, hv, hok, rfl⟩
    exact ⟨f, vs, hfv, v, hv, (key v).1 hok, rfl⟩
  · rintro ⟨f, vs, hfv, v, hv, hno, rfl⟩
    exact ⟨f, vs, hfv, v, hv, (key v).2 hno, rfl⟩

/-- sh:pattern: a result for each value node that is a blank node or whose `str` does not match the
    regular expression (the matcher `rx` is a parameter: python `re` is outside the model) -/
theorem pattern_exact (s : Shape) (fv : FV) (rx : Regex) (patterns : List Term) (flags : String)
    (rs : List Result) (h : evalPattern s fv rx patterns flags = .ok rs) (r : Result) :
    r ∈ rs ↔ ∃ p ∈ patterns, ∃ f vs, (f, vs) ∈ fv ∧ ∃ v ∈ vs,
      ¬ (∃ lp str, p = .lit lp ∧ strOf v = some str ∧ rx lp.lex flags str = some true) ∧
      r = mkResult s .pattern f (some v) := by
  unfold evalPattern at h
  simp only [] at h
  split at h
  · cases h
  · cases h
    simp only [List.mem_flatMap, mem_perValue]
    constructor
    · rintro ⟨p, hp, f, vs, hfv, v, hv, hok, rfl⟩
      refine ⟨p, hp, f, vs, hfv, v, hv, ?_, rfl⟩
      rintro ⟨lp, str, rfl, hs, hm⟩
      cases v <;> simp_all [strOf, valueNodeToString]
    · rintro ⟨p, hp, f, vs, hfv, v, hv, hno, rfl⟩
      refine ⟨p, hp, f, vs, hfv, v, hv, ?_, rfl⟩
      cases v with
      | bnode x => rfl
      | iri x =>
        cases p with
        | lit lp =>
          simp only [valueNodeToString]
          cases hm : rx lp.lex flags x with
          | none => rfl
          | some b =>
            cases b with
            | false => rfl
            | true => exact absurd ⟨lp, x, rfl, rfl, hm⟩ hno
        | iri y => rfl
        | bnode y => rfl
      | lit l =>
        cases p with
        | lit lp =>
          simp only [valueNodeToString]
          cases hm : rx lp.lex flags l.lex with
          | none => rfl
          | some b =>
            cases b with
            | false => rfl
            | true => exact absurd ⟨lp, l.lex, rfl, rfl, hm⟩ hno
        | iri y => rfl
        | bnode y => rfl

/-- RFC 4647 basic filtering, as SPARQL `langMatches`: the range `*` matches every non-empty tag;
    otherwise the range equals the tag or is a prefix of it followed by `-`, ignoring case -/
def LangMatches (tag range : String) : Prop :=
  tag ≠ "" ∧ (lower range = "*" ∨ lower tag = lower range ∨ (lower range ++ "-").isPrefixOf (lower tag) = true)

/-- sh:languageIn: a result for each value node that is no literal or whose language tag matches none
    of the ranges -/
theorem languageIn_exact (s : Shape) (fv : FV) (ranges : List String) (r : Result) :
    r ∈ evalLanguageIn s fv ranges ↔
      ∃ f vs, (f, vs) ∈ fv ∧ ∃ v ∈ vs,
        ¬ (∃ l, v = .lit l ∧ ∃ rg ∈ ranges, LangMatches l.lang rg) ∧
        r = mkResult s .languageIn f (some v) := by
  unfold evalLanguageIn
  simp only [mem_perValue]
  have key : ∀ l : Lit, ((if l.lang = "" then false
      else if "*" ∈ ranges.map lower then true
      else (ranges.map lower).any (fun r => langMatches (lower l.lang) r)) = true ↔
      ∃ rg ∈ ranges, LangMatches l.lang rg) := by
    intro l
    unfold LangMatches langMatches
    by_cases h0 : l.lang = ""
    · simp [h0]
    · simp only [h0, if_false, ne_eq, not_false_eq_true, true_and]
      by_cases hs : "*" ∈ ranges.map lower
      · simp only [hs, if_true, true_iff]
        obtain ⟨rg, hrg, hl⟩ := List.mem_map.1 hs
        exact ⟨rg, hrg, Or.inl hl⟩
      · simp only [hs, if_false, List.any_map, List.any_eq_true, Function.comp, decide_eq_true_eq, Bool.decide_or,
          Bool.or_eq_true]
        constructor
        · rintro ⟨rg, hrg, h⟩
          exact ⟨rg, hrg, Or.inr (by simpa using h)⟩
        · rintro ⟨rg, hrg, h | h⟩
          · exact absurd (List.mem_map.2 ⟨rg, hrg, h⟩) hs
          · exact ⟨rg, hrg, by simpa using h⟩
  constructor
  · rintro ⟨f, vs, hfv, v, hv, hok, rfl⟩
    refine ⟨f, vs, hfv, v, hv, ?_, rfl⟩
    rintro ⟨l, rfl, hm⟩
    simp only [] at hok
    rw [(key l).2 hm] at hok
    cases hok
  · rintro ⟨f, vs, hfv, v, hv, hno, rfl⟩
    refine ⟨f, vs, hfv, v, hv, ?_, rfl⟩
    cases v with
    | iri x => rfl
    | bnode x => rfl
    | lit l =>
      simp only []
      cases hb : (if l.lang = "" then false
        else if "*" ∈ ranges.map lower then true
        else (ranges.map lower).any (fun r => langMatches (lower l.lang) r)) with
      | false => rfl
      | true => exact absurd ⟨l, rfl, (key l).1 hb⟩ hno

/-- sh:uniqueLang true: for every focus node one result (without sh:value) per language tag that is used
    by at least two of its value nodes -/
def dupLangs (vs : List Term) : List String :=
  let langs := vs.filterMap langOf
  dedup (langs.filter fun l => (langs.filter (· = l)).length ≥ 2)

theorem uniqueLang_eq (s : Shape) (fv : FV) :
    evalUniqueLang s fv true =
      fv.flatMap fun x => (dupLangs x.2).map fun _ => mkResult s .uniqueLang x.1 none := by
  unfold evalUniqueLang dupLangs
  simp

theorem dupLangs_nodup (vs : List Term) : (dupLangs vs).Nodup := nodup_dedup _

/-- `t` is reported iff at least two value nodes (counted as members of the value-node list) carry it -/
theorem mem_dupLangs (vs : List Term) (t : String) :
    t ∈ dupLangs vs ↔ 2 ≤ (vs.filter fun v => langOf v = some t).length := by
  unfold dupLangs
  simp only [mem_dedup, List.mem_filter, decide_eq_true_eq, ge_iff_le]
  have hlen : ((vs.filterMap langOf).filter (· = t)).length = (vs.filter fun v => langOf v = some t).length := by
    induction vs with
    | nil => rfl
    | cons v vs ih =>
      cases hv : langOf v with
      | none => simp [List.filterMap_cons, hv, List.filter_cons, ih]
      | some x =>
        by_cases hx : x = t
        · simp [List.filterMap_cons, hv, List.filter_cons, hx, ih]
        · simp [List.filterMap_cons, hv, List.filter_cons, hx, ih]
  constructor
  · rintro ⟨_, h⟩; rw [← hlen]; exact h
  · intro h
    rw [← hlen] at h
    refine ⟨?_, h⟩
    have : 0 < ((vs.filterMap langOf).filter (· = t)).length := by omega
    obtain ⟨x, hx⟩ := List.exists_mem_of_length_pos this
    have := List.mem_filter.1 hx
    have hxt : x = t := by simpa using this.2
    rw [← hxt]; exact this.1

theorem uniqueLang_off (s : Shape) (fv : FV) : evalUniqueLang s fv false = [] := by
  simp [evalUniqueLang]

/-! ### property-pair components (W3C 4.5.1, 4.5.2) -/

/-- sh:equals p: a result for each value node that is not a value of p at the focus node, and for each
    value of p at the focus node that is not a value node -/
theorem equals_exact (s : Shape) (dg : Graph) (fv : FV) (props : List Term) (r : Result) :
    r ∈ evalEquals s dg fv props ↔
      ∃ p ∈ props, ∃ f vs, (f, vs) ∈ fv ∧ ∃ v,
        ((v ∈ vs ∧ (⟨f, p, v⟩ : Triple) ∉ dg) ∨ ((⟨f, p, v⟩ : Triple) ∈ dg ∧ v ∉ vs)) ∧
        r = mkResult s .equals f (some v) := by
  unfold evalEquals
  simp only [List.mem_flatMap, List.mem_map, List.mem_append, List.mem_filter, mem_dedup, Graph.mem_objects,
    decide_eq_true_eq, Prod.exists]
  constructor
  · rintro ⟨p, hp, f, vs, hfv, v, hv, rfl⟩
    exact ⟨p, hp, f, vs, hfv, v, hv, rfl⟩
  · rintro ⟨p, hp, f, vs, hfv, v, hv, rfl⟩
    exact ⟨p, hp, f, vs, hfv, v, hv, rfl⟩

/-- sh:disjoint p: a result for each value node that is also a value of p at the focus node -/
theorem disjoint_exact (s : Shape) (dg : Graph) (fv : FV) (props : List Term) (r : Result) :
    r ∈ evalDisjoint s dg fv props ↔
      ∃ p ∈ props, ∃ f vs, (f, vs) ∈ fv ∧ ∃ v ∈ vs, (⟨f, p, v⟩ : Triple) ∈ dg ∧
        r = mkResult s .disjoint f (some v) := by
  unfold evalDisjoint
  simp only [List.mem_flatMap, List.mem_map, List.mem_filter, mem_dedup, Graph.mem_objects,
    decide_eq_true_eq, Prod.exists]
  constructor
  · rintro ⟨p, hp, f, vs, hfv, v, ⟨hv, hd⟩, rfl⟩
    exact ⟨p, hp, f, vs, hfv, v, hv, hd, rfl⟩
  · rintro ⟨p, hp, f, vs, hfv, v, hv, hd, rfl⟩
    exact ⟨p, hp, f, vs, hfv, v, ⟨hv, hd⟩, rfl⟩

/-! ### other components (W3C 4.8) -/

/-- sh:hasValue: one result (without sh:value) per focus node whose value nodes do not include the term -/
theorem hasValue_exact (s : Shape) (fv : FV) (vals : List Term) (r : Result) :
    r ∈ evalHasValue s fv vals ↔
      ∃ hv ∈ vals, ∃ f vs, (f, vs) ∈ fv ∧ hv ∉ vs ∧ r = mkResult s .hasValue f none := by
  unfold evalHasValue
  simp only [List.mem_flatMap, List.mem_filterMap, Prod.exists]
  constructor
  · rintro ⟨hv, hhv, f, vs, hfv, h⟩
    split at h
    · cases h
    · rename_i hno
      exact ⟨hv, hhv, f, vs, hfv, hno, by simpa using h.symm⟩
  · rintro ⟨hv, hhv, f, vs, hfv, hno, rfl⟩
    exact ⟨hv, hhv, f, vs, hfv, by simp [hno]⟩

/-- sh:in: a result for each value node that is not a member of the list -/
theorem in_exact (s : Shape) (fv : FV) (members : List Term) (r : Result) :
    r ∈ evalIn s fv members ↔
      ∃ f vs, (f, vs) ∈ fv ∧ ∃ v ∈ vs, v ∉ members ∧ r = mkResult s .inC f (some v) := by
  unfold evalIn
  simp only [mem_perValue, decide_eq_false_iff_not]

/-- sh:closed true: a result for each triple (v, p, o) of a value node v whose predicate is neither the
    path of one of the shape's property shapes nor listed in sh:ignoredProperties, with sh:value o and
    sh:resultPath p.  `…_partial`: the triple (v, rdf:type, rdfs:Resource) is never reported (known finding
    C01:closed-exempts-rdf:type-rdfs:Resource, `closed_counterexample` below). -/
theorem closed_exact_partial (s : Shape) (dg : Graph) (fv : FV) (ignored allowed : List Term) (r : Result) :
    r ∈ evalClosed s dg fv true ignored allowed ↔
      ∃ f vs, (f, vs) ∈ fv ∧ ∃ v ∈ vs, ∃ p o, (⟨v, p, o⟩ : Triple) ∈ dg ∧ p ∉ ignored ∧ p ∉ allowed ∧
        ¬ (p = rdfType ∧ o = rdfsResource) ∧
        r = mkResult s .closed f (some o) (resultPath := some p) := by
  unfold evalClosed
  simp only [Bool.not_true, Bool.false_eq_true, if_false, List.mem_flatMap, List.mem_filterMap, mem_dedup, Prod.exists]
  have hpo : ∀ v p o, (p, o) ∈ dg.predicateObjects v ↔ (⟨v, p, o⟩ : Triple) ∈ dg := by
    intro v p o
    unfold Graph.predicateObjects
    simp only [List.mem_filterMap]
    constructor
    · rintro ⟨t, ht, h⟩
      split at h
      · rename_i hc; cases t; simp_all
      · simp at h
    · intro h; exact ⟨_, h, by simp⟩
  constructor
  · rintro ⟨f, vs, hfv, v, hv, p, o, hmem, h⟩
    split at h
    · cases h
    · rename_i hno
      refine ⟨f, vs, hfv, v, hv, p, o, (hpo v p o).1 hmem, ?_, ?_, ?_, by simpa using h.symm⟩
      · exact fun hi => hno (Or.inr (Or.inl hi))
      · exact fun hi => hno (Or.inr (Or.inr hi))
      · exact fun hi => hno (Or.inl hi)
  · rintro ⟨f, vs, hfv, v, hv, p, o, hmem, h1, h2, h3, rfl⟩
    refine ⟨f, vs, hfv, v, hv, p, o, (hpo v p o).2 hmem, ?_⟩
    have : ¬ ((p = rdfType ∧ o = rdfsResource) ∨ p ∈ ignored ∨ p ∈ allowed) := by
      rintro (h | h | h)
      · exact h3 h
      · exact h1 h
      · exact h2 h
    simp [this]

theorem closed_off (s : Shape) (dg : Graph) (fv : FV) (ignored allowed : List Term) :
    evalClosed s dg fv false ignored allowed = [] := by
  simp [evalClosed]

end Spec
end Pyshacl
