/-
  CoreSpec.lean — C01: the declarative reading of the W3C definitions of the Core constraint
  components that do not refer to other shapes, and the proof that each evaluator of `Core.lean`
  (the mirror of pyshacl/constraints/core/*.py) produces exactly the results that reading names.

  `Spec.*` definitions are `Prop`s written from the Recommendation's text; they share nothing with the
  evaluators except the data model (`Term`, `Lit`, `Graph`) and, for reachability, the
  reflexive-transitive closure `SubClassStar` of C02.  Comparisons are the SPARQL 1.1 operator mapping
  (`Spec.lt`, `Spec.le`): numeric × numeric (exact rational values), simple/xsd:string × same,
  xsd:boolean × same, xsd:dateTime × same (naive vs zoned: indeterminate = error), xsd:date × same;
  every other pairing is a type error, and "does not return true" is a violation.
-/
import PyshaclModel.Core
import PyshaclProofs.TargetProofs
import Mathlib.Tactic.Tauto
import Mathlib.Data.String.Basic
namespace Pyshacl
namespace Spec

/-! ### generic shape of "one result per offending value node" -/

/-- the results of a per-value component: for every focus node (in order) one result per value node
    (in order, with its multiplicity) for which `ok` is false — nothing else, nothing twice -/
theorem perValue_eq (s : Shape) (k : CKind) (fv : FV) (ok : Term → Term → Bool) :
    perValue s k fv ok =
      fv.flatMap fun x => (x.2.filter fun v => !ok x.1 v).map fun v => mkResult s k x.1 (some v) := by
  unfold perValue
  congr 1
  funext x
  obtain ⟨f, vs⟩ := x
  induction vs with
  | nil => rfl
  | cons v vs ih =>
    by_cases h : ok f v <;> simp [List.filterMap_cons, List.filter_cons, h, ih]

theorem mem_perValue {s : Shape} {k : CKind} {fv : FV} {ok : Term → Term → Bool} {r : Result} :
    r ∈ perValue s k fv ok ↔
      ∃ f vs, (f, vs) ∈ fv ∧ ∃ v ∈ vs, ok f v = false ∧ r = mkResult s k f (some v) := by
  rw [perValue_eq]
  simp only [List.mem_flatMap, List.mem_map, List.mem_filter, Prod.exists]
  constructor
  · rintro ⟨f, vs, hfv, v, ⟨hv, hok⟩, rfl⟩
    exact ⟨f, vs, hfv, v, hv, by simpa using hok, rfl⟩
  · rintro ⟨f, vs, hfv, v, hv, hok, rfl⟩
    exact ⟨f, vs, hfv, v, ⟨hv, by simpa using hok⟩, rfl⟩

/-- every result of a per-value component carries the component's IRI, the owning shape, its severity,
    its declared messages, the shape's path, and the value node as sh:value -/
theorem perValue_fields {s : Shape} {k : CKind} {fv : FV} {ok : Term → Term → Bool} {r : Result}
    (h : r ∈ perValue s k fv ok) :
    r.component = componentIri k ∧ r.shape = s.node ∧ r.severity = s.severity ∧ r.messages = s.messages ∧
    (∃ f vs, (f, vs) ∈ fv ∧ r.focus = f ∧ ∃ v ∈ vs, r.value = some v) := by
  obtain ⟨f, vs, hfv, v, hv, _, rfl⟩ := mem_perValue.1 h
  refine ⟨by simp [mkResult, Result.component], by simp [mkResult, Result.shape], by simp [mkResult, Result.severity],
    by simp [mkResult, Result.messages], f, vs, hfv, by simp [mkResult, Result.focus], v, hv, by simp [mkResult, Result.value]⟩

/-! ### sh:class -/

/-- W3C 4.1.1: a value node passes `sh:class c` iff it is not a literal and is a SHACL instance of `c` -/
def ClassOk (dg : Graph) (v c : Term) : Prop := v.isLit = false ∧ IsShaclInstance dg v c

theorem isShaclInstance_iff (dg : Graph) (v c : Term) :
    isShaclInstance dg v c = true ↔ IsShaclInstance dg v c := by
  unfold isShaclInstance IsShaclInstance
  simp only [List.any_eq_true, decide_eq_true_eq, Graph.mem_objects, mem_transitiveObjects]
  constructor
  · rintro ⟨t, ht, h | h⟩
    · subst h; exact ⟨t, ht, Relation.ReflTransGen.refl⟩
    · exact ⟨t, ht, h⟩
  · rintro ⟨t, ht, h⟩
    exact ⟨t, ht, Or.inr h⟩

theorem class_exact (s : Shape) (dg : Graph) (fv : FV) (classes : List Term) (r : Result) :
    r ∈ evalClass s dg fv classes ↔
      ∃ c ∈ classes, ∃ f vs, (f, vs) ∈ fv ∧ ∃ v ∈ vs, ¬ ClassOk dg v c ∧ r = mkResult s .cls f (some v) := by
  unfold evalClass
  simp only [List.mem_flatMap, mem_perValue]
  constructor
  · rintro ⟨c, hc, f, vs, hfv, v, hv, hok, rfl⟩
    refine ⟨c, hc, f, vs, hfv, v, hv, ?_, rfl⟩
    rintro ⟨hl, hi⟩
    cases v with
    | lit l => simp [Term.isLit] at hl
    | iri x => simp [(isShaclInstance_iff dg _ c).2 hi] at hok
    | bnode x => simp [(isShaclInstance_iff dg _ c).2 hi] at hok
  · rintro ⟨c, hc, f, vs, hfv, v, hv, hno, rfl⟩
    refine ⟨c, hc, f, vs, hfv, v, hv, ?_, rfl⟩
    cases v with
    | lit l => rfl
    | iri x =>
      cases hb : isShaclInstance dg (.iri x) c with
      | false => rfl
      | true => exact absurd ⟨rfl, (isShaclInstance_iff dg _ c).1 hb⟩ hno
    | bnode x =>
      cases hb : isShaclInstance dg (.bnode x) c with
      | false => rfl
      | true => exact absurd ⟨rfl, (isShaclInstance_iff dg _ c).1 hb⟩ hno

/-! ### sh:nodeKind -/

/-- W3C 4.1.3 -/
def NodeKindOk (v rule : Term) : Prop :=
  (v.isIri = true ∧ (rule = sh "IRI" ∨ rule = sh "BlankNodeOrIRI" ∨ rule = sh "IRIOrLiteral")) ∨
  (v.isBnode = true ∧ (rule = sh "BlankNode" ∨ rule = sh "BlankNodeOrIRI" ∨ rule = sh "BlankNodeOrLiteral")) ∨
  (v.isLit = true ∧ (rule = sh "Literal" ∨ rule = sh "BlankNodeOrLiteral" ∨ rule = sh "IRIOrLiteral"))

theorem nodeKind_exact (s : Shape) (fv : FV) (rule : Term) (r : Result) :
    r ∈ evalNodeKind s fv rule ↔
      ∃ f vs, (f, vs) ∈ fv ∧ ∃ v ∈ vs, ¬ NodeKindOk v rule ∧ r = mkResult s .nodeKind f (some v) := by
  unfold evalNodeKind
  rw [mem_perValue]
  have key : ∀ v : Term, (match v with
      | .bnode _ => decide (rule = sh "BlankNode" ∨ rule = sh "BlankNodeOrLiteral" ∨ rule = sh "BlankNodeOrIRI")
      | .lit _ => decide (rule = sh "Literal" ∨ rule = sh "BlankNodeOrLiteral" ∨ rule = sh "IRIOrLiteral")
      | .iri _ => decide (rule = sh "IRI" ∨ rule = sh "IRIOrLiteral" ∨ rule = sh "BlankNodeOrIRI")) = false ↔
      ¬ NodeKindOk v rule := by
    intro v
    unfold NodeKindOk
    cases v <;> simp [Term.isIri, Term.isBnode, Term.isLit] <;> tauto
  constructor
  · rintro ⟨f, vs, hfv, v, hv, hok, rfl⟩
    exact ⟨f, vs, hfv, v, hv, (key v).1 hok, rfl⟩
  · rintro ⟨f, vs, hfv, v, hv, hno, rfl⟩
    exact ⟨f, vs, hfv, v, hv, (key v).2 hno, rfl⟩

/-! ### sh:datatype -/

/-- the datatype IRI of a literal in the RDF 1.1 sense (rdflib leaves it `None` for simple and
    language-tagged literals) -/
def datatypeOf (l : Lit) : String :=
  if l.dt ≠ "" then l.dt else if l.lang ≠ "" then rdfLangString else xsd "string"

/-- W3C 4.1.2: a literal whose datatype is `$datatype` and that is not ill-typed -/
def DatatypeOk (v rule : Term) : Prop :=
  ∃ l, v = .lit l ∧ rule = .iri (datatypeOf l) ∧ l.ill = false

/-- what rdflib guarantees about the literals it hands over (hypothesis of `datatype_exact`, part of the
    trusted base; the harness ships `Literal.value` / `Literal.ill_typed` as rdflib computed them):
    a literal that is not ill-typed carries a python value of the class that belongs to its datatype
    (`_assert_actual_datatype` re-checks this; on rdflib terms it never fails); a language-tagged
    literal has no explicit datatype; a literal without explicit datatype is a python `str` and is
    never flagged ill-typed. -/
structure RdflibLit (l : Lit) : Prop where
  value_ok : l.ill = false → actualDatatypeOk l (datatypeOf l) = true
  lang_no_dt : l.lang ≠ "" → l.dt = ""
  plain_str : l.dt = "" → l.ill = false ∧ l.val = .str

theorem datatypeOkB_iff (l : Lit) (r : String) (hl : RdflibLit l)
    (h1 : Term.iri r ≠ rdfsLiteral) (h2 : Term.iri r ≠ rdfsDatatype) (h0 : r ≠ "") :
    datatypeOkB l r = true ↔ (r = datatypeOf l ∧ l.ill = false) := by
  unfold datatypeOkB
  by_cases hdt : l.dt = ""
  · obtain ⟨hill, hval⟩ := hl.plain_str hdt
    have hne : ¬ (l.dt = r) := by rw [hdt]; exact fun h => h0 h.symm
    have strOk : ∀ x, (x = xsd "string" ∨ x = rdfLangString) → actualDatatypeOk l x = true := by
      intro x hx
      unfold actualDatatypeOk
      simp [hx, hval]
    simp only [hne, if_false, h1, h2, false_and, hdt, true_and]
    by_cases hlang : l.lang = ""
    · have hdo : datatypeOf l = xsd "string" := by unfold datatypeOf; simp [hdt, hlang]
      by_cases hr : r = xsd "string"
      · simp [hlang, hr, hdo, hill, strOk _ (Or.inl rfl)]
      · simp [hlang, hr, hdo, h0]
    · have hdo : datatypeOf l = rdfLangString := by unfold datatypeOf; simp [hdt, hlang]
      by_cases hr : r = rdfLangString
      · simp [hlang, hr, hdo, hill, strOk _ (Or.inr rfl)]
      · simp [hlang, hr, hdo, h0]
  · have hdo : datatypeOf l = l.dt := by unfold datatypeOf; simp [hdt]
    have hlang : l.lang = "" := by
      by_cases h : l.lang = ""
      · exact h
      · exact absurd (hl.lang_no_dt h) hdt
    by_cases hr : l.dt = r
    · simp only [hr, if_true]
      by_cases hill : l.ill = true
      · simp [hill, hdo, hr]
      · have hill' : l.ill = false := by simpa using hill
        have := hl.value_ok hill'
        rw [hdo, hr] at this
        simp [hill', this, hdo, hr]
    · have hr' : ¬ (r = l.dt) := fun h => hr h.symm
      simp [hr, h1, h2, hdt, hlang, hdo, hr']

theorem datatypeTest_iff (v rule : Term) (hc : ∀ l, v = .lit l → RdflibLit l)
    (hrule : rule ≠ rdfsLiteral ∧ rule ≠ rdfsDatatype ∧ rule ≠ .iri "") :
    datatypeTest v rule = false ↔ ¬ DatatypeOk v rule := by
  unfold DatatypeOk datatypeTest
  cases v with
  | iri x => simp
  | bnode x => simp
  | lit l =>
    cases rule with
    | bnode x => simp
    | lit x => simp
    | iri rr =>
      have h0 : rr ≠ "" := by intro h; exact hrule.2.2 (by rw [h])
      have := datatypeOkB_iff l rr (hc l rfl) hrule.1 hrule.2.1 h0
      simp only [Term.lit.injEq, Term.iri.injEq, exists_eq_left']
      rw [← this]
      simp

theorem datatype_exact (s : Shape) (fv : FV) (rule : Term)
    (hrule : rule ≠ rdfsLiteral ∧ rule ≠ rdfsDatatype ∧ rule ≠ .iri "")
    (hcons : ∀ f vs, (f, vs) ∈ fv → ∀ v ∈ vs, ∀ l, v = .lit l → RdflibLit l)
    (r : Result) :
    r ∈ evalDatatype s fv rule ↔
      ∃ f vs, (f, vs) ∈ fv ∧ ∃ v ∈ vs, ¬ DatatypeOk v rule ∧ r = mkResult s .datatype f (some v) := by
  unfold evalDatatype
  rw [mem_perValue]
  constructor
  · rintro ⟨f, vs, hfv, v, hv, hok, rfl⟩
    exact ⟨f, vs, hfv, v, hv, (datatypeTest_iff v rule (hcons f vs hfv v hv) hrule).1 hok, rfl⟩
  · rintro ⟨f, vs, hfv, v, hv, hno, rfl⟩
    exact ⟨f, vs, hfv, v, hv, (datatypeTest_iff v rule (hcons f vs hfv v hv) hrule).2 hno, rfl⟩

/-! ### sh:minCount / sh:maxCount -/

/-- W3C 4.2.1 / 4.2.2: one result (without sh:value) per focus node whose number of value nodes is
    below `$minCount` / above `$maxCount`; value nodes are a set, `vs` lists its members once -/
theorem minCount_exact (s : Shape) (fv : FV) (n : Int) (r : Result) :
    r ∈ evalMinCount s fv n ↔
      ∃ f vs, (f, vs) ∈ fv ∧ (vs.length : Int) < n ∧ r = mkResult s .minCount f none := by
  unfold evalMinCount
  by_cases h0 : n = 0
  · subst h0
    simp only [if_true, List.not_mem_nil, false_iff]
    rintro ⟨f, vs, _, h, _⟩
    omega
  · simp only [h0, if_false, List.mem_filterMap, Prod.exists]
    constructor
    · rintro ⟨f, vs, hfv, h⟩
      split at h
      · cases h
      · rename_i hlt
        exact ⟨f, vs, hfv, by omega, by simpa using h.symm⟩
    · rintro ⟨f, vs, hfv, hlt, rfl⟩
      refine ⟨f, vs, hfv, ?_⟩
      have : ¬ ((vs.length : Int) ≥ n) := by omega
      simp [this]

theorem maxCount_exact (s : Shape) (fv : FV) (n : Int) (r : Result) :
    r ∈ evalMaxCount s fv n ↔
      ∃ f vs, (f, vs) ∈ fv ∧ (vs.length : Int) > n ∧ r = mkResult s .maxCount f none := by
  unfold evalMaxCount
  simp only [List.mem_filterMap, Prod.exists]
  constructor
  · rintro ⟨f, vs, hfv, h⟩
    split at h
    · cases h
    · rename_i hlt
      exact ⟨f, vs, hfv, by omega, by simpa using h.symm⟩
  · rintro ⟨f, vs, hfv, hlt, rfl⟩
    refine ⟨f, vs, hfv, ?_⟩
    have : ¬ ((vs.length : Int) ≤ n) := by omega
    simp [this]

/-! ### SPARQL 1.1 operator mapping (`<`, `<=`) on the datatypes of the property -/

/-- operand categories of the SPARQL 1.1 operator table -/
inductive Operand where
  | num (n : Int) (d : Nat)          -- numeric (xsd:integer / decimal / double and derived), exact value n/d
  | str (s : String)                 -- simple literal or xsd:string
  | bool (b : Bool)
  | dateTime (tz : Bool) (us : Int)  -- with / without timezone
  | date (dt : String) (days : Int)  -- xsd:date (the datatype IRI is kept: only like is compared with like)
  deriving DecidableEq

/-- the operand a literal denotes; `none` for ill-typed literals, language-tagged strings and anything
    the operator table does not cover (every comparison with it is a type error) -/
def operand (l : Lit) : Option Operand :=
  if l.ill then none else
  match l.val with
  | .int z => some (.num z 1)
  | .dec n d => some (.num n d)
  | .dbl n d => some (.num n d)
  | .bool b => some (.bool b)
  | .dateTime tz us => some (.dateTime tz us)
  | .date d => some (.date l.dt d)
  | .str => if l.lang = "" ∧ (l.dt = "" ∨ l.dt = xsdString) then some (.str l.lex) else none
  | _ => none

/-- `A < B`; `none` = type error (incl. the indeterminate naive-vs-zoned dateTime comparison) -/
def opLt : Operand → Operand → Option Bool
  | .num a b, .num c d => some (decide (a * (d : Int) < c * (b : Int)))
  | .str a, .str b => some (decide (a < b))
  | .bool a, .bool b => some (!a && b)
  | .dateTime t1 a, .dateTime t2 b => if t1 = t2 then some (decide (a < b)) else none
  | .date d1 a, .date d2 b => if d1 = d2 then some (decide (a < b)) else none
  | _, _ => none

/-- `A = B` on operands of one category -/
def opEq : Operand → Operand → Option Bool
  | .num a b, .num c d => some (decide (a * (d : Int) = c * (b : Int)))
  | .str a, .str b => some (decide (a = b))
  | .bool a, .bool b => some (decide (a = b))
  | .dateTime t1 a, .dateTime t2 b => if t1 = t2 then some (decide (a = b)) else none
  | .date d1 a, .date d2 b => if d1 = d2 then some (decide (a = b)) else none
  | _, _ => none

def sparqlLt (a b : Lit) : Option Bool :=
  match operand a, operand b with
  | some x, some y => opLt x y
  | _, _ => none

/-- `A <= B` := `A < B || A = B` -/
def sparqlLe (a b : Lit) : Option Bool :=
  match operand a, operand b with
  | some x, some y => (match opLt x y, opEq x y with
    | some l, some e => some (l || e)
    | _, _ => none)
  | _, _ => none

/-- the datatypes the property quantifies over: everything except python values of other classes
    (xsd:time, durations, binary, XML …) and strings of unknown datatypes, for which pySHACL models
    equality only -/
def InScope (l : Lit) : Prop :=
  match l.val with
  | .other => False
  | .str => l.lang ≠ "" ∨ l.dt = "" ∨ l.dt = xsdString
  | _ => True

theorem cmpInt_lt (a b : Int) : (cmpInt a b < 0 ↔ a < b) ∧ (cmpInt a b > 0 ↔ b < a) ∧
    (cmpInt a b ≤ 0 ↔ a ≤ b) ∧ (cmpInt a b ≥ 0 ↔ b ≤ a) := by
  unfold cmpInt
  split
  · omega
  · split <;> omega

theorem cmpStr_lt (a b : String) : (cmpStr a b < 0 ↔ a < b) ∧ (cmpStr a b > 0 ↔ b < a) ∧
    (cmpStr a b ≤ 0 ↔ (a < b ∨ a = b)) ∧ (cmpStr a b ≥ 0 ↔ (b < a ∨ a = b)) := by
  unfold cmpStr
  by_cases h1 : a < b
  · have h2 : ¬ b < a := fun h => absurd (String.lt_trans h1 h) (String.lt_irrefl a)
    have h3 : a ≠ b := fun h => by subst h; exact String.lt_irrefl a h1
    simp [h1, h2, h3]
  · by_cases h3 : a = b
    · subst h3; simp [String.lt_irrefl]
    · have h2 : b < a := by
        rcases lt_trichotomy a b with h | h | h
        · exact absurd h h1
        · exact absurd h h3
        · exact h
      simp [h1, h2, h3]

/-- both literals are language-tagged strings: the one pairing whose ordering the property leaves unspecified
    (SPARQL: type error; rdflib, and therefore pySHACL: ordered by tag, then lexical form) -/
def BothLang (a b : Lit) : Prop := a.lang ≠ "" ∧ b.lang ≠ "" ∧ a.val = .str ∧ b.val = .str

theorem cmpInt_neg (a b : Int) : cmpInt a b < 0 ↔ a < b := (cmpInt_lt a b).1
theorem cmpInt_pos (a b : Int) : 0 < cmpInt a b ↔ b < a := (cmpInt_lt a b).2.1
theorem cmpInt_nonpos (a b : Int) : cmpInt a b ≤ 0 ↔ (a < b ∨ a = b) := by
  rw [(cmpInt_lt a b).2.2.1]; omega
theorem cmpInt_nonneg (a b : Int) : 0 ≤ cmpInt a b ↔ (b < a ∨ b = a) := by
  have := (cmpInt_lt a b).2.2.2; simp only [ge_iff_le] at this; rw [this]; omega
theorem cmpStr_neg (a b : String) : cmpStr a b < 0 ↔ a < b := (cmpStr_lt a b).1
theorem cmpStr_pos (a b : String) : 0 < cmpStr a b ↔ b < a := (cmpStr_lt a b).2.1
theorem cmpStr_nonpos (a b : String) : cmpStr a b ≤ 0 ↔ (a < b ∨ a = b) := (cmpStr_lt a b).2.2.1
theorem cmpStr_nonneg (a b : String) : 0 ≤ cmpStr a b ↔ (b < a ∨ b = a) := by
  have := (cmpStr_lt a b).2.2.2; simp only [ge_iff_le] at this; rw [this, eq_comm]

set_option maxRecDepth 4000 in
set_option maxHeartbeats 1000000 in
/-- **the comparison lemma of C01**: on the datatypes of the property, the sign tests pySHACL applies to
    `compare_literal(a, b)` are exactly "the SPARQL operator returns true" — `a < b`, `b < a`, `a <= b`,
    `b <= a` — and a `TypeError` (no comparison) is exactly "the operator does not return true".
    Every pairing of python value classes × ill-typedness × language tag × datatype is covered. -/
theorem cmpFlag_spec (a b : Lit) (ha : InScope a) (hb : InScope b) (hlang : ¬ BothLang a b) :
    (cmpFlag a b (fun c => c < 0) = true ↔ sparqlLt a b = some true) ∧
    (cmpFlag a b (fun c => c > 0) = true ↔ sparqlLt b a = some true) ∧
    (cmpFlag a b (fun c => c ≤ 0) = true ↔ sparqlLe a b = some true) ∧
    (cmpFlag a b (fun c => c ≥ 0) = true ↔ sparqlLe b a = some true) := by
  obtain ⟨alex, adt, alang, aval, aill⟩ := a
  obtain ⟨blex, bdt, blang, bval, bill⟩ := b
  unfold InScope at ha hb
  unfold BothLang at hlang
  cases aill <;> cases bill <;> cases aval <;> cases bval <;>
    try (simp [cmpFlag, compareLiteral, orderKind, sparqlLt, sparqlLe, operand, opLt, opEq, numVal, cmpRat] at ha hb ⊢)
  all_goals try (simp only [cmpInt_neg, cmpInt_pos, cmpInt_nonpos, cmpInt_nonneg, and_self]; done)
  all_goals try (rename_i b1 b2; cases b1 <;> cases b2 <;> simp [cmpInt]; done)
  all_goals try (rename_i t1 u1 t2 u2; by_cases h : t1 = t2 <;>
    [(subst h; simp [cmpInt_neg, cmpInt_pos, cmpInt_nonpos, cmpInt_nonneg]);
     (have h' : ¬ t2 = t1 := fun e => h e.symm; simp [h, h'])]; done)
  all_goals try (by_cases h : adt = bdt <;>
    [(subst h; simp [cmpInt_neg, cmpInt_pos, cmpInt_nonpos, cmpInt_nonneg]);
     (have h' : ¬ bdt = adt := fun e => h e.symm; simp [h, h'])]; done)
  all_goals try (by_cases hal : alang = "" <;> by_cases hbl : blang = "" <;>
        by_cases had : (adt = "" ∨ adt = xsdString) <;> by_cases hbd : (bdt = "" ∨ bdt = xsdString) <;>
        simp [hal, hbl, had, hbd, cmpStr_neg, cmpStr_pos, cmpStr_nonpos, cmpStr_nonneg] at hb hlang ⊢; done)
  all_goals try (by_cases hal : alang = "" <;> by_cases hbl : blang = "" <;>
        by_cases had : (adt = "" ∨ adt = xsdString) <;> by_cases hbd : (bdt = "" ∨ bdt = xsdString) <;>
        simp [hal, hbl, had, hbd, cmpStr_neg, cmpStr_pos, cmpStr_nonpos, cmpStr_nonneg] at ha hlang ⊢; done)

end Spec
end Pyshacl
