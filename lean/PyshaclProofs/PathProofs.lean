import PyshaclProofs.PathSpec
import PyshaclProofs.ClosureLemmas
namespace Pyshacl
open Path

/-- related terms are equal or both occur in the graph -/
theorem PathRel_nodes (p : Path) (g : Graph) : ∀ a b, PathRel p g a b → a = b ∨ (a ∈ g.nodes ∧ b ∈ g.nodes) := by
  induction p with
  | pred p => intro a b h; exact Or.inr ⟨Graph.mem_nodes_of_s h, Graph.mem_nodes_of_o h⟩
  | bad e i => intro a b h; exact h.elim
  | seqCons x y ihx ihy =>
    rintro a b ⟨m, h1, h2⟩
    rcases ihx _ _ h1 with rfl | ⟨ha, hm⟩
    · exact ihy _ _ h2
    · rcases ihy _ _ h2 with rfl | ⟨_, hb⟩
      · exact Or.inr ⟨ha, hm⟩
      · exact Or.inr ⟨ha, hb⟩
  | seqLast x ih => intro a b h; exact ih _ _ h
  | seqNoRest x ih => intro a b h; exact ih _ _ h
  | inv q ih =>
    intro a b h
    rcases ih _ _ h with h | ⟨h1, h2⟩
    · exact Or.inl h.symm
    · exact Or.inr ⟨h2, h1⟩
  | alt m ih => intro a b h; exact ih _ _ h
  | altCons x r ihx ihr =>
    intro a b h
    rcases h with h | h
    · exact ihx _ _ h
    · exact ihr _ _ h
  | altLast x ih => intro a b h; exact ih _ _ h
  | altNil => intro a b h; exact h.elim
  | star q ih =>
    intro a b h
    induction h with
    | refl => exact Or.inl rfl
    | tail _ hbc ih2 =>
      rcases ih _ _ hbc with rfl | ⟨hb, hc⟩
      · exact ih2
      · rcases ih2 with rfl | ⟨ha, _⟩
        · exact Or.inr ⟨hb, hc⟩
        · exact Or.inr ⟨ha, hc⟩
  | plus q ih =>
    intro a b h
    induction h with
    | single h => exact ih _ _ h
    | tail _ hbc ih2 =>
      rcases ih _ _ hbc with rfl | ⟨hb, hc⟩
      · exact ih2
      · rcases ih2 with rfl | ⟨ha, _⟩
        · exact Or.inr ⟨hb, hc⟩
        · exact Or.inr ⟨ha, hc⟩
  | opt q ih =>
    intro a b h
    rcases h with h | h
    · exact Or.inl h
    · exact ih _ _ h

theorem DirRel_univ {p : Path} {g : Graph} {inverse : Bool} {f u v : Term}
    (hu : u ∈ univ g f) (h : DirRel inverse (PathRel p g) u v) : v ∈ univ g f := by
  unfold DirRel at h
  unfold univ at *
  cases inverse
  · simp at h
    rcases PathRel_nodes p g _ _ h with rfl | ⟨_, hb⟩
    · exact hu
    · exact List.mem_cons_of_mem _ hb
  · simp at h
    rcases PathRel_nodes p g _ _ h with rfl | ⟨hb, _⟩
    · exact hu
    · exact List.mem_cons_of_mem _ hb

theorem dir_rtg (inverse : Bool) (R : Term → Term → Prop) (a b : Term) :
    Relation.ReflTransGen (DirRel inverse R) a b ↔ DirRel inverse (Relation.ReflTransGen R) a b := by
  cases inverse
  · have : DirRel false R = R := by funext x y; simp [DirRel]
    rw [this]; simp [DirRel]
  · have : DirRel true R = Function.swap R := by funext x y; simp [DirRel, Function.swap]
    rw [this]; simp only [DirRel, if_true]
    exact Relation.reflTransGen_swap

theorem dir_tg (inverse : Bool) (R : Term → Term → Prop) (a b : Term) :
    Relation.TransGen (DirRel inverse R) a b ↔ DirRel inverse (Relation.TransGen R) a b := by
  cases inverse
  · have : DirRel false R = R := by funext x y; simp [DirRel]
    rw [this]; simp [DirRel]
  · have : DirRel true R = Function.swap R := by funext x y; simp [DirRel, Function.swap]
    rw [this]; simp only [DirRel, if_true]
    exact Relation.transGen_swap

/-- membership in the zero-or-more loop of the code = reflexive-transitive reachability -/
theorem star_loop_mem (step : Term → List Term) (S : Term → Term → Prop)
    (hS : ∀ a b, b ∈ step a ↔ S a b) (U : List Term) (f t : Term) (hf : f ∈ U)
    (hU : ∀ u ∈ U, ∀ v, S u v → v ∈ U) :
    t ∈ closure step (closureFuel step U (step f)) (step f) [f] ↔ Relation.ReflTransGen S f t := by
  have hrel : (fun a b => b ∈ step a) = S := by funext a b; exact propext (hS a b)
  constructor
  · intro h
    rcases closure_sound step _ _ _ _ h with h1 | ⟨w, hw, hr⟩
    · simp at h1; subst h1; exact Relation.ReflTransGen.refl
    · rw [← hrel]
      exact Relation.ReflTransGen.head hw hr
  · intro h
    have hU' : ∀ u ∈ U, ∀ v ∈ step u, v ∈ U := fun u hu v hv => hU u hu v ((hS u v).1 hv)
    have hcl := closure_closed step U hU'
      (closureFuel step U (step f)) (step f) [f]
      (fun w hw => hU' f hf w hw)
      (by intro s hs; simp at hs; subst hs; exact hf)
      (by intro s hs v hv; simp at hs; subst hs; exact Or.inr hv)
      (by
        have := pot_le_of_subset step U [] [f] (by simp)
        unfold closureFuel; omega)
    rw [← hrel] at h
    exact closed_reach hcl.2 (closure_seen_subset step _ _ _ (by simp)) h

/-- membership in the one-or-more loop of the code = transitive reachability -/
theorem plus_loop_mem (step : Term → List Term) (S : Term → Term → Prop)
    (hS : ∀ a b, b ∈ step a ↔ S a b) (U : List Term) (f t : Term) (hf : f ∈ U)
    (hU : ∀ u ∈ U, ∀ v, S u v → v ∈ U) :
    t ∈ closure step (closureFuel step U (step f)) (step f) [] ↔ Relation.TransGen S f t := by
  have hrel : (fun a b => b ∈ step a) = S := by funext a b; exact propext (hS a b)
  constructor
  · intro h
    rcases closure_sound step _ _ _ _ h with h1 | ⟨w, hw, hr⟩
    · simp at h1
    · rw [← hrel]
      exact Relation.TransGen.head'_iff.2 ⟨w, hw, hr⟩
  · intro h
    have hU' : ∀ u ∈ U, ∀ v ∈ step u, v ∈ U := fun u hu v hv => hU u hu v ((hS u v).1 hv)
    have hcl := closure_closed step U hU'
      (closureFuel step U (step f)) (step f) []
      (fun w hw => hU' f hf w hw)
      (by intro s hs; simp at hs)
      (by intro s hs; simp at hs)
      (by unfold closureFuel; omega)
    rw [← hrel] at h
    obtain ⟨w, hw, hr⟩ := Relation.TransGen.head'_iff.1 h
    exact closed_reach hcl.2 (hcl.1 w hw) hr

/-- **Main path theorem**: the cap-free evaluation computes exactly the SPARQL 1.1 relation,
    for every path expression, every graph (any size, any cycles) and every focus node. -/
theorem evalPure_correct (p : Path) (g : Graph) :
    ∀ (inverse : Bool) (f t : Term), t ∈ evalPure p inverse g f ↔ DirRel inverse (PathRel p g) f t := by
  induction p with
  | pred p =>
    intro inverse f t
    cases inverse <;> simp [evalPure, DirRel, PathRel, Graph.mem_objects, Graph.mem_subjects]
  | bad e i => intro inverse f t; cases inverse <;> simp [evalPure, DirRel, PathRel]
  | seqCons x y ihx ihy =>
    intro inverse f t
    cases inverse
    · simp only [evalPure, Bool.false_eq_true, if_false, List.mem_flatMap, ihx, ihy, PathRel]; simp [DirRel]
    · simp only [evalPure, List.mem_flatMap, ihx, ihy, DirRel, PathRel, if_true]
      constructor
      · rintro ⟨m, h1, h2⟩; exact ⟨m, h2, h1⟩
      · rintro ⟨m, h1, h2⟩; exact ⟨m, h2, h1⟩
  | seqLast x ih => intro inverse f t; simp only [evalPure, ih]; cases inverse <;> simp [DirRel, PathRel]
  | seqNoRest x ih => intro inverse f t; simp only [evalPure, ih]; cases inverse <;> simp [DirRel, PathRel]
  | inv q ih => intro inverse f t; simp only [evalPure, ih]; cases inverse <;> simp [DirRel, PathRel]
  | alt m ih => intro inverse f t; simp only [evalPure, ih]; cases inverse <;> simp [DirRel, PathRel]
  | altCons x r ihx ihr =>
    intro inverse f t
    simp only [evalPure, List.mem_append, ihx, ihr]; cases inverse <;> simp [DirRel, PathRel]
  | altLast x ih => intro inverse f t; simp only [evalPure, ih]; cases inverse <;> simp [DirRel, PathRel]
  | altNil => intro inverse f t; cases inverse <;> simp [evalPure, DirRel, PathRel]
  | star q ih =>
    intro inverse f t
    have goal : DirRel inverse (PathRel (star q) g) f t ↔ Relation.ReflTransGen (DirRel inverse (PathRel q g)) f t := by
      rw [dir_rtg]; cases inverse <;> simp [DirRel, PathRel]
    rw [goal]
    simp only [evalPure]
    exact star_loop_mem _ _ (fun a b => ih inverse a b) (univ g f) f t (by simp [univ])
      (fun u hu v hv => DirRel_univ hu hv)
  | plus q ih =>
    intro inverse f t
    have goal : DirRel inverse (PathRel (plus q) g) f t ↔ Relation.TransGen (DirRel inverse (PathRel q g)) f t := by
      rw [dir_tg]; cases inverse <;> simp [DirRel, PathRel]
    rw [goal]
    simp only [evalPure]
    exact plus_loop_mem _ _ (fun a b => ih inverse a b) (univ g f) f t (by simp [univ])
      (fun u hu v hv => DirRel_univ hu hv)
  | opt q ih =>
    intro inverse f t
    simp only [evalPure, List.mem_cons, ih]
    cases inverse
    · simp [DirRel, PathRel]; constructor <;> (rintro (h | h); exact Or.inl h.symm; exact Or.inr h)
    · simp [DirRel, PathRel]

/-! ### the raising mirror agrees with the pure evaluation -/

theorem flatMapE_ok_eq {ε α β} (xs : List α) (k : α → Except ε (List β)) (k' : α → List β)
    (h : ∀ x ys, k x = .ok ys → ys = k' x) :
    ∀ zs, flatMapE xs k = .ok zs → zs = xs.flatMap k' := by
  induction xs with
  | nil => intro zs hz; simp [flatMapE] at hz; simp [hz]
  | cons x xs ih =>
    intro zs hz
    simp only [flatMapE] at hz
    split at hz
    · cases hz
    · rename_i ys hys
      split at hz
      · cases hz
      · rename_i ws hws
        cases hz
        simp [List.flatMap_cons, ← h x ys hys, ← ih ws hws]

theorem flatMapE_total {ε α β} (xs : List α) (k : α → Except ε (List β)) (k' : α → List β)
    (h : ∀ x, k x = .ok (k' x)) : flatMapE xs k = .ok (xs.flatMap k') := by
  induction xs with
  | nil => simp [flatMapE]
  | cons x xs ih => simp [flatMapE, h x, ih, List.flatMap_cons]

/-- **Never silently truncated**: whenever the mirror of `value_nodes_from_path` returns, it
    returns the exact value-node list of the cap-free evaluation — for every path, any depth. -/
theorem eval_ok_exact (cap : Nat) (p : Path) (g : Graph) :
    ∀ (inverse : Bool) (r : Nat) (f : Term) (vs : List Term),
      Path.eval cap p inverse r g f = .ok vs → vs = evalPure p inverse g f := by
  induction p with
  | pred p => intro inverse r f vs h; simp [Path.eval] at h; simp [evalPure, h]
  | bad e i => intro inverse r f vs h; simp only [Path.eval] at h; split at h <;> cases h
  | seqCons x y ihx ihy =>
    intro inverse r f vs h
    simp only [Path.eval] at h
    split at h
    · cases h
    · cases inverse
      · simp only [Bool.false_eq_true, if_false] at h
        split at h
        · cases h
        · rename_i xs hxs
          have := ihx _ _ _ _ hxs; subst this
          simp only [evalPure, Bool.false_eq_true, if_false]
          exact flatMapE_ok_eq _ _ _ (fun u ys hu => ihy _ _ _ _ hu) _ h
      · simp only [if_true] at h
        split at h
        · cases h
        · rename_i xs hxs
          have := ihy _ _ _ _ hxs; subst this
          simp only [evalPure, if_true]
          exact flatMapE_ok_eq _ _ _ (fun u ys hu => ihx _ _ _ _ hu) _ h
  | seqLast x ih =>
    intro inverse r f vs h
    simp only [Path.eval] at h
    split at h
    · cases h
    · split at h
      · cases h
      · simp only [evalPure]; exact ih _ _ _ _ h
  | seqNoRest x ih =>
    intro inverse r f vs h
    simp only [Path.eval] at h
    split at h
    · cases h
    · split at h
      · cases h
      · simp only [evalPure]; exact ih _ _ _ _ h
  | inv q ih =>
    intro inverse r f vs h
    simp only [Path.eval] at h
    split at h
    · cases h
    · simp only [evalPure]; exact ih _ _ _ _ h
  | alt m ih =>
    intro inverse r f vs h
    simp only [Path.eval] at h
    split at h
    · cases h
    · split at h
      · cases h
      · rename_i xs hxs
        split at h
        · cases h
        · cases h; simp only [evalPure]; exact ih _ _ _ _ hxs
  | altCons x rr ihx ihr =>
    intro inverse r f vs h
    simp only [Path.eval] at h
    split at h
    · cases h
    · rename_i xs hxs
      split at h
      · cases h
      · rename_i ys hys
        cases h
        simp only [evalPure, ← ihx _ _ _ _ hxs, ← ihr _ _ _ _ hys]
  | altLast x ih => intro inverse r f vs h; simp only [Path.eval] at h; simp only [evalPure]; exact ih _ _ _ _ h
  | altNil => intro inverse r f vs h; simp [Path.eval] at h; simp [evalPure, h]
  | star q ih =>
    intro inverse r f vs h
    simp only [Path.eval] at h
    split at h
    · cases h
    · split at h
      · cases h
      · rename_i work hwork
        have := ih _ _ _ _ hwork; subst this
        simp only [evalPure]
        exact closureE_ok_eq _ _ (fun u ys hu => ih _ _ _ _ hu) _ _ _ _ h
  | plus q ih =>
    intro inverse r f vs h
    simp only [Path.eval] at h
    split at h
    · cases h
    · split at h
      · cases h
      · rename_i work hwork
        have := ih _ _ _ _ hwork; subst this
        simp only [evalPure]
        exact closureE_ok_eq _ _ (fun u ys hu => ih _ _ _ _ hu) _ _ _ _ h
  | opt q ih =>
    intro inverse r f vs h
    simp only [Path.eval] at h
    split at h
    · cases h
    · split at h
      · cases h
      · rename_i xs hxs
        cases h
        simp only [evalPure, ← ih _ _ _ _ hxs]

end Pyshacl

namespace Pyshacl
open Path

/-- **Supported depth**: a well-formed path whose recursion measure stays within the cap is
    evaluated without error, and the answer is the cap-free one. -/
theorem eval_within_cap (cap : Nat) (p : Path) (g : Graph) :
    ∀ (inverse : Bool) (r : Nat) (f : Term), p.wf (r == 0) = true → r + p.depth ≤ cap →
      Path.eval cap p inverse r g f = .ok (evalPure p inverse g f) := by
  induction p with
  | pred p => intro inverse r f _ _; simp [Path.eval, evalPure]
  | bad e i => intro inverse r f h; simp [wf] at h
  | seqCons x y ihx ihy =>
    intro inverse r f hwf hd
    simp only [wf, Bool.and_eq_true] at hwf
    obtain ⟨⟨hx, hy⟩, _⟩ := hwf
    simp only [depth] at hd
    have hr : ¬ r ≥ cap := by omega
    have h1 : ((r + 1 == 0) = false) := by simp
    have hxx : ∀ inv u, Path.eval cap x inv (r+1) g u = .ok (evalPure x inv g u) :=
      fun inv u => ihx inv (r+1) u (by rw [h1]; exact hx) (by omega)
    have hyy : ∀ inv u, Path.eval cap y inv (r+1) g u = .ok (evalPure y inv g u) :=
      fun inv u => ihy inv (r+1) u (by rw [h1]; exact hy) (by omega)
    simp only [Path.eval, hr, if_false]
    cases inverse
    · simp only [Bool.false_eq_true, if_false, hxx, evalPure]
      exact flatMapE_total _ _ _ (fun u => hyy false u)
    · simp only [if_true, hyy, evalPure]
      exact flatMapE_total _ _ _ (fun u => hxx true u)
  | seqLast x ih =>
    intro inverse r f hwf hd
    simp only [wf, Bool.and_eq_true, Bool.not_eq_true'] at hwf
    obtain ⟨htop, hx⟩ := hwf
    simp only [depth] at hd
    have hr : ¬ r ≥ cap := by omega
    have hr0 : ¬ r = 0 := by simpa using htop
    have h1 : ((r + 1 == 0) = false) := by simp
    simp only [Path.eval, hr, hr0, if_false, evalPure]
    exact ih inverse (r+1) f (by rw [h1]; exact hx) (by omega)
  | seqNoRest x ih => intro inverse r f h; simp [wf] at h
  | inv q ih =>
    intro inverse r f hwf hd
    simp only [wf] at hwf
    simp only [depth] at hd
    have hr : ¬ r ≥ cap := by omega
    have h1 : ((r + 1 == 0) = false) := by simp
    simp only [Path.eval, hr, if_false, evalPure]
    exact ih (!inverse) (r+1) f (by rw [h1]; exact hwf) (by omega)
  | alt m ih =>
    intro inverse r f hwf hd
    simp only [wf, Bool.and_eq_true, decide_eq_true_eq] at hwf
    obtain ⟨⟨hm, hc⟩, _⟩ := hwf
    simp only [depth] at hd
    have hr : ¬ r ≥ cap := by omega
    have h1 : ((r + 1 == 0) = false) := by simp
    have hc' : ¬ altCount m < 2 := by omega
    simp only [Path.eval, hr, if_false, evalPure,
      ih inverse (r+1) f (by rw [h1]; exact hm) (by omega), hc']
  | altCons x rr ihx ihr =>
    intro inverse r f hwf hd
    simp only [wf, Bool.and_eq_true] at hwf
    obtain ⟨⟨hx, hrr⟩, _⟩ := hwf
    simp only [depth] at hd
    simp only [Path.eval, evalPure, ihx inverse r f hx (by omega), ihr inverse r f hrr (by omega)]
  | altLast x ih =>
    intro inverse r f hwf hd
    simp only [wf] at hwf
    simp only [depth] at hd
    simp only [Path.eval, evalPure]
    exact ih inverse r f hwf hd
  | altNil => intro inverse r f h; simp [wf] at h
  | star q ih =>
    intro inverse r f hwf hd
    simp only [wf] at hwf
    simp only [depth] at hd
    have hr : ¬ r ≥ cap := by omega
    have h1 : ((r + 1 == 0) = false) := by simp
    have hq : ∀ u, Path.eval cap q inverse (r+1) g u = .ok (evalPure q inverse g u) :=
      fun u => ih inverse (r+1) u (by rw [h1]; exact hwf) (by omega)
    simp only [Path.eval, hr, if_false, hq, evalPure]
    exact closureE_total _ _ (fun _ => rfl) _ _ _
  | plus q ih =>
    intro inverse r f hwf hd
    simp only [wf] at hwf
    simp only [depth] at hd
    have hr : ¬ r ≥ cap := by omega
    have h1 : ((r + 1 == 0) = false) := by simp
    have hq : ∀ u, Path.eval cap q inverse (r+1) g u = .ok (evalPure q inverse g u) :=
      fun u => ih inverse (r+1) u (by rw [h1]; exact hwf) (by omega)
    simp only [Path.eval, hr, if_false, hq, evalPure]
    exact closureE_total _ _ (fun _ => rfl) _ _ _
  | opt q ih =>
    intro inverse r f hwf hd
    simp only [wf] at hwf
    simp only [depth] at hd
    have hr : ¬ r ≥ cap := by omega
    have h1 : ((r + 1 == 0) = false) := by simp
    simp only [Path.eval, hr, if_false, evalPure,
      ih inverse (r+1) f (by rw [h1]; exact hwf) (by omega)]
end Pyshacl
