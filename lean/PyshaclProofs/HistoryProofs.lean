import PyshaclModel.History
namespace Pyshacl.History

theorem filter_foldl_register (own : List String) :
    ∀ (l : List String) (base : List String), (∀ x ∈ l, x ∈ own) →
      (l.foldl register base).filter (· ∉ own) = base.filter (· ∉ own) := by
  intro l
  induction l with
  | nil => intro base _; rfl
  | cons x xs ih =>
    intro base h
    simp only [List.foldl_cons]
    rw [ih _ (fun y hy => h y (List.mem_cons_of_mem _ hy))]
    unfold register
    split
    · rfl
    · have hx : x ∈ own := h x List.mem_cons_self
      simp [List.filter_append, hx]

theorem clean_init : Clean init := ⟨rfl, rfl, rfl⟩

theorem regPrefix_sub (c : Call) (own : List String) : ∀ x ∈ regPrefix c own, x ∈ own := by
  intro x hx
  unfold regPrefix at hx
  split at hx
  · exact List.mem_of_mem_take hx
  · exact hx

/-- every call — successful or failing at any stage — leaves the observable global state clean -/
theorem clean_step (s : GState) (c : Call) (h : Clean s) : Clean (step s c).1 := by
  obtain ⟨h1, h2, h3⟩ := h
  unfold step
  simp only []
  split
  · exact ⟨h1, h2, h3⟩
  · split
    · exact ⟨rfl, rfl, h3⟩
    · split
      · split <;> exact ⟨by simp [*], by simp [*], by simp [*]⟩
      · refine ⟨?_, ?_, ?_⟩
        · split <;> simp [*]
        · split <;> simp [*]
        · simp only []
          unfold unregisterAll
          have hcf : ∀ (b : Bool), (if b = true then
              ({ normalize := true, boolPatched := false, customFns := s.customFns, bnodeText := [], validators := [] } : GState)
              else { normalize := s.normalize, boolPatched := s.boolPatched, customFns := s.customFns, bnodeText := [], validators := [] }).customFns = [] := by
            intro b; cases b <;> simp [h3]
          rw [filter_foldl_register _ _ _ (regPrefix_sub c _), hcf]; rfl

/-- what a call observes from a clean state is what it observes in a fresh process -/
theorem obs_clean (s : GState) (c : Call) (h : Clean s) : (step s c).2 = (step init c).2 := by
  obtain ⟨h1, h2, h3⟩ := h
  unfold step init
  simp only [h1, h2, h3]
  repeat' split
  all_goals simp

theorem clean_run (calls : List Call) : ∀ s, Clean s → Clean (run s calls) := by
  induction calls with
  | nil => intro s h; exact h
  | cons c cs ih => intro s h; exact ih _ (clean_step s c h)

/-- **C10**: after any finite history of calls — each of which may have failed at any pipeline stage —
    a call observes exactly what it observes in a fresh process. -/
theorem history_independent (calls : List Call) (c : Call) :
    (step (run init calls) c).2 = (step init c).2 :=
  obs_clean _ c (clean_run calls init clean_init)

/-- a failed call leaves rdflib's literal parsing and its registry of custom functions as it found them -/
theorem failed_call_restores (s : GState) (c : Call) (h : Clean s) (hf : c.failAt.isSome) :
    (step s c).1.normalize = true ∧ (step s c).1.boolPatched = false ∧ (step s c).1.customFns = [] :=
  clean_step s c h

/-! non-vacuity: a call that registers two functions and fails while running the rules -/
example : (step init ⟨true, false, true, ["f", "g"], ["t"], [], some .rules⟩).1 = init := by decide
example : run init [⟨true, false, true, ["f", "g"], [], [], some (.applyFunctions 1)⟩, ⟨true, true, false, [], [], [], some .loadShapes⟩] = init := by decide

end Pyshacl.History
