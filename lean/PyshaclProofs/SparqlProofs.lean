/-
  SparqlProofs.lean — C05: the glue around a SPARQL query (the engine's solutions are a parameter).
-/
import PyshaclModel.Eval
import Mathlib.Data.List.Nodup
namespace Pyshacl

/-- what one solution contributes: nothing (no ?this/?path/?value and no ?failure), a failure marker, or
    the triple (?this, ?path, ?value) with the solution's other bindings -/
def projOf (s : Sol) : Option Violation :=
  match s.get "failure" with
  | some _ => some (.failure (s.binds.filter (·.1 ≠ "failure")))
  | none =>
    if (s.get "this").isNone ∧ (s.get "path").isNone ∧ (s.get "value").isNone then none
    else some (.tpv (s.get "this") (s.get "path") (s.get "value") s.others)

def Violation.isFailure : Violation → Bool
  | .failure _ => true
  | _ => false

theorem violationsOf_mem_tpv (t p v : Option Term) (o : List (String × Term)) :
    ∀ (sols : List Sol) (acc : List Violation),
      Violation.tpv t p v o ∈ violationsOf sols acc ↔
        (Violation.tpv t p v o ∈ acc ∨ ∃ s ∈ sols, projOf s = some (.tpv t p v o)) := by
  intro sols
  induction sols with
  | nil => intro acc; simp [violationsOf]
  | cons s rest ih =>
    intro acc
    unfold violationsOf
    cases hf : s.get "failure" with
    | some x =>
      have hp : projOf s = some (.failure (s.binds.filter (·.1 ≠ "failure"))) := by simp [projOf, hf]
      simp only []
      split
      · rw [ih]; simp [hp]
      · rw [ih]; simp [hp]
    | none =>
      simp only []
      by_cases hn : (s.get "this").isNone ∧ (s.get "path").isNone ∧ (s.get "value").isNone
      · have hp : projOf s = none := by simp [projOf, hf, hn]
        simp only [hn, and_self, if_true]
        rw [ih]; simp [hp]
      · have hp : projOf s = some (.tpv (s.get "this") (s.get "path") (s.get "value") s.others) := by
          simp only [projOf, hf]; rw [if_neg hn]
        rw [if_neg hn]
        split
        · rename_i hin
          rw [ih]
          constructor
          · rintro (h | ⟨s', hs', h⟩)
            · exact Or.inl h
            · exact Or.inr ⟨s', List.mem_cons_of_mem _ hs', h⟩
          · rintro (h | ⟨s', hs', h⟩)
            · exact Or.inl h
            · rcases List.mem_cons.1 hs' with rfl | hs'
              · rw [hp] at h; cases h; exact Or.inl hin
              · exact Or.inr ⟨s', hs', h⟩
        · rw [ih]
          constructor
          · rintro (h | ⟨s', hs', h⟩)
            · rcases List.mem_cons.1 h with h | h
              · exact Or.inr ⟨s, List.mem_cons_self, by rw [hp, h]⟩
              · exact Or.inl h
            · exact Or.inr ⟨s', List.mem_cons_of_mem _ hs', h⟩
          · rintro (h | ⟨s', hs', h⟩)
            · exact Or.inl (List.mem_cons_of_mem _ h)
            · rcases List.mem_cons.1 hs' with rfl | hs'
              · rw [hp] at h; cases h; exact Or.inl List.mem_cons_self
              · exact Or.inr ⟨s', hs', h⟩

/-- the reported violations are pairwise distinct -/
theorem violationsOf_nodup : ∀ (sols : List Sol) (acc : List Violation), acc.Nodup → (violationsOf sols acc).Nodup := by
  intro sols
  induction sols with
  | nil => intro acc h; simpa [violationsOf] using h
  | cons s rest ih =>
    intro acc h
    unfold violationsOf
    cases hf : s.get "failure" with
    | some x =>
      simp only []
      split
      · exact ih acc h
      · rename_i hno
        apply ih
        refine List.nodup_cons.2 ⟨?_, h⟩
        intro hin
        apply hno
        rw [List.any_eq_true]
        exact ⟨_, hin, rfl⟩
    | none =>
      simp only []
      split
      · exact ih acc h
      · split
        · exact ih acc h
        · rename_i hno
          exact ih _ (List.nodup_cons.2 ⟨hno, h⟩)

/-- at most one failure marker is reported, however many `?failure` rows the query returns -/
theorem violationsOf_failures_le_one :
    ∀ (sols : List Sol) (acc : List Violation), (acc.filter Violation.isFailure).length ≤ 1 →
      ((violationsOf sols acc).filter Violation.isFailure).length ≤ 1 := by
  intro sols
  induction sols with
  | nil => intro acc h; simpa [violationsOf, List.filter_reverse] using h
  | cons s rest ih =>
    intro acc h
    unfold violationsOf
    cases hf : s.get "failure" with
    | some x =>
      simp only []
      split
      · exact ih acc h
      · rename_i hno
        apply ih
        have : acc.filter Violation.isFailure = [] := by
          rw [List.filter_eq_nil_iff]
          intro v hv hvf
          apply hno
          rw [List.any_eq_true]
          refine ⟨v, hv, ?_⟩
          cases v <;> simp_all [Violation.isFailure]
        simp [List.filter_cons, Violation.isFailure, this]
    | none =>
      simp only []
      split
      · exact ih acc h
      · split
        · exact ih acc h
        · apply ih
          simpa [List.filter_cons, Violation.isFailure] using h

/-- the result built from one violation — a function of that violation alone -/
def resultOfViolation (s : Shape) (constraintNode : Term) (extraMsgs : List Term) (f : Term) (vio : Violation) : Result :=
  let resultVal := if s.isProp then none else some f
  match vio with
  | .failure vars =>
    mkResult s .sparql f resultVal (source := some constraintNode)
      (messages := some (resultMessages s.messages extraMsgs (some vars)))
  | .tpv t p v vars =>
    let v' := match v with | some x => some x | none => resultVal
    let fdict := vars ++ (match t with | some x => [("this", x)] | none => []) ++
      (match p with | some x => [("path", x)] | none => []) ++ (match v' with | some x => [("value", x)] | none => [])
    mkResult s .sparql (t.getD f) v' (resultPath := p) (source := some constraintNode)
      (messages := some (resultMessages s.messages extraMsgs (some fdict)))

theorem sparqlResults_eq (s : Shape) (cn : Term) (extraMsgs : List Term) (f : Term) (sols : List Sol) :
    sparqlResults s cn extraMsgs f sols = (violationsOf sols []).map (resultOfViolation s cn extraMsgs f) := by
  unfold sparqlResults resultOfViolation
  apply List.map_congr_left
  intro vio _
  cases vio <;> rfl

/-- a component applies to a shape iff each of its mandatory parameters has a value on the shape -/
theorem mem_applicableComponents (sg : Graph) (comps : List Component) (shape : Term) (c : Component) :
    c ∈ applicableComponents sg comps shape ↔
      c ∈ comps ∧ ∀ p ∈ c.params, p.optional = false → ∃ v, (⟨shape, p.path, v⟩ : Triple) ∈ sg := by
  unfold applicableComponents
  simp only [List.mem_filter, List.all_eq_true, decide_eq_true_eq, Bool.not_eq_true', ne_eq]
  constructor
  · rintro ⟨hc, h⟩
    refine ⟨hc, ?_⟩
    intro p hp hopt
    have := h p ⟨hp, hopt⟩
    obtain ⟨v, hv⟩ := List.exists_mem_of_ne_nil _ this
    exact ⟨v, Graph.mem_objects.1 hv⟩
  · rintro ⟨hc, h⟩
    refine ⟨hc, ?_⟩
    rintro p ⟨hp, hopt⟩
    obtain ⟨v, hv⟩ := h p hp hopt
    intro hnil
    have := Graph.mem_objects.2 hv
    rw [hnil] at this; cases this

end Pyshacl
