/-
  LogicalLemmas.lean — the logical / shape-based components produce their results from the
  conformance facts of the member shapes alone.
-/
import PyshaclProofs.EvalLemmas
namespace Pyshacl

theorem foldOut_ok {α} (xs : List α) (f : α → Out) (g : α → Bool × List Result)
    (h : ∀ x ∈ xs, f x = .ok (g x)) :
    foldOut xs f = .ok (xs.all (fun x => (g x).1), xs.flatMap (fun x => (g x).2)) := by
  induction xs with
  | nil => simp [foldOut]
  | cons x xs ih =>
    simp only [foldOut, h x List.mem_cons_self, ih (fun y hy => h y (List.mem_cons_of_mem _ hy))]
    simp [List.all_cons, List.flatMap_cons]

theorem mapE_ok {α β ε} (f : α → Except ε β) (g : α → β) :
    ∀ xs : List α, (∀ x ∈ xs, f x = .ok (g x)) → mapE f xs = .ok (xs.map g) := by
  intro xs
  induction xs with
  | nil => intro _; rfl
  | cons x xs ih =>
    intro h
    simp only [mapE, h x List.mem_cons_self, ih (fun y hy => h y (List.mem_cons_of_mem _ hy)), List.map_cons]

/-- the conformance fact `v conforms to member m`, as the nested evaluation reports it -/
def confOf (rec : Rec) (path : List PathEntry) (m : Shape) (v : Term) : Bool :=
  match rec m v path with
  | .ok (c, _) => c
  | .error _ => false

/-- **sh:not / sh:and / sh:or / sh:xone** (all go through `logicalOver`): whenever the conformance
    checks of the members succeed, the results are exactly one result per (focus, value) for which
    the conformance facts satisfy the component's condition `bad` — nothing else, in particular no
    result of a member shape. -/
theorem logicalOver_spec (rec : Rec) (s : Shape) (k : CKind) (path : List PathEntry) (fv : FV)
    (members : List Shape) (bad : List Bool → Bool)
    (hok : ∀ m ∈ members, ∀ f vs, (f, vs) ∈ fv → ∀ v ∈ vs, ∃ c r, rec m v path = .ok (c, r)) :
    ∃ conf, logicalOver rec s k path fv members bad = .ok (conf,
      fv.flatMap fun (f, vs) => vs.flatMap fun v =>
        if bad (members.map fun m => confOf rec path m v) then [mkResult s k f (some v)] else []) := by
  unfold logicalOver
  refine ⟨fv.all (fun p => p.2.all (fun v => !bad (members.map fun m => confOf rec path m v))), ?_⟩
  rw [foldOut_ok fv _ (fun (p : Term × List Term) =>
      (p.2.all (fun v => !bad (members.map fun m => confOf rec path m v)),
       p.2.flatMap fun v => if bad (members.map fun m => confOf rec path m v) then [mkResult s k p.1 (some v)] else []))]
  · rintro ⟨f, vs⟩ hfv
    simp only []
    rw [foldOut_ok vs _ (fun v => (!bad (members.map fun m => confOf rec path m v),
        if bad (members.map fun m => confOf rec path m v) then [mkResult s k f (some v)] else []))]
    intro v hv
    have hm : evalMembers rec path members v = .ok (members.map fun m => confOf rec path m v) := by
      unfold evalMembers
      apply mapE_ok
      intro m hmm
      obtain ⟨c, r, hcr⟩ := hok m hmm f vs hfv v hv
      simp [confOf, hcr]
    simp only [hm]
    split <;> simp_all

theorem mkResult_owner (s : Shape) (k : CKind) (f : Term) (v p c : Option Term) (d : List Result) (src : Option Term)
    (m : Option (List Term)) :
    (mkResult s k f v p c d src m).shape = s.node ∧ (mkResult s k f v p c d src m).severity = s.severity := by
  simp [mkResult, Result.shape, Result.severity]

end Pyshacl

namespace Pyshacl

/-- **sh:node**: whenever the nested evaluations succeed and conform exactly when they report
    nothing, there is one result per (focus, value) that does not conform, and the results of the
    consulted shape only appear as its `sh:detail`. -/
theorem nodeOver_spec (rec : Rec) (s : Shape) (path : List PathEntry) (fv : FV) (ns : Shape)
    (g : Term → Bool × List Result)
    (hok : ∀ f vs, (f, vs) ∈ fv → ∀ v ∈ vs, rec ns v path = .ok (g v))
    (hgood : ∀ v, (g v).1 = (g v).2.isEmpty) :
    ∃ conf, nodeOver rec s path fv ns = .ok (conf,
      fv.flatMap fun (f, vs) => vs.flatMap fun v =>
        if (g v).1 then [] else [mkResult s .node f (some v) (details := (g v).2)]) := by
  unfold nodeOver
  refine ⟨fv.all (fun p => p.2.all (fun v => (g v).1)), ?_⟩
  rw [foldOut_ok fv _ (fun (p : Term × List Term) =>
      (p.2.all (fun v => (g v).1),
       p.2.flatMap fun v => if (g v).1 then [] else [mkResult s .node p.1 (some v) (details := (g v).2)]))]
  rintro ⟨f, vs⟩ hfv
  simp only []
  rw [foldOut_ok vs _ (fun v => ((g v).1, if (g v).1 then [] else [mkResult s .node f (some v) (details := (g v).2)]))]
  intro v hv
  rw [hok f vs hfv v hv]
  have := hgood v
  cases hg : g v with
  | mk c r =>
    simp only [hg] at this
    subst this
    cases r <;> simp

/-- **sh:property**: the results are exactly the nested property shape's own results -/
theorem propertyOver_spec (rec : Rec) (path : List PathEntry) (fv : FV) (ps : Shape)
    (g : Term → Bool × List Result)
    (hok : ∀ f vs, (f, vs) ∈ fv → ∀ v ∈ vs, rec ps v path = .ok (g v)) :
    ∃ conf, propertyOver rec path fv ps = .ok (conf, fv.flatMap fun (_, vs) => vs.flatMap fun v => (g v).2) := by
  unfold propertyOver
  refine ⟨fv.all (fun p => p.2.all (fun v => (g v).1)), ?_⟩
  rw [foldOut_ok fv _ (fun (p : Term × List Term) => (p.2.all (fun v => (g v).1), p.2.flatMap fun v => (g v).2))]
  rintro ⟨f, vs⟩ hfv
  simp only []
  rw [foldOut_ok vs _ g]
  intro v hv
  exact hok f vs hfv v hv

end Pyshacl
