/-
  WaiverIndep.lean — allow_infos / allow_warnings never change which results are reported
  (complete runs, i.e. abort_on_first off): nested evaluations are literally identical, top-level
  evaluations report the same results and fail in the same way.
-/
import PyshaclProofs.EvalLemmas
namespace Pyshacl

/-- the same options with different waiver switches -/
def Opts.withWaivers (o : Opts) (i w : Bool) : Opts := { o with allowInfos := i, allowWarnings := w }
def Ctx.withWaivers (c : Ctx) (i w : Bool) : Ctx := { c with o := c.o.withWaivers i w }

/-- results (or the failure) of an outcome, forgetting the conformance flag -/
def Out.results (o : Out) : Except Failure (List Result) :=
  match o with
  | .error e => .error e
  | .ok (_, rs) => .ok rs

theorem loopE_noabort_results {α} (fl1 fl2 : Bool → List Result → Bool) (f1 f2 : α → Out)
    (h : ∀ x, Out.results (f1 x) = Out.results (f2 x)) :
    ∀ xs : List α, (match loopE false fl1 f1 xs with | .error e => Except.error e | .ok (_, rs) => Except.ok rs)
        = (match loopE false fl2 f2 xs with | .error e => Except.error e | .ok (_, rs) => Except.ok rs) := by
  intro xs
  induction xs with
  | nil => simp [loopE]
  | cons x xs ih =>
    simp only [loopE, Bool.and_false]
    have hx := h x
    cases h1 : f1 x with
    | error e1 =>
      cases h2 : f2 x with
      | error e2 => simp [Out.results, h1, h2] at hx; simp [hx]
      | ok p2 => obtain ⟨c2, r2⟩ := p2; simp [Out.results, h1, h2] at hx
    | ok p1 =>
      obtain ⟨c1, r1⟩ := p1
      cases h2 : f2 x with
      | error e2 => simp [Out.results, h1, h2] at hx
      | ok p2 =>
        obtain ⟨c2, r2⟩ := p2
        simp [Out.results, h1, h2] at hx
        subst hx
        simp only [Bool.false_eq_true, if_false]
        cases l1 : loopE false fl1 f1 xs with
        | error e1 =>
          cases l2 : loopE false fl2 f2 xs with
          | error e2 => simp [l1, l2] at ih; simp [ih]
          | ok q2 => obtain ⟨a, b⟩ := q2; simp [l1, l2] at ih
        | ok q1 =>
          obtain ⟨a1, b1⟩ := q1
          cases l2 : loopE false fl2 f2 xs with
          | error e2 => simp [l1, l2] at ih
          | ok q2 => obtain ⟨a2, b2⟩ := q2; simp [l1, l2] at ih; simp [ih]

theorem constraintFails_nested (o : Opts) :
    constraintFails o false = fun conf _ => !conf := by
  funext conf rs; unfold constraintFails; simp

/-- nested evaluations do not look at the waiver switches at all -/
theorem validateBody_nested_indep (c : Ctx) (i w : Bool) (hab : c.o.abortOnFirst = false) (rec' : Rec)
    (s : Shape) (focus : Option (List Term)) (p : List PathEntry) :
    validateBody (c.withWaivers i w) rec' s focus (some p) = validateBody c rec' s focus (some p) := by
  unfold validateBody resolveFocus validateCore Ctx.withWaivers Opts.withWaivers
  simp only [hab, Bool.false_and, Option.isNone_some, constraintFails_nested]

theorem validateShape_nested_indep (c : Ctx) (i w : Bool) (hab : c.o.abortOnFirst = false) :
    ∀ (fuel : Nat) (s : Shape) (focus : Option (List Term)) (p : List PathEntry),
      validateShape (c.withWaivers i w) fuel s focus (some p) = validateShape c fuel s focus (some p) := by
  intro fuel
  induction fuel with
  | zero => intro s focus p; simp only [validateShape]; exact validateBody_nested_indep c i w hab _ s focus p
  | succ f ih =>
    intro s focus p
    simp only [validateShape]
    rw [validateBody_nested_indep c i w hab _ s focus p]
    congr 1
    funext s' v p'
    exact ih s' (some [v]) p'

/-- **C11, results**: a top-level shape evaluation reports the same results (or fails in the same
    way) whatever the waiver switches are. -/
theorem validateShape_top_results_indep (c : Ctx) (i w : Bool) (hab : c.o.abortOnFirst = false)
    (fuel : Nat) (s : Shape) (focus : Option (List Term)) :
    Out.results (validateShape (c.withWaivers i w) fuel s focus none) =
      Out.results (validateShape c fuel s focus none) := by
  have hrec : ∀ f, (fun s' v p' => validateShape (c.withWaivers i w) f s' (some [v]) (some p'))
      = (fun s' v p' => validateShape c f s' (some [v]) (some p')) := by
    intro f; funext s' v p'; exact validateShape_nested_indep c i w hab f s' (some [v]) p'
  have key : ∀ rec' : Rec, Out.results (validateBody (c.withWaivers i w) rec' s focus none) =
      Out.results (validateBody c rec' s focus none) := by
    intro rec'
    unfold validateBody
    have hd : (c.withWaivers i w).toEnv = c.toEnv := rfl
    by_cases hde : s.deactivated
    · simp [hde]
    · simp only [hde, Bool.false_eq_true, if_false]
      have hx : (if focus.isNone = true ∧ (c.withWaivers i w).o.advanced = true then
            advancedFocus (c.withWaivers i w).sg (c.withWaivers i w).tts (c.withWaivers i w).adv s.node
          else Except.ok []) =
          (if focus.isNone = true ∧ c.o.advanced = true then advancedFocus c.sg c.tts c.adv s.node else Except.ok []) := rfl
      rw [hx]
      cases (if focus.isNone = true ∧ c.o.advanced = true then advancedFocus c.sg c.tts c.adv s.node else Except.ok []) with
      | error e => rfl
      | ok extra =>
      simp only []
      have hrf : resolveFocus (c.withWaivers i w) s focus extra = resolveFocus c s focus extra := rfl
      rw [hrf]
      cases resolveFocus c s focus extra with
      | none => rfl
      | some fl =>
        simp only []
        unfold validateCore
        simp only [Option.isNone_none, Bool.not_true, Bool.false_eq_true, false_and, if_false, hd]
        have hm : (c.withWaivers i w).o.maxDepth = c.o.maxDepth := rfl
        have hadv : (c.withWaivers i w).o.advanced = c.o.advanced := rfl
        have hsg : (c.withWaivers i w).sg = c.sg := rfl
        cases valueNodes c.toEnv s fl with
        | error e => rfl
        | ok fv =>
          simp only [hadv, hsg]
          have habw : (c.withWaivers i w).o.abortOnFirst = false := hab
          simp only [hab, habw, Bool.false_and]
          have := loopE_noabort_results (constraintFails (c.withWaivers i w).o true) (constraintFails c.o true)
            (fun k => evalConstraint c.toEnv rec' s k fv ([] ++ [PathEntry.shape s.node] ++ [PathEntry.constr k s.node]))
            (fun k => evalConstraint c.toEnv rec' s k fv ([] ++ [PathEntry.shape s.node] ++ [PathEntry.constr k s.node]))
            (fun _ => rfl) (shapeComponents c.sg s.node c.o.advanced)
          simp only [Option.getD_none] at this ⊢
          revert this
          cases loopE false (constraintFails (c.withWaivers i w).o true) _ (shapeComponents c.sg s.node c.o.advanced) <;>
          cases loopE false (constraintFails c.o true) _ (shapeComponents c.sg s.node c.o.advanced) <;>
          simp [Out.results]
          intro hs
          cases c.components with
          | error e => rfl
          | ok allComps =>
            simp only []
            have h2 := loopE_noabort_results (constraintFails (c.withWaivers i w).o true) (constraintFails c.o true)
              (fun comp => evalComponent c.toEnv s comp fv) (fun comp => evalComponent c.toEnv s comp fv)
              (fun _ => rfl) (applicableComponents c.sg allComps s.node)
            revert h2
            cases loopE false (constraintFails (c.withWaivers i w).o true) (fun comp => evalComponent c.toEnv s comp fv)
              (applicableComponents c.sg allComps s.node) <;>
            cases loopE false (constraintFails c.o true) (fun comp => evalComponent c.toEnv s comp fv)
              (applicableComponents c.sg allComps s.node) <;>
            simp [hs]
  cases fuel with
  | zero => simp only [validateShape]; exact key _
  | succ f => simp only [validateShape]; rw [hrec f]; exact key _

end Pyshacl

namespace Pyshacl

theorem validateAll_results_indep (c : Ctx) (i w : Bool) (hab : c.o.abortOnFirst = false)
    (shapes : List Shape) (focus : Option (List Term)) :
    Out.results (validateAll (c.withWaivers i w) shapes focus) = Out.results (validateAll c shapes focus) := by
  unfold validateAll
  have habw : (c.withWaivers i w).o.abortOnFirst = false := hab
  have hm : (c.withWaivers i w).o.maxDepth = c.o.maxDepth := rfl
  rw [hab, habw, hm]
  have := loopE_noabort_results (fun conf _ => !conf) (fun conf _ => !conf)
    (fun s => validateShape (c.withWaivers i w) (c.o.maxDepth + 1) s focus none)
    (fun s => validateShape c (c.o.maxDepth + 1) s focus none)
    (fun s => validateShape_top_results_indep c i w hab _ s focus) shapes
  revert this
  cases loopE false (fun conf _ => !conf) (fun s => validateShape (c.withWaivers i w) (c.o.maxDepth + 1) s focus none) shapes <;>
  cases loopE false (fun conf _ => !conf) (fun s => validateShape c (c.o.maxDepth + 1) s focus none) shapes <;>
  simp [Out.results]

/-- **C11**: turning on allow_infos / allow_warnings never changes which results `validate()` reports
    (nor the way it fails), for every shapes graph, data graph and focus selection. -/
theorem runValidate_results_indep (o : Opts) (i w : Bool) (hab : o.abortOnFirst = false)
    (sg dg : Graph) (rx : Regex) (focus : List Term) :
    Out.results (runValidate (o.withWaivers i w) sg dg rx focus []) = Out.results (runValidate o sg dg rx focus []) := by
  unfold runValidate
  simp only []
  split
  · rfl
  cases buildShapes sg with
  | error e => rfl
  | ok shapes =>
    simp only []
    have hadv : (o.withWaivers i w).advanced = o.advanced := rfl
    rw [hadv]
    cases (if o.advanced = true then
        match gatherTargetTypes sg, gatherFunctions sg with
        | Except.error e, _ => Except.error e
        | _, Except.error e => Except.error e
        | Except.ok tts, Except.ok fns => Except.ok (fns, tts)
      else Except.ok ([], [])) with
    | error e => rfl
    | ok pr =>
      obtain ⟨fns, tts⟩ := pr
      simp only []
      exact validateAll_results_indep ⟨⟨sg, dg, shapes, rx, fun _ _ => none, fun _ => none, findComponents sg, fun _ _ _ _ => none, fns, tts, {}⟩, { o with focusNodes := if focus = [] then none else some focus }⟩ i w hab shapes none

end Pyshacl
