/-
  FocusProofs.lean — C13: what the `focus_nodes` / `use_shapes` options change, and what they do not.
-/
import PyshaclProofs.TargetProofs
import PyshaclProofs.EvalLemmas
namespace Pyshacl

/-- the same context without the `focus_nodes` option -/
def Ctx.noFilter (c : Ctx) : Ctx := { c with o := { c.o with focusNodes := none } }

theorem validateCore_noFilter (c : Ctx) (rec' : Rec) (s : Shape) (fl : List Term) (path : Option (List PathEntry)) :
    validateCore c.noFilter rec' s fl path = validateCore c rec' s fl path := rfl

/-- an evaluation with an explicit focus (every nested evaluation is one) never looks at the filter -/
theorem resolveFocus_explicit (c : Ctx) (s : Shape) (fs extra : List Term) :
    resolveFocus c.noFilter s (some fs) extra = resolveFocus c s (some fs) extra := by
  unfold resolveFocus Ctx.noFilter
  simp only [Option.isNone_some, Bool.false_eq_true, false_and, if_false]
  cases c.o.focusNodes <;> rfl

theorem validateBody_explicit (c : Ctx) (rec' : Rec) (s : Shape) (fs : List Term) (path : Option (List PathEntry)) :
    validateBody c.noFilter rec' s (some fs) path = validateBody c rec' s (some fs) path := by
  unfold validateBody
  simp only [Option.isNone_some, Bool.false_eq_true, false_and, if_false, resolveFocus_explicit]
  rfl

/-- **nested checks are unfiltered**: validating value nodes on behalf of a focus node (sh:property, sh:node,
    logical and qualified shapes all call `validate` with an explicit focus) gives the same outcome with and
    without `focus_nodes`, at every nesting depth -/
theorem validateShape_explicit (c : Ctx) : ∀ (fuel : Nat) (s : Shape) (fs : List Term) (path : Option (List PathEntry)),
    validateShape c.noFilter fuel s (some fs) path = validateShape c fuel s (some fs) path := by
  intro fuel
  induction fuel with
  | zero =>
    intro s fs path
    simp only [validateShape]
    exact validateBody_explicit c _ s fs path
  | succ f ih =>
    intro s fs path
    simp only [validateShape]
    rw [validateBody_explicit]
    congr 1
    funext s' v p'
    exact ih s' [v] (some p')

/-- the focus list of a top-level evaluation under `focus_nodes = F`: the IRIs of F among the shape's targets;
    the evaluation is skipped (`none`) exactly when there is none -/
theorem resolveFocus_filtered (c : Ctx) (s : Shape) (F extra : List Term) (hF : F ≠ []) (hc : c.o.focusNodes = some F) :
    (∀ fl, resolveFocus c s none extra = some fl →
        ∀ n, n ∈ fl ↔ (n ∈ focusNodes c.sg c.dg s.node ++ extra ∧ n.isIri = true ∧ n ∈ F)) ∧
    (resolveFocus c s none extra = none ↔
        ∀ n, ¬ (n ∈ focusNodes c.sg c.dg s.node ++ extra ∧ n.isIri = true ∧ n ∈ F)) := by
  unfold resolveFocus
  simp only [hc, Option.isNone_none, true_and, ne_eq, hF, not_false_eq_true, if_true]
  by_cases h0 : focusNodes c.sg c.dg s.node ++ extra = []
  · simp [h0]
  · simp only [h0, if_false]
    by_cases hf : (focusNodes c.sg c.dg s.node ++ extra).filter (fun f => decide (f.isIri = true ∧ f ∈ F)) = []
    · simp only [hf, if_true]
      refine ⟨fun fl h => (by cases h), ?_⟩
      simp only [true_iff]
      intro n hn
      have : n ∈ (focusNodes c.sg c.dg s.node ++ extra).filter (fun f => decide (f.isIri = true ∧ f ∈ F)) := by
        rw [List.mem_filter]; exact ⟨hn.1, by simpa using hn.2⟩
      rw [hf] at this; cases this
    · simp only [hf, if_false]
      constructor
      · intro fl h
        cases h
        intro n
        rw [mem_dedup, List.mem_filter]
        simp
      · simp only [reduceCtorEq, false_iff]
        intro hall
        obtain ⟨x, hx⟩ := List.exists_mem_of_ne_nil _ hf
        rw [List.mem_filter] at hx
        exact hall x ⟨hx.1, by simpa using hx.2⟩

/-- without the option the focus list is the target set -/
theorem resolveFocus_unfiltered (c : Ctx) (s : Shape) (extra : List Term) (hc : c.o.focusNodes = none) :
    (∀ fl, resolveFocus c s none extra = some fl → ∀ n, n ∈ fl ↔ n ∈ focusNodes c.sg c.dg s.node ++ extra) ∧
    (resolveFocus c s none extra = none ↔ focusNodes c.sg c.dg s.node ++ extra = []) := by
  unfold resolveFocus
  simp only [hc]
  by_cases h0 : focusNodes c.sg c.dg s.node ++ extra = []
  · simp [h0]
  · simp only [h0, if_false]
    refine ⟨?_, by simp⟩
    intro fl h; cases h; intro n; rw [mem_dedup]

/-- `use_shapes` + `focus_nodes`: each selected shape is applied to every node of F, whatever it targets -/
theorem resolveFocus_both (c : Ctx) (s : Shape) (F extra : List Term) (hF : F ≠ []) :
    ∃ fl, resolveFocus c s (some F) extra = some fl ∧ ∀ n, n ∈ fl ↔ n ∈ F := by
  unfold resolveFocus
  simp only [hF, if_false, Option.isNone_some, Bool.false_eq_true, false_and]
  cases c.o.focusNodes <;> exact ⟨_, rfl, fun n => mem_dedup⟩

theorem lookupShape_some {shapes : List Shape} {n : Term} {s : Shape} (h : lookupShape shapes n = some s) :
    s.node = n ∧ s ∈ shapes := by
  unfold lookupShape at h
  exact ⟨by simpa using List.find?_some h, List.mem_of_find?_eq_some h⟩

/-- looking the selected IRIs up in the shape cache returns one shape per IRI, in order, each from the cache -/
theorem mapE_lookup (shapes : List Shape) (e : Failure) :
    ∀ (L : List Term) (selected : List Shape),
      mapE (fun u => match lookupShape shapes u with
        | some s => Except.ok s
        | none => Except.error e) L = .ok selected →
      selected.map (·.node) = L ∧ ∀ s ∈ selected, s ∈ shapes := by
  intro L
  induction L with
  | nil => intro selected h; simp [mapE] at h; subst h; simp
  | cons x xs ih =>
    intro selected h
    unfold mapE at h
    split at h
    · cases h
    · rename_i y hy
      split at h
      · cases h
      · rename_i ys hys
        cases h
        obtain ⟨h1, h2⟩ := ih ys hys
        split at hy
        · rename_i sx hx
          cases hy
          obtain ⟨hn, hm⟩ := lookupShape_some hx
          refine ⟨by simp [hn, h1], ?_⟩
          intro s hs
          rcases List.mem_cons.1 hs with rfl | hs
          · exact hm
          · exact h2 s hs
        · cases hy

end Pyshacl
