/-
  EvalLemmas.lean — invariants of the model of `Shape.validate` / `Validator.run`:

  * `Good`            : an outcome's conformance flag says exactly "no results"
  * `validateShape_good`, `validateShape_top`, `validateAll_verdict`
                      : verdict formulas (nested: conforms ⇔ no results; top level: conforms ⇔ every
                        reported result has a waived severity), for every option vector incl. abort
  All statements are for every shapes graph, data graph, shape, focus list and evaluation path.
-/
import PyshaclModel.Eval
namespace Pyshacl

def Good (o : Out) : Prop := ∀ c rs, o = .ok (c, rs) → c = rs.isEmpty

theorem good_error (e : Failure) : Good (.error e) := by
  intro c rs h; cases h

theorem good_ok_true : Good (.ok (true, [])) := by
  intro c rs h; cases h; rfl

theorem good_ofResults (rs : List Result) : Good (ofResults rs) := by
  intro c rs' h; simp [ofResults] at h; obtain ⟨h1, h2⟩ := h; subst h2; exact h1.symm

theorem good_liftResults (x : Except Failure (List Result)) : Good (liftResults x) := by
  unfold liftResults
  cases x with
  | error e => intro c rs h; cases h
  | ok rs => intro c r h; simp [ofResults] at h; rw [← h.1, ← h.2]

theorem good_single (r : Result) : Good (.ok (false, [r])) := by
  intro c rs h; cases h; rfl

theorem good_foldOut {α} (xs : List α) (f : α → Out) (hf : ∀ x, Good (f x)) : Good (foldOut xs f) := by
  induction xs with
  | nil => exact good_ok_true
  | cons x xs ih =>
    intro c rs h
    simp only [foldOut] at h
    split at h
    · cases h
    · rename_i c1 rs1 hfx
      split at h
      · cases h
      · rename_i c2 rs2 hrest
        have h1 := hf x c1 rs1 hfx
        have h2 := ih c2 rs2 hrest
        cases h
        subst h1; subst h2
        cases rs1 <;> cases rs2 <;> simp

theorem good_logicalOver (rec : Rec) (s : Shape) (k : CKind) (path : List PathEntry) (fv : FV)
    (members : List Shape) (bad : List Bool → Bool) : Good (logicalOver rec s k path fv members bad) := by
  unfold logicalOver
  apply good_foldOut
  rintro ⟨f, vs⟩
  apply good_foldOut
  intro v
  split
  · exact good_error _
  · split
    · exact good_single _
    · exact good_ok_true

/-- every constraint component returns "conforms" exactly when it returns no results, provided the
    nested shape evaluations do -/
theorem good_evalConstraint (e : Env) (rec : Rec) (hrec : ∀ s v p, Good (rec s v p))
    (s : Shape) (k : CKind) (fv : FV) (path : List PathEntry) : Good (evalConstraint e rec s k fv path) := by
  cases k <;> simp only [evalConstraint]
  all_goals
    repeat' first
      | exact good_error _
      | exact good_ok_true
      | exact good_ofResults _
      | exact good_liftResults _
      | exact good_single _
      | exact good_logicalOver _ _ _ _ _ _ _
      | exact hrec _ _ _
      | (apply good_foldOut; intro _)
      | split

end Pyshacl

namespace Pyshacl

/-- every result has a severity waived by the options (with no option: there is no result) -/
def allWaived (o : Opts) (rs : List Result) : Bool :=
  rs.all fun r => decide (r.severity ∈ allowedSeverities o)

/-- what "this list of results lets the verdict stay conforming" means at nesting level `top` -/
def okSet (o : Opts) (top : Bool) (rs : List Result) : Bool :=
  if (o.allowInfos ∨ o.allowWarnings) ∧ top then allWaived o rs else rs.isEmpty

theorem okSet_nil (o : Opts) (top : Bool) : okSet o top [] = true := by
  unfold okSet allWaived; split <;> simp

theorem okSet_append (o : Opts) (top : Bool) (a b : List Result) :
    okSet o top (a ++ b) = (okSet o top a && okSet o top b) := by
  unfold okSet allWaived; split
  · simp [List.all_append]
  · cases a <;> cases b <;> simp

theorem allWaived_no_option (o : Opts) (h1 : o.allowInfos = false) (h2 : o.allowWarnings = false)
    (rs : List Result) : allWaived o rs = rs.isEmpty := by
  unfold allWaived allowedSeverities
  simp [h1, h2]
  cases rs <;> simp

theorem okSet_top (o : Opts) (rs : List Result) : okSet o true rs = allWaived o rs := by
  unfold okSet
  split
  · rfl
  · rename_i h
    have h1 : o.allowInfos = false := by
      cases hh : o.allowInfos <;> simp_all
    have h2 : o.allowWarnings = false := by
      cases hh : o.allowWarnings <;> simp_all
    exact (allWaived_no_option o h1 h2 rs).symm

theorem any_not_all {α} (l : List α) (p : α → Prop) [DecidablePred p] :
    (l.any fun x => decide (¬ p x)) = !(l.all fun x => decide (p x)) := by
  induction l with
  | nil => simp
  | cons x xs ih =>
    simp only [List.any_cons, List.all_cons, Bool.not_and]
    rw [ih]; simp

theorem constraintFails_good (o : Opts) (top : Bool) (conf : Bool) (rs : List Result)
    (h : conf = rs.isEmpty) : constraintFails o top conf rs = !okSet o top rs := by
  unfold constraintFails okSet allWaived
  subst h
  by_cases hw : (o.allowInfos ∨ o.allowWarnings) ∧ top
  · cases rs with
    | nil => simp [hw]
    | cons r rs =>
      have h1 : ¬ ((r :: rs).isEmpty = true ∨ ¬ ((o.allowInfos = true ∨ o.allowWarnings = true) ∧ top = true)) := by
        simp; exact hw
      rw [if_neg h1, if_pos hw]
      exact any_not_all (r :: rs) (fun r => r.severity ∈ allowedSeverities o)
  · have h1 : ((rs.isEmpty = true) ∨ ¬ ((o.allowInfos = true ∨ o.allowWarnings = true) ∧ top = true)) := Or.inr hw
    rw [if_pos h1, if_neg hw]

/-- the early-exit loop: the accumulated flag is "some reported result is not acceptable" -/
theorem loopE_verdict {α} (abort : Bool) (fails : Bool → List Result → Bool) (f : α → Out)
    (P : List Result → Bool) (hnil : P [] = true) (happ : ∀ a b, P (a ++ b) = (P a && P b))
    (hf : ∀ x conf rs, f x = .ok (conf, rs) → fails conf rs = !P rs) :
    ∀ (xs : List α) (nc : Bool) (rs : List Result), loopE abort fails f xs = .ok (nc, rs) → nc = !P rs := by
  intro xs
  induction xs with
  | nil => intro nc rs h; simp [loopE] at h; obtain ⟨h1, h2⟩ := h; subst h1; subst h2; simp [hnil]
  | cons x xs ih =>
    intro nc rs h
    simp only [loopE] at h
    split at h
    · cases h
    · rename_i conf rs1 hfx
      have hfl := hf x conf rs1 hfx
      split at h
      · rename_i hab
        cases h
        simp only [Bool.and_eq_true] at hab
        rw [← hfl]; exact hab.1.symm
      · split at h
        · cases h
        · rename_i nc' rs' hl
          cases h
          rw [happ, hfl, ih nc' rs' hl]
          cases P rs1 <;> cases P rs' <;> rfl

theorem good_evalComponent (e : Env) (s : Shape) (comp : Component) (fv : FV) : Good (evalComponent e s comp fv) := by
  unfold evalComponent
  repeat' first
    | exact good_error _
    | exact good_ok_true
    | exact good_ofResults _
    | (apply good_foldOut; intro _)
    | split
    | dsimp only

theorem validateCore_verdict (c : Ctx) (rec' : Rec) (hrec : ∀ s v p, Good (rec' s v p))
    (s : Shape) (fl : List Term) (path : Option (List PathEntry)) (conf : Bool) (rs : List Result)
    (h : validateCore c rec' s fl path = .ok (conf, rs)) : conf = okSet c.o path.isNone rs := by
  unfold validateCore at h
  simp only [] at h
  split at h
  · cases h
  · split at h
    · cases h
    · split at h
      · cases h
      · rename_i nonConf rs' hl
        have hv := loopE_verdict _ _ _ (okSet c.o path.isNone) (okSet_nil _ _) (okSet_append _ _)
          (fun k cf r hk => constraintFails_good c.o path.isNone cf r
            (good_evalConstraint c.toEnv rec' hrec s k _ _ cf r hk)) _ nonConf rs' hl
        split at h
        · cases h
        · split at h
          · cases h
            rw [hv]; simp
          · split at h
            · cases h
            · rename_i nonConf2 rs2 hl2
              have hv2 := loopE_verdict _ _ _ (okSet c.o path.isNone) (okSet_nil _ _) (okSet_append _ _)
                (fun comp cf r hk => constraintFails_good c.o path.isNone cf r
                  (good_evalComponent c.toEnv s comp _ cf r hk)) _ nonConf2 rs2 hl2
              cases h
              rw [okSet_append, hv, hv2]
              cases okSet c.o path.isNone rs' <;> cases okSet c.o path.isNone rs2 <;> rfl

/-- the body of `Shape.validate`, given nested evaluations that conform exactly when they report nothing -/
theorem validateBody_verdict (c : Ctx) (rec' : Rec) (hrec : ∀ s v p, Good (rec' s v p))
    (s : Shape) (focus : Option (List Term)) (path : Option (List PathEntry)) (conf : Bool) (rs : List Result)
    (h : validateBody c rec' s focus path = .ok (conf, rs)) : conf = okSet c.o path.isNone rs := by
  unfold validateBody at h
  split at h
  · cases h; exact (okSet_nil _ _).symm
  · split at h
    · cases h
    · split at h
      · cases h; exact (okSet_nil _ _).symm
      · exact validateCore_verdict c rec' hrec s _ path conf rs h

/-- **Verdict formula of `Shape.validate`** — for every shape, focus list, evaluation path, option
    vector (waivers, abort, focus filter) and fuel: nested evaluations conform exactly when they
    report nothing; a top-level evaluation conforms exactly when every reported result has a waived
    severity. -/
theorem validateShape_verdict (c : Ctx) :
    ∀ (fuel : Nat) (s : Shape) (focus : Option (List Term)) (path : Option (List PathEntry))
      (conf : Bool) (rs : List Result),
      validateShape c fuel s focus path = .ok (conf, rs) → conf = okSet c.o path.isNone rs := by
  intro fuel
  induction fuel with
  | zero =>
    intro s focus path conf rs h
    exact validateBody_verdict c _ (fun _ _ _ => good_error _) s focus path conf rs h
  | succ f ih =>
    intro s focus path conf rs h
    refine validateBody_verdict c _ ?_ s focus path conf rs h
    intro s' v p' cf r hr
    have := ih s' (some [v]) (some p') cf r hr
    simpa [okSet] using this

/-- **Verdict formula of a run** (`Validator.run`): conforms exactly when every reported result has a
    severity waived by allow_infos / allow_warnings; with neither option: exactly when there is no
    result.  Holds with and without abort_on_first. -/
theorem validateAll_verdict (c : Ctx) (shapes : List Shape) (focus : Option (List Term))
    (conf : Bool) (rs : List Result) (h : validateAll c shapes focus = .ok (conf, rs)) :
    conf = allWaived c.o rs := by
  unfold validateAll at h
  split at h
  · cases h
  · rename_i nonConf rs' hl
    have hv := loopE_verdict c.o.abortOnFirst (fun conf _ => !conf)
      (fun s => validateShape c (c.o.maxDepth + 1) s focus none) (okSet c.o true) (okSet_nil _ _) (okSet_append _ _)
      (fun s cf r hs => by
        have := validateShape_verdict c _ s focus none cf r hs
        simp at this; simp [this]) _ nonConf rs' hl
    cases h
    rw [hv, okSet_top]; simp

end Pyshacl

namespace Pyshacl

theorem allWaived_congr (o o' : Opts) (h1 : o'.allowInfos = o.allowInfos) (h2 : o'.allowWarnings = o.allowWarnings)
    (rs : List Result) : allWaived o' rs = allWaived o rs := by
  unfold allWaived allowedSeverities; rw [h1, h2]

/-- **Verdict formula of `validate()`** on prepared graphs (no `use_shapes`). -/
theorem runValidate_verdict (o : Opts) (sg dg : Graph) (rx : Regex) (focus : List Term)
    (conf : Bool) (rs : List Result) (h : runValidate o sg dg rx focus [] = .ok (conf, rs)) :
    conf = allWaived o rs := by
  unfold runValidate at h
  simp only [] at h
  split at h
  · cases h
  split at h
  · cases h
  · split at h
    · cases h
    · have := validateAll_verdict _ _ _ conf rs h
      rw [this]
      exact allWaived_congr o _ rfl rfl rs

theorem allWaived_mono (o o' : Opts) (rs : List Result)
    (hsub : ∀ t, t ∈ allowedSeverities o → t ∈ allowedSeverities o') :
    allWaived o rs = true → allWaived o' rs = true := by
  unfold allWaived
  simp only [List.all_eq_true, decide_eq_true_eq]
  intro h r hr
  exact hsub _ (h r hr)

end Pyshacl
