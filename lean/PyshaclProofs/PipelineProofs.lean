import PyshaclModel.Pipeline
namespace Pyshacl.Pipeline

theorem execOp_preserves {G} (w : Stage → G → G) (h : Heap G) (op : Op) (hop : op.writesCaller = false) :
    execOp w h op .data = h .data ∧ execOp w h op .ont = h .ont := by
  cases op with
  | clone src dst => simp [execOp]
  | write st dst =>
    cases dst with
    | data => simp [Op.writesCaller] at hop
    | ont => simp [Op.writesCaller] at hop
    | shapes => simp [execOp]
    | fresh n => simp [execOp]
  | read st src => simp [execOp]

theorem foldl_preserves {G} (w : Stage → G → G) :
    ∀ (ops : List Op) (h : Heap G), (∀ op ∈ ops, op.writesCaller = false) →
      (ops.foldl (execOp w) h) .data = h .data ∧ (ops.foldl (execOp w) h) .ont = h .ont := by
  intro ops
  induction ops with
  | nil => intro h _; simp
  | cons op ops ih =>
    intro h hall
    simp only [List.foldl_cons]
    have h1 := execOp_preserves w h op (hall op List.mem_cons_self)
    have h2 := ih (execOp w h op) (fun o ho => hall o (List.mem_cons_of_mem _ ho))
    exact ⟨h2.1.trans h1.1, h2.2.trans h1.2⟩

/-- without `inplace` no stage of the pipeline is ever pointed at one of the caller's objects for writing -/
theorem plan_no_caller_writes (c : Cfg) (hip : c.inplace = false) :
    ∀ op ∈ (plan c).1, op.writesCaller = false := by
  rcases c with ⟨a, o, m, i, ad, ip, sd, hr⟩
  simp only at hip
  subst hip
  cases a <;> cases o <;> cases m <;> cases i <;> cases ad <;> cases sd <;> cases hr <;> simp [plan, Op.writesCaller]

/-- **C08**: unless `inplace`, the caller's data and ontology objects hold the same content after the
    call as before — for every content, every behaviour of the writing stages (inference, rules,
    mix-in), and wherever the call is interrupted by a failure (every prefix of the pipeline). -/
theorem caller_unchanged {G} (c : Cfg) (hip : c.inplace = false) (w : Stage → G → G) (h : Heap G) (k : Nat) :
    exec w h (plan c).1 k .data = h .data ∧ exec w h (plan c).1 k .ont = h .ont := by
  unfold exec
  apply foldl_preserves
  intro op hop
  exact plan_no_caller_writes c hip op (List.mem_of_mem_take hop)

/-- with `inplace` the working object *is* the caller's data object -/
theorem inplace_alias (c : Cfg) (hip : c.inplace = true) : (plan c).2 = .data := by
  rcases c with ⟨a, o, m, i, ad, ip, sd, hr⟩
  simp only at hip
  subst hip
  cases a <;> cases o <;> cases m <;> cases i <;> cases ad <;> cases sd <;> cases hr <;> simp [plan]

/-- whenever mix-in, inference or rules write something without `inplace`, the object validated is a fresh copy -/
theorem working_is_copy (c : Cfg) (hip : c.inplace = false)
    (hw : ∃ st dst, st ≠ .system ∧ Op.write st dst ∈ (plan c).1) : ∃ n, (plan c).2 = .fresh n := by
  rcases c with ⟨a, o, m, i, ad, ip, sd, hr⟩
  simp only at hip
  subst hip
  revert hw
  cases a <;> cases o <;> cases m <;> cases i <;> cases ad <;> cases sd <;> cases hr <;> simp [plan]

/-! non-vacuity: a configuration and a writer that do change the working copy, not the caller's graph -/
example : let c : Cfg := ⟨.validate, true, false, true, true, false, false, true⟩
    let h : Heap Nat := fun _ => 0
    (exec (fun _ g => g + 1) h (plan c).1 10) (plan c).2 = 3 ∧ (exec (fun _ g => g + 1) h (plan c).1 10) .data = 0 := by decide

/-- **the graph that is validated is the pre-expanded graph**: for every configuration, every heap content and every
    mix-in / inference / rule function, the object handed to the validation loop holds exactly
    rules(infer(inoculate(data))) (each stage only if the configuration has it) — whether it is the caller's own
    object (inplace) or a copy -/
theorem validated_graph_is_expansion {G} (c : Cfg) (w : Stage → G → G) (h : Heap G) :
    (exec w h (plan c).1 (plan c).1.length) (plan c).2 = expand c w (h .data) := by
  obtain ⟨api, hasOnt, multigraph, inference, advanced, inplace, shapesInData, hasRules⟩ := c
  cases api <;> cases hasOnt <;> cases inference <;> cases advanced <;> cases inplace <;> cases shapesInData <;> cases hasRules <;>
    simp [plan, exec, execOp, expand]

end Pyshacl.Pipeline
