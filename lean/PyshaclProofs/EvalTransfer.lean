/-
  EvalTransfer.lean — C09: whether the mirror of `value_nodes_from_path` returns, and what it returns, depends on
  the data graph only through membership of triples.  If the evaluation returns on `g`, it returns on every `g'`
  with the same triples (any insertion order, any multiplicity) — and then it returns the cap-free value nodes of `g'`.
-/
import PyshaclProofs.InvarianceProofs
namespace Pyshacl
open Path

theorem flatMapE_ok_each {ε α β} (xs : List α) (k : α → Except ε (List β)) (zs : List β)
    (h : flatMapE xs k = .ok zs) : ∀ x ∈ xs, ∃ ys, k x = .ok ys := by
  induction xs generalizing zs with
  | nil => intro x hx; simp at hx
  | cons a xs ih =>
    simp only [flatMapE] at h
    split at h
    · cases h
    · rename_i ys hys
      split at h
      · cases h
      · rename_i ws hws
        intro x hx
        rcases List.mem_cons.1 hx with hx | hx
        · subst hx; exact ⟨ys, hys⟩
        · exact ih ws hws x hx

theorem flatMapE_total_on {ε α β} (xs : List α) (k : α → Except ε (List β)) (k' : α → List β)
    (h : ∀ x ∈ xs, k x = .ok (k' x)) : flatMapE xs k = .ok (xs.flatMap k') := by
  induction xs with
  | nil => simp [flatMapE]
  | cons x xs ih =>
    simp [flatMapE, h x List.mem_cons_self, ih (fun y hy => h y (List.mem_cons_of_mem _ hy)), List.flatMap_cons]

/-- every node the raising loop added to `seen` had a step that returned -/
theorem closureE_ok_visited {ε} (stepE : Term → Except ε (List Term)) :
    ∀ (n : Nat) (work seen r : List Term), closureE stepE n work seen = .ok r →
      ∀ u ∈ r, u ∈ seen ∨ ∃ ys, stepE u = .ok ys := by
  intro n
  induction n with
  | zero => intro work seen r hr u hu; simp [closureE] at hr; subst hr; exact Or.inl hu
  | succ n ih =>
    intro work seen r hr u hu
    cases work with
    | nil => simp [closureE] at hr; subst hr; exact Or.inl hu
    | cons x work =>
      simp only [closureE] at hr
      split at hr
      · exact ih _ _ _ hr u hu
      · split at hr
        · cases hr
        · rename_i ys hys
          rcases ih _ _ _ hr u hu with h | h
          · rcases List.mem_cons.1 h with h | h
            · subst h; exact Or.inr ⟨ys, hys⟩
            · exact Or.inl h
          · exact Or.inr h

/-- the raising loop does not raise when no step raises on a set that holds the work list and is closed under steps -/
theorem closureE_total_on {ε} (stepE : Term → Except ε (List Term)) (step : Term → List Term) (R : Term → Prop)
    (h : ∀ x, R x → stepE x = .ok (step x)) (hcl : ∀ x, R x → ∀ y ∈ step x, R y) :
    ∀ (n : Nat) (work seen : List Term), (∀ w ∈ work, R w) →
      closureE stepE n work seen = .ok (closure step n work seen) := by
  intro n
  induction n with
  | zero => intro work seen _; simp [closureE, closure]
  | succ n ih =>
    intro work seen hw
    cases work with
    | nil => simp [closureE, closure]
    | cons x work =>
      simp only [closureE, closure]
      split
      · exact ih _ _ (fun w hw' => hw w (List.mem_cons_of_mem _ hw'))
      · rw [h x (hw x List.mem_cons_self)]
        refine ih _ _ (fun w hw' => ?_)
        rcases List.mem_append.1 hw' with h1 | h1
        · exact hcl x (hw x List.mem_cons_self) w h1
        · exact hw w (List.mem_cons_of_mem _ h1)

theorem step_rel_congr (q : Path) (g g' : Graph) (h : SameTriples g g') (inverse : Bool) :
    (fun a b => b ∈ evalPure q inverse g' a) = (fun a b => b ∈ evalPure q inverse g a) := by
  funext a b
  exact propext (value_nodes_order_invariant q g g' h inverse a b).symm

/-- **the outcome of a path evaluation depends on the graph only as a set of triples** -/
theorem eval_transfer (cap : Nat) (p : Path) (g g' : Graph) (h : SameTriples g g') :
    ∀ (inverse : Bool) (r : Nat) (f : Term) (vs : List Term),
      Path.eval cap p inverse r g f = .ok vs → Path.eval cap p inverse r g' f = .ok (evalPure p inverse g' f) := by
  have hmem : ∀ (q : Path) (inv : Bool) (a b : Term), b ∈ evalPure q inv g' a → b ∈ evalPure q inv g a :=
    fun q inv a b hb => (value_nodes_order_invariant q g g' h inv a b).2 hb
  induction p with
  | pred p => intro inverse r f vs _; simp [Path.eval, evalPure]
  | bad e i => intro inverse r f vs h0; simp only [Path.eval] at h0; split at h0 <;> cases h0
  | seqCons x y ihx ihy =>
    intro inverse r f vs h0
    simp only [Path.eval] at h0 ⊢
    split at h0
    · cases h0
    · rename_i hr
      rw [if_neg hr]
      cases inverse
      · simp only [Bool.false_eq_true, if_false] at h0 ⊢
        split at h0
        · cases h0
        · rename_i xs hxs
          have hxs' := eval_ok_exact cap x g _ _ _ _ hxs
          rw [ihx _ _ _ _ hxs]
          simp only [evalPure, Bool.false_eq_true, if_false]
          apply flatMapE_total_on
          intro u hu
          obtain ⟨ys, hys⟩ := flatMapE_ok_each _ _ _ h0 u (by rw [hxs']; exact hmem x false f u hu)
          exact ihy _ _ _ _ hys
      · simp only [if_true] at h0 ⊢
        split at h0
        · cases h0
        · rename_i xs hxs
          have hxs' := eval_ok_exact cap y g _ _ _ _ hxs
          rw [ihy _ _ _ _ hxs]
          simp only [evalPure, if_true]
          apply flatMapE_total_on
          intro u hu
          obtain ⟨ys, hys⟩ := flatMapE_ok_each _ _ _ h0 u (by rw [hxs']; exact hmem y true f u hu)
          exact ihx _ _ _ _ hys
  | seqLast x ih =>
    intro inverse r f vs h0
    simp only [Path.eval] at h0 ⊢
    split at h0
    · cases h0
    · rename_i hr; rw [if_neg hr]
      split at h0
      · cases h0
      · rename_i hr0; rw [if_neg hr0]; simp only [evalPure]; exact ih _ _ _ _ h0
  | seqNoRest x ih =>
    intro inverse r f vs h0
    simp only [Path.eval] at h0 ⊢
    split at h0
    · cases h0
    · rename_i hr; rw [if_neg hr]
      split at h0
      · cases h0
      · rename_i hr0; rw [if_neg hr0]; simp only [evalPure]; exact ih _ _ _ _ h0
  | inv q ih =>
    intro inverse r f vs h0
    simp only [Path.eval] at h0 ⊢
    split at h0
    · cases h0
    · rename_i hr; rw [if_neg hr]; simp only [evalPure]; exact ih _ _ _ _ h0
  | alt m ih =>
    intro inverse r f vs h0
    simp only [Path.eval] at h0 ⊢
    split at h0
    · cases h0
    · rename_i hr; rw [if_neg hr]
      split at h0
      · cases h0
      · rename_i xs hxs
        rw [ih _ _ _ _ hxs]
        split at h0
        · cases h0
        · rename_i hc; simp only [hc, if_false, evalPure]
  | altCons x rr ihx ihr =>
    intro inverse r f vs h0
    simp only [Path.eval] at h0 ⊢
    split at h0
    · cases h0
    · rename_i xs hxs
      split at h0
      · cases h0
      · rename_i ys hys
        rw [ihx _ _ _ _ hxs, ihr _ _ _ _ hys]
        simp only [evalPure]
  | altLast x ih => intro inverse r f vs h0; simp only [Path.eval] at h0 ⊢; simp only [evalPure]; exact ih _ _ _ _ h0
  | altNil => intro inverse r f vs _; simp [Path.eval, evalPure]
  | star q ih =>
    intro inverse r f vs h0
    simp only [Path.eval] at h0 ⊢
    split at h0
    · cases h0
    · rename_i hr; rw [if_neg hr]
      split at h0
      · cases h0
      · rename_i work hwork
        have hwork' := eval_ok_exact cap q g _ _ _ _ hwork
        subst hwork'
        have hvs := closureE_ok_eq _ _ (fun u ys hu => eval_ok_exact cap q g _ _ _ _ hu) _ _ _ _ h0
        rw [ih _ _ _ _ hwork]
        simp only [evalPure]
        -- the nodes reachable from `f` (same in both graphs): every step on them returned on `g`
        have hrel := step_rel_congr q g g' h inverse
        have hreach : ∀ u, Relation.ReflTransGen (fun a b => b ∈ evalPure q inverse g' a) f u →
            ∃ ys, Path.eval cap q inverse (r + 1) g u = .ok ys := by
          intro u hu
          rw [hrel] at hu
          have hin : u ∈ vs := by
            rw [hvs]
            exact (star_loop_mem _ _ (fun a b => Iff.rfl) (univ g f) f u (by simp [univ])
              (fun a ha b hb => DirRel_univ ha ((evalPure_correct q g inverse a b).1 hb))).2 hu
          rcases closureE_ok_visited _ _ _ _ _ h0 u hin with h1 | h1
          · simp at h1; subst h1; exact ⟨_, hwork⟩
          · exact h1
        exact closureE_total_on _ _ (fun u => Relation.ReflTransGen (fun a b => b ∈ evalPure q inverse g' a) f u)
          (fun u hu => by obtain ⟨ys, hys⟩ := hreach u hu; exact ih _ _ _ _ hys)
          (fun u hu y hy => Relation.ReflTransGen.tail hu hy) _ _ _
          (fun w hw => Relation.ReflTransGen.single hw)
  | plus q ih =>
    intro inverse r f vs h0
    simp only [Path.eval] at h0 ⊢
    split at h0
    · cases h0
    · rename_i hr; rw [if_neg hr]
      split at h0
      · cases h0
      · rename_i work hwork
        have hwork' := eval_ok_exact cap q g _ _ _ _ hwork
        subst hwork'
        have hvs := closureE_ok_eq _ _ (fun u ys hu => eval_ok_exact cap q g _ _ _ _ hu) _ _ _ _ h0
        rw [ih _ _ _ _ hwork]
        simp only [evalPure]
        have hrel := step_rel_congr q g g' h inverse
        have hreach : ∀ u, Relation.TransGen (fun a b => b ∈ evalPure q inverse g' a) f u →
            ∃ ys, Path.eval cap q inverse (r + 1) g u = .ok ys := by
          intro u hu
          rw [hrel] at hu
          have hin : u ∈ vs := by
            rw [hvs]
            exact (plus_loop_mem _ _ (fun a b => Iff.rfl) (univ g f) f u (by simp [univ])
              (fun a ha b hb => DirRel_univ ha ((evalPure_correct q g inverse a b).1 hb))).2 hu
          rcases closureE_ok_visited _ _ _ _ _ h0 u hin with h1 | h1
          · simp at h1
          · exact h1
        exact closureE_total_on _ _ (fun u => Relation.TransGen (fun a b => b ∈ evalPure q inverse g' a) f u)
          (fun u hu => by obtain ⟨ys, hys⟩ := hreach u hu; exact ih _ _ _ _ hys)
          (fun u hu y hy => Relation.TransGen.tail hu hy) _ _ _
          (fun w hw => Relation.TransGen.single hw)
  | opt q ih =>
    intro inverse r f vs h0
    simp only [Path.eval] at h0 ⊢
    split at h0
    · cases h0
    · rename_i hr; rw [if_neg hr]
      split at h0
      · cases h0
      · rename_i xs hxs
        rw [ih _ _ _ _ hxs]
        simp only [evalPure]

end Pyshacl
