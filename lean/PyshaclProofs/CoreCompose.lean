/-
  CoreCompose.lean — the result list of a shape is the concatenation of the result lists of its
  constraint components, each component evaluated once on the shape's value nodes (complete runs).
-/
import PyshaclProofs.EvalLemmas
import Mathlib.Data.List.Nodup
namespace Pyshacl

/-- a complete (`abort_on_first` off) constraint loop returns every step's results, in order -/
theorem loopE_noabort_flatMap {α} (fails : Bool → List Result → Bool) (f : α → Out) :
    ∀ (xs : List α) (nc : Bool) (rs : List Result), loopE false fails f xs = .ok (nc, rs) →
      ∃ g : α → Bool × List Result, (∀ x ∈ xs, f x = .ok (g x)) ∧ rs = xs.flatMap (fun x => (g x).2) := by
  intro xs
  induction xs with
  | nil =>
    intro nc rs h
    simp [loopE] at h
    exact ⟨fun _ => (true, []), by simp, by simp [h.2]⟩
  | cons x xs ih =>
    intro nc rs h
    simp only [loopE, Bool.and_false, Bool.false_eq_true, if_false] at h
    cases hx : f x with
    | error e => simp [hx] at h
    | ok p =>
      obtain ⟨cf, r⟩ := p
      simp only [hx] at h
      cases hl : loopE false fails f xs with
      | error e => simp [hl] at h
      | ok q =>
        obtain ⟨nc', rs'⟩ := q
        simp only [hl, Except.ok.injEq, Prod.mk.injEq] at h
        obtain ⟨g, hg, hrs⟩ := ih nc' rs' hl
        classical
        refine ⟨fun y => if f y = .ok (cf, r) then (cf, r) else g y, ?_, ?_⟩
        · intro y hy
          by_cases hy' : f y = .ok (cf, r)
          · simp [hy']
          · simp only [hy', if_false]
            rcases List.mem_cons.1 hy with rfl | hy2
            · exact absurd hx hy'
            · exact hg y hy2
        · rw [← h.2, hrs]
          simp only [List.flatMap_cons, hx, if_true]
          congr 1
          apply List.flatMap_congr
          intro y hy
          by_cases hy' : f y = .ok (cf, r)
          · have := hg y hy; rw [hy'] at this; simp only [hy', if_true]; rw [← Except.ok.inj this]
          · simp [hy']

/-- **composition**: in a complete run the results of `Shape.validate` on its value nodes are, in order,
    the results of each of the shape's Core components (one instance per component — `shapeComponents`
    has no duplicates) followed by those of each applicable SPARQL-based constraint component -/
theorem validateCore_results (c : Ctx) (rec' : Rec) (s : Shape) (fl : List Term) (path : Option (List PathEntry))
    (hab : c.o.abortOnFirst = false) (conf : Bool) (rs : List Result)
    (h : validateCore c rec' s fl path = .ok (conf, rs)) :
    ∃ fv, valueNodes c.toEnv s fl = .ok fv ∧
      ∃ (g1 : CKind → Bool × List Result) (g2 : Component → Bool × List Result) (comps : List Component),
        c.components = .ok comps ∧
        (∀ k ∈ shapeComponents c.sg s.node c.o.advanced,
          evalConstraint c.toEnv rec' s k fv (path.getD [] ++ [.shape s.node] ++ [.constr k s.node]) = .ok (g1 k)) ∧
        (∀ comp ∈ applicableComponents c.sg comps s.node, evalComponent c.toEnv s comp fv = .ok (g2 comp)) ∧
        rs = (shapeComponents c.sg s.node c.o.advanced).flatMap (fun k => (g1 k).2) ++
             (applicableComponents c.sg comps s.node).flatMap (fun comp => (g2 comp).2) := by
  unfold validateCore at h
  simp only [hab, Bool.false_and] at h
  split at h
  · cases h
  · split at h
    · cases h
    · rename_i fv hfv
      refine ⟨fv, hfv, ?_⟩
      split at h
      · cases h
      · rename_i nonConf rs1 hl1
        obtain ⟨g1, hg1, hrs1⟩ := loopE_noabort_flatMap _ _ _ _ _ hl1
        split at h
        · cases h
        · rename_i comps hcomps
          simp only [Bool.and_false, Bool.false_eq_true, if_false] at h
          split at h
          · cases h
          · rename_i nonConf2 rs2 hl2
            obtain ⟨g2, hg2, hrs2⟩ := loopE_noabort_flatMap _ _ _ _ _ hl2
            cases h
            exact ⟨g1, g2, comps, hcomps, hg1, hg2, by rw [hrs1, hrs2]⟩

theorem shapeComponents_nodup (sg : Graph) (node : Term) (adv : Bool) :
    (shapeComponents sg node adv).Nodup := by
  unfold shapeComponents
  simp only []
  exact List.nodup_reverse.2 (nodup_dedup _)

end Pyshacl
