/-
  RulesProofs.lean — lemmas about the rule engine model (`PyshaclModel/Rules.lean`):
  monotonicity of every loop, the justification invariant, the fixpoint at normal exit,
  deactivated rules, and independence of the (stable) sort from the order in which the
  rules / shapes are met when their sh:order values are pairwise distinct.
-/
import PyshaclModel.Rules
namespace Pyshacl

theorem insertBy_perm {α} (key : α → Rat) (x : α) : ∀ l : List α, (insertBy key x l).Perm (x :: l) := by
  intro l
  induction l with
  | nil => exact List.Perm.refl _
  | cons y ys ih =>
    simp only [insertBy]
    split
    · exact List.Perm.refl _
    · exact ((ih.cons y).trans (List.Perm.swap x y ys))

theorem sortBy_perm' {α} (key : α → Rat) (l : List α) : (sortBy key l).Perm l := by
  unfold sortBy
  induction l with
  | nil => exact List.Perm.refl _
  | cons x xs ih =>
    simp only [List.foldr_cons]
    exact (insertBy_perm key x _).trans (ih.cons x)

theorem insertByStr_perm {α} (key : α → String) (x : α) : ∀ l : List α, (insertByStr key x l).Perm (x :: l) := by
  intro l
  induction l with
  | nil => exact List.Perm.refl _
  | cons y ys ih =>
    simp only [insertByStr]
    split
    · exact List.Perm.refl _
    · exact ((ih.cons y).trans (List.Perm.swap x y ys))

theorem sortByStr_perm {α} (key : α → String) (l : List α) : (sortByStr key l).Perm l := by
  unfold sortByStr
  induction l with
  | nil => exact List.Perm.refl _
  | cons x xs ih =>
    simp only [List.foldr_cons]
    exact (insertByStr_perm key x _).trans (ih.cons x)

theorem insertBy_sorted {α} (key : α → Rat) (x : α) :
    ∀ l : List α, l.Pairwise (fun a b => key a ≤ key b) → (insertBy key x l).Pairwise (fun a b => key a ≤ key b) := by
  intro l
  induction l with
  | nil => intro _; simp [insertBy]
  | cons y ys ih =>
    intro h
    obtain ⟨hy, hys⟩ := List.pairwise_cons.mp h
    simp only [insertBy]
    split
    · rename_i hxy
      refine List.pairwise_cons.mpr ⟨?_, h⟩
      intro z hz
      rcases List.mem_cons.mp hz with rfl | hz'
      · exact hxy
      · exact Rat.le_trans hxy (hy z hz')
    · rename_i hxy
      refine List.pairwise_cons.mpr ⟨?_, ih hys⟩
      intro z hz
      have := (insertBy_perm key x ys).mem_iff.mp hz
      rcases List.mem_cons.mp this with rfl | hz'
      · rcases (Rat.le_total (a := key z) (b := key y)) with h1 | h1
        · exact absurd h1 hxy
        · exact h1
      · exact hy z hz'

/-! ### `mapE` -/

theorem mapE_mem {α β ε} (f : α → Except ε β) :
    ∀ (xs : List α) (ys : List β), mapE f xs = .ok ys → ∀ y ∈ ys, ∃ x ∈ xs, f x = .ok y := by
  intro xs
  induction xs with
  | nil => intro ys h y hy; simp [mapE] at h; subst h; simp at hy
  | cons x xs ih =>
    intro ys h y hy
    simp only [mapE] at h
    cases hx : f x with
    | error e => simp [hx] at h
    | ok y0 =>
      simp only [hx] at h
      cases hxs : mapE f xs with
      | error e => simp [hxs] at h
      | ok ys0 =>
        simp only [hxs, Except.ok.injEq] at h
        subst h
        rcases List.mem_cons.mp hy with rfl | hy'
        · exact ⟨x, List.mem_cons_self, hx⟩
        · obtain ⟨x', hx', hf⟩ := ih ys0 hxs y hy'
          exact ⟨x', List.mem_cons_of_mem _ hx', hf⟩

theorem mapE_mem_fwd {α β ε} (f : α → Except ε β) :
    ∀ (xs : List α) (ys : List β), mapE f xs = .ok ys → ∀ x ∈ xs, ∃ y ∈ ys, f x = .ok y := by
  intro xs
  induction xs with
  | nil => intro ys _ x hx; simp at hx
  | cons x0 xs ih =>
    intro ys h x hx
    simp only [mapE] at h
    cases hx0 : f x0 with
    | error e => simp [hx0] at h
    | ok y0 =>
      simp only [hx0] at h
      cases hxs : mapE f xs with
      | error e => simp [hxs] at h
      | ok ys0 =>
        simp only [hxs, Except.ok.injEq] at h
        subst h
        rcases List.mem_cons.mp hx with rfl | hx'
        · exact ⟨y0, List.mem_cons_self, hx0⟩
        · obtain ⟨y, hy, hf⟩ := ih ys0 hxs x hx'
          exact ⟨y, List.mem_cons_of_mem _ hy, hf⟩

/-! ### `addTriples` -/

theorem mem_addTriples {g : Graph} {ts : List Triple} {t : Triple} :
    t ∈ addTriples g ts ↔ t ∈ g ∨ t ∈ ts := by
  unfold addTriples
  induction ts generalizing g with
  | nil => simp
  | cons x xs ih =>
    simp only [List.foldl_cons, List.mem_cons]
    rw [ih]
    by_cases hx : x ∈ g
    · simp only [hx, if_true]
      constructor
      · rintro (h | h)
        · exact .inl h
        · exact .inr (.inr h)
      · rintro (h | h | h)
        · exact .inl h
        · subst h; exact .inl hx
        · exact .inr h
    · simp only [hx, if_false, List.mem_append, List.mem_singleton]
      constructor
      · rintro ((h | h) | h)
        · exact .inl h
        · exact .inr (.inl h)
        · exact .inr (.inr h)
      · rintro (h | h | h)
        · exact .inl (.inl h)
        · exact .inl (.inr h)
        · exact .inr h

theorem addTriples_mono {g : Graph} {ts : List Triple} {t : Triple} (h : t ∈ g) : t ∈ addTriples g ts :=
  mem_addTriples.mpr (.inl h)

/-- adding only triples that are already there changes nothing -/
theorem addTriples_of_subset {g : Graph} {ts : List Triple} (h : ∀ t ∈ ts, t ∈ g) : addTriples g ts = g := by
  unfold addTriples
  induction ts generalizing g with
  | nil => rfl
  | cons x xs ih =>
    simp only [List.foldl_cons, h x List.mem_cons_self, if_true]
    exact ih (fun t ht => h t (List.mem_cons_of_mem _ ht))

/-! ### what one firing of a rule produces -/

/-- `t` is produced by rule `r` fired on focus node `a` over graph `g` -/
def FiresOn (c : RCtx) (r : Rule) (g : Graph) (a : Term) (t : Triple) : Prop :=
  match r.kind with
  | .triple s p o => ∃ ts, tripleOutput c g s p o a = .ok ts ∧ t ∈ ts
  | .sparql cs => ∃ k ∈ cs, t ∈ evalConstruct (callByPosition c.fns c.adv) g k (if k.usesThis then [("this", a)] else [])

theorem roundOutputs_sound {c : RCtx} {r : Rule} {g : Graph} {nodes : List Term} {toAdd : List Triple} {added : Nat}
    (h : roundOutputs c r g nodes = .ok (toAdd, added)) {t : Triple} (ht : t ∈ toAdd) :
    ∃ a ∈ nodes, FiresOn c r g a t := by
  unfold roundOutputs at h
  unfold FiresOn
  cases hk : r.kind with
  | triple s p o =>
    simp only [hk] at h ⊢
    cases hm : mapE (fun a => tripleOutput c g s p o a) nodes with
    | error e => simp [hm, Except.map] at h
    | ok outs =>
      simp only [hm, Except.map, Except.ok.injEq, Prod.mk.injEq] at h
      obtain ⟨h1, _⟩ := h
      subst h1
      obtain ⟨ts, hts, htt⟩ := List.mem_flatten.mp ht
      obtain ⟨a, ha, hf⟩ := mapE_mem _ nodes outs hm ts hts
      exact ⟨a, ha, ts, hf, htt⟩
  | sparql cs =>
    simp only [hk, Except.ok.injEq, Prod.mk.injEq] at h ⊢
    obtain ⟨h1, _⟩ := h
    subst h1
    obtain ⟨ts, hts, htt⟩ := List.mem_flatten.mp ht
    have hts' := (List.mem_filter.mp hts).1
    obtain ⟨a, ha, hka⟩ := List.mem_flatMap.mp hts'
    obtain ⟨k, hk', rfl⟩ := List.mem_map.mp hka
    exact ⟨a, ha, k, hk', htt⟩

/-- a round that reports `added = 0` has produced no triple that is not in the graph already -/
theorem roundOutputs_zero {c : RCtx} {r : Rule} {g : Graph} {nodes : List Term} {toAdd : List Triple}
    (h : roundOutputs c r g nodes = .ok (toAdd, 0)) : ∀ t ∈ toAdd, t ∈ g := by
  unfold roundOutputs at h
  cases hk : r.kind with
  | triple s p o =>
    simp only [hk] at h
    cases hm : mapE (fun a => tripleOutput c g s p o a) nodes with
    | error e => simp [hm, Except.map] at h
    | ok outs =>
      simp only [hm, Except.map, Except.ok.injEq, Prod.mk.injEq] at h
      obtain ⟨h1, h2⟩ := h
      subst h1
      intro t ht
      obtain ⟨ts, hts, htt⟩ := List.mem_flatten.mp ht
      have hnil := List.length_eq_zero_iff.mp h2
      by_cases hng : t ∈ g
      · exact hng
      exfalso
      have : ts ∈ outs.filter (fun ts => ts.any (· ∉ g)) := by
        refine List.mem_filter.mpr ⟨hts, ?_⟩
        simp only [List.any_eq_true, decide_eq_true_eq]
        exact ⟨t, htt, hng⟩
      rw [hnil] at this
      simp at this
  | sparql cs =>
    simp only [hk, Except.ok.injEq, Prod.mk.injEq] at h
    obtain ⟨h1, h2⟩ := h
    subst h1
    have hnil := List.length_eq_zero_iff.mp h2
    intro t ht
    rw [hnil] at ht
    simp at ht

/-! ### the justification invariant

`Just c rules g0 g` : every triple of `g` is a triple of `g0` or was produced by an active rule of `rules`
fired on a focus node of its shape that conformed to all of the rule's conditions, on graphs between `g0`
and `g` (the focus nodes are those of the graph at the start of `apply`, the conditions and the outputs
are evaluated on the graph of the round). -/

def Sub (g g' : Graph) : Prop := ∀ t ∈ g, t ∈ g'

theorem Sub.refl (g : Graph) : Sub g g := fun _ h => h
theorem Sub.trans {a b c : Graph} (h1 : Sub a b) (h2 : Sub b c) : Sub a c := fun t h => h2 t (h1 t h)

/-- one justified firing -/
structure Firing (c : RCtx) (rules : List Rule) (g0 : Graph) (t : Triple) : Prop where
  ex : ∃ r ∈ rules, r.deactivated = false ∧ ∃ gf gr foci nodes a,
      Sub g0 gf ∧ Sub gf gr ∧ ruleFocus c r gf = .ok (some foci) ∧ applicable c r gr foci = .ok nodes ∧ a ∈ nodes ∧
      FiresOn c r gr a t

def Just (c : RCtx) (rules : List Rule) (g0 g : Graph) : Prop :=
  ∀ t ∈ g, t ∈ g0 ∨ Firing c rules g0 t

theorem Just.init (c : RCtx) (rules : List Rule) (g0 : Graph) : Just c rules g0 g0 := fun _ h => .inl h

theorem Firing.weaken {c : RCtx} {rules rules' : List Rule} {g0 : Graph} {t : Triple}
    (hs : ∀ r ∈ rules, r ∈ rules') (h : Firing c rules g0 t) : Firing c rules' g0 t := by
  obtain ⟨r, hr, rest⟩ := h.ex
  exact ⟨r, hs r hr, rest⟩

/-- the result of a rule's loop: grows, is justified, and reports 0 only when nothing changed -/
theorem ruleLoop_spec {c : RCtx} {rules : List Rule} {r : Rule} (hr : r ∈ rules) (hact : r.deactivated = false)
    {g0 gf : Graph} {foci : List Term} (hf : ruleFocus c r gf = .ok (some foci)) (h0f : Sub g0 gf) (iter : Bool) :
    ∀ (n : Nat) (g : Graph) (all : Nat) (g' : Graph) (m : Nat),
      ruleLoop c r foci iter n g all = .ok (g', m) → Sub gf g → Just c rules g0 g →
      Sub g g' ∧ Just c rules g0 g' ∧ all ≤ m ∧ (m = all → g' = g) := by
  intro n
  induction n with
  | zero => intro g all g' m h; simp [ruleLoop] at h
  | succ n ih =>
    intro g all g' m h hsub hj
    simp only [ruleLoop] at h
    cases ha : applicable c r g foci with
    | error e => simp [ha] at h
    | ok nodes =>
      simp only [ha] at h
      cases hro : roundOutputs c r g nodes with
      | error e => simp [hro] at h
      | ok pr =>
        obtain ⟨toAdd, added⟩ := pr
        simp only [hro] at h
        have hjust' : Just c rules g0 (addTriples g toAdd) := by
          intro t ht
          rcases mem_addTriples.mp ht with htg | hta
          · exact hj t htg
          · obtain ⟨a, han, hfire⟩ := roundOutputs_sound hro hta
            exact .inr ⟨r, hr, hact, gf, g, foci, nodes, a, h0f, hsub, hf, ha, han, hfire⟩
        have hsub' : Sub g (addTriples g toAdd) := fun t ht => addTriples_mono ht
        by_cases hadd : added > 0
        · simp only [hadd, if_true] at h
          cases iter with
          | true =>
            simp only [if_true] at h
            obtain ⟨h1, h2, h3, _⟩ := ih _ _ _ _ h (hsub.trans hsub') hjust'
            refine ⟨hsub'.trans h1, h2, by omega, ?_⟩
            intro hm; omega
          | false =>
            simp only [Bool.false_eq_true, if_false, Except.ok.injEq, Prod.mk.injEq] at h
            obtain ⟨h1, h2⟩ := h
            subst h1; subst h2
            refine ⟨hsub', hjust', by omega, ?_⟩
            intro hm; omega
        · simp only [hadd, if_false, Except.ok.injEq, Prod.mk.injEq] at h
          obtain ⟨h1, h2⟩ := h
          subst h1; subst h2
          exact ⟨Sub.refl _, hj, Nat.le_refl _, fun _ => rfl⟩

theorem applyRule_spec {c : RCtx} {rules : List Rule} {r : Rule} (hr : r ∈ rules) (hact : r.deactivated = false)
    {g0 g g' : Graph} {m : Nat} (h : applyRule c r g = .ok (g', m)) (h0 : Sub g0 g) (hj : Just c rules g0 g) :
    Sub g g' ∧ Just c rules g0 g' ∧ (m = 0 → g' = g) := by
  unfold applyRule at h
  cases hf : ruleFocus c r g with
  | error e => simp [hf] at h
  | ok fo =>
  cases fo with
  | none =>
    simp only [hf, Except.ok.injEq, Prod.mk.injEq] at h
    obtain ⟨h1, _⟩ := h
    subst h1
    exact ⟨Sub.refl _, hj, fun _ => rfl⟩
  | some foci =>
    simp only [hf] at h
    cases hk : r.kind with
    | triple s p o =>
      simp only [hk] at h
      obtain ⟨h1, h2, _, h4⟩ := ruleLoop_spec hr hact hf h0 _ _ _ _ _ _ h (Sub.refl _) hj
      exact ⟨h1, h2, fun hm => h4 (by omega)⟩
    | sparql cs =>
      simp only [hk] at h
      obtain ⟨h1, h2, _, h4⟩ := ruleLoop_spec hr hact hf h0 _ _ _ _ _ _ h (Sub.refl _) hj
      exact ⟨h1, h2, fun hm => h4 (by omega)⟩

theorem passRules_spec {c : RCtx} {rules : List Rule} {g0 : Graph} :
    ∀ (rs : List Rule), (∀ r ∈ rs, r ∈ rules) → ∀ (g : Graph) (m : Nat) (g' : Graph) (m' : Nat),
      passRules c rs g m = .ok (g', m') → Sub g0 g → Just c rules g0 g →
      Sub g g' ∧ Just c rules g0 g' ∧ m ≤ m' ∧ (m' = m → g' = g) := by
  intro rs
  induction rs with
  | nil =>
    intro _ g m g' m' h _ hj
    simp only [passRules, Except.ok.injEq, Prod.mk.injEq] at h
    obtain ⟨h1, h2⟩ := h
    subst h1; subst h2
    exact ⟨Sub.refl _, hj, Nat.le_refl _, fun _ => rfl⟩
  | cons r rs ih =>
    intro hmem g m g' m' h h0 hj
    simp only [passRules] at h
    have hmem' : ∀ r' ∈ rs, r' ∈ rules := fun r' hr' => hmem r' (List.mem_cons_of_mem _ hr')
    cases hd : r.deactivated with
    | true =>
      simp only [hd, if_true] at h
      exact ih hmem' g m g' m' h h0 hj
    | false =>
      simp only [hd, Bool.false_eq_true, if_false] at h
      cases ha : applyRule c r g with
      | error e => simp [ha] at h
      | ok pr =>
        obtain ⟨g1, n⟩ := pr
        simp only [ha] at h
        obtain ⟨s1, j1, z1⟩ := applyRule_spec (hmem r List.mem_cons_self) hd ha h0 hj
        obtain ⟨s2, j2, le2, z2⟩ := ih hmem' g1 (m + n) g' m' h (h0.trans s1) j1
        refine ⟨s1.trans s2, j2, by omega, ?_⟩
        intro hm
        have hn : n = 0 := by omega
        have : g1 = g := z1 hn
        rw [z2 (by omega), this]

/-- the rules of one shape: growth, justification, and — with `iterate_rules` — a fixpoint at normal exit:
    one more pass over the shape's rules adds nothing -/
theorem shapeLoop_spec {c : RCtx} {rules : List Rule} {g0 : Graph} (rs : List Rule) (hmem : ∀ r ∈ rs, r ∈ rules) :
    ∀ (n : Nat) (g g' : Graph), shapeLoop c rs n g = .ok g' → Sub g0 g → Just c rules g0 g →
      Sub g g' ∧ Just c rules g0 g' ∧
      (c.iterate = true → passRules c rs g' 0 = .ok (g', 0)) := by
  intro n
  induction n with
  | zero => intro g g' h; simp [shapeLoop] at h
  | succ n ih =>
    intro g g' h h0 hj
    simp only [shapeLoop] at h
    cases hp : passRules c rs g 0 with
    | error e => simp [hp] at h
    | ok pr =>
      obtain ⟨g1, m⟩ := pr
      simp only [hp] at h
      obtain ⟨s1, j1, _, z1⟩ := passRules_spec rs hmem g 0 g1 m hp h0 hj
      by_cases hcont : m > 0 ∧ c.iterate = true
      · simp only [hcont, and_self, if_true] at h
        obtain ⟨s2, j2, f2⟩ := ih g1 g' h (h0.trans s1) j1
        exact ⟨s1.trans s2, j2, f2⟩
      · simp only [hcont, if_false, Except.ok.injEq] at h
        subst h
        refine ⟨s1, j1, ?_⟩
        intro hit
        have hm : m = 0 := by
          rcases Nat.eq_zero_or_pos m with hz | hpos
          · exact hz
          · exact absurd ⟨hpos, hit⟩ hcont
        subst hm
        have : g1 = g := z1 rfl
        subst this
        exact hp

/-- the loop of `apply_rules` over the sorted groups -/
theorem applyGroups_spec {c : RCtx} {rules : List Rule} {g0 : Graph} :
    ∀ (groups : List (Rat × List Rule)), (∀ grp ∈ groups, ∀ r ∈ grp.2, r ∈ rules) →
    ∀ (g g' : Graph), applyGroups c groups g = .ok g' →
      Sub g0 g → Just c rules g0 g → Sub g g' ∧ Just c rules g0 g' := by
  intro groups
  induction groups with
  | nil =>
    intro _ g g' h _ hj
    simp only [applyGroups, Except.ok.injEq] at h
    subst h
    exact ⟨Sub.refl _, hj⟩
  | cons x xs ih =>
    intro hmem g g' h h0 hj
    obtain ⟨k, rs⟩ := x
    simp only [applyGroups] at h
    cases hs : shapeLoop c (sortBy (·.order) rs) Caps.rulesIterateLimit g with
    | error e => simp [hs] at h
    | ok g1 =>
      simp only [hs] at h
      have hmemx : ∀ r ∈ sortBy (·.order) rs, r ∈ rules := by
        intro r hr
        have : r ∈ rs := (sortBy_perm' _ _).mem_iff.mp hr
        exact hmem (k, rs) List.mem_cons_self r this
      obtain ⟨s1, j1, _⟩ := shapeLoop_spec _ hmemx _ _ _ hs h0 hj
      obtain ⟨s2, j2⟩ := ih (fun grp hg => hmem grp (List.mem_cons_of_mem _ hg)) g1 g' h (h0.trans s1) j1
      exact ⟨s1.trans s2, j2⟩

/-! ### deactivated rules -/

theorem passRules_filter_active (c : RCtx) :
    ∀ (rs : List Rule) (g : Graph) (m : Nat),
      passRules c (rs.filter fun r => !r.deactivated) g m = passRules c rs g m := by
  intro rs
  induction rs with
  | nil => intro g m; rfl
  | cons r rs ih =>
    intro g m
    cases hd : r.deactivated with
    | true => simp [List.filter_cons, passRules, hd, ih]
    | false =>
      simp only [List.filter_cons, hd, Bool.not_false, if_true, passRules, Bool.false_eq_true, if_false]
      cases applyRule c r g with
      | error e => rfl
      | ok pr => exact ih _ _

theorem shapeLoop_filter_active (c : RCtx) (rs : List Rule) :
    ∀ (n : Nat) (g : Graph), shapeLoop c (rs.filter fun r => !r.deactivated) n g = shapeLoop c rs n g := by
  intro n
  induction n with
  | zero => intro g; rfl
  | succ n ih =>
    intro g
    simp only [shapeLoop, passRules_filter_active]
    cases passRules c rs g 0 with
    | error e => rfl
    | ok pr =>
      obtain ⟨g1, m⟩ := pr
      simp only [ih]

/-! ### the sort does not depend on the order in which rules (shapes) are met -/

theorem sortBy_perm {α} (key : α → Rat) (l : List α) : (sortBy key l).Perm l := sortBy_perm' key l

theorem sortBy_sorted {α} (key : α → Rat) (l : List α) : (sortBy key l).Pairwise (fun a b => key a ≤ key b) := by
  unfold sortBy
  induction l with
  | nil => simp
  | cons x xs ih => simp only [List.foldr_cons]; exact insertBy_sorted key x _ ih

theorem key_inj_of_pairwise {α} (key : α → Rat) :
    ∀ (l : List α), l.Pairwise (fun a b => key a ≠ key b) → ∀ a ∈ l, ∀ b ∈ l, key a = key b → a = b := by
  intro l
  induction l with
  | nil => intro _ a ha; simp at ha
  | cons x xs ih =>
    intro hp a ha b hb hk
    obtain ⟨hx, hxs⟩ := List.pairwise_cons.mp hp
    rcases List.mem_cons.mp ha with rfl | ha'
    · rcases List.mem_cons.mp hb with rfl | hb'
      · rfl
      · exact absurd hk (hx b hb')
    · rcases List.mem_cons.mp hb with rfl | hb'
      · exact absurd hk.symm (hx a ha')
      · exact ih hxs a ha' b hb' hk

/-- with pairwise distinct keys the sorted order is determined by the keys alone -/
theorem sortBy_perm_eq {α} (key : α → Rat) {l l' : List α} (hp : l.Perm l')
    (hd : l.Pairwise (fun a b => key a ≠ key b)) : sortBy key l = sortBy key l' := by
  apply List.Perm.eq_of_pairwise (le := fun a b => key a ≤ key b) _ (sortBy_sorted key l) (sortBy_sorted key l')
  · exact (sortBy_perm key l).trans (hp.trans (sortBy_perm key l').symm)
  · intro a b ha hb h1 h2
    have ha' : a ∈ l := (sortBy_perm key l).mem_iff.mp ha
    have hb' : b ∈ l := hp.mem_iff.mpr ((sortBy_perm key l').mem_iff.mp hb)
    exact key_inj_of_pairwise key l hd a ha' b hb' (Rat.le_antisymm h1 h2)

/-- a filter commutes with the sort (python's `sorted` is stable; with distinct keys every sort is) -/
theorem sortBy_filter {α} (key : α → Rat) (p : α → Bool) {l : List α}
    (hd : l.Pairwise (fun a b => key a ≠ key b)) : sortBy key (l.filter p) = (sortBy key l).filter p := by
  apply List.Perm.eq_of_pairwise (le := fun a b => key a ≤ key b) _ (sortBy_sorted key _)
    ((sortBy_sorted key l).filter p)
  · exact (sortBy_perm key _).trans ((sortBy_perm key l).filter p).symm
  · intro a b ha hb h1 h2
    have ha' : a ∈ l := (List.mem_filter.mp ((sortBy_perm key _).mem_iff.mp ha)).1
    have hb' : b ∈ l := (sortBy_perm key l).mem_iff.mp (List.mem_filter.mp hb).1
    exact key_inj_of_pairwise key l hd a ha' b hb' (Rat.le_antisymm h1 h2)

end Pyshacl
