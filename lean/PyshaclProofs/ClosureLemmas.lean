/-
  ClosureLemmas.lean — soundness and completeness of the worklist closure, for every graph size
  (no bound): `closure_sound`, `closure_closed` (fuel adequacy through a potential function) and
  the connection with the raising variant `closureE`.
-/
import PyshaclModel.Closure
import Mathlib.Logic.Relation
namespace Pyshacl

variable {α : Type} [DecidableEq α]

theorem pot_cons_le (step : α → List α) (U seen : List α) (x : α) :
    pot step U (x :: seen) ≤ pot step U seen := by
  unfold pot
  induction U with
  | nil => simp
  | cons u U ih =>
    by_cases h1 : u ∈ seen
    · have : u ∈ x :: seen := List.mem_cons_of_mem _ h1
      simp [List.filter_cons, h1, this]; simpa using ih
    · by_cases h2 : u = x
      · subst h2; simp [List.filter_cons, h1]; simp at ih; omega
      · have : u ∉ x :: seen := by simp [h1, h2]
        simp [List.filter_cons, h1, h2]; simp at ih; omega

theorem pot_cons_lt (step : α → List α) (U seen : List α) (x : α) (hx : x ∈ U) (hs : x ∉ seen) :
    pot step U (x :: seen) + (step x).length + 1 ≤ pot step U seen := by
  unfold pot
  induction U with
  | nil => simp at hx
  | cons u U ih =>
    by_cases h2 : u = x
    · subst h2
      have := pot_cons_le step U seen u
      unfold pot at this
      simp [List.filter_cons, hs]; simp at this; omega
    · have hxU : x ∈ U := by
        rcases List.mem_cons.1 hx with h | h
        · exact absurd h.symm h2
        · exact h
      have ih' := ih hxU
      by_cases h1 : u ∈ seen
      · have : u ∈ x :: seen := List.mem_cons_of_mem _ h1
        simp [List.filter_cons, h1, this]; simpa using ih'
      · have : u ∉ x :: seen := by simp [h1, h2]
        simp [List.filter_cons, h1, h2]; simp at ih'; omega

theorem pot_le_of_subset (step : α → List α) (U seen seen' : List α) (h : ∀ s ∈ seen, s ∈ seen') :
    pot step U seen' ≤ pot step U seen := by
  unfold pot
  induction U with
  | nil => simp
  | cons u U ih =>
    by_cases h1 : u ∈ seen
    · have := h u h1
      simp [List.filter_cons, h1, this]; simpa using ih
    · by_cases h2 : u ∈ seen'
      · simp [List.filter_cons, h1, h2]; simp at ih; omega
      · simp [List.filter_cons, h1, h2]; simp at ih; omega

theorem closure_seen_subset (step : α → List α) (n : Nat) (work seen : List α) {y : α} (hy : y ∈ seen) :
    y ∈ closure step n work seen := by
  induction n generalizing work seen with
  | zero => simpa [closure] using hy
  | succ n ih =>
    cases work with
    | nil => simpa [closure] using hy
    | cons x work =>
      simp only [closure]
      split
      · exact ih _ _ hy
      · exact ih _ _ (List.mem_cons_of_mem _ hy)

/-- Completeness: with enough fuel the result contains the work list and is closed under `step`. -/
theorem closure_closed (step : α → List α) (U : List α)
    (hU : ∀ u ∈ U, ∀ v ∈ step u, v ∈ U) :
    ∀ (n : Nat) (work seen : List α),
      (∀ w ∈ work, w ∈ U) → (∀ s ∈ seen, s ∈ U) →
      (∀ s ∈ seen, ∀ v ∈ step s, v ∈ seen ∨ v ∈ work) →
      pot step U seen + work.length < n →
      (∀ w ∈ work, w ∈ closure step n work seen) ∧
      (∀ s ∈ closure step n work seen, ∀ v ∈ step s, v ∈ closure step n work seen) := by
  intro n
  induction n with
  | zero => intro work seen _ _ _ h; omega
  | succ n ih =>
    intro work seen hw hs hinv hfuel
    cases work with
    | nil =>
      simp only [closure]
      refine ⟨by simp, ?_⟩
      intro s hs' v hv
      rcases hinv s hs' v hv with h | h
      · exact h
      · simp at h
    | cons x work =>
      simp only [closure]
      split
      next hx =>
        have hfuel' : pot step U seen + work.length < n := by simp at hfuel; omega
        have hinv' : ∀ s ∈ seen, ∀ v ∈ step s, v ∈ seen ∨ v ∈ work := by
          intro s hs' v hv
          rcases hinv s hs' v hv with h | h
          · exact Or.inl h
          · rcases List.mem_cons.1 h with rfl | h
            · exact Or.inl hx
            · exact Or.inr h
        obtain ⟨h1, h2⟩ := ih work seen (fun w hw' => hw w (List.mem_cons_of_mem _ hw')) hs hinv' hfuel'
        refine ⟨?_, h2⟩
        intro w hw'
        rcases List.mem_cons.1 hw' with rfl | h
        · exact closure_seen_subset step n work seen hx
        · exact h1 w h
      next hx =>
        have hxU : x ∈ U := hw x List.mem_cons_self
        have hpot := pot_cons_lt step U seen x hxU hx
        have hfuel' : pot step U (x :: seen) + (step x ++ work).length < n := by
          simp at hfuel ⊢; omega
        have hw' : ∀ w ∈ step x ++ work, w ∈ U := by
          intro w hw'
          rcases List.mem_append.1 hw' with h | h
          · exact hU x hxU w h
          · exact hw w (List.mem_cons_of_mem _ h)
        have hs' : ∀ s ∈ x :: seen, s ∈ U := by
          intro s hs'
          rcases List.mem_cons.1 hs' with rfl | h
          · exact hxU
          · exact hs s h
        have hinv' : ∀ s ∈ x :: seen, ∀ v ∈ step s, v ∈ x :: seen ∨ v ∈ step x ++ work := by
          intro s hs'' v hv
          rcases List.mem_cons.1 hs'' with rfl | h
          · exact Or.inr (List.mem_append_left _ hv)
          · rcases hinv s h v hv with h | h
            · exact Or.inl (List.mem_cons_of_mem _ h)
            · rcases List.mem_cons.1 h with rfl | h
              · exact Or.inl List.mem_cons_self
              · exact Or.inr (List.mem_append_right _ h)
        obtain ⟨h1, h2⟩ := ih (step x ++ work) (x :: seen) hw' hs' hinv' hfuel'
        refine ⟨?_, h2⟩
        intro w hw''
        rcases List.mem_cons.1 hw'' with rfl | h
        · exact closure_seen_subset step n _ _ List.mem_cons_self
        · exact h1 w (List.mem_append_right _ h)

/-- Soundness: everything in the result was already seen or is reachable from the work list. -/
theorem closure_sound (step : α → List α) :
    ∀ (n : Nat) (work seen : List α) (y : α), y ∈ closure step n work seen →
      y ∈ seen ∨ ∃ w ∈ work, Relation.ReflTransGen (fun a b => b ∈ step a) w y := by
  intro n
  induction n with
  | zero => intro work seen y h; left; simpa [closure] using h
  | succ n ih =>
    intro work seen y h
    cases work with
    | nil => left; simpa [closure] using h
    | cons x work =>
      simp only [closure] at h
      split at h
      · rcases ih _ _ _ h with h1 | ⟨w, hw, hr⟩
        · exact Or.inl h1
        · exact Or.inr ⟨w, List.mem_cons_of_mem _ hw, hr⟩
      · rcases ih _ _ _ h with h1 | ⟨w, hw, hr⟩
        · rcases List.mem_cons.1 h1 with rfl | h2
          · exact Or.inr ⟨y, List.mem_cons_self, Relation.ReflTransGen.refl⟩
          · exact Or.inl h2
        · rcases List.mem_append.1 hw with h3 | h3
          · exact Or.inr ⟨x, List.mem_cons_self, Relation.ReflTransGen.head h3 hr⟩
          · exact Or.inr ⟨w, List.mem_cons_of_mem _ h3, hr⟩

/-- everything reachable from a member of a `step`-closed list is in the list -/
theorem closed_reach {step : α → List α} {R : List α}
    (hcl : ∀ s ∈ R, ∀ v ∈ step s, v ∈ R) {w y : α} (hw : w ∈ R)
    (h : Relation.ReflTransGen (fun a b => b ∈ step a) w y) : y ∈ R := by
  induction h with
  | refl => exact hw
  | tail _ hbc ih => exact hcl _ ih _ hbc

/-- the raising loop agrees with the pure loop whenever every `ok` step agrees with the pure step -/
theorem closureE_ok_eq {ε} (stepE : α → Except ε (List α)) (step : α → List α)
    (h : ∀ x ys, stepE x = .ok ys → ys = step x) :
    ∀ (n : Nat) (work seen r : List α), closureE stepE n work seen = .ok r →
      r = closure step n work seen := by
  intro n
  induction n with
  | zero => intro work seen r hr; simp [closureE] at hr; simp [closure, hr]
  | succ n ih =>
    intro work seen r hr
    cases work with
    | nil => simp [closureE] at hr; simp [closure, hr]
    | cons x work =>
      simp only [closureE] at hr
      simp only [closure]
      split at hr
      · rename_i hx; simp only [hx, if_true]; exact ih _ _ _ hr
      · rename_i hx; simp only [hx, if_false]
        split at hr
        · cases hr
        · rename_i ys hys
          have := h x ys hys
          subst this
          exact ih _ _ _ hr

/-- the raising loop does not raise when no step raises -/
theorem closureE_total {ε} (stepE : α → Except ε (List α)) (step : α → List α)
    (h : ∀ x, stepE x = .ok (step x)) :
    ∀ (n : Nat) (work seen : List α), closureE stepE n work seen = .ok (closure step n work seen) := by
  intro n
  induction n with
  | zero => intro work seen; simp [closureE, closure]
  | succ n ih =>
    intro work seen
    cases work with
    | nil => simp [closureE, closure]
    | cons x work =>
      simp only [closureE, closure]
      split
      · exact ih _ _
      · rw [h x]; exact ih _ _

end Pyshacl
