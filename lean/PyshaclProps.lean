import PyshaclProps.C03
