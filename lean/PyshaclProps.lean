import PyshaclProps.C01
import PyshaclProps.C02
import PyshaclProps.C03
import PyshaclProps.C04
import PyshaclProps.C06
import PyshaclProps.C11
import PyshaclProps.C12
