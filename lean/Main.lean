/-
  Main.lean — line-protocol driver: evaluates the executable model (`Impl`) on the cases the
  Python harness sends, one case per line, and prints one canonical answer line per case.
-/
import PyshaclModel
open Pyshacl Pyshacl.Wire

def errStr : PathErr → String
  | .tooDeep => "ReportableRuntimeError:tooDeep"
  | .runtime => "ReportableRuntimeError"
  | .shapeLoad => "ShapeLoadError"
  | .notImplemented => "NotImplementedError"
  | .raw c => "raw:" ++ c

/-- `path <cap> <pathnode> <nfoci> foci… <sg> <dg>`: value nodes per focus node -/
def opPath (toks : List String) : String :=
  match toks with
  | cap :: pn :: rest =>
    match cap.toNat?, parseTerm pn, parseTermList rest with
    | some cap, some pnode, some (foci, rest) =>
      match parseGraph rest with
      | some (sg, rest) =>
        match parseGraph rest with
        | some (dg, _) =>
          let p := decodePath sg pathDecodeFuel pnode
          let outs := foci.map fun f =>
            match Path.eval cap p false 0 dg f with
            | .ok vs => "F " ++ termStr f ++ " " ++ toString (dedup vs).length ++ " " ++
                " ".intercalate ((dedup vs).map termStr)
            | .error e => "E " ++ termStr f ++ " " ++ errStr e
          let pures := foci.map fun f =>
            let vs := dedup (Path.evalPure p false dg f)
            "F " ++ termStr f ++ " " ++ toString vs.length ++ " " ++ " ".intercalate (vs.map termStr)
          "ok " ++ " ".intercalate outs ++ " PURE " ++ " ".intercalate pures
        | none => "bad-dg"
      | none => "bad-sg"
    | _, _, _ => "bad-args"
  | _ => "bad-args"

def step (line : String) : String :=
  match (line.trimAscii.toString.splitOn " ").filter (· ≠ "") with
  | id :: op :: rest =>
    let out := match op with
      | "path" => opPath rest
      | _ => "bad-op"
    id ++ " " ++ out
  | _ => "? bad-line"

partial def loop (h : IO.FS.Stream) (out : IO.FS.Stream) : IO Unit := do
  let line ← h.getLine
  if line.isEmpty then return ()
  out.putStrLn (step line)
  loop h out

def main : IO Unit := do
  let out ← IO.getStdout
  loop (← IO.getStdin) out
  out.flush
