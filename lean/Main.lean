/-
  Main.lean — line-protocol driver: evaluates the executable model (`Impl`) on the cases the
  Python harness sends, one case per line, and prints one canonical answer line per case.
-/
import PyshaclModel
open Pyshacl Pyshacl.Wire

def errStr : PathErr → String
  | .tooDeep => "ReportableRuntimeError:tooDeep"
  | .runtime => "ReportableRuntimeError"
  | .shapeLoad => "ShapeLoadError"
  | .notImplemented => "NotImplementedError"
  | .raw c => "raw:" ++ c

/-- `path <cap> <pathnode> <nfoci> foci… <sg> <dg>`: value nodes per focus node -/
def opPath (toks : List String) : String :=
  match toks with
  | cap :: pn :: rest =>
    match cap.toNat?, parseTerm pn, parseTermList rest with
    | some cap, some pnode, some (foci, rest) =>
      match parseGraph rest with
      | some (sg, rest) =>
        match parseGraph rest with
        | some (dg, _) =>
          let p := decodePath sg pathDecodeFuel pnode
          let outs := foci.map fun f =>
            match Path.eval cap p false 0 dg f with
            | .ok vs => "F " ++ termStr f ++ " " ++ toString (dedup vs).length ++ " " ++
                " ".intercalate ((dedup vs).map termStr)
            | .error e => "E " ++ termStr f ++ " " ++ errStr e
          let pures := foci.map fun f =>
            let vs := dedup (Path.evalPure p false dg f)
            "F " ++ termStr f ++ " " ++ toString vs.length ++ " " ++ " ".intercalate (vs.map termStr)
          "ok " ++ " ".intercalate outs ++ " PURE " ++ " ".intercalate pures
        | none => "bad-dg"
      | none => "bad-sg"
    | _, _, _ => "bad-args"
  | _ => "bad-args"

def failStr : Failure → String
  | .shapeLoad => "ShapeLoadError"
  | .constraintLoad => "ConstraintLoadError"
  | .ruleLoad => "RuleLoadError"
  | .runtime "" => "ReportableRuntimeError"
  | .runtime w => "ReportableRuntimeError:" ++ w
  | .validationFailure => "ValidationFailure"
  | .notImplemented => "NotImplementedError"
  | .raw c => "raw:" ++ c

partial def resultStr : Result → String
  | .mk f v p c s sev msgs det src =>
    let opt := fun (t : Option Term) => match t with | some x => termStr x | none => "-"
    "R " ++ termStr f ++ " " ++ opt v ++ " " ++ opt p ++ " " ++ termStr c ++ " " ++ termStr s ++ " " ++
      termStr sev ++ " " ++ toString msgs.length ++ (String.join (msgs.map fun m => " " ++ termStr m)) ++ " " ++
      toString det.length ++ (String.join (det.map fun d => " " ++ resultStr d)) ++ " " ++ opt src

/-- `k=v` options -/
def parseOpts (toks : List String) : Opts × List String :=
  let rec go (o : Opts) : List String → Opts × List String
    | [] => (o, [])
    | t :: rest =>
      match t.splitOn "=" with
      | ["advanced", v] => go { o with advanced := v = "1" } rest
      | ["abort", v] => go { o with abortOnFirst := v = "1" } rest
      | ["infos", v] => go { o with allowInfos := v = "1" } rest
      | ["warnings", v] => go { o with allowWarnings := v = "1" } rest
      | ["sparql", v] => go { o with sparqlMode := v = "1" } rest
      | ["maxdepth", v] => go { o with maxDepth := v.toNat?.getD Caps.maxValidationDepth } rest
      | _ => (o, t :: rest)
  go {} toks

/-- `RX n (pattern flags string 0|1)*` -/
def parseRx : Nat → List String → List (String × String × String × Bool) → Option (List (String × String × String × Bool) × List String)
  | 0, rest, acc => some (acc, rest)
  | n+1, p :: f :: s :: b :: rest, acc =>
    parseRx n rest ((unescape p, (if f = "-" then "" else unescape f), unescape s, b = "1") :: acc)
  | _, _, _ => none

def rxOfTable (tbl : List (String × String × String × Bool)) : Regex := fun p f s =>
  (tbl.find? fun r => r.1 = p ∧ r.2.1 = f ∧ r.2.2.1 = s).map (·.2.2.2)

/-- `<k> (var term)*` -/
def parseBinds : Nat → List String → List (String × Term) → Option (List (String × Term) × List String)
  | 0, rest, acc => some (acc.reverse, rest)
  | n+1, v :: t :: rest, acc => match parseTerm t with
    | some tm => parseBinds n rest ((unescape v, tm) :: acc)
    | none => none
  | _, _, _ => none

def parseSols : Nat → List String → List Sol → Option (List Sol × List String)
  | 0, rest, acc => some (acc.reverse, rest)
  | n+1, k :: rest, acc => match k.toNat? with
    | some kk => match parseBinds kk rest [] with
      | some (b, rest') => parseSols n rest' (⟨b⟩ :: acc)
      | none => none
    | none => none
  | _, _, _ => none

/-- `SPQ n (constraint focus nsols sols…)*` -/
def parseSpq : Nat → List String → List ((Term × Term) × List Sol) → Option (List ((Term × Term) × List Sol) × List String)
  | 0, rest, acc => some (acc, rest)
  | n+1, c :: f :: k :: rest, acc =>
    match parseTerm c, parseTerm f, k.toNat? with
    | some cn, some fn, some kk => match parseSols kk rest [] with
      | some (sols, rest') => parseSpq n rest' (((cn, fn), sols) :: acc)
      | none => none
    | _, _, _ => none
  | _, _, _ => none

/-- `SPT m (constraint minus values service nested asVar usesPath usesSG)*` -/
def parseSpt : Nat → List String → List (Term × SparqlTemplate) → Option (List (Term × SparqlTemplate) × List String)
  | 0, rest, acc => some (acc, rest)
  | n+1, c :: mi :: va :: se :: ne :: asv :: up :: us :: rest, acc =>
    match parseTerm c with
    | some cn =>
      let b : String → Bool := fun x => x = "1"
      let nested : Option (List String) := if ne = "-" then none else some ((ne.splitOn ",").filter (· ≠ ""))
      let asV : Option String := if asv = "-" then none else some asv
      let t : SparqlTemplate := ⟨b mi, b va, b se, nested, asV, b up, b us⟩
      parseSpt n rest ((cn, t) :: acc)
    | none => none
  | _, _, _ => none

/-- `VAL n (validator shape focus value (A 0|1 | R nsols sols…))*` -/
def parseVal : Nat → List String → List ((Term × Term × Term × Term) × ValidatorAnswer) →
    Option (List ((Term × Term × Term × Term) × ValidatorAnswer) × List String)
  | 0, rest, acc => some (acc, rest)
  | n+1, v :: sh :: f :: x :: kind :: rest, acc =>
    match parseTerm v, parseTerm sh, parseTerm f, parseTerm x with
    | some vt, some st, some ft, some xt =>
      if kind = "A" then
        match rest with
        | b :: rest' => parseVal n rest' (((vt, st, ft, xt), .ask (b = "1")) :: acc)
        | [] => none
      else
        match rest with
        | k :: rest' => match parseSols (k.toNat?.getD 0) rest' [] with
          | some (sols, rest'') => parseVal n rest'' (((vt, st, ft, xt), .rows sols) :: acc)
          | none => none
        | [] => none
    | _, _, _, _ => none
  | _, _, _ => none

/-- a pattern term: `?name` or a term token -/
def parsePTerm (tok : String) : Option PTerm :=
  if tok.startsWith "?" then some (.var (unescape (tok.drop 1).toString)) else (parseTerm tok).map .const

/-- `<n> (s p o)*` -/
def parsePats : Nat → List String → List TPat → Option (List TPat × List String)
  | 0, rest, acc => some (acc.reverse, rest)
  | n+1, a :: b :: c :: rest, acc =>
    match parsePTerm a, parsePTerm b, parsePTerm c with
    | some s, some p, some o => parsePats n rest (⟨s, p, o⟩ :: acc)
    | _, _, _ => none
  | _, _, _ => none

def parsePatList : List String → Option (List TPat × List String)
  | n :: rest => match n.toNat? with
    | some k => parsePats k rest []
    | none => none
  | [] => none

def parsePTerms : Nat → List String → List PTerm → Option (List PTerm × List String)
  | 0, rest, acc => some (acc.reverse, rest)
  | n+1, a :: rest, acc => match parsePTerm a with
    | some t => parsePTerms n rest (t :: acc)
    | none => none
  | _, _, _ => none

/-- `(var fn nargs args…)*` -/
def parseBindCalls : Nat → List String → List (String × Term × List PTerm) → Option (List (String × Term × List PTerm) × List String)
  | 0, rest, acc => some (acc.reverse, rest)
  | n+1, v :: f :: k :: rest, acc =>
    match parseTerm f, k.toNat? with
    | some fnode, some kk => match parsePTerms kk rest [] with
      | some (args, rest') => parseBindCalls n rest' ((unescape v, fnode, args) :: acc)
      | none => none
    | _, _ => none
  | _, _, _ => none

/-- `<k> (usesThis head body notExists [BINDS …])*` -/
def parseConstructs : Nat → List String → List Construct → Option (List Construct × List String)
  | 0, rest, acc => some (acc.reverse, rest)
  | n+1, ut :: rest, acc =>
    match parsePatList rest with
    | some (head, rest1) => match parsePatList rest1 with
      | some (body, rest2) => match parsePatList rest2 with
        | some (ne, rest3) =>
          -- optional `BINDS k (var fn nargs args…)*`
          (match rest3 with
            | "BINDS" :: k :: rest4 =>
              (match parseBindCalls (k.toNat?.getD 0) rest4 [] with
                | some (bs, rest5) => parseConstructs n rest5 (⟨head, body, ne, ut = "1", bs⟩ :: acc)
                | none => none)
            | _ => parseConstructs n rest3 (⟨head, body, ne, ut = "1", []⟩ :: acc))
        | none => none
      | none => none
    | none => none
  | _, _, _ => none

/-- `CON n (rulenode k constructs…)*` -/
def parseCon : Nat → List String → List (Term × List Construct) → Option (List (Term × List Construct) × List String)
  | 0, rest, acc => some (acc, rest)
  | n+1, r :: k :: rest, acc =>
    match parseTerm r, k.toNat? with
    | some rn, some kk => match parseConstructs kk rest [] with
      | some (cs, rest') => parseCon n rest' ((rn, cs) :: acc)
      | none => none
    | _, _ => none
  | _, _, _ => none


/-- `ADVT n (targetNode nsols sols…)*` -/
def parseAdvT : Nat → List String → List (Term × List Sol) → Option (List (Term × List Sol) × List String)
  | 0, rest, acc => some (acc, rest)
  | n+1, t :: k :: rest, acc =>
    match parseTerm t, k.toNat? with
    | some tn, some kk => match parseSols kk rest [] with
      | some (sols, rest') => parseAdvT n rest' ((tn, sols) :: acc)
      | none => none
    | _, _ => none
  | _, _, _ => none

/-- `(name term|-)*` -/
def parseNamedArgs : Nat → List String → List (String × Option Term) → Option (List (String × Option Term) × List String)
  | 0, rest, acc => some (acc.reverse, rest)
  | n+1, nm :: a :: rest, acc =>
    if a = "-" then parseNamedArgs n rest ((unescape nm, none) :: acc) else
    match parseTerm a with
    | some t => parseNamedArgs n rest ((unescape nm, some t) :: acc)
    | none => none
  | _, _, _ => none

/-- `ADVF n (fn nargs (name arg)… result|-)*` -/
def parseAdvF : Nat → List String → List ((Term × List (String × Option Term)) × Option Term) →
    Option (List ((Term × List (String × Option Term)) × Option Term) × List String)
  | 0, rest, acc => some (acc, rest)
  | n+1, f :: k :: rest, acc =>
    match parseTerm f, k.toNat? with
    | some fnode, some kk => match parseNamedArgs kk rest [] with
      | some (args, r :: rest') =>
        if r = "-" then parseAdvF n rest' (((fnode, args), none) :: acc) else
        (match parseTerm r with
          | some rt => parseAdvF n rest' (((fnode, args), some rt) :: acc)
          | none => none)
      | _ => none
    | _, _ => none
  | _, _, _ => none

structure Sections where
  spq : List ((Term × Term) × List Sol) := []
  spt : List (Term × SparqlTemplate) := []
  vals : List ((Term × Term × Term × Term) × ValidatorAnswer) := []
  con : List (Term × List Construct) := []
  advT : List (Term × List Sol) := []
  advF : List ((Term × List (String × Option Term)) × Option Term) := []
  bad : Bool := false

/-- the optional table sections after `RX …`, in any order -/
def parseSections : Nat → List String → Sections → Sections
  | 0, _, acc => acc
  | _, [], acc => acc
  | fuel+1, tag :: n :: rest, acc =>
    let k := n.toNat?.getD 0
    if tag = "SPQ" then (match parseSpq k rest [] with | some (x, r) => parseSections fuel r { acc with spq := x } | none => { acc with bad := true })
    else if tag = "SPT" then (match parseSpt k rest [] with | some (x, r) => parseSections fuel r { acc with spt := x } | none => { acc with bad := true })
    else if tag = "VAL" then (match parseVal k rest [] with | some (x, r) => parseSections fuel r { acc with vals := x } | none => { acc with bad := true })
    else if tag = "CON" then (match parseCon k rest [] with | some (x, r) => parseSections fuel r { acc with con := x } | none => { acc with bad := true })
    else if tag = "ADVT" then (match parseAdvT k rest [] with | some (x, r) => parseSections fuel r { acc with advT := x } | none => { acc with bad := true })
    else if tag = "ADVF" then (match parseAdvF k rest [] with | some (x, r) => parseSections fuel r { acc with advF := x } | none => { acc with bad := true })
    else { acc with bad := true }
  | _, _, acc => { acc with bad := true }

def Sections.adv (s : Sections) : AdvTables :=
  { targets := fun t => (s.advT.find? (fun e => e.1 = t)).map (·.2),
    fn := fun f args => (s.advF.find? (fun e => e.1 = (f, args))).map (·.2) }

/-- `validate <opts…> FOCUS <terms> SHAPES <terms> SG <graph> DG <graph> RX <n> …` -/
def opValidateWith (fmt : Graph → Graph → Out → String) (toks : List String) : String :=
  let (o, rest) := parseOpts toks
  match rest with
  | "FOCUS" :: rest =>
    match parseTermList rest with
    | some (focus, "SHAPES" :: rest) =>
      match parseTermList rest with
      | some (useShapes, "SG" :: rest) =>
        match parseGraph rest with
        | some (sg, "DG" :: rest) =>
          match parseGraph rest with
          | some (dg, "RX" :: n :: rest) =>
            match parseRx (n.toNat?.getD 0) rest [] with
            | some (tbl, rest) =>
              let sec := parseSections 8 rest {}
              if sec.bad then "bad-sections" else
              let spq := sec.spq
              let spt := sec.spt
              let vals := sec.vals
              let vaf := fun (v sh f x : Term) => (vals.find? (fun e => e.1 = (v, sh, f, x))).map (·.2)
              let sqf := fun (c f : Term) => (spq.find? (fun e => e.1 = (c, f))).map (·.2)
              let sqi := fun (c : Term) => (spt.find? (fun e => e.1 = c)).map (·.2)
              let sg' := sg ++ systemTriples.filter (· ∉ sg)
              let out := runValidate o sg' dg (rxOfTable tbl) focus useShapes sqf sqi vaf sec.adv
              fmt sg' dg out
            | none => "bad-rx"
          | _ => "bad-dg"
        | _ => "bad-sg"
      | _ => "bad-shapes"
    | _ => "bad-focus"
  | _ => "bad-args"

def opValidate : List String → String :=
  opValidateWith fun _ _ out => match out with
    | .error e => "err " ++ failStr e
    | .ok (conf, rs) => "ok " ++ (if conf then "1" else "0") ++ " " ++ toString rs.length ++
        String.join (rs.map fun r => " " ++ resultStr r)

def rnodeStr : RNode → String
  | .fresh idx => "F:" ++ ".".intercalate (idx.map toString)
  | .cl k => "C:" ++ ".".intercalate (k.map toString)
  | .term t => termStr t

/-- `report …` (arguments as for `validate`) → `ok <conf> <#results> G <#triples> <s p o>… T <text>`:
    the report graph and the report text (result blocks left out: their wording is a parameter of the model) -/
def opReport : List String → String :=
  opValidateWith fun sg dg out => match out with
    | .error e => "err " ++ failStr e
    | .ok (conf, rs) => match createReport sg dg (fun _ => "") conf rs with
      | .error e => "err " ++ failStr e
      | .ok (c, g, text) => "ok " ++ (if c then "1" else "0") ++ " " ++ toString rs.length ++ " G " ++ toString g.length ++
          String.join (g.map fun t => " " ++ rnodeStr t.s ++ " " ++ termStr t.p ++ " " ++ rnodeStr t.o) ++ " T " ++ escape text

def tripleStr (t : Triple) : String := termStr t.s ++ " " ++ termStr t.p ++ " " ++ termStr t.o

/-- `rules iterate=<0|1> then=<0|1> <opts…> FOCUS <terms> SHAPES <terms> SG <graph> DG <graph> RX <n> … CON <n> …`
    → the expanded graph; with `then=1` followed by the outcome of validating it (advanced mode) -/
def opRules' (iterate thenValidate : Bool) (toks : List String) : String :=
  let (o, rest) := parseOpts toks
  match rest with
  | "FOCUS" :: rest =>
    match parseTermList rest with
    | some (focus, "SHAPES" :: rest) =>
      match parseTermList rest with
      | some (useShapes, "SG" :: rest) =>
        match parseGraph rest with
        | some (sg, "DG" :: rest) =>
          match parseGraph rest with
          | some (dg, "RX" :: n :: rest) =>
            match parseRx (n.toNat?.getD 0) rest [] with
            | some (tbl, rest) =>
              let sec := parseSections 8 rest {}
              match (if sec.bad then none else some sec.con) with
              | some con =>
                let conf := fun (r : Term) => ((con.find? (fun e => e.1 = r)).map (·.2)).getD []
                let sg' := sg ++ systemTriples.filter (· ∉ sg)
                match runRules o iterate sg' (dedup dg) (rxOfTable tbl) focus useShapes conf sec.adv with
                | .error e => "err " ++ failStr e
                | .ok g =>
                  let gs := "ok " ++ toString g.length ++ String.join (g.map fun t => " " ++ tripleStr t)
                  if !thenValidate then gs else
                  match runValidate o sg' g (rxOfTable tbl) focus useShapes (adv := sec.adv) with
                  | .error e => gs ++ " VAL err " ++ failStr e
                  | .ok (conf, rs) => gs ++ " VAL ok " ++ (if conf then "1" else "0") ++ " " ++ toString rs.length ++
                      String.join (rs.map fun r => " " ++ resultStr r)
              | none => "bad-con"
            | _ => "bad-rx"
          | _ => "bad-dg"
        | _ => "bad-sg"
      | _ => "bad-shapes"
    | _ => "bad-focus"
  | _ => "bad-args"

def opRules (toks : List String) : String :=
  match toks with
  | it :: th :: toks => opRules' (it = "iterate=1") (th = "then=1") toks
  | _ => "bad-args"

open Pyshacl.Pipeline in
def objStr : Pipeline.Obj → String
  | .data => "data" | .ont => "ont" | .shapes => "shapes" | .fresh n => "fresh" ++ toString n

open Pyshacl.Pipeline in
def stageStr : Pipeline.Stage → String
  | .system => "system" | .inoculate => "inoculate" | .infer => "infer" | .rules => "rules"

open Pyshacl.Pipeline in
/-- `pipeline <api v|r> <hasOnt> <multigraph> <inference> <advanced> <inplace> <shapesInData>` → the operation sequence -/
def opPipeline (toks : List String) : String :=
  match toks with
  | [a, o, m, i, ad, ip, sd, hr] =>
    let b := fun (s : String) => s = "1"
    let c : Pipeline.Cfg := ⟨if a = "r" then .rules else .validate, b o, b m, b i, b ad, b ip, b sd, b hr⟩
    let (ops, tgt) := Pipeline.plan c
    let opStr := fun (op : Pipeline.Op) => match op with
      | .clone src dst => "clone:" ++ objStr src ++ ">fresh" ++ toString dst
      | .write st dst => "write:" ++ stageStr st ++ ":" ++ objStr dst
      | .read st src => "read:" ++ stageStr st ++ ":" ++ objStr src
    "ok " ++ " ".intercalate (ops.map opStr) ++ " target:" ++ objStr tgt
  | _ => "bad-args"

open Pyshacl.History in
def parseStage (s : String) : Option History.Stage :=
  if s = "meta" then some .metaShacl else if s = "data" then some .loadData else if s = "ont" then some .loadOnt
  else if s = "shapes" then some .loadShapes else if s = "build" then some .buildShapes
  else if s = "rules" then some .rules else if s = "validate" then some .validate
  else if s.startsWith "apply" then (s.drop 5).toString.toNat?.map History.Stage.applyFunctions
  else none

open Pyshacl.History in
/-- `history (CALL shapesGiven ontGiven advanced nf f1..fnf fail)*` → global state after every call -/
def opHistory (toks : List String) : String :=
  let rec go (fuel : Nat) (toks : List String) (s : History.GState) (acc : List String) : List String :=
    match fuel, toks with
    | 0, _ => acc
    | _, [] => acc
    | fuel+1, "CALL" :: sg :: og :: adv :: nf :: rest =>
      let n := nf.toNat?.getD 0
      let fns := rest.take n
      match rest.drop n with
      | fail :: rest' =>
        let c : History.Call := ⟨sg = "1", og = "1", adv = "1", fns, [], [], parseStage fail⟩
        let (s', obs) := History.step s c
        let out := "n" ++ (if s'.normalize then "1" else "0") ++ ":b" ++ (if s'.boolPatched then "1" else "0") ++
          ":c" ++ toString s'.customFns.length ++ ":o" ++ (if obs.normalizeAtLoad then "1" else "0") ++
          (if obs.boolPatchedAtLoad then "1" else "0") ++ toString obs.foreignFns.length
        go fuel rest' s' (acc ++ [out])
      | [] => acc
    | _, _ => acc ++ ["bad"]
  "ok " ++ " ".intercalate (go 64 toks History.init [])

/-- `printpath <pathnode> NPFX n (prefix ns)* SG <graph>` → the SPARQL path text -/
def opPrintPath (toks : List String) : String :=
  match toks with
  | pn :: "NPFX" :: n :: rest =>
    match parseTerm pn, n.toNat? with
    | some pnode, some k =>
      let pf := (List.range k).filterMap fun i =>
        match rest[2*i]?, rest[2*i+1]? with
        | some a, some b => some (unescape a, unescape b)
        | _, _ => none
      match rest.drop (2*k) with
      | "SG" :: rest' =>
        match parseGraph rest' with
        | some (sg, _) =>
          let p := decodePath sg pathDecodeFuel pnode
          (match Path.print pf 40 p 0 with
            | .ok s => "ok " ++ escape s
            | .error e => "err " ++ errStr e)
        | none => "bad-sg"
      | _ => "bad-args"
    | _, _ => "bad-args"
  | _ => "bad-args"

/-- `inoculate <ont graph>` → the triples added to the data graph -/
def opInoculate (toks : List String) : String :=
  match parseGraph toks with
  | some (ont, _) =>
    let ts := dedup (inoculated ont)
    "ok " ++ toString ts.length ++ String.join (ts.map fun t => " " ++ termStr t.s ++ " " ++ termStr t.p ++ " " ++ termStr t.o)
  | none => "bad-graph"

/-- `exit report <0|1>` | `exit failure` | `exit raised <class>` → the exit status of the command line -/
def opExit (toks : List String) : String :=
  match toks with
  | ["report", b] => "ok " ++ toString (Cli.exitStatus (.report (b = "1")))
  | ["failure"] => "ok " ++ toString (Cli.exitStatus .failure)
  | ["raised", c] => "ok " ++ toString (Cli.exitStatus (.raised c))
  | _ => "bad-args"

def kindStr : Load.Kind → String
  | .stdin => "stdin" | .fileUri => "file" | .web => "web" | .fileName => "file" | .inline => "inline"
  | .raw c => "raw:" ++ c

/-- `classify <str|bytes> <exists 0|1> <escaped text>` → how load_from_source treats the source;
    `sniff <escaped line>` → the sniffed format; `ext <escaped name>` → the format of the extension -/
def opClassify (toks : List String) : String :=
  match toks with
  | [form, ex, txt] =>
    let s := unescape txt
    let e := fun (_ : List Char) => ex = "1"
    if form = "str" then "ok " ++ kindStr (Load.classifyStr e s.toList)
    else "ok " ++ kindStr (Load.classifyBytes e s.toList s.utf8ByteSize)
  | _ => "bad-args"

def opSniff (toks : List String) : String :=
  match toks with
  | [txt] => "ok " ++ (match Load.sniff (unescape txt).toList with
      | .xml => "xml" | .turtle => "turtle" | .html => "html" | .unknown => "unknown")
  | _ => "bad-args"

def opExt (toks : List String) : String :=
  match toks with
  | [txt] => "ok " ++ ((Load.extFormat (unescape txt).toList).getD "-")
  | _ => "bad-args"

def step (line : String) : String :=
  match (line.trimAscii.toString.splitOn " ").filter (· ≠ "") with
  | id :: op :: rest =>
    let out := match op with
      | "path" => opPath rest
      | "validate" => opValidate rest
      | "report" => opReport rest
      | "pipeline" => opPipeline rest
      | "history" => opHistory rest
      | "printpath" => opPrintPath rest
      | "inoculate" => opInoculate rest
      | "rules" => opRules rest
      | "exit" => opExit rest
      | "classify" => opClassify rest
      | "sniff" => opSniff rest
      | "ext" => opExt rest
      | _ => "bad-op"
    id ++ " " ++ out
  | _ => "? bad-line"

partial def loop (h : IO.FS.Stream) (out : IO.FS.Stream) : IO Unit := do
  let line ← h.getLine
  if line.isEmpty then return ()
  out.putStrLn (step line)
  loop h out

def main : IO Unit := do
  let out ← IO.getStdout
  loop (← IO.getStdin) out
  out.flush
