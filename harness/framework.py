"""Outcome container + evidence writer used by ./check."""
import json
import os
import time

VERIF = os.path.dirname(os.path.dirname(os.path.abspath(__file__)))


class Outcome:
    def __init__(self, pid):
        self.pid = pid
        self.evaluations = 0            # cases executed on the real code
        self.nontrivial = set()         # distinct non-trivial canonical inputs
        self.rule = ""
        self.samples = []               # a few actual cases written out
        self.a_mismatch = []            # (A) code vs Impl disagreements: dicts
        self.b_fail = []                # (B) property-oracle failures on the code: dicts with 'signature'
        self.counters = {}              # generator distribution / branch counters
        self.masked = []                # what was masked as unspecified
        self.traces = 0                 # cases on which model and code were compared
        self.notes = []
        self.exhaustive = False

    def count(self, key, n=1):
        self.counters[key] = self.counters.get(key, 0) + n

    def sample(self, s, limit=4):
        if len(self.samples) < limit:
            self.samples.append(s)


def load_known_findings():
    path = os.path.join(VERIF, "known_findings.jsonl")
    out = []
    if os.path.exists(path):
        for ln in open(path):
            ln = ln.strip()
            if ln and not ln.startswith("#"):
                out.append(json.loads(ln))
    return out


def write_replay(pid, name, payload):
    d = os.path.join(VERIF, "replays")
    os.makedirs(d, exist_ok=True)
    path = os.path.join(d, "%s_%s.json" % (pid, name))
    with open(path, "w") as f:
        json.dump(payload, f, indent=1, default=str)
    return path
