"""Template family of sh:sparql constraints, the solution tables for the model, and the SHACL-SPARQL reference."""
import re

from rdflib import BNode, Graph, Literal, URIRef
from rdflib.namespace import RDF, XSD

import pathgen
import wire
from common import CLASSES, EX, NODES, PREDS, SH

DECL = EX.decl


def add_prefix_decl(g: Graph):
    d = BNode("declex")
    g.add((DECL, SH.declare, d))
    g.add((d, SH.prefix, Literal("ex")))
    g.add((d, SH.namespace, Literal(str(EX), datatype=XSD.anyURI)))


CONDS = ["isLiteral(?value)", "isIRI(?value)", "datatype(?value) = <http://www.w3.org/2001/XMLSchema#integer>", "lang(?value) != ''",
         "?value = $this", "STRLEN(STR(?value)) > 3", "true"]

MESSAGES = ["pair {?a} then {?b}", "plain message", "value {?value} of {$this}", "{$this} has {?value} via {?path}", "other {?other} and {?value}", "shape {$currentShape}",
            "twice {?value} {?value}", "no such var {?nope}"]


def gen_constraint(rng, g: Graph, shape, is_prop):
    """adds one sh:sparql constraint to `shape`; returns (constraint node, template descriptor)"""
    c = BNode("spq%d" % len(g))
    g.add((shape, SH.sparql, c))
    g.add((c, SH.prefixes, DECL))
    p, q = rng.choice(PREDS), rng.choice(PREDS)
    t = {"minus": False, "values": False, "service": False, "nested": None, "asVar": None, "usesPath": False, "usesSG": False}
    kind = rng.choice(["value", "value", "path" if is_prop else "value", "other", "qpath", "rebind_this", "currentShape", "pairs", "pairs",
                       "other", "qpath", "nested_ok", "as_ok", "value", "path" if is_prop else "other",
                       rng.choice(["minus", "values", "service", "nested_bad", "nested_star", "as_this"])])
    cond = rng.choice(CONDS)
    if kind == "value":
        q_text = "SELECT $this ?value WHERE { $this ex:%s ?value . FILTER (%s) }" % (local(p), cond)
    elif kind == "path":
        q_text = "SELECT $this ?value WHERE { $this $PATH ?value . FILTER (%s) }" % cond
        t["usesPath"] = True
    elif kind == "other":
        q_text = "SELECT $this ?value ?other WHERE { $this ex:%s ?value . $this ex:%s ?other }" % (local(p), local(q))
    elif kind == "pairs":
        q_text = "SELECT $this ?a ?b WHERE { $this ex:%s ?a . $this ex:%s ?b . FILTER (?a != ?b) }" % (local(p), local(p))
    elif kind == "qpath":
        q_text = "SELECT $this ?path ?value WHERE { $this ?path ?value . FILTER (?path IN (ex:%s, ex:%s)) }" % (local(p), local(q))
    elif kind == "failure":
        q_text = "SELECT $this ?failure WHERE { $this ex:%s ?v . BIND (true AS ?failure) }" % local(p)
        t["asVar"] = "failure"
    elif kind == "rebind_this":
        q_text = "SELECT ?this ?value WHERE { ?this ex:%s ?value . FILTER (%s) }" % (local(p), cond)
    elif kind == "currentShape":
        q_text = "SELECT $this ?value WHERE { $this ex:%s ?value . FILTER (isIRI($currentShape) || isBlank($currentShape)) }" % local(p)
    elif kind == "minus":
        q_text = "SELECT $this WHERE { $this ex:%s ?v . MINUS { $this ex:%s ?w } }" % (local(p), local(q))
        t["minus"] = True
    elif kind == "values":
        q_text = "SELECT $this ?value WHERE { $this ex:%s ?value . VALUES ?value { 1 2 } }" % local(p)
        t["values"] = True
    elif kind == "service":
        q_text = "SELECT $this WHERE { SERVICE <http://ex.test/sparql> { $this ex:%s ?v } }" % local(p)
        t["service"] = True
    elif kind == "nested_ok":
        q_text = "SELECT $this ?value WHERE { { SELECT $this ?value WHERE { $this ex:%s ?value } } }" % local(p)
        t["nested"] = ["this", "value"]
    elif kind == "nested_bad":
        q_text = "SELECT $this ?value WHERE { $this ex:%s ?x . { SELECT ?value WHERE { ?s ex:%s ?value } } }" % (local(p), local(q))
        t["nested"] = ["value"]
    elif kind == "nested_star":
        q_text = "SELECT $this ?value WHERE { { SELECT * WHERE { $this ex:%s ?value } } }" % local(p)
        t["nested"] = ["*"]
    elif kind == "as_this":
        q_text = "SELECT ?value WHERE { ?x ex:%s ?value . BIND (?x AS ?this) }" % local(p)
        t["asVar"] = "this"
    else:
        q_text = "SELECT $this ?value WHERE { $this ex:%s ?v . BIND (STR(?v) AS ?value) }" % local(p)
        t["asVar"] = "value"
    g.add((c, SH.select, Literal(q_text)))
    for m in rng.sample(MESSAGES, rng.choice((0, 1, 1, 2))):
        g.add((c, SH.message, Literal(m)))
    if rng.random() < 0.07:
        g.add((c, SH.deactivated, Literal(True)))
    t["kind"] = kind
    t["text"] = q_text
    return c, t


def local(p):
    return str(p)[len(str(EX)):]


def prefix_block(sg: Graph, constraint):
    pf = {"rdf": str(RDF), "rdfs": "http://www.w3.org/2000/01/rdf-schema#", "owl": "http://www.w3.org/2002/07/owl#"}
    for pv in sg.objects(constraint, SH.prefixes):
        for d in sg.objects(pv, SH.declare):
            pf[str(sg.value(d, SH.prefix))] = str(sg.value(d, SH.namespace))
    return "".join("PREFIX %s: <%s>\n" % kv for kv in pf.items())


_MEMO = {}


def run_query_directly(sg: Graph, dg: Graph, constraint, shape, focus):
    """the declared query run directly through rdflib with the pre-bindings SHACL-SPARQL prescribes; rows as {var: term}"""
    key = (id(sg), id(dg), constraint, shape, focus)
    if key not in _MEMO:
        if len(_MEMO) > 20000:
            _MEMO.clear()
        _MEMO[key] = _run_query_directly(sg, dg, constraint, shape, focus)
    return _MEMO[key]


def _run_query_directly(sg: Graph, dg: Graph, constraint, shape, focus):
    text = str(sg.value(constraint, SH.select))
    pth = sg.value(shape, SH.path)
    if pth is not None:
        import oracle_core
        text = re.sub(r"([\s{}()])[\$\?]PATH", lambda m: m.group(1) + pathgen.sparql(oracle_core.decode_path(sg, pth)), text)
    binds = {}
    if re.search(r"[\$\?]this\b", text):
        binds["this"] = focus
    if re.search(r"[\$\?]currentShape\b", text):
        binds["currentShape"] = shape
    res = dg.query(prefix_block(sg, constraint) + text, initBindings=binds)
    rows = []
    for r in res:
        rows.append({str(k): v for k, v in r.asdict().items()})
    return rows


def solution_tables(sg: Graph, dg: Graph, templates):
    """(solutions, templates) for vcase.model_line: every sh:sparql constraint x every candidate focus node"""
    import oracle_core
    ref = oracle_core.Ref(sg, dg)
    sols = []
    for c, t in templates.items():
        shapes = list(sg.subjects(SH.sparql, c))
        if not shapes:
            continue
        forbidden = t["minus"] or t["values"] or t["service"] or t["nested"] is not None and ("this" not in t["nested"]) or t["asVar"] == "this"
        if forbidden or (t["usesPath"] and sg.value(shapes[0], SH.path) is None):
            continue
        # the focus nodes the shape is validated on: its targets, or (when it is only referenced) every node of the data graph
        cands = ref.targets(shapes[0]) or (set(dg.all_nodes()) | set(sg.objects(None, SH.targetNode)))
        if any(True for _ in sg.subjects(None, shapes[0])):
            cands = cands | set(dg.all_nodes())
        for f in cands:
            try:
                rows = run_query_directly(sg, dg, c, shapes[0], f)
            except Exception:
                continue
            sols.append((c, f, rows))
    return sols, templates


def fill(template: str, binds: dict) -> str:
    """SHACL-SPARQL §5.3.2: {?var} / {$var} replaced by the solution's binding of var"""
    def rep(m):
        v = binds.get(m.group(1))
        return str(v) if v is not None else m.group(0)
    return re.sub(r"\{[\?\$]([A-Za-z_][A-Za-z0-9_]*)\}", rep, template)


def expected_results(sg: Graph, dg: Graph, shape, constraint, focus, rows, ref):
    """SHACL-SPARQL §5.3: one result per distinct solution; sh:value / sh:resultPath / sh:focusNode from ?value / ?path / ?this"""
    is_prop = (shape, SH.path, None) in sg
    out, seen, failed = [], set(), False
    for row in rows:
        key = tuple(sorted((k, wire.tkey(v)) for k, v in row.items()))
        if key in seen:
            continue
        seen.add(key)
        if "failure" in row:
            if failed:
                continue
            failed = True
            this, value, path = focus, (None if is_prop else focus), None
        else:
            if not any(k in row for k in ("this", "value", "path")):
                continue
            this = row.get("this", focus)
            value = row.get("value", None if is_prop else focus)
            path = row.get("path")
        binds = dict(row)
        if value is not None and "failure" not in row:
            binds["value"] = value
        r = ref.result(shape, "SPARQL", this, value, path)
        r["source"] = wire.tkey(constraint)
        msgs = [Literal(fill(str(m), binds)) for m in sg.objects(constraint, SH.message) if m not in set(sg.objects(shape, SH.message))]
        msgs += [Literal(fill(str(m), binds)) for m in sg.objects(shape, SH.message)]
        r["messages"] = sorted(wire.tkey(m) for m in msgs)
        out.append(r)
    return out
