"""Template family of sh:sparql constraints, the solution tables for the model, and the SHACL-SPARQL reference."""
import re

from rdflib import BNode, Graph, Literal, URIRef
from rdflib.namespace import RDF, XSD

import pathgen
import wire
from common import CLASSES, EX, NODES, PREDS, SH

DECL = EX.decl


def add_prefix_decl(g: Graph):
    d = BNode("declex")
    g.add((DECL, SH.declare, d))
    g.add((d, SH.prefix, Literal("ex")))
    g.add((d, SH.namespace, Literal(str(EX), datatype=XSD.anyURI)))


CONDS = ["isLiteral(?value)", "isIRI(?value)", "datatype(?value) = <http://www.w3.org/2001/XMLSchema#integer>", "lang(?value) != ''",
         "?value = $this", "STRLEN(STR(?value)) > 3", "true"]

MESSAGES = ["pair {?a} then {?b}", "plain message", "value {?value} of {$this}", "{$this} has {?value} via {?path}", "other {?other} and {?value}", "shape {$currentShape}",
            "twice {?value} {?value}", "no such var {?nope}"]


def gen_constraint(rng, g: Graph, shape, is_prop):
    """adds one sh:sparql constraint to `shape`; returns (constraint node, template descriptor)"""
    c = BNode("spq%d" % len(g))
    g.add((shape, SH.sparql, c))
    g.add((c, SH.prefixes, DECL))
    p, q = rng.choice(PREDS), rng.choice(PREDS)
    t = {"minus": False, "values": False, "service": False, "nested": None, "asVar": None, "usesPath": False, "usesSG": False}
    kind = rng.choice(["value", "value", "path" if is_prop else "value", "other", "qpath", "rebind_this", "currentShape", "pairs", "pairs",
                       "other", "qpath", "nested_ok", "as_ok", "value", "path" if is_prop else "other", "union_vars",
                       rng.choice(["minus", "values", "service", "nested_bad", "nested_star", "as_this"])])
    cond = rng.choice(CONDS)
    if kind == "value":
        q_text = "SELECT $this ?value WHERE { $this ex:%s ?value . FILTER (%s) }" % (local(p), cond)
    elif kind == "path":
        q_text = "SELECT $this ?value WHERE { $this $PATH ?value . FILTER (%s) }" % cond
        t["usesPath"] = True
    elif kind == "other":
        q_text = "SELECT $this ?value ?other WHERE { $this ex:%s ?value . $this ex:%s ?other }" % (local(p), local(q))
    elif kind == "pairs":
        q_text = "SELECT $this ?a ?b WHERE { $this ex:%s ?a . $this ex:%s ?b . FILTER (?a != ?b) }" % (local(p), local(p))
    elif kind == "union_vars":
        # two solutions that bind the same terms under different variable names are two solutions
        q_text = "SELECT $this ?a ?b WHERE { { $this ex:%s ?a } UNION { $this ex:%s ?b } }" % (local(p), local(p))
    elif kind == "qpath":
        q_text = "SELECT $this ?path ?value WHERE { $this ?path ?value . FILTER (?path IN (ex:%s, ex:%s)) }" % (local(p), local(q))
    elif kind == "failure":
        q_text = "SELECT $this ?failure WHERE { $this ex:%s ?v . BIND (true AS ?failure) }" % local(p)
        t["asVar"] = "failure"
    elif kind == "rebind_this":
        q_text = "SELECT ?this ?value WHERE { ?this ex:%s ?value . FILTER (%s) }" % (local(p), cond)
    elif kind == "currentShape":
        q_text = "SELECT $this ?value WHERE { $this ex:%s ?value . FILTER (isIRI($currentShape) || isBlank($currentShape)) }" % local(p)
    elif kind == "minus":
        q_text = "SELECT $this WHERE { $this ex:%s ?v . MINUS { $this ex:%s ?w } }" % (local(p), local(q))
        t["minus"] = True
    elif kind == "values":
        q_text = "SELECT $this ?value WHERE { $this ex:%s ?value . VALUES ?value { 1 2 } }" % local(p)
        t["values"] = True
    elif kind == "service":
        q_text = "SELECT $this WHERE { SERVICE <http://ex.test/sparql> { $this ex:%s ?v } }" % local(p)
        t["service"] = True
    elif kind == "nested_ok":
        q_text = "SELECT $this ?value WHERE { { SELECT $this ?value WHERE { $this ex:%s ?value } } }" % local(p)
        t["nested"] = ["this", "value"]
    elif kind == "nested_bad":
        q_text = "SELECT $this ?value WHERE { $this ex:%s ?x . { SELECT ?value WHERE { ?s ex:%s ?value } } }" % (local(p), local(q))
        t["nested"] = ["value"]
    elif kind == "nested_star":
        q_text = "SELECT $this ?value WHERE { { SELECT * WHERE { $this ex:%s ?value } } }" % local(p)
        t["nested"] = ["*"]
    elif kind == "as_this":
        q_text = "SELECT ?value WHERE { ?x ex:%s ?value . BIND (?x AS ?this) }" % local(p)
        t["asVar"] = "this"
    else:
        q_text = "SELECT $this ?value WHERE { $this ex:%s ?v . BIND (STR(?v) AS ?value) }" % local(p)
        t["asVar"] = "value"
    g.add((c, SH.select, Literal(q_text)))
    for m in rng.sample(MESSAGES, rng.choice((0, 1, 1, 2))):
        g.add((c, SH.message, Literal(m)))
    if rng.random() < 0.07:
        g.add((c, SH.deactivated, Literal(True)))
    t["kind"] = kind
    t["text"] = q_text
    return c, t


def local(p):
    return str(p)[len(str(EX)):]


def prefix_block(sg: Graph, constraint):
    pf = {"rdf": str(RDF), "rdfs": "http://www.w3.org/2000/01/rdf-schema#", "owl": "http://www.w3.org/2002/07/owl#"}
    for pv in sg.objects(constraint, SH.prefixes):
        for d in sg.objects(pv, SH.declare):
            pf[str(sg.value(d, SH.prefix))] = str(sg.value(d, SH.namespace))
    return "".join("PREFIX %s: <%s>\n" % kv for kv in pf.items())


_MEMO = {}


def run_query_directly(sg: Graph, dg: Graph, constraint, shape, focus):
    """the declared query run directly through rdflib with the pre-bindings SHACL-SPARQL prescribes; rows as {var: term}"""
    key = (id(sg), id(dg), constraint, shape, focus)
    if key not in _MEMO:
        if len(_MEMO) > 20000:
            _MEMO.clear()
        _MEMO[key] = _run_query_directly(sg, dg, constraint, shape, focus)
    return _MEMO[key]


def _run_query_directly(sg: Graph, dg: Graph, constraint, shape, focus):
    text = str(sg.value(constraint, SH.select))
    pth = sg.value(shape, SH.path)
    if pth is not None:
        import oracle_core
        text = re.sub(r"([\s{}()])[\$\?]PATH", lambda m: m.group(1) + pathgen.sparql(oracle_core.decode_path(sg, pth)), text)
    binds = {}
    if re.search(r"[\$\?]this\b", text):
        binds["this"] = focus
    if re.search(r"[\$\?]currentShape\b", text):
        binds["currentShape"] = shape
    res = dg.query(prefix_block(sg, constraint) + text, initBindings=binds)
    rows = []
    for r in res:
        rows.append({str(k): v for k, v in r.asdict().items()})
    return rows


def solution_tables(sg: Graph, dg: Graph, templates):
    """(solutions, templates) for vcase.model_line: every sh:sparql constraint x every candidate focus node"""
    import oracle_core
    ref = oracle_core.Ref(sg, dg)
    sols = []
    for c, t in templates.items():
        shapes = list(sg.subjects(SH.sparql, c))
        if not shapes:
            continue
        forbidden = t["minus"] or t["values"] or t["service"] or t["nested"] is not None and ("this" not in t["nested"]) or t["asVar"] == "this"
        if forbidden or (t["usesPath"] and sg.value(shapes[0], SH.path) is None):
            continue
        # the focus nodes the shape is validated on: its targets, or (when it is only referenced) every node of the data graph
        cands = ref.targets(shapes[0]) or (set(dg.all_nodes()) | set(sg.objects(None, SH.targetNode)))
        if any(True for _ in sg.subjects(None, shapes[0])):
            cands = cands | set(dg.all_nodes())
        for f in cands:
            try:
                rows = run_query_directly(sg, dg, c, shapes[0], f)
            except Exception:
                continue
            sols.append((c, f, rows))
    return sols, templates


def fill(template: str, binds: dict) -> str:
    """SHACL-SPARQL §5.3.2: {?var} / {$var} replaced by the solution's binding of var"""
    def rep(m):
        v = binds.get(m.group(1))
        return str(v) if v is not None else m.group(0)
    return re.sub(r"\{[\?\$]([A-Za-z_][A-Za-z0-9_]*)\}", rep, template)


def expected_results(sg: Graph, dg: Graph, shape, constraint, focus, rows, ref):
    """SHACL-SPARQL §5.3: one result per distinct solution; sh:value / sh:resultPath / sh:focusNode from ?value / ?path / ?this"""
    is_prop = (shape, SH.path, None) in sg
    out, seen, failed = [], set(), False
    for row in rows:
        key = tuple(sorted((k, wire.tkey(v)) for k, v in row.items()))
        if key in seen:
            continue
        seen.add(key)
        if "failure" in row:
            if failed:
                continue
            failed = True
            this, value, path = focus, (None if is_prop else focus), None
        else:
            if not any(k in row for k in ("this", "value", "path")):
                continue
            this = row.get("this", focus)
            value = row.get("value", None if is_prop else focus)
            path = row.get("path")
        binds = dict(row)
        if value is not None and "failure" not in row:
            binds["value"] = value
        r = ref.result(shape, "SPARQL", this, value, path)
        r["source"] = wire.tkey(constraint)
        msgs = [Literal(fill(str(m), binds)) for m in sg.objects(constraint, SH.message) if m not in set(sg.objects(shape, SH.message))]
        msgs += [Literal(fill(str(m), binds)) for m in sg.objects(shape, SH.message)]
        r["messages"] = sorted(wire.tkey(m) for m in msgs)
        out.append(r)
    return out


# ───────────────────────── SPARQL-based constraint components (validators) ─────────────────────────
COMPONENT_KINDS = ["ask_maxlen", "ask_type", "ask_two", "node_select", "prop_select", "both", "optional_param", "node_select_union", "node_select_union", "node_select_rebind"]


def gen_component(rng, g: Graph, k):
    """declares one sh:ConstraintComponent; returns (component node, {validator node: template}, parameter predicates, usable on)"""
    kind = rng.choice(COMPONENT_KINDS)
    comp = EX["Comp%d" % k]
    g.add((comp, RDF.type, SH.ConstraintComponent))
    tm = {}
    base = {"minus": False, "values": False, "service": False, "nested": None, "asVar": None, "usesPath": False, "usesSG": False}

    def param(name, optional=False):
        pn = BNode("par%d_%s" % (k, name))
        g.add((comp, SH.parameter, pn))
        g.add((pn, SH.path, EX[name]))
        if optional:
            g.add((pn, SH.optional, Literal(True)))
        return EX[name]

    def validator(pred, vtype, qpred, text, msgs, **t):
        v = EX["Val%d_%s" % (k, str(pred).rsplit("#", 1)[-1])]
        g.add((comp, pred, v))
        if rng.random() < 0.7:
            g.add((v, RDF.type, vtype))
        g.add((v, qpred, Literal(text)))
        g.add((v, SH.prefixes, DECL))
        for m in msgs:
            g.add((v, SH.message, Literal(m)))
        tm[v] = dict(base, kind=kind, text=text, **t)
        return v

    params = []
    if kind == "ask_maxlen":
        params.append(param("maxLen%d" % k))
        validator(SH.validator, SH.SPARQLAskValidator, SH.ask, "ASK { FILTER (STRLEN(STR($value)) <= $maxLen%d) }" % k,
                  rng.sample(["{$value} longer than {$maxLen%d}" % k, "too long at {$this}", "plain"], rng.randint(0, 2)))
    elif kind == "ask_type":
        params.append(param("needType%d" % k))
        validator(SH.validator, SH.SPARQLAskValidator, SH.ask, "ASK { $value a $needType%d }" % k, ["{$value} is no {$needType%d} (via {$path})" % k, "{?value}"][: rng.randint(0, 2)])
    elif kind == "ask_two":
        params += [param("lo%d" % k), param("hi%d" % k)]
        validator(SH.validator, SH.SPARQLAskValidator, SH.ask, "ASK { FILTER ($lo%d <= $value && $value <= $hi%d) }" % (k, k), ["{$value} not in [{$lo%d},{$hi%d}]" % (k, k)])
    elif kind == "node_select":
        params.append(param("noPred%d" % k))
        validator(SH.nodeValidator, SH.SPARQLSelectValidator, SH.select, "SELECT $this ?value WHERE { $this $noPred%d ?value }" % k, ["{$this} has {?value} for {$noPred%d}" % k])
    elif kind == "node_select_union":
        # several solutions per focus node, only some of which bind ?path: each message is filled from its own solution
        params.append(param("noPred%d" % k))
        validator(SH.nodeValidator, SH.SPARQLSelectValidator, SH.select,
                  "SELECT $this ?value ?path WHERE { { $this ?path ?value . FILTER (?path = $noPred%d) } UNION { $this ex:%s ?value } }" % (k, str(rng.choice(PREDS))[len(str(EX)):]),
                  ["{$this} has {?value} via {?path}"])
    elif kind == "node_select_rebind":
        # SHACL-SPARQL forbids re-binding a pre-bound variable; the component's own parameters are pre-bound in its validators
        params.append(param("noPred%d" % k))
        validator(SH.nodeValidator, SH.SPARQLSelectValidator, SH.select,
                  "SELECT $this ?value WHERE { $this ex:%s ?value . BIND (STR(?value) AS ?noPred%d) }" % (str(rng.choice(PREDS))[len(str(EX)):], k),
                  ["rebinds {$noPred%d}" % k], asVar="noPred%d" % k)
    elif kind == "prop_select":
        params.append(param("notEqual%d" % k))
        validator(SH.propertyValidator, SH.SPARQLSelectValidator, SH.select,
                  "SELECT DISTINCT $this ?value WHERE { $this $PATH ?value . FILTER (?value = $notEqual%d) }" % k, ["{?value} equals {$notEqual%d}" % k], usesPath=True)
    elif kind == "both":
        params.append(param("cls%d" % k))
        validator(SH.validator, SH.SPARQLAskValidator, SH.ask, "ASK { $value a $cls%d }" % k, ["ask: {$value} not a {$cls%d}" % k])
        validator(SH.nodeValidator, SH.SPARQLSelectValidator, SH.select, "SELECT $this WHERE { FILTER NOT EXISTS { $this a $cls%d } }" % k, ["select: {$this} not a {$cls%d}" % k])
    else:
        params += [param("req%d" % k), param("opt%d" % k, optional=True)]
        validator(SH.validator, SH.SPARQLAskValidator, SH.ask, "ASK { FILTER (STRLEN(STR($value)) >= $req%d) }" % k, ["{$value} shorter than {$req%d} (opt {$opt%d})" % (k, k)])
    return comp, tm, params, kind


def use_component(rng, g: Graph, shape, params, kind, k):
    """put parameter values on `shape`"""
    for p in params:
        name = str(p)[len(str(EX)):]
        if name.startswith("opt") and rng.random() < 0.5:
            continue
        if name.startswith("maxLen") or name.startswith("req"):
            v = Literal(rng.choice((0, 1, 3, 5)))
        elif name.startswith("needType") or name.startswith("cls"):
            v = rng.choice(CLASSES)
        elif name.startswith("lo"):
            v = Literal(rng.choice((0, 2)))
        elif name.startswith("hi"):
            v = Literal(rng.choice((2, 5)))
        elif name.startswith("noPred"):
            v = rng.choice(PREDS)
        elif name.startswith("notEqual"):
            v = rng.choice([Literal(1), Literal(2), Literal("a"), NODES[0], NODES[1]])
        else:
            v = Literal("x")
        g.add((shape, p, v))


def component_of(sg, validator):
    for pred in (SH.validator, SH.nodeValidator, SH.propertyValidator):
        for c in sg.subjects(pred, validator):
            return c, pred
    return None, None


def choose_validator(sg, comp, is_prop):
    """SHACL §6.2.3: property shape -> sh:propertyValidator (SELECT), node shape -> sh:nodeValidator (SELECT), else sh:validator (ASK)"""
    pv, nv = list(sg.objects(comp, SH.propertyValidator)), list(sg.objects(comp, SH.nodeValidator))
    v = [x for x in sg.objects(comp, SH.validator) if x not in pv and x not in nv]
    if is_prop and pv:
        return pv[0], "select"
    if not is_prop and nv:
        return nv[0], "select"
    if v:
        return v[0], "ask"
    return None, None


def run_validator_directly(sg, dg, validator, kind, shape, focus, value, params):
    text = str(sg.value(validator, SH.ask if kind == "ask" else SH.select))
    pth = sg.value(shape, SH.path)
    if pth is not None:
        import oracle_core
        text = re.sub(r"([\s{}()])[\$\?]PATH", lambda m: m.group(1) + pathgen.sparql(oracle_core.decode_path(sg, pth)), text)
    binds = {"this": focus}
    if kind == "select_free":
        kind = "select"        # SHACL-SPARQL: ?value is a result variable of a SELECT validator, not pre-bound
    elif kind == "ask" or re.search(r"[\$\?]value\b", text):
        binds["value"] = value
    for name, v in params.items():
        binds[name] = v
    binds = {k: v for k, v in binds.items() if re.search(r"[\$\?]%s\b" % re.escape(k), text) or k in ("this",)}
    res = dg.query(prefix_block(sg, validator) + text, initBindings=binds)
    if kind == "ask":
        return bool(res.askAnswer)
    return [{str(k): v for k, v in r.asdict().items()} for r in res]


def param_values(sg, comp, shape):
    out = {}
    for pn in sg.objects(comp, SH.parameter):
        path = sg.value(pn, SH.path)
        vals = list(sg.objects(shape, path))
        if vals:
            out[str(path)[len(str(EX)):]] = vals[0]
    return out


def applicable(sg, comp, shape):
    for pn in sg.objects(comp, SH.parameter):
        opt = sg.value(pn, SH.optional)
        if opt is not None and opt.value is True:
            continue
        if not list(sg.objects(shape, sg.value(pn, SH.path))):
            return False
    return True


def validator_tables(sg: Graph, dg: Graph, ref):
    """VAL entries for vcase: (validator, shape, focus, value, 'A'|'R', answer)"""
    out = []
    comps = list(sg.subjects(RDF.type, SH.ConstraintComponent))
    for shape in ref.shapes() | set(sg.objects(None, SH.property)):
        is_prop = ref.is_prop(shape)
        for comp in comps:
            if not applicable(sg, comp, shape):
                continue
            v, kind = choose_validator(sg, comp, is_prop)
            if v is None:
                continue
            params = param_values(sg, comp, shape)
            foci = ref.targets(shape) or set()
            if any(True for _ in sg.subjects(None, shape)):
                foci = foci | set(dg.all_nodes())
            for f in foci:
                try:
                    vals = ref.value_nodes(shape, f)
                except Exception:
                    continue
                if kind == "select":
                    try:
                        out.append((v, shape, f, f, kind, run_validator_directly(sg, dg, v, "select_free", shape, f, None, params)))
                    except Exception:
                        pass
                    continue
                for val in vals:
                    try:
                        ans = run_validator_directly(sg, dg, v, kind, shape, f, val, params)
                    except Exception:
                        continue
                    out.append((v, shape, f, val, kind, ans))
    return out
