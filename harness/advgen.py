"""C17 — generator of advanced-mode cases (SPARQL targets, SPARQL target types, SPARQL functions, expression constraints),
reference semantics and the opaque-engine tables for the Lean model.

The reference runs the *declared* queries directly through rdflib: a function is its SELECT/ASK query with the call's
arguments bound to its parameters in SHACL-AF parameter order (sh:order when every parameter has one, else local name);
while reference queries run, each function is registered with rdflib as a plain python function doing exactly that
(never through pyshacl).  Function queries only read the base predicates p0..p3, rules only write derived ones, so a
function's result does not depend on when it is called.
"""
import contextlib
import itertools
import random
from decimal import Decimal

from rdflib import BNode, Graph, Literal, URIRef, Variable
from rdflib.collection import Collection
from rdflib.namespace import RDF, RDFS, XSD
from rdflib.plugins.sparql.operators import register_custom_function, unregister_custom_function
from rdflib.plugins.sparql.sparql import SPARQLError

import oracle_core
import pathgen
import rulegen
import shapegen
import sparqlgen
import wire
from common import CLASSES, EX, NODES, PREDS, SH

NS2 = "http://ex.test/ns#"
TRUE = Literal(True)


def lp(p):
    return "ex:" + str(p)[len(str(EX)):]


# ── reference semantics of functions ──────────────────────────────────────────────────────────────

def local_name(iri: str):
    if "#" in iri:
        return iri.split("#", 1)[1]
    return iri.rsplit("/", 1)[1]


def fn_params(sg: Graph, fn):
    """parameter names in SHACL-AF order"""
    ps = []
    for p in sg.objects(fn, SH.parameter):
        path = sg.value(p, SH.path)
        order = sg.value(p, SH.order)
        ps.append((local_name(str(path)), None if order is None else Decimal(order.value)))
    if ps and all(o is not None for _n, o in ps):
        ps.sort(key=lambda x: x[1])
    else:
        ps.sort(key=lambda x: x[0])
    return [n for n, _o in ps]


class RefFns:
    """the functions of a shapes graph as direct queries; logs every call (for the model's table)"""

    def __init__(self, sg: Graph, dg: Graph):
        self.sg, self.dg = sg, dg
        self.fns = {}
        self.log = {}
        for fn in set(sg.subjects(RDF.type, SH.SPARQLFunction)):
            sel, ask = sg.value(fn, SH.select), sg.value(fn, SH.ask)
            self.fns[fn] = (fn_params(sg, fn), str(sel) if sel is not None else None, str(ask) if ask is not None else None)

    def call(self, fn, args, graph=None):
        names, sel, ask = self.fns[fn]
        if len(args) != len(names):
            raise oracle_core.Unsupported("arity")
        binds = {n: a for n, a in zip(names, args)}
        key = (fn, tuple(sorted(binds.items())))
        if key in self.log:
            return self.log[key]
        g = graph if graph is not None else self.dg
        pfx = sparqlgen.prefix_block(self.sg, fn)
        if ask is not None:
            res = Literal(bool(g.query(pfx + ask, initBindings=binds).askAnswer))
        else:
            q = g.query(pfx + sel, initBindings=binds)
            rows = list(q)
            res = None
            if rows and q.vars:
                res = rows[0][q.vars[0]]
        self.log[key] = res
        return res

    @contextlib.contextmanager
    def registered(self):
        done = []

        def mk(fn):
            def f(*args):
                r = self.call(fn, list(args))
                if r is None:
                    raise SPARQLError("no result")
                return r
            return f
        try:
            for fn in self.fns:
                f = mk(fn)
                register_custom_function(fn, f, override=True, raw=False)
                done.append((fn, f))
            yield self
        finally:
            for fn, f in done:
                try:
                    unregister_custom_function(fn, f)
                except Exception:  # noqa
                    pass


# ── reference validator with the advanced features ─────────────────────────────────────────────────

class AdvRef(oracle_core.Ref):
    def __init__(self, sg, dg, fns: RefFns, advanced=True):
        super().__init__(sg, dg)
        self.fns = fns
        self.advanced = advanced

    def target_solutions(self, decl):
        """?this solutions of one target declaration, the declared query run directly"""
        sg = self.sg
        sel = sg.value(decl, SH.select)
        binds = {}
        node = decl
        if sel is None:
            for t in sg.objects(decl, RDF.type):
                if (t, RDF.type, SH.SPARQLTargetType) in sg:
                    node = t
                    sel = sg.value(t, SH.select)
                    for p in sg.objects(t, SH.parameter):
                        path = sg.value(p, SH.path)
                        v = sg.value(decl, path)
                        if v is not None:
                            binds[local_name(str(path))] = v
        if sel is None:
            raise oracle_core.Unsupported("target kind")
        res = self.dg.query(sparqlgen.prefix_block(sg, node) + str(sel), initBindings=binds)
        return [{"this": r["this"]} for r in res if r["this"] is not None]

    def targets(self, s):
        out = super().targets(s)
        if self.advanced:
            for decl in self.sg.objects(s, SH.target):
                out = out | set(r["this"] for r in self.target_solutions(decl))
        return out

    def expr(self, e, f):
        sg = self.sg
        if e == SH.this:
            return {f}
        if isinstance(e, (URIRef, Literal)):
            return {e}
        u = list(sg.objects(e, SH.union))
        if u:
            out = set()
            for part in sg.items(u[0]):
                out |= self.expr(part, f)
            return out
        ps = list(sg.objects(e, SH.path))
        if ps:
            out = set()
            for p in ps:
                out |= set(oracle_core.eval_path(self.dg, oracle_core.decode_path(sg, p), f))
            return out
        for k, v in sg.predicate_objects(e):
            if k in self.fns.fns and (v, RDF.first, None) in sg or v == RDF.nil and k in self.fns.fns:
                arg_sets = [self.expr(a, f) for a in sg.items(v)]
                if len(arg_sets) != len(self.fns.fns[k][0]):
                    raise oracle_core.ExpectFailure("arity")
                out = set()
                for combo in itertools.product(*arg_sets):
                    r = self.fns.call(k, list(combo))
                    if r is not None:
                        out.add(r)
                return out
        raise oracle_core.Unsupported("expression")

    def validate_node(self, s, f, depth=0):
        key = ("adv", s, f)
        if key in self.cache:
            return self.cache[key]
        R = list(super().validate_node(s, f, depth))
        if self.advanced and not self.deactivated(s):
            for ex in self.sg.objects(s, SH.expression):
                for v in self.value_nodes(s, f):
                    ns = self.expr(ex, v)
                    if len(ns) == 1 and isinstance(next(iter(ns)), Literal) and next(iter(ns)).value is True and next(iter(ns)) != TRUE:
                        self.unspecified.append("true with a non-canonical lexical form")
                    if ns != {TRUE}:
                        r = self.result(s, "Expression", f, v)
                        r["source"] = wire.tkey(ex)
                        r["messages"] = sorted(wire.tkey(m) for m in list(self.sg.objects(ex, SH.message)) + list(self.sg.objects(s, SH.message)))
                        R.append(r)
        self.cache[key] = R
        return R


# ── generator ───────────────────────────────────────────────────────────────────────────────────────

class AdvGen:
    def __init__(self, rng, data):
        self.rng, self.data = rng, data
        self.g = Graph()
        sparqlgen.add_prefix_decl(self.g)
        self.n = 0
        self.fns = []            # (iri, nparams, kind)
        self.templates = {}      # sh:sparql constraint -> template descriptor
        self.constructs = {}
        self.target_decls = []

    def bn(self, tag):
        self.n += 1
        return BNode("%s%d" % (tag, self.n))

    def lst(self, items):
        head = self.bn("l")
        Collection(self.g, head, list(items))
        return head

    # functions -----------------------------------------------------------------------------------
    def function(self):
        rng, g = self.rng, self.g
        self.n += 1
        fn = EX["fn%d" % self.n]
        kind = rng.choice(["ask1", "ask2", "sel1", "sel2", "sel3", "ident", "ask1", "sel1", "collide"])
        p, q = rng.choice(PREDS), rng.choice(PREDS)
        names_pool = rng.choice([["a", "b", "c"], ["zeta", "alpha", "mid"], ["arg2", "arg1", "arg0"], ["x", "value", "this1"]])
        ns = rng.choice([str(EX), NS2])
        if kind == "ask1":
            n, body = 1, ("ask", "ASK { $%s %s ?x }")
        elif kind == "ask2":
            n, body = 2, ("ask", "ASK { $%s " + lp(p) + " $%s }")
        elif kind == "sel1":
            n, body = 1, ("select", "SELECT ?r WHERE { $%s " + lp(p) + " ?r } ORDER BY ?r")
        elif kind == "sel2":
            n, body = 2, ("select", "SELECT ?r WHERE { $%s $%s ?r } ORDER BY ?r")
        elif kind == "sel3":
            n, body = 3, ("select", "SELECT ?r WHERE { $%s " + lp(p) + " ?r . FILTER (?r != $%s && ?r != $%s) } ORDER BY ?r")
        elif kind == "ident":
            n, body = 1, ("select", "SELECT ?r WHERE { BIND ($%s AS ?r) }")
        else:   # the function's own variables have names a caller is likely to use
            n, body = 1, ("ask", "ASK { $%s " + lp(p) + " ?value . ?this " + lp(q) + " ?value }")
        names = names_pool[:n]
        # the text names the parameters in *declaration* order; the call order is decided by sh:order / local names
        if kind == "ask1":
            text = body[1] % (names[0], lp(p))
        else:
            text = body[1] % tuple(names)
        g.add((fn, RDF.type, SH.SPARQLFunction))
        g.add((fn, SH.prefixes, sparqlgen.DECL))
        g.add((fn, SH.ask if body[0] == "ask" else SH.select, Literal(text)))
        if body[0] == "ask" and rng.random() < 0.5:
            g.add((fn, SH.returnType, XSD.boolean))
        with_order = rng.random() < 0.5
        orders = rng.sample([Literal(0), Literal(0), Literal(1), Literal(2), Literal(3), Literal(Decimal("0.5")), Literal(-1), Literal(Decimal("2.5"))], n + 1)
        orders = list(dict.fromkeys(orders))[:n]   # pairwise distinct, sh:order 0 is frequent
        for i, nm in enumerate(names):
            pn = self.bn("pa")
            g.add((fn, SH.parameter, pn))
            g.add((pn, SH.path, URIRef(ns + nm)))
            if with_order:
                g.add((pn, SH.order, orders[i]))
        self.fns.append((fn, n, body[0]))
        return fn

    def arg(self, depth=0, allow_fn=True):
        rng, g = self.rng, self.g
        r = rng.random()
        if r < 0.4:
            return SH.this
        if r < 0.6:
            return rng.choice(NODES[:4] + PREDS[:2] + [Literal(1), Literal("x")])
        if r < 0.85 or depth > 1 or not allow_fn or not self.fns:
            e = self.bn("e")
            g.add((e, SH.path, rng.choice(PREDS)))
            return e
        return self.call_expr(depth + 1)

    def call_expr(self, depth=0, kinds=None):
        rng, g = self.rng, self.g
        cands = [f for f in self.fns if kinds is None or f[2] in kinds]
        if not cands:
            cands = self.fns
        fn, n, _k = rng.choice(cands)
        e = self.bn("e")
        nargs = n   # wrong arities are ill-formed input (C16), not part of this property
        g.add((e, fn, self.lst([self.arg(depth) for _ in range(nargs)])))
        return e

    def expression(self, shape):
        rng, g = self.rng, self.g
        r = rng.random()
        if r < 0.6 and self.fns:
            e = self.call_expr(kinds=("ask",) if rng.random() < 0.75 else None)
        elif r < 0.8:
            e = self.bn("e")
            g.add((e, SH.path, rng.choice(PREDS)))
        elif r < 0.9:
            e = Literal(rng.random() < 0.7)
        else:
            e = rng.choice([SH.this, NODES[0]])
        g.add((shape, SH.expression, e))
        if isinstance(e, BNode) and rng.random() < 0.3:
            g.add((e, SH.message, Literal(rng.choice(["expression failed", "not true: {$this}"]))))
        return e

    # targets -------------------------------------------------------------------------------------
    def sparql_target(self, shape):
        rng, g = self.rng, self.g
        t = self.bn("t")
        p = rng.choice(PREDS)
        r = rng.random()
        asks = [f for f in self.fns if f[2] == "ask" and f[1] == 1]
        if r < 0.35:
            text = "SELECT ?this WHERE { ?this %s ?o }" % lp(p)
        elif r < 0.6:
            text = "SELECT DISTINCT ?this WHERE { ?s %s ?this }" % lp(p)
        elif r < 0.75:
            text = "SELECT ?this WHERE { ?this %s ?o . FILTER (isIRI(?this)) }" % lp(p)
        elif r < 0.9 and asks:
            text = "SELECT ?this WHERE { ?this %s ?o . FILTER (%s(?this)) }" % (lp(p), lp(rng.choice(asks)[0]))
        else:
            text = "SELECT ?this WHERE { ?this a %s }" % lp(rng.choice(CLASSES))
        g.add((shape, SH.target, t))
        if rng.random() < 0.7:
            g.add((t, RDF.type, SH.SPARQLTarget))
        g.add((t, SH.prefixes, sparqlgen.DECL))
        g.add((t, SH.select, Literal(text)))
        self.target_decls.append(t)

    def target_type(self):
        rng, g = self.rng, self.g
        self.n += 1
        tt = EX["TT%d" % self.n]
        g.add((tt, RDF.type, SH.SPARQLTargetType))
        g.add((tt, RDFS.subClassOf, SH.Target))
        g.add((tt, SH.prefixes, sparqlgen.DECL))
        two = rng.random() < 0.4
        params = [EX.pred] + ([EX.obj] if two else [])
        for p in params:
            pn = self.bn("tp")
            g.add((tt, SH.parameter, pn))
            g.add((pn, SH.path, p))
        g.add((tt, SH.select, Literal("SELECT ?this WHERE { ?this $pred $obj }" if two else rng.choice(
            ["SELECT ?this WHERE { ?this $pred ?any }", "SELECT DISTINCT ?this WHERE { ?s $pred ?this }"]))))
        return tt, params

    def use_target_type(self, shape, tt, params):
        rng, g = self.rng, self.g
        t = self.bn("t")
        g.add((shape, SH.target, t))
        g.add((t, RDF.type, tt))
        g.add((t, EX.pred, rng.choice(PREDS)))
        if EX.obj in params:
            objs = [o for _s, _p, o in self.data if not isinstance(o, BNode)] or [NODES[0]]
            g.add((t, EX.obj, rng.choice(objs)))
        self.target_decls.append(t)

    # sh:sparql constraints calling functions ---------------------------------------------------------
    def sparql_constraint(self, shape):
        rng, g = self.rng, self.g
        asks = [f for f in self.fns if f[2] == "ask" and f[1] == 1]
        sels = [f for f in self.fns if f[2] == "select" and f[1] == 1]
        if not asks and not sels:
            return
        c = self.bn("spq")
        p = rng.choice(PREDS)
        var = rng.choice(["value", "value", "x", "o"])
        if asks and (not sels or rng.random() < 0.6):
            fn = rng.choice(asks)[0]
            text = "SELECT $this ?%s WHERE { $this %s ?%s . FILTER (%s%s(?%s)) }" % (var, lp(p), var, rng.choice(["!", ""]), lp(fn), var)
        else:
            fn = rng.choice(sels)[0]
            r = rng.random()
            if r < 0.5:
                text = "SELECT $this ?value WHERE { $this %s ?%s . BIND (%s(?%s) AS ?value) FILTER (bound(?value)) }" % (lp(p), "x", lp(fn), "x")
            else:
                text = "SELECT $this ?value WHERE { $this %s ?value . FILTER (!bound(?nothing) && %s($this) = ?value) }" % (lp(p), lp(fn))
        g.add((shape, SH.sparql, c))
        g.add((c, SH.prefixes, sparqlgen.DECL))
        g.add((c, SH.select, Literal(text)))
        self.templates[c] = {"minus": False, "values": False, "service": False, "nested": None, "asVar": None, "usesPath": False, "usesSG": False,
                             "kind": "fn", "text": text}

    # rules calling functions -------------------------------------------------------------------------
    def rule(self, shape):
        rng, g = self.rng, self.g
        r = self.bn("r")
        g.add((shape, SH.rule, r))
        one = [f for f in self.fns if f[1] == 1]
        if rng.random() < 0.5 or not one:
            g.add((r, RDF.type, SH.TripleRule))
            g.add((r, SH.subject, SH.this))
            g.add((r, SH.predicate, rng.choice(rulegen.DERIVED)))
            g.add((r, SH.object, self.call_expr(kinds=("select",)) if rng.random() < 0.7 else self.arg()))
        else:
            fn = rng.choice(one)[0]
            p, d = rng.choice(PREDS), rng.choice(rulegen.DERIVED)
            text = "CONSTRUCT { $this %s ?y . $this %s ?x } WHERE { $this %s ?x . BIND (%s(?x) AS ?y) }" % (d.n3(), rulegen.DERIVED[0].n3(), p.n3(), fn.n3())
            g.add((r, RDF.type, SH.SPARQLRule))
            g.add((r, SH.construct, Literal(text)))
            V = Variable
            self.constructs[r] = [{"head": [(V("this"), d, V("y")), (V("this"), rulegen.DERIVED[0], V("x"))], "body": [(V("this"), p, V("x"))], "ne": [],
                                   "usesThis": True, "binds": [("y", fn, [V("x")])]}]


def gen_case(rng, with_rules=False):
    data = shapegen.gen_data(rng, n=rng.choice((6, 10, 14, 18)), literal_bias=0.3)
    # boolean-valued properties make path expressions interesting
    for _ in range(rng.randint(0, 3)):
        data.append((rng.choice(NODES), rng.choice(PREDS), Literal(rng.random() < 0.6)))
    gen = AdvGen(rng, data)
    for _ in range(rng.randint(1, 3)):
        gen.function()
    tts = [gen.target_type() for _ in range(rng.choice((0, 1, 1)))]
    sgen = shapegen.ShapeGen(rng, data, named_prefix="A")
    sgen.g = gen.g
    for _ in range(rng.randint(1, 3)):
        s = sgen.shape(complex_path=0.15, n_constraints=rng.randint(0, 2), with_targets=rng.random() < 0.6)
        gen.g.remove((s, SH.deactivated, None))
        r = rng.random()
        if r < 0.5:
            gen.sparql_target(s)
        elif r < 0.7 and tts:
            tt, params = rng.choice(tts)
            # one or several declarations of the same target type, with their own parameter values
            for _ in range(rng.choice((1, 1, 2, 3))):
                gen.use_target_type(s, tt, params)
        for _ in range(rng.choice((0, 1, 1, 2))):
            gen.expression(s)
        if rng.random() < 0.35:
            gen.sparql_constraint(s)
        if with_rules and rng.random() < 0.6 and isinstance(s, URIRef) and (s, SH.path, None) not in gen.g:
            gen.rule(s)
    return gen.g, data, gen


def adv_tokens(target_rows, fn_log):
    toks = ["ADVT", str(len(target_rows))]
    for decl, rows in target_rows.items():
        toks += [wire.term(decl), str(len(rows))]
        for row in rows:
            items = sorted(row.items())
            toks.append(str(len(items)))
            for k, v in items:
                toks += [wire.esc(k), wire.term(v)]
    toks += ["ADVF", str(len(fn_log))]
    for (fn, named), res in fn_log.items():
        toks += [wire.term(fn), str(len(named))]
        for nm, a in named:
            toks += [wire.esc(nm), wire.term(a) if a is not None else "-"]
        toks.append(wire.term(res) if res is not None else "-")
    return " ".join(toks)
