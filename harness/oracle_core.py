"""Reference SHACL Core validator used as the property oracle (B).

Written from the text of the W3C Recommendation (SHACL §2–§4) and SPARQL 1.1 (§17.3 operator
mapping, §17.4.3.2 langMatches, §18 property paths), deliberately NOT from pySHACL's code.  It is
small, slow and obviously-correct rather than fast.  Results are dicts with the same keys as
`vcase.code_result_dict` (no details: sh:detail is optional in the Recommendation).
"""
import datetime
import decimal
import re

from rdflib import BNode, Graph, Literal, URIRef
from rdflib.namespace import RDF, RDFS, XSD

import wire
from common import SH

RDF_LANGSTRING = URIRef("http://www.w3.org/1999/02/22-rdf-syntax-ns#langString")


class Unsupported(Exception):
    """the input is outside what this reference covers"""


class ExpectFailure(Exception):
    """SHACL prescribes a validation failure (no verdict) for this input"""


# ───────────────────────────── SPARQL 1.1 operator semantics ──────────────────────────────
def dt_of(l: Literal):
    if l.language:
        return RDF_LANGSTRING
    return l.datatype if l.datatype is not None else XSD.string


NUMERIC = {XSD.integer, XSD.decimal, XSD.double, XSD.float, XSD.int, XSD.long, XSD.short, XSD.byte, XSD.nonNegativeInteger,
           XSD.positiveInteger, XSD.negativeInteger, XSD.nonPositiveInteger, XSD.unsignedInt, XSD.unsignedLong, XSD.unsignedShort, XSD.unsignedByte}


def category(l: Literal):
    """operand category for <, <=, >, >= ; None = not an operand of any mapping"""
    if getattr(l, "ill_typed", None) is True:
        return None
    dt = dt_of(l)
    v = l.value
    if dt in NUMERIC and isinstance(v, (int, float, decimal.Decimal)) and not isinstance(v, bool):
        return "numeric"
    if dt == XSD.string and isinstance(v, str):
        return "string"
    if dt == XSD.boolean and isinstance(v, bool):
        return "boolean"
    if dt == XSD.dateTime and isinstance(v, datetime.datetime):
        return "dateTime"
    if dt == XSD.date and isinstance(v, datetime.date):
        return "date"   # not in the core mapping table; supported by rdflib and most engines (see DESIGN App. A)
    return None


def sparql_cmp(a: Literal, b: Literal):
    """-1/0/1 when `a ? b` is defined by the operator mapping, None when it raises a type error"""
    if not isinstance(a, Literal) or not isinstance(b, Literal):
        return None
    ca, cb = category(a), category(b)
    if ca is None or ca != cb:
        return None
    x, y = a.value, b.value
    if ca == "numeric":
        if isinstance(x, float) and x != x or isinstance(y, float) and y != y:
            return "unspecified"
        fx = x if not isinstance(x, float) else decimal.Decimal(x)
        fy = y if not isinstance(y, float) else decimal.Decimal(y)
        fx, fy = decimal.Decimal(fx), decimal.Decimal(fy)
        return (fx > fy) - (fx < fy)
    if ca == "string":
        sx, sy = str(a), str(b)
        return (sx > sy) - (sx < sy)
    if ca == "boolean":
        return (x > y) - (x < y)
    if ca == "dateTime":
        if (x.tzinfo is None) != (y.tzinfo is None):
            return None  # indeterminate: error
        return (x > y) - (x < y)
    if ca == "date":
        return (x > y) - (x < y)
    return None


def lang_matches(tag: str, rng: str) -> bool:
    if rng == "*":
        return bool(tag)
    tag, rng = tag.lower(), rng.lower()
    return tag == rng or tag.startswith(rng + "-")


# ───────────────────────────────────── paths ─────────────────────────────────────────────
def decode_path(sg: Graph, n, depth=0):
    if depth > 40:
        raise Unsupported("path too deep")
    if isinstance(n, URIRef):
        return ("p", n)
    if isinstance(n, Literal):
        raise Unsupported("literal path")
    if (n, RDF.first, None) in sg:
        items = list(sg.items(n))
        return ("seq", [decode_path(sg, i, depth + 1) for i in items])
    for pred, tag in ((SH.inversePath, "inv"), (SH.zeroOrMorePath, "star"), (SH.oneOrMorePath, "plus"), (SH.zeroOrOnePath, "opt")):
        o = sg.value(n, pred)
        if o is not None:
            return (tag, decode_path(sg, o, depth + 1))
    o = sg.value(n, SH.alternativePath)
    if o is not None:
        return ("alt", [decode_path(sg, i, depth + 1) for i in sg.items(o)])
    raise Unsupported("unknown path node")


def eval_path(dg: Graph, a, x):
    """set of nodes y with  x path y  (SPARQL 1.1 §18.4 set semantics)"""
    k = a[0]
    if k == "p":
        return set(dg.objects(x, a[1]))
    if k == "inv":
        return eval_path_inv(dg, a[1], x)
    if k == "seq":
        cur = {x}
        for m in a[1]:
            nxt = set()
            for c in cur:
                nxt |= eval_path(dg, m, c)
            cur = nxt
        return cur
    if k == "alt":
        out = set()
        for m in a[1]:
            out |= eval_path(dg, m, x)
        return out
    if k == "opt":
        return {x} | eval_path(dg, a[1], x)
    if k in ("star", "plus"):
        seen = set()
        todo = list(eval_path(dg, a[1], x))
        while todo:
            c = todo.pop()
            if c in seen:
                continue
            seen.add(c)
            todo.extend(eval_path(dg, a[1], c))
        if k == "star":
            seen.add(x)
        return seen
    raise Unsupported(k)


def eval_path_inv(dg: Graph, a, y):
    """set of x with  x path y"""
    k = a[0]
    if k == "p":
        return set(dg.subjects(a[1], y))
    if k == "inv":
        return eval_path(dg, a[1], y)
    if k == "seq":
        cur = {y}
        for m in reversed(a[1]):
            nxt = set()
            for c in cur:
                nxt |= eval_path_inv(dg, m, c)
            cur = nxt
        return cur
    if k == "alt":
        out = set()
        for m in a[1]:
            out |= eval_path_inv(dg, m, y)
        return out
    if k == "opt":
        return {y} | eval_path_inv(dg, a[1], y)
    if k in ("star", "plus"):
        seen = set()
        todo = list(eval_path_inv(dg, a[1], y))
        while todo:
            c = todo.pop()
            if c in seen:
                continue
            seen.add(c)
            todo.extend(eval_path_inv(dg, a[1], c))
        if k == "star":
            seen.add(y)
        return seen
    raise Unsupported(k)


# ───────────────────────────────────── shapes ────────────────────────────────────────────
def shacl_instances(g: Graph, cls):
    """all SHACL instances of cls in g:  ?x rdf:type/rdfs:subClassOf* cls"""
    classes, todo = set(), [cls]
    while todo:
        c = todo.pop()
        if c in classes:
            continue
        classes.add(c)
        todo.extend(g.subjects(RDFS.subClassOf, c))
    out = set()
    for c in classes:
        out |= set(g.subjects(RDF.type, c))
    return out


def is_instance(g: Graph, v, cls):
    seen, todo = set(), list(g.objects(v, RDF.type))
    while todo:
        c = todo.pop()
        if c == cls:
            return True
        if c in seen:
            continue
        seen.add(c)
        todo.extend(g.objects(c, RDFS.subClassOf))
    return False


class Ref:
    def __init__(self, sg: Graph, dg: Graph, advanced=False):
        self.sg, self.dg = sg, dg
        self.unspecified = []   # inputs met on which the property leaves the answer open
        self.cache = {}

    # shapes -------------------------------------------------------------------------------
    def is_prop(self, s):
        return (s, SH.path, None) in self.sg

    def deactivated(self, s):
        return any(isinstance(d, Literal) and d.value is True for d in self.sg.objects(s, SH.deactivated))

    def severity(self, s):
        sev = list(self.sg.objects(s, SH.severity))
        return sev[0] if sev else SH.Violation

    def messages(self, s):
        return sorted(wire.tkey(m) for m in self.sg.objects(s, SH.message))

    def targets(self, s):
        sg, dg = self.sg, self.dg
        out = set(sg.objects(s, SH.targetNode))
        classes = set(sg.objects(s, SH.targetClass))
        if (s, RDF.type, SH.NodeShape) in sg or (s, RDF.type, SH.PropertyShape) in sg:
            if is_instance(sg, s, RDFS.Class):
                classes.add(s)   # implicit class target
        for c in classes:
            out |= shacl_instances(dg, c)
        for p in sg.objects(s, SH.targetSubjectsOf):
            out |= set(dg.subjects(p, None))
        for p in sg.objects(s, SH.targetObjectsOf):
            out |= set(dg.objects(None, p))
        return out

    def value_nodes(self, s, f):
        if not self.is_prop(s):
            return {f}
        return eval_path(self.dg, decode_path(self.sg, self.sg.value(s, SH.path)), f)

    def result(self, s, comp, f, value=None, path=None):
        if path is None and self.is_prop(s):
            path = self.sg.value(s, SH.path)
        return {"focus": wire.tkey(f), "value": wire.tkey(value) if value is not None else "-", "path": wire.tkey(path) if path is not None else "-",
                "component": wire.tkey(SH[comp + "ConstraintComponent"]), "shape": wire.tkey(s), "severity": wire.tkey(self.severity(s)),
                "messages": self.messages(s), "detail": [], "source": "-"}

    def conforms(self, v, s, depth):
        return len(self.validate_node(s, v, depth + 1)) == 0

    def items(self, lst):
        return list(self.sg.items(lst))

    # the constraint components ---------------------------------------------------------------
    def validate_node(self, s, f, depth=0):
        if depth > 60:
            raise Unsupported("recursive shapes")
        if self.deactivated(s):
            return []
        key = (s, f)
        if key in self.cache:
            return self.cache[key]
        sg, dg = self.sg, self.dg
        vs = self.value_nodes(s, f)
        R = []
        add = lambda comp, value=None, path=None: R.append(self.result(s, comp, f, value, path))
        for c in sg.objects(s, SH["class"]):
            for v in vs:
                if isinstance(v, Literal) or not is_instance(dg, v, c):
                    add("Class", v)
        for d in sg.objects(s, SH.datatype):
            for v in vs:
                ok = isinstance(v, Literal) and dt_of(v) == d and getattr(v, "ill_typed", None) is not True
                if not ok:
                    add("Datatype", v)
        for nk in sg.objects(s, SH.nodeKind):
            allowed = {SH.IRI: (URIRef,), SH.BlankNode: (BNode,), SH.Literal: (Literal,), SH.BlankNodeOrIRI: (BNode, URIRef),
                       SH.BlankNodeOrLiteral: (BNode, Literal), SH.IRIOrLiteral: (URIRef, Literal)}.get(nk, ())
            for v in vs:
                if not isinstance(v, allowed):
                    add("NodeKind", v)
        for n in sg.objects(s, SH.minCount):
            if len(vs) < int(n):
                add("MinCount")
        for n in sg.objects(s, SH.maxCount):
            if len(vs) > int(n):
                add("MaxCount")
        for pred, comp, test in ((SH.minExclusive, "MinExclusive", lambda c: c < 0), (SH.minInclusive, "MinInclusive", lambda c: c <= 0),
                                 (SH.maxExclusive, "MaxExclusive", lambda c: c > 0), (SH.maxInclusive, "MaxInclusive", lambda c: c >= 0)):
            for b in sg.objects(s, pred):
                for v in vs:
                    c = sparql_cmp(b, v)     # $bound op v
                    if c == "unspecified":
                        self.unspecified.append("NaN")
                        continue
                    if c is None and isinstance(v, Literal) and isinstance(b, Literal) and v.language and b.language:
                        self.unspecified.append("two language-tagged strings under an ordering")
                        continue
                    if c is None or not test(c):
                        add(comp, v)
        for n in sg.objects(s, SH.minLength):
            for v in vs:
                if isinstance(v, BNode):
                    if int(n) == 0:
                        self.unspecified.append("blank node under sh:minLength 0")
                        continue
                    add("MinLength", v)
                elif len(str(v)) < int(n):
                    add("MinLength", v)
        for n in sg.objects(s, SH.maxLength):
            for v in vs:
                if isinstance(v, BNode) or len(str(v)) > int(n):
                    add("MaxLength", v)
        for p in sg.objects(s, SH.pattern):
            flags = "".join(str(f) for f in sg.objects(s, SH.flags))
            fl = 0
            for ch in flags:
                fl |= {"i": re.I, "m": re.M, "s": re.S, "x": re.X}.get(ch, 0)
            pat = re.escape(str(p)) if "q" in flags else str(p)
            rx = re.compile(pat, fl)
            for v in vs:
                if isinstance(v, BNode) or not rx.search(str(v)):
                    add("Pattern", v)
        for lst in sg.objects(s, SH.languageIn):
            ranges = [str(x) for x in self.items(lst)]
            for v in vs:
                if not (isinstance(v, Literal) and v.language and any(lang_matches(v.language, r) for r in ranges)):
                    add("LanguageIn", v)
        for u in sg.objects(s, SH.uniqueLang):
            if isinstance(u, Literal) and u.value is True:
                langs = [v.language.lower() for v in vs if isinstance(v, Literal) and v.language]
                for lg in set(langs):
                    if langs.count(lg) >= 2:
                        add("UniqueLang")
        for p in sg.objects(s, SH.equals):
            other = set(dg.objects(f, p))
            for v in vs - other:
                add("Equals", v)
            for v in other - vs:
                add("Equals", v)
        for p in sg.objects(s, SH.disjoint):
            for v in vs & set(dg.objects(f, p)):
                add("Disjoint", v)
        for pred, comp, test in ((SH.lessThan, "LessThan", lambda c: c < 0), (SH.lessThanOrEquals, "LessThanOrEquals", lambda c: c <= 0)):
            for p in sg.objects(s, pred):
                for v in vs:
                    for o in dg.objects(f, p):
                        c = sparql_cmp(v, o) if isinstance(v, Literal) and isinstance(o, Literal) else None
                        if c == "unspecified":
                            self.unspecified.append("NaN"); continue
                        if c is None and ((isinstance(v, URIRef) and isinstance(o, URIRef)) or
                                          (isinstance(v, Literal) and isinstance(o, Literal) and v.language and o.language)):
                            self.unspecified.append("ordering of two IRIs / two language-tagged strings"); continue
                        if c is None or not test(c):
                            add(comp, v)
        for hv in sg.objects(s, SH.hasValue):
            if hv not in vs:
                add("HasValue")
        for lst in sg.objects(s, SH["in"]):
            members = set(self.items(lst))
            for v in vs:
                if v not in members:
                    add("In", v)
        for cl in sg.objects(s, SH.closed):
            if isinstance(cl, Literal) and cl.value is True:
                allowed = set()
                for ps in sg.objects(s, SH.property):
                    pth = sg.value(ps, SH.path)
                    if isinstance(pth, URIRef):
                        allowed.add(pth)
                for lst in sg.objects(s, SH.ignoredProperties):
                    allowed |= set(self.items(lst))
                for v in vs:
                    for p, o in dg.predicate_objects(v):
                        if p not in allowed:
                            add("Closed", o, path=p)
        for c in sg.objects(s, SH.sparql):
            if any(isinstance(d, Literal) and d.value is True for d in sg.objects(c, SH.deactivated)):
                continue
            R.extend(self.sparql_results(s, c, f))
        for comp in self.sg.subjects(RDF.type, SH.ConstraintComponent):
            R.extend(self.component_results(s, comp, f, vs))
        # shape-based and logical components: from conformance facts only
        for n in sg.objects(s, SH["not"]):
            for v in vs:
                if self.conforms(v, n, depth):
                    add("Not", v)
        for lst in sg.objects(s, SH["and"]):
            ms = self.items(lst)
            for v in vs:
                if not all(self.conforms(v, m, depth) for m in ms):
                    add("And", v)
        for lst in sg.objects(s, SH["or"]):
            ms = self.items(lst)
            for v in vs:
                if not any(self.conforms(v, m, depth) for m in ms):
                    add("Or", v)
        for lst in sg.objects(s, SH.xone):
            ms = self.items(lst)
            for v in vs:
                if sum(1 for m in ms if self.conforms(v, m, depth)) != 1:
                    add("Xone", v)
        for n in sg.objects(s, SH.node):
            for v in vs:
                if not self.conforms(v, n, depth):
                    add("Node", v)
        for ps in sg.objects(s, SH.property):
            for v in vs:
                R.extend(self.validate_node(ps, v, depth + 1))
        qvs = list(sg.objects(s, SH.qualifiedValueShape))
        if qvs and self.is_prop(s):
            disjoint = any(isinstance(d, Literal) and d.value is True for d in sg.objects(s, SH.qualifiedValueShapesDisjoint))
            for q in qvs:
                siblings = set()
                if disjoint:
                    for parent in sg.subjects(SH.property, s):
                        for ps in sg.objects(parent, SH.property):
                            for q2 in sg.objects(ps, SH.qualifiedValueShape):
                                if q2 != q:
                                    siblings.add(q2)
                cnt = 0
                for v in vs:
                    if self.conforms(v, q, depth) and not any(self.conforms(v, sb, depth) for sb in siblings):
                        cnt += 1
                for n in sg.objects(s, SH.qualifiedMinCount):
                    if cnt < int(n):
                        add("QualifiedMinCount")
                for n in sg.objects(s, SH.qualifiedMaxCount):
                    if cnt > int(n):
                        add("QualifiedMaxCount")
        self.cache[key] = R
        return R

    def sparql_results(self, s, c, f):
        import sparqlgen
        t = (self.sparql_templates or {}).get(c)
        if t is None:
            raise Unsupported("sh:sparql constraint without a template descriptor")
        # SHACL-SPARQL §5.3.1 / pre-binding rules: these queries are ill-formed -> failure
        if t["minus"] or t["values"] or t["service"] or (t["nested"] is not None and "this" not in t["nested"]) or t["asVar"] in ("this", "currentShape", "shapesGraph"):
            raise ExpectFailure(t["kind"])
        if t["usesPath"] and not self.is_prop(s):
            raise Unsupported("$PATH on a node shape")
        rows = sparqlgen.run_query_directly(self.sg, self.dg, c, s, f)
        return sparqlgen.expected_results(self.sg, self.dg, s, c, f, rows, self)

    def component_results(self, s, comp, f, vs):
        """SHACL §6: a SPARQL-based constraint component applies when all mandatory parameters have values"""
        import sparqlgen
        sg = self.sg
        if not sparqlgen.applicable(sg, comp, s):
            return []
        is_prop = self.is_prop(s)
        v, kind = sparqlgen.choose_validator(sg, comp, is_prop)
        if v is None:
            raise Unsupported("no validator")
        t = (self.sparql_templates or {}).get(v)
        if t is None:
            raise Unsupported("validator without a template descriptor")
        params = sparqlgen.param_values(sg, comp, s)
        # SHACL-SPARQL pre-binding rules: a validator must not re-bind a pre-bound variable — $this, and the parameters of its component
        if t["minus"] or t["values"] or t["service"] or (t["nested"] is not None and "this" not in t["nested"]) \
                or t["asVar"] in ("this", "currentShape", "shapesGraph") or (t["asVar"] is not None and t["asVar"] in params):
            raise ExpectFailure(t["kind"])
        out = []

        def mk(this, value, path, binds):
            r = self.result(s, "X", this, value, path)
            r["component"] = wire.tkey(comp)
            args = dict(params)
            args.update({"this": this})
            if is_prop:
                args["path"] = sg.value(s, SH.path)
                args["PATH"] = sg.value(s, SH.path)
            args.update(binds)
            msgs = [Literal(sparqlgen.fill(str(m), args)) for m in sg.objects(v, SH.message)] + [m for m in sg.objects(s, SH.message)]
            r["messages"] = sorted(wire.tkey(m) for m in msgs)
            return r
        if kind == "ask":
            for val in vs:
                if not sparqlgen.run_validator_directly(sg, self.dg, v, "ask", s, f, val, params):
                    out.append(mk(f, None if is_prop else val, None, {"value": val}))
        else:
            rows = sparqlgen.run_validator_directly(sg, self.dg, v, "select_free", s, f, None, params)
            seen = set()
            for row in rows:
                key = tuple(sorted((k, wire.tkey(x)) for k, x in row.items()))
                if key in seen:
                    continue
                seen.add(key)
                this = row.get("this", f)
                value = row.get("value", None if is_prop else f)
                out.append(mk(this, value, row.get("path"), {k: x for k, x in row.items()}))
        return out

    sparql_templates = None

    # top level --------------------------------------------------------------------------------
    def shapes(self):
        sg = self.sg
        out = set(sg.subjects(RDF.type, SH.NodeShape)) | set(sg.subjects(RDF.type, SH.PropertyShape))
        for p in (SH.targetClass, SH.targetNode, SH.targetObjectsOf, SH.targetSubjectsOf):
            out |= set(sg.subjects(p, None))
        return out

    def validate(self, allow_infos=False, allow_warnings=False):
        results = []
        for s in self.shapes():
            if self.deactivated(s):
                continue
            for f in self.targets(s):
                results.extend(self.validate_node(s, f))
        waived = set()
        if allow_infos:
            waived.add(wire.tkey(SH.Info))
        if allow_warnings:
            waived |= {wire.tkey(SH.Info), wire.tkey(SH.Warning)}
        conforms = all(r["severity"] in waived for r in results)
        return conforms, results
