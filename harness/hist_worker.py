"""Worker process for C10 (and C09): executes a history of steps against the real pySHACL from /repo.

stdin : one JSON object {"steps": [...], "skip_calls_before_last": bool}
stdout: one JSON line per pyshacl call: {"i": step index, "outcome": {...}, "globals_before": {...}, "globals_after": {...}}

Steps:
  {"op": "graph", "name": n, "ttl": text}                              create / replace a Graph object from Turtle
  {"op": "edit", "name": n, "remove": [[s,p,o|null]...], "add_ttl": text}  edit a Graph object in place (N3 terms)
  {"op": "del", "name": n}                                             drop a graph object (lets CPython reuse its id)
  {"op": "validate" | "rules", "data": ref, "shapes": ref|null, "ont": ref|null, "kw": {...}}
      ref = {"g": name} (the Graph object) | {"text": str} (passed as a string, e.g. unparsable)
"""
import json
import sys
import warnings

warnings.filterwarnings("ignore")
import os

sys.path.insert(0, os.path.dirname(os.path.abspath(__file__)))
sys.path.insert(0, os.environ.get("VERIF_REPO", "/repo"))

import logging

logging.disable(logging.CRITICAL)

import rdflib
import rdflib.plugins.sparql.operators
from rdflib import Graph
from rdflib.compare import to_canonical_graph

import pyshacl
from common import exc_detail

_ORIG_BOOL = rdflib.term._toPythonMapping[rdflib.XSD.boolean]
_BASE_FNS = set(rdflib.plugins.sparql.operators._CUSTOM_FUNCTIONS.keys())


def globals_snapshot():
    from pyshacl.constraints.sparql.sparql_based_constraint_components import SPARQLConstraintComponentValidator
    from pyshacl.rdfutil.stringify import stringify_blank_node
    return {
        "normalize_literals": bool(rdflib.NORMALIZE_LITERALS),
        "bool_parser_original": rdflib.term._toPythonMapping[rdflib.XSD.boolean] is _ORIG_BOOL,
        "custom_functions": sorted(str(k) for k in rdflib.plugins.sparql.operators._CUSTOM_FUNCTIONS.keys() if k not in _BASE_FNS),
        "bnode_text_cache": len(stringify_blank_node.dict_cache),
        "validator_cache": len(SPARQLConstraintComponentValidator.validator_cache),
    }


def canon_graph(g):
    if not isinstance(g, Graph):
        return "not-a-graph:" + type(g).__name__
    return sorted(to_canonical_graph(g).serialize(format="nt").splitlines())


def canon_text(text):
    """report text with the result blocks sorted (the order of results is unspecified)"""
    lines = text.splitlines()
    head, blocks, cur = [], [], None
    for ln in lines:
        if cur is None and not (ln.startswith("Constraint Violation in") or ln.startswith("Validation Result in")):
            head.append(ln)
            continue
        if not ln.startswith("\t"):
            cur = [ln]
            blocks.append(cur)
        else:
            cur.append(ln)
    return "\n".join(head + ["\n".join(b) for b in sorted(blocks)])


def term_from_n3(s, g):
    from rdflib.util import from_n3
    return None if s is None else from_n3(s, nsm=g.namespace_manager)


def main():
    job = json.load(sys.stdin)
    steps = job["steps"]
    last_call = max(i for i, s in enumerate(steps) if s["op"] in ("validate", "rules"))
    graphs = {}
    for i, st in enumerate(steps):
        op = st["op"]
        if op == "graph":
            graphs[st["name"]] = Graph().parse(data=st["ttl"], format="turtle")
        elif op == "edit":
            g = graphs[st["name"]]
            for s, p, o in st.get("remove", []):
                g.remove((term_from_n3(s, g), term_from_n3(p, g), term_from_n3(o, g)))
            if st.get("add_ttl"):
                g.parse(data=st["add_ttl"], format="turtle")
            for q in st.get("update", []):
                g.update(q)
        elif op == "del":
            graphs.pop(st["name"], None)
        elif op in ("validate", "rules"):
            if job.get("skip_calls_before_last") and i != last_call:
                continue

            def ref(r):
                if r is None:
                    return None
                if "g" in r:
                    return graphs[r["g"]]
                return r["text"]
            before = globals_snapshot()
            kw = dict(st.get("kw", {}))
            out = {}
            try:
                if op == "validate":
                    conforms, rg, text = pyshacl.validate(ref(st["data"]), shacl_graph=ref(st.get("shapes")), ont_graph=ref(st.get("ont")), **kw)
                    out = {"kind": "report", "conforms": conforms, "graph": canon_graph(rg), "text": canon_text(text)}
                else:
                    eg = pyshacl.shacl_rules(ref(st["data"]), shacl_graph=ref(st.get("shapes")), ont_graph=ref(st.get("ont")), **kw)
                    out = {"kind": "expanded", "graph": canon_graph(eg)}
            except BaseException as e:  # noqa
                out = {"kind": "raised", "family": exc_detail(e), "cls": type(e).__name__}
            print(json.dumps({"i": i, "outcome": out, "globals_before": before, "globals_after": globals_snapshot()}), flush=True)


if __name__ == "__main__":
    main()
