"""Line protocol shared with lean/PyshaclModel/Wire.lean, and the driver process wrapper."""
import datetime
import decimal
import math
import os
import subprocess

from rdflib import BNode, Literal, URIRef

VERIF = os.path.dirname(os.path.dirname(os.path.abspath(__file__)))
DRIVER = os.path.join(VERIF, "lean", ".lake", "build", "bin", "driver")

_SAFE = set("abcdefghijklmnopqrstuvwxyzABCDEFGHIJKLMNOPQRSTUVWXYZ0123456789_./#-")


def esc(s: str) -> str:
    if s == "":
        return "%;"
    return "".join(c if c in _SAFE else "%%%x;" % ord(c) for c in s)


def unesc(s: str) -> str:
    out = []
    i = 0
    while i < len(s):
        if s[i] == "%":
            j = s.index(";", i)
            if j > i + 1:
                out.append(chr(int(s[i + 1 : j], 16)))
            i = j + 1
        else:
            out.append(s[i])
            i += 1
    return "".join(out)


_EPOCH_N = datetime.datetime(1970, 1, 1)
_EPOCH_Z = datetime.datetime(1970, 1, 1, tzinfo=datetime.timezone.utc)


def _us(td: datetime.timedelta) -> int:
    return (td.days * 86400 + td.seconds) * 1000000 + td.microseconds


def litval(l: Literal) -> str:
    """the python value rdflib computed for the literal, as a wire token"""
    try:
        v = l.value
    except Exception:
        return "n"
    ill = "!" if getattr(l, "ill_typed", None) is True else ""
    return ill + _litval(v)


def _litval(v) -> str:
    if v is None:
        return "n"
    if isinstance(v, bool):
        return "b1" if v else "b0"
    if isinstance(v, int):
        return "i%d" % v
    if isinstance(v, decimal.Decimal):
        if not v.is_finite():
            return "x"
        n, d = v.as_integer_ratio()
        return "d%d/%d" % (n, d)
    if isinstance(v, float):
        if math.isnan(v) or math.isinf(v):
            return "x"
        n, d = v.as_integer_ratio()
        return "f%d/%d" % (n, d)
    if isinstance(v, datetime.datetime):
        if v.tzinfo is not None and v.utcoffset() is not None:
            return "tz%d" % _us(v - _EPOCH_Z)
        return "tn%d" % _us(v.replace(tzinfo=None) - _EPOCH_N)
    if isinstance(v, datetime.date):
        return "D%d" % (v - datetime.date(1970, 1, 1)).days
    if isinstance(v, str):
        return "s"
    return "o"


_case_cache = None


class case_cache:
    """within one case every RDF term gets one annotation (rdflib can hold two python objects for the same
    term with different `ill_typed` flags, e.g. "maybe"^^xsd:boolean is normalised to "false"^^xsd:boolean)"""

    def __enter__(self):
        global _case_cache
        self.prev = _case_cache
        _case_cache = {}
        return self

    def __exit__(self, *a):
        global _case_cache
        _case_cache = self.prev


def term(t) -> str:
    if isinstance(t, Literal) and _case_cache is not None:
        k = tkey(t)
        if k not in _case_cache:
            _case_cache[k] = _term(t)
        return _case_cache[k]
    return _term(t)


def _term(t) -> str:
    if isinstance(t, URIRef):
        return "I:" + esc(str(t))
    if isinstance(t, BNode):
        return "B:" + esc(str(t))
    if isinstance(t, Literal):
        return "L:%s:%s:%s:%s" % (
            esc(str(t)),
            esc(str(t.datatype) if t.datatype is not None else ""),
            esc((t.language or "").lower()),
            litval(t),
        )
    raise TypeError("not an rdf term: %r" % (t,))


def parse_term(tok: str):
    if tok.startswith("I:"):
        return URIRef(unesc(tok[2:]))
    if tok.startswith("B:"):
        return BNode(unesc(tok[2:]))
    if tok.startswith("L:"):
        lex, dt, lang, _v = tok[2:].split(":")
        lex, dt, lang = unesc(lex), unesc(dt), unesc(lang)
        if lang:
            return Literal(lex, lang=lang)
        if dt:
            return Literal(lex, datatype=URIRef(dt))
        return Literal(lex)
    raise ValueError(tok)


def tkey(t) -> str:
    """canonical comparison key of a term (rdflib term equality: lexical form, datatype, lower-cased language)"""
    if isinstance(t, Literal):
        return "L:%s:%s:%s" % (esc(str(t)), esc(str(t.datatype) if t.datatype is not None else ""), esc((t.language or "").lower()))
    return term(t)


def tok_key(tok: str) -> str:
    """comparison key of a wire token (drops the value annotation of literals)"""
    if tok.startswith("L:"):
        return tok.rsplit(":", 1)[0]
    return tok


def graph(triples) -> str:
    ts = list(triples)
    return "%d %s" % (len(ts), " ".join("%s %s %s" % (term(s), term(p), term(o)) for s, p, o in ts)) if ts else "0"


def terms(ts) -> str:
    ts = list(ts)
    return ("%d " % len(ts) + " ".join(term(t) for t in ts)) if ts else "0"


class Driver:
    """one long-lived driver process; `ask` sends a batch of lines and returns {id: reply}"""

    def __init__(self):
        if not os.path.exists(DRIVER):
            raise RuntimeError("driver not built: " + DRIVER)
        self.lines_sent = 0

    def ask(self, lines):
        lines = list(lines)
        if not lines:
            return {}
        data = "\n".join(lines) + "\n"
        p = subprocess.run([DRIVER], input=data.encode("utf-8"), stdout=subprocess.PIPE, stderr=subprocess.PIPE, timeout=3600)
        if p.returncode != 0:
            raise RuntimeError("driver failed: rc=%s %s" % (p.returncode, p.stderr.decode()[:2000]))
        out = {}
        for ln in p.stdout.decode("utf-8").splitlines():
            if not ln.strip():
                continue
            cid, _, rest = ln.partition(" ")
            out[cid] = rest
        self.lines_sent += len(lines)
        missing = [l.split(" ", 1)[0] for l in lines if l.split(" ", 1)[0] not in out]
        if missing:
            raise RuntimeError("driver gave no answer for %s" % missing[:5])
        return out
