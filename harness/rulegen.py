"""Generator of SHACL-AF rule cases (C15) and the reference rule engine.

Cases: 1-3 rule-bearing shapes with pairwise distinct sh:order, each with 1-3 rules (pairwise distinct sh:order, some
deactivated, 0-2 sh:condition shapes given directly or as a list), triple rules over node expressions (sh:this, constants,
path expressions, sh:union) and CONSTRUCT rules from the template family
    CONSTRUCT { head } WHERE { BGP [FILTER NOT EXISTS { BGP }] }
whose parsed form is shipped to the Lean model.  Derived predicates / classes feed later rules, conditions and targets.
"""
import random
from decimal import Decimal

from rdflib import BNode, Graph, Literal, URIRef, Variable
from rdflib.collection import Collection
from rdflib.namespace import RDF, RDFS, XSD

import oracle_core
import pathgen
import shapegen
import wire
from common import CLASSES, EX, NODES, PREDS, SH

DERIVED = [EX.r0, EX.r1]
ALLP = PREDS[:3] + DERIVED
ORDERS = [Literal(-2), Literal(-1), None, Literal(1), Literal(2), Literal(3), Literal(Decimal("0.5")), Literal(Decimal("1.5")),
          Literal(Decimal("2.25")), Literal(10), Literal(Decimal("-0.5"))]


def order_value(lit):
    return Decimal(0) if lit is None else Decimal(lit.value)


class RuleGen:
    def __init__(self, rng, data):
        self.rng, self.data = rng, data
        self.g = Graph()
        self.n = 0
        self.constructs = {}     # rule node -> [parsed construct]
        self.rule_shapes = []

    def bn(self, tag):
        self.n += 1
        return BNode("%s%d" % (tag, self.n))

    def lst(self, items):
        head = self.bn("l")
        Collection(self.g, head, list(items))
        return head

    # node expressions -------------------------------------------------------------------------
    def expr(self, kind, depth=0):
        rng, g = self.rng, self.g
        if kind == "this":
            return SH.this
        if kind == "node":
            return rng.choice(NODES[:4])
        if kind == "literal":
            return rng.choice([Literal(1), Literal("x"), Literal(True)])
        if kind == "path":
            e = self.bn("e")
            r = rng.random()
            if r < 0.55:
                g.add((e, SH.path, rng.choice(ALLP)))
            else:
                a = pathgen.rand_path(rng, ALLP, rng.choice((1, 2)))
                g.add((e, SH.path, pathgen.encode(g, a)))
            return e
        if kind == "union":
            e = self.bn("e")
            parts = [self.expr(rng.choice(["this", "node", "path", "path"] + (["union"] if depth < 1 else [])), depth + 1) for _ in range(rng.randint(1, 3))]
            g.add((e, SH.union, self.lst(parts)))
            return e
        raise ValueError(kind)

    # conditions -------------------------------------------------------------------------------
    def condition(self):
        rng, g = self.rng, self.g
        c = self.bn("c")
        r = rng.random()
        if r < 0.55:
            g.add((c, RDF.type, SH.PropertyShape))
            g.add((c, SH.path, rng.choice(ALLP)))
            k = rng.choice(["min1", "max0", "max1", "hasValue", "class", "nodeKind"])
            if k == "min1":
                g.add((c, SH.minCount, Literal(1)))
            elif k == "max0":
                g.add((c, SH.maxCount, Literal(0)))
            elif k == "max1":
                g.add((c, SH.maxCount, Literal(1)))
            elif k == "hasValue":
                g.add((c, SH.hasValue, rng.choice(NODES[:3])))
            elif k == "class":
                g.add((c, SH["class"], rng.choice(CLASSES)))
            else:
                g.add((c, SH.nodeKind, rng.choice([SH.IRI, SH.Literal, SH.BlankNodeOrIRI])))
        elif r < 0.85:
            g.add((c, RDF.type, SH.NodeShape))
            k = rng.choice(["class", "notclass", "nodeKind", "in"])
            if k == "class":
                g.add((c, SH["class"], rng.choice(CLASSES)))
            elif k == "notclass":
                n = self.bn("c")
                g.add((n, SH["class"], rng.choice(CLASSES)))
                g.add((c, SH["not"], n))
            elif k == "nodeKind":
                g.add((c, SH.nodeKind, rng.choice([SH.IRI, SH.BlankNodeOrIRI, SH.Literal])))
            else:
                g.add((c, SH["in"], self.lst(rng.sample(NODES, 3))))
        else:
            # a random Core shape
            sgen = shapegen.ShapeGen(rng, self.data, named_prefix="K%d_" % self.n)
            sgen.g = g
            self.n += 1
            sgen.n = self.n * 1000
            s = sgen.shape(named=False, with_targets=False, severity=True, messages=False, complex_path=0.2)
            g.remove((s, SH.deactivated, None))
            return s
        if rng.random() < 0.15:
            g.add((c, SH.severity, rng.choice([SH.Info, SH.Warning])))   # severities are irrelevant for conditions
        return c

    # CONSTRUCT templates ----------------------------------------------------------------------
    def pterm(self, pos, vars_):
        rng = self.rng
        if pos == "p":
            return rng.choice(ALLP + [RDF.type]) if rng.random() < 0.9 else Variable("pp")
        r = rng.random()
        if r < 0.5:
            return Variable(rng.choice(vars_))
        if r < 0.8:
            return Variable("this")
        return rng.choice(NODES[:3] + CLASSES[:2])

    def construct(self):
        rng = self.rng
        vars_ = ["a", "b"]
        body = []
        for _ in range(rng.choice((0, 1, 1, 1, 2, 2))):
            p = self.pterm("p", vars_)
            o = rng.choice(CLASSES) if p == RDF.type and rng.random() < 0.8 else self.pterm("o", vars_)
            body.append((self.pterm("s", vars_), p, o))
        bound = set(x for t in body for x in t if isinstance(x, Variable)) | {Variable("this")}
        head = []
        for _ in range(rng.choice((1, 1, 2))):
            p = rng.choice(ALLP + [RDF.type])
            pool = sorted(bound) if rng.random() < 0.92 else [Variable("zz")]
            s = rng.choice(pool) if rng.random() < 0.85 else rng.choice(NODES[:3])
            if p == RDF.type:
                o = rng.choice(CLASSES)
            else:
                o = rng.choice(pool) if rng.random() < 0.75 else rng.choice(NODES[:3] + [Literal(1)])
            head.append((s, p, o))
        ne = []
        if rng.random() < 0.3:
            for _ in range(rng.choice((1, 1, 2))):
                p = rng.choice(ALLP + [RDF.type])
                o = rng.choice(CLASSES) if p == RDF.type else self.pterm("o", vars_ + ["c"])
                ne.append((rng.choice(sorted(bound)), p, o))
        this_tok = rng.choice(["$this", "?this"])

        def tx(t):
            return this_tok if t == Variable("this") else ("?" + str(t) if isinstance(t, Variable) else t.n3())

        def pats(ps):
            return " ".join("%s %s %s ." % (tx(s), tx(p), tx(o)) for s, p, o in ps)
        text = "CONSTRUCT { %s } WHERE { %s %s}" % (pats(head), pats(body), ("FILTER NOT EXISTS { %s } " % pats(ne)) if ne else "")
        uses_this = any(x == Variable("this") for t in head + body + ne for x in t)
        return text, {"head": head, "body": body, "ne": ne, "usesThis": uses_this}

    # rules and shapes -------------------------------------------------------------------------
    def rule(self, shape, order):
        rng, g = self.rng, self.g
        r = self.bn("r") if rng.random() < 0.7 else EX["R%d" % self.n]
        self.n += 1
        g.add((shape, SH.rule, r))
        if order is not None:
            g.add((r, SH.order, order))
        if rng.random() < 0.15:
            g.add((r, SH.deactivated, Literal(rng.random() < 0.8)))
        nconds = rng.choice((0, 0, 1, 1, 2))
        if nconds:
            conds = [self.condition() for _ in range(nconds)]
            if rng.random() < 0.3:
                g.add((r, SH.condition, self.lst(conds)))
            else:
                for c in conds:
                    g.add((r, SH.condition, c))
        if rng.random() < 0.55:
            g.add((r, RDF.type, SH.TripleRule))
            p = rng.choice(ALLP + [RDF.type])
            g.add((r, SH.subject, self.expr(rng.choice(["this", "this", "this", "node", "path"]))))
            g.add((r, SH.predicate, p))
            if p == RDF.type:
                g.add((r, SH.object, rng.choice(CLASSES)))
            else:
                g.add((r, SH.object, self.expr(rng.choice(["this", "node", "literal", "path", "path", "path", "union"]))))
        else:
            g.add((r, RDF.type, SH.SPARQLRule))
            cs = []
            for _ in range(rng.choice((1, 1, 1, 2))):
                text, parsed = self.construct()
                lit = Literal(text)
                if (r, SH.construct, lit) not in g:
                    g.add((r, SH.construct, lit))
                    cs.append(parsed)
            self.constructs[r] = cs
        return r

    def shape(self, order):
        rng, g = self.rng, self.g
        self.n += 1
        s = EX["RS%d" % self.n]
        g.add((s, RDF.type, SH.NodeShape))
        if order is not None:
            g.add((s, SH.order, order))
        for k in rng.sample(["node", "class", "subjectsOf", "objectsOf", "implicit"], rng.randint(1, 2)):
            if k == "node":
                for f in rng.sample(NODES + [EX.absent, Literal(2)], rng.randint(1, 3)):
                    g.add((s, SH.targetNode, f))
            elif k == "class":
                g.add((s, SH.targetClass, rng.choice(CLASSES)))
            elif k == "subjectsOf":
                g.add((s, SH.targetSubjectsOf, rng.choice(ALLP)))
            elif k == "objectsOf":
                g.add((s, SH.targetObjectsOf, rng.choice(ALLP)))
            else:
                g.add((s, RDF.type, RDFS.Class))
        if rng.random() < 0.08:
            g.add((s, SH.deactivated, Literal(True)))   # deactivating the shape does not deactivate its rules in SHACL-AF 8.4? -> see ref
        for o in rng.sample(ORDERS, rng.randint(1, 3)):
            self.rule(s, o)
        self.rule_shapes.append(s)
        return s


def gen_case(rng, with_validation_shapes=True):
    data = shapegen.gen_data(rng, n=rng.choice((4, 8, 12, 16)), literal_bias=0.25)
    gen = RuleGen(rng, data)
    for o in rng.sample(ORDERS, rng.randint(1, 3)):
        gen.shape(o)
    if with_validation_shapes:
        # ordinary shapes whose results depend on the inferred triples
        sgen = shapegen.ShapeGen(rng, data, named_prefix="V")
        sgen.g = gen.g
        for _ in range(rng.randint(0, 2)):
            s = sgen.shape(complex_path=0.1)
            if rng.random() < 0.6:
                k = rng.choice(["class", "minCount", "subjectsOf"])
                if k == "class":
                    gen.g.add((s, SH["class"], rng.choice(CLASSES)))
                elif k == "subjectsOf":
                    gen.g.add((s, SH.targetSubjectsOf, rng.choice(DERIVED)))
    return gen.g, data, gen.constructs


def con_tokens(constructs):
    def pt(t):
        return "?" + wire.esc(str(t)) if isinstance(t, Variable) else wire.term(t)

    def pats(ps):
        return [str(len(ps))] + [pt(x) for t in ps for x in t]
    toks = ["CON", str(len(constructs))]
    for r, cs in constructs.items():
        toks += [wire.term(r), str(len(cs))]
        for c in cs:
            toks += ["1" if c["usesThis"] else "0"] + pats(c["head"]) + pats(c["body"]) + pats(c["ne"])
            if c.get("binds"):
                toks += ["BINDS", str(len(c["binds"]))]
                for var, fn, args in c["binds"]:
                    toks += [wire.esc(var), wire.term(fn), str(len(args))] + [pt(a) for a in args]
    return " ".join(toks)


# ── reference engine (the procedure the property states) ────────────────────────────────────────────

class LimitExceeded(Exception):
    pass


LIMIT = 100


class RefRules:
    """shapes in ascending sh:order; each shape's active rules in ascending sh:order; a rule fires on the focus nodes of its
    shape that conform to all of its conditions *at the time it fires*; all outputs of one firing are computed on the same graph
    and then added; with iterate a firing is repeated while it adds something, and the shape's pass is repeated likewise."""

    def __init__(self, sg: Graph, dg: Graph, iterate=False, focus_nodes=None, use_shapes=None, expr_eval=None, ref_factory=None):
        self.ref_factory = ref_factory   # (sg, graph) -> reference validator (targets, conformance); default: Core only
        self.expr_eval = expr_eval     # (graph, expression, focus) -> set, for expressions beyond this/const/path/union
        self.sg = sg
        self.g = Graph()
        for t in dg:
            self.g.add(t)
        self.iterate = iterate
        self.focus_nodes = list(focus_nodes) if focus_nodes else None
        self.use_shapes = list(use_shapes) if use_shapes else None

    def order_of(self, n):
        vs = list(self.sg.objects(n, SH.order))
        return Decimal(0) if not vs else Decimal(vs[0].value)

    def ref(self):
        if self.ref_factory is not None:
            return self.ref_factory(self.sg, self.g)
        return oracle_core.Ref(self.sg, self.g)

    def conditions(self, r):
        out = []
        for c in self.sg.objects(r, SH.condition):
            if (c, RDF.first, None) in self.sg:
                out.extend(self.sg.items(c))
            else:
                out.append(c)
        return out

    def focus(self, shape):
        if self.use_shapes and self.focus_nodes:
            return list(self.focus_nodes)
        fs = self.ref().targets(shape)
        if self.focus_nodes:
            fs = [f for f in fs if isinstance(f, URIRef) and f in self.focus_nodes]
        return list(fs)

    def applicable(self, r, foci):
        ref = self.ref()
        conds = self.conditions(r)
        out = [f for f in foci if all(len(ref.validate_node(c, f)) == 0 for c in conds)]
        # a condition that rests on a comparison the properties leave unspecified (two IRIs / two language-tagged strings under an
        # ordering, NaN): whether the rule fires is then unspecified too
        self.unspecified = getattr(self, "unspecified", []) + list(getattr(ref, "unspecified", []))
        return out

    def expr(self, e, f, depth=0):
        sg = self.sg
        if e == SH.this:
            return {f}
        if isinstance(e, (URIRef, Literal)):
            return {e}
        u = list(sg.objects(e, SH.union))
        if u:
            out = set()
            for part in sg.items(u[0]):
                out |= self.expr(part, f, depth + 1)
            return out
        ps = list(sg.objects(e, SH.path))
        if ps:
            out = set()
            for p in ps:
                out |= set(oracle_core.eval_path(self.g, oracle_core.decode_path(sg, p), f))
            return out
        if self.expr_eval is not None:
            return self.expr_eval(self.g, e, f)
        raise oracle_core.Unsupported("expression")

    def outputs(self, r, a):
        sg = self.sg
        if (r, RDF.type, SH.TripleRule) in sg:
            ss = self.expr(sg.value(r, SH.subject), a)
            ps = self.expr(sg.value(r, SH.predicate), a)
            os_ = self.expr(sg.value(r, SH.object), a)
            return {(s, p, o) for s in ss for p in ps for o in os_}
        out = set()
        for c in sg.objects(r, SH.construct):
            text = str(c)
            binds = {"this": a} if ("$this" in text or "?this" in text) else {}
            res = self.g.query(text, initBindings=binds)
            out |= set(res.graph)
        return out

    def fire(self, r, shape):
        """one firing of rule r -> whether something was added"""
        foci = self.focus(shape)
        is_triple = (r, RDF.type, SH.TripleRule) in self.sg
        added_any = False
        for _round in range(LIMIT):
            nodes = self.applicable(r, foci)
            new = set()
            for a in nodes:
                new |= self.outputs(r, a)
            fresh = [t for t in new if t not in self.g]
            # a CONSTRUCT result without any new triple is not merged, one with a new triple is merged entirely: same set
            for t in new:
                self.g.add(t)
            if not fresh:
                return added_any
            added_any = True
            if not (self.iterate and is_triple):
                return added_any
        raise LimitExceeded()

    def run(self):
        sg = self.sg
        owners = sorted(set(s for s, _r in sg.subject_objects(SH.rule) if not self.use_shapes or s in self.use_shapes), key=self.order_of)
        for shape in owners:
            rules = sorted(set(sg.objects(shape, SH.rule)), key=self.order_of)
            rules = [r for r in rules if not any(isinstance(d, Literal) and bool(d.value) for d in sg.objects(r, SH.deactivated))]
            for _pass in range(LIMIT):
                added = False
                for r in rules:
                    if self.fire(r, shape):
                        added = True
                if not (added and self.iterate):
                    break
            else:
                raise LimitExceeded()
        return self.g
