"""C20 — the report does not depend on how the graphs are handed over.

(B) on the real code: the same data / shapes / ontology graph handed over as rdflib Graph, path string, file: URI, open binary
    file, open text file, str and bytes, serialised as Turtle, N-Triples, RDF/XML and JSON-LD, with the format stated or left to
    auto-detection (standard header for inline text: @prefix/@base for Turtle, <?xml / <rdf:RDF for RDF/XML, N-Triples as the
    Turtle subset it is; file extension for files), one argument varied at a time; verdict and results (blank nodes expanded)
    must equal those of the all-Graph-objects run.
(A) `load_from_source` called directly on str / bytes sources vs Impl (`classify` op: inline data or file name; sniffed format),
    on the generated documents and on an exhaustive family of short strings.
"""
import io
import os
import random
import shutil
import tempfile
from collections import Counter

import pyshacl
from pyshacl.rdfutil import load_from_source
from rdflib import BNode, Graph, Literal, URIRef
from rdflib.namespace import RDF, RDFS, XSD

import shapegen
import vcase
import wire
from common import CLASSES, EX, NODES, PREDS, SH, Hang, graph_from_triples, time_limit
from props import c18

FORMATS = {"turtle": "ttl", "nt": "nt", "xml": "rdf", "json-ld": "json"}
SAFE_DT = {None, XSD.string, XSD.integer, XSD.boolean, XSD.decimal, XSD.dateTime, XSD.date}


def canonical(l: Literal) -> bool:
    """literal in canonical lexical form and representable in every format (no control characters)"""
    if any(ord(ch) < 32 and ch not in "\n\t" for ch in str(l)) or "\r" in str(l):
        return False
    if l.language:
        return l.language == l.language.lower()
    if l.datatype not in SAFE_DT:
        return False
    if l.datatype in (None, XSD.string):
        return True
    if getattr(l, "ill_typed", False) or l.value is None:
        return False
    return str(Literal(l.value, datatype=l.datatype)) == str(l) or l.datatype in (XSD.dateTime, XSD.date)


def clean_graph(g: Graph) -> Graph:
    h = Graph()
    for s, p, o in g:
        if isinstance(o, Literal) and not canonical(o):
            continue
        h.add((s, p, o))
    return h


def serialise(g: Graph, fmt: str, header: bool) -> str:
    if fmt == "turtle":
        txt = g.serialize(format="turtle")
        if header and not txt.lstrip().startswith("@prefix"):
            txt = "@prefix ex: <http://ex.test/> .\n" + txt
        return txt
    if fmt == "xml":
        return g.serialize(format="xml")
    if fmt == "nt":
        lines = sorted(l for l in g.serialize(format="nt").splitlines() if l.strip())
        # N-Triples has no header: a document may start with an IRI or with a blank node label
        return "\n".join(lines) + "\n"
    return g.serialize(format="json-ld")


def forms(tmp, tag, text, fmt, stated):
    """[(form name, source object factory, kwargs format value, cleanup)]"""
    ext = FORMATS[fmt]
    path = os.path.join(tmp, "%s.%s" % (tag, ext))
    with open(path, "w", encoding="utf-8") as f:
        f.write(text)
    out = [("path", lambda: path), ("file-uri", lambda: "file://" + path), ("file-uri-localhost", lambda: "file://localhost" + path),
           ("file-uri-one-slash", lambda: "file:" + path),
           ("open-binary", lambda: open(path, "rb")), ("open-text", lambda: open(path, "r", encoding="utf-8")),
           ("str", lambda: text), ("bytes", lambda: text.encode("utf-8"))]

    # open file objects the caller has just used: a buffer it wrote the document into, a handle it has read to the end
    def written_buffer():
        b = io.BytesIO()
        b.write(text.encode("utf-8"))
        return b

    def read_handle():
        f = open(path, "rb")
        f.read()
        return f
    out += [("open-binary-written", written_buffer), ("open-binary-read", read_handle)]
    if stated:
        # a stated format outranks what the file name suggests
        wrong = {"turtle": "rdf", "xml": "ttl", "nt": "xml", "json-ld": "ttl", "n3": "rdf", "trig": "nt", "nquads": "xml", "hext": "ttl"}.get(fmt, "rdf")
        mpath = os.path.join(tmp, "%s_misnamed.%s" % (tag, wrong))
        with open(mpath, "w", encoding="utf-8") as f:
            f.write(text)
        out += [("path-misnamed", lambda: mpath), ("file-uri-misnamed", lambda: "file://" + mpath), ("open-binary-misnamed", lambda: open(mpath, "rb"))]
    return out


def base_uri_cases(tmp, out):
    """Turtle documents with relative IRIs and the `# baseURI:` header comment (TopBraid convention honoured by the loader): the
    header gives the base in every hand-over form of the same document"""
    base = "http://ex.test/"
    data_doc = "# baseURI: %s\n@prefix ex: <http://ex.test/> .\n<a> <p> 71 .\n<b> <p> 3 .\n" % base
    shapes_doc = ("# baseURI: %s\n@prefix sh: <http://www.w3.org/ns/shacl#> .\n"
                  "<S> a sh:NodeShape ; sh:targetSubjectsOf <p> ; sh:property [ sh:path <p> ; sh:maxInclusive 50 ] .\n" % base)
    ref_d = Graph().parse(data=data_doc, format="turtle", publicID=base)
    ref_s = Graph().parse(data=shapes_doc, format="turtle", publicID=base)
    want = pyshacl.validate(ref_d, shacl_graph=ref_s)
    want_n = len(list(want[1].subjects(RDF.type, SH.ValidationResult)))
    for arg, doc in (("data", data_doc), ("shapes", shapes_doc)):
        for stated in (True, False):
            for fname, make in forms(tmp, "baseuri_%s" % arg, doc, "turtle", stated):
                if fname in ("str", "bytes", "open-binary-written") and not stated:
                    continue     # a leading comment line is no header the format could be detected from
                src = make()
                kw = {("data_graph_format" if arg == "data" else "shacl_graph_format"): "turtle"} if stated else {}
                out.evaluations += 1
                try:
                    with time_limit(30):
                        got = pyshacl.validate(src if arg == "data" else ref_d, shacl_graph=ref_s if arg == "data" else src, **kw)
                    res = (got[0], len(list(got[1].subjects(RDF.type, SH.ValidationResult))))
                except Exception as e:  # noqa
                    res = ("err", type(e).__name__)
                finally:
                    if hasattr(src, "close"):
                        src.close()
                out.count("form:baseuri-" + fname)
                if res != (want[0], want_n):
                    out.b_fail.append({"signature": "C20:base-uri-header:%s:%s:%s" % (arg, fname, "stated" if stated else "auto"),
                                       "case": {"argument": arg, "form": fname, "format_stated": stated, "document": doc}, "this_form": list(res), "graph_object": [want[0], want_n]})
    if want_n:
        out.nontrivial.add("baseuri")


def rewritten_file_cases(tmp, out):
    """the same path handed over twice, the file rewritten in between with a document of the same byte length (same second, mtime
    restored): the second report must be that of the file's current content, for the data and for the shapes argument"""
    shapes = lambda bound: ("@prefix sh: <http://www.w3.org/ns/shacl#> .\n@prefix ex: <http://ex.test/> .\n"
                            "ex:S a sh:NodeShape ; sh:targetSubjectsOf ex:p ; sh:property [ sh:path ex:p ; sh:maxInclusive %d ] .\n" % bound)
    data = lambda v: "<http://ex.test/a> <http://ex.test/p> \"%d\"^^<http://www.w3.org/2001/XMLSchema#integer> .\n" % v
    for arg, first, second, fixed in (("data", data(17), data(71), shapes(50)), ("shapes", shapes(17), shapes(71), data(50))):
        for ext, uri in (("nt" if arg == "data" else "ttl", False), ("nt" if arg == "data" else "ttl", True)):
            path = os.path.join(tmp, "rewrite_%s_%d.%s" % (arg, uri, ext))
            src = ("file://" + path) if uri else path
            fixed_g = Graph().parse(data=fixed, format="turtle")
            outs = []
            for doc in (first, second):
                st = os.stat(path) if os.path.exists(path) else None
                with open(path, "w", encoding="utf-8") as f:
                    f.write(doc)
                if st is not None:
                    os.utime(path, ns=(st.st_atime_ns, st.st_mtime_ns))
                doc_g = Graph().parse(data=doc, format="turtle")
                kw_a = {"shacl_graph": fixed_g} if arg == "data" else {"shacl_graph": src}
                kw_b = {"shacl_graph": fixed_g} if arg == "data" else {"shacl_graph": doc_g}
                got = pyshacl.validate(src if arg == "data" else fixed_g, **kw_a)
                want = pyshacl.validate(doc_g if arg == "data" else fixed_g, **kw_b)
                outs.append((got[0], want[0], len(list(got[1].subjects(RDF.type, SH.ValidationResult))), len(list(want[1].subjects(RDF.type, SH.ValidationResult)))))
            out.evaluations += 2
            out.count("form:rewritten-" + ("file-uri" if uri else "path"))
            for step, (gc, wc, gn, wn) in enumerate(outs):
                if gc != wc or gn != wn:
                    out.b_fail.append({"signature": "C20:stale-file-content:%s:%s" % (arg, "file-uri" if uri else "path"),
                                       "case": {"argument": arg, "step": step, "first_document": first, "second_document": second, "other_graph": fixed},
                                       "path_form": [gc, gn], "graph_object": [wc, wn]})
            if outs[0][2] != outs[1][2]:
                out.nontrivial.add("rewrite:%s:%d" % (arg, uri))


def detectable_inline(text, fmt):
    """format omitted + inline text: only where a standard header announces the format (Turtle @prefix/@base, RDF/XML), or the
    text is N-Triples (read as the Turtle subset it is)"""
    t = text.lstrip()
    if fmt == "turtle":
        return t.startswith("@prefix ") or t.startswith("@base ")
    if fmt == "xml":
        return t.startswith("<?xml") or t.startswith("<rdf:RDF")
    if fmt == "nt":
        return True
    return False   # JSON-LD has no header an RDF loader could rely on


def report_key(rg, sg):
    """verdict + results with blank nodes expanded; auto-generated default messages (implementation-specific text that mentions
    prefixes bound by the parser) are dropped, declared sh:message values are kept"""
    declared = set(sg.objects(None, SH.message))
    h = Graph()
    for t in rg:
        if t[1] == SH.resultMessage and t[2] not in declared:
            continue
        h.add(t)
    return c18.report_key(h)


def code_kind(src, cwd, marker):
    """how load_from_source treated a str / bytes source: opened as a file, or parsed as inline text"""
    old = os.getcwd()
    os.chdir(cwd)
    try:
        try:
            with time_limit(20):
                g = load_from_source(src)
        except Hang:
            return "raw:Hang"
        except (FileNotFoundError, IsADirectoryError, NotADirectoryError, PermissionError):
            return "file"
        except OSError as e:
            return "file" if e.errno in (36, 2, 20, 21) else "raw:OSError"
        except (IndexError, ValueError, TypeError, AttributeError) as e:
            # parser errors derive from these too; only the loader's own are meant
            import traceback
            last = traceback.extract_tb(e.__traceback__)[-1]
            if "rdfutil/load.py" in last.filename:
                return "raw:" + type(e).__name__
            return "inline"
        except Exception:  # noqa  (a syntax error of a parser: the text was parsed)
            return "inline"
        return "file" if marker in g else "inline"
    finally:
        os.chdir(old)


def classification_sources(rng, docs, quick):
    """str sources: prefixes of real documents of every length class, one-liners, names of existing / missing files"""
    out = []
    for d in docs:
        for n in (1, 2, 5, 20, 31, 32, 33, 60, 139, 140, 141, 400):
            if len(d) >= n:
                out.append(d[:n])
        one = d.splitlines()[0] if d.strip() else d
        out += [one, one.strip(), " " + one, "\n" + d[:50], d.replace("\n", " ")[:120]]
    names = ["exists.ttl", "my data.ttl", "missing.ttl", "no such file.nt", "./exists.ttl", "./missing.ttl", "/nonexistent/x.ttl", "dir", "a b", "a\tb",
             "x" * 139, "x" * 140, "x y " * 40, "file:///nonexistent/y.ttl", "_:b <http://ex.test/p> <http://ex.test/o> .",
             "PREFIX ex: <http://ex.test/> ex:a ex:p ex:o .", "ex:a ex:p ex:o .", "é" * 100, "é é" * 40, "\r\nx", "trailing\n", "-x", "stdinx"]
    out += names
    for _ in range(60 if quick else 1500):
        n = rng.choice((1, 3, 8, 20, 40, 100, 139, 141))
        alphabet = rng.choice(["abc/._-", "ab \n<#@{[_:", "a b", "ab\t", "<>\"_:. abc", "é ü"])
        out.append("".join(rng.choice(alphabet) for _ in range(n)))
    seen, uniq = set(), []
    for x in out:
        if x and x not in seen and not x.lower().startswith(("http:", "https:")) and x not in ("-", "stdin", "/dev/stdin") and "\x00" not in x:
            seen.add(x)
            uniq.append(x)
    return uniq


def run(ctx, out):
    rng = random.Random(ctx.seed * 573259433 + 20)
    quick = ctx.tier == "quick"
    ncases = 6 if quick else 120
    out.rule = ("generated data / shapes / ontology graphs with canonical literals x {Graph, path, file: URI, open binary, open text, str, bytes} "
                "x {turtle, nt, xml, json-ld} x {format stated, format omitted where detectable} x the argument varied (data, shapes, ontology); "
                "plus tiny one-triple documents (short inline text, blank-node-first N-Triples, SPARQL-style PREFIX); (A) classification of "
                "~2000 str/bytes sources; non-trivial = distinct (case, form, format) whose reference report has >=1 result")
    tmp = tempfile.mkdtemp(prefix="c20_")
    alines, ameta = [], []
    try:
        cases = []
        for i in range(ncases):
            data = shapegen.gen_data(rng, n=rng.choice((1, 3, 8, 14)))
            gen = shapegen.ShapeGen(rng, data)
            for _ in range(rng.randint(1, 2)):
                gen.shape(complex_path=0.3)
            dg = clean_graph(graph_from_triples(data))
            sg = clean_graph(gen.g)
            og = Graph()
            og.add((rng.choice(CLASSES), RDFS.subClassOf, rng.choice(CLASSES)))
            og.add((BNode("o1"), RDF.type, rng.choice(CLASSES)))
            cases.append((sg, dg, og))
        # tiny documents: one triple, blank node subject (N-Triples then starts with `_:`), a single short line
        tiny_d = Graph(); tiny_d.add((BNode("t1"), PREDS[0], NODES[0]))
        tiny_s = Graph(); tiny_s.add((EX.TS, SH.targetSubjectsOf, PREDS[0])); tiny_s.add((EX.TS, SH.nodeKind, SH.IRI))
        cases.insert(0, (tiny_s, tiny_d, Graph()))
        tiny_d2 = Graph(); tiny_d2.add((NODES[0], PREDS[0], Literal("v")))
        cases.insert(1, (tiny_s, tiny_d2, Graph()))
        # the empty graph: its Turtle / N-Triples documents are blank
        cases.insert(2, (tiny_s, Graph(), Graph()))
        for ci, (sg, dg, og) in enumerate(cases):
            try:
                ref = vcase.run_code(sg, dg, {"ont_graph": og} if len(og) else {})
            except Exception:  # noqa
                continue
            if ref[0] != "ok":
                out.count("reference:" + str(ref[1]))
                continue
            want = report_key(ref[3], sg)
            for arg, g in (("data", dg), ("shapes", sg), ("ont", og)):
                if arg == "ont" and not len(og):
                    continue
                for fmt in FORMATS:
                    text = serialise(g, fmt, header=True)
                    for stated in (True, False):
                        for fname, make in forms(tmp, "c%d_%s_%s" % (ci, arg, fmt), text, fmt, stated):
                            if not stated and fname in ("str", "bytes", "open-binary-written") and not detectable_inline(text, fmt):
                                continue
                            if not stated and fname in ("str", "bytes") and fmt == "nt" and ci > 1 and rng.random() < 0.5:
                                continue
                            if quick and ci > 3 and rng.random() < 0.5:
                                continue
                            out.evaluations += 1
                            src = make()
                            kw = {}
                            key = {"data": "data_graph_format", "shapes": "shacl_graph_format", "ont": "ont_graph_format"}[arg]
                            if stated:
                                kw[key] = fmt
                            a_dg, a_sg, a_og = dg, sg, og if len(og) else None
                            if arg == "data":
                                a_dg = src
                            elif arg == "shapes":
                                a_sg = src
                            else:
                                a_og = src
                            try:
                                with time_limit(30):
                                    conforms, rg, _t = pyshacl.validate(a_dg, shacl_graph=a_sg, ont_graph=a_og, **kw)
                                got = ("ok", conforms, report_key(rg, sg) if isinstance(rg, Graph) else None)
                            except Exception as e:  # noqa
                                got = ("err", type(e).__name__, str(e)[:120])
                            finally:
                                if hasattr(src, "close"):
                                    try:
                                        src.close()
                                    except Exception:  # noqa
                                        pass
                            case = {"argument": arg, "form": fname, "format": fmt, "format_stated": stated, "document": text[:1500],
                                    "shapes_ttl": sg.serialize(format="turtle")[:1500], "data_nt": dg.serialize(format="nt")[:800]}
                            label = "%s:%s:%s:%s" % (arg, fname, fmt, "stated" if stated else "auto")
                            if got[0] == "err":
                                out.b_fail.append({"signature": "C20:exception:%s:%s:%s:%s" % (got[1], fname, fmt, "stated" if stated else "auto"), "case": case, "error": got[2]})
                            elif got[1] != ref[1] or got[2] != want:
                                what = "verdict" if got[1] != ref[1] else "results"
                                out.b_fail.append({"signature": "C20:%s-differs:%s:%s:%s" % (what, fname, fmt, "stated" if stated else "auto"), "case": case,
                                                   "only_reference": list((want[1] - got[2][1]).elements())[:2] if got[2] else None,
                                                   "only_this_form": list((got[2][1] - want[1]).elements())[:2] if got[2] else None})
                            if ref[2]:
                                out.nontrivial.add(label + ":%d" % ci)
                            out.count("form:" + fname)
                            out.count("format:%s:%s" % (fmt, "stated" if stated else "auto"))
            out.sample({"case": ci, "results": len(ref[2]), "triples": [len(dg), len(sg), len(og)]})
        rewritten_file_cases(tmp, out)
        base_uri_cases(tmp, out)
        # ── (A) classification of str / bytes sources, and the sniff / extension tables ─────────────────────────────
        scratch = os.path.join(tmp, "cwd")
        os.makedirs(os.path.join(scratch, "dir"))
        marker = (URIRef("urn:marker:s"), URIRef("urn:marker:p"), URIRef("urn:marker:o"))
        for name in ("exists.ttl", "my data.ttl", "a b"):
            with open(os.path.join(scratch, name), "w") as f:
                f.write("<urn:marker:s> <urn:marker:p> <urn:marker:o> .\n")
        docs = []
        for sg, dg, og in cases[:8]:
            for fmt in FORMATS:
                docs.append(serialise(dg, fmt, header=False))
                docs.append(serialise(sg, fmt, header=True))
        sources = classification_sources(rng, docs, quick)
        lines = []
        for n, src_text in enumerate(sources):
            exists = os.path.exists(os.path.join(scratch, src_text)) if len(src_text) < 200 and "\n" not in src_text else False
            lines.append("k%d classify str %d %s" % (n, exists, wire.esc(src_text)))
            lines.append("b%d classify bytes %d %s" % (n, exists, wire.esc(src_text)))
        sniff_lines = ["@prefix ex: <http://ex.test/> .", "@base <http://ex.test/> .", "PREFIX ex: <http://ex.test/>", "# baseURI: http://x", "<?xml version='1.0'?>",
                       "<rdf:RDF xmlns:rdf='x'>", "<RDF:rdf", "<xml>", "<!DOCTYPE html>", "<html>", "<http://ex.test/a> <http://ex.test/b> <http://ex.test/c> .", "{", "_:a <p> <o> .", "@PREFIX x: <y> ."]
        for n, l in enumerate(sniff_lines):
            lines.append("s%d sniff %s" % (n, wire.esc(l)))
        ext_names = ["a.ttl", "a.nt", "a.n3", "a.json", "a.jsonld", "a.rdf", "a.xml", "a.nq", "a.trig", "a.TTL", "ttl", "a.ttl.bak", "a.hext", "a"]
        for n, l in enumerate(ext_names):
            lines.append("e%d ext %s" % (n, wire.esc(l)))
        rep = ctx.driver.ask(lines)
        for n, src_text in enumerate(sources):
            for form, cid, src in (("str", "k%d" % n, src_text), ("bytes", "b%d" % n, src_text.encode("utf-8"))):
                out.traces += 1
                got = code_kind(src, scratch, marker)
                model = rep[cid].split()[1] if rep[cid].startswith("ok") else rep[cid]
                if got != model:
                    out.a_mismatch.append({"case": {"source": src_text[:200], "form": form}, "op": "classify", "diff": "code %s, model %s" % (got, model)})
                out.count("classify:%s:%s" % (form, got.split(":")[0]))
        # sniffing: the observable is which parser reads a header-only document given as bytes without a format
        for n, l in enumerate(sniff_lines):
            out.traces += 1
            model = rep["s%d" % n].split()[1]
            body = {"turtle": l + "\n<urn:a> <urn:b> <urn:c> .\n", "xml": l}.get(model)
            try:
                with time_limit(20):
                    load_from_source(io.BytesIO(("\n  " + l + "\n").encode()))
                got = "parsed"
            except RuntimeError as e:
                got = "html" if "HTML" in str(e) else "runtime"
            except Exception as e:  # noqa
                got = "syntax:" + type(e).__module__.split(".")[-1]
            ok = (model == "html") == (got == "html") and (model != "xml" or got in ("parsed", "syntax:expatreader", "syntax:_exceptions", "syntax:handler") or "sax" in got or "xml" in got) \
                and (model not in ("turtle", "unknown") or not ("sax" in got or "expat" in got))
            if not ok:
                out.a_mismatch.append({"case": {"line": l}, "op": "sniff", "diff": "code %s, model %s" % (got, model)})
        for n, l in enumerate(ext_names):
            out.traces += 1
            model = rep["e%d" % n].split()[1]
            want = None
            for e, f in ctx.tables.get("LoadTable.lean", {}).get("extensions", []):
                if l.endswith(e):
                    want = f
                    break
            if (want or "-") != model:
                out.a_mismatch.append({"case": {"name": l}, "op": "ext", "diff": "table %s, model %s" % (want, model)})
    finally:
        shutil.rmtree(tmp, ignore_errors=True)
