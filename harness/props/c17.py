"""C17 — advanced-mode targets, functions and expression constraints follow their queries.

(B) validate(advanced=True) vs the reference AdvRef: focus set = core targets ∪ ?this solutions of each sh:target query (SPARQL
    target, or target type with the declaration's parameter values pre-bound); a function call = the declared SELECT/ASK query run
    directly through rdflib with the arguments bound to the parameters in SHACL-AF order (first projected value of the first
    solution), whether called from a node expression, a sh:sparql constraint, a target query or a rule; sh:expression reports a
    value node iff the expression's value set is not {true}.  validate(advanced=False) vs the same shapes graph with sh:target /
    sh:expression / sh:rule removed.  shacl_rules() with function calls vs the reference rule engine.
(A) the same runs vs Impl (tables: target solutions, function results by named pre-bindings, sh:sparql solutions).
"""
import os
import random

import pyshacl
from rdflib import BNode, Graph, Literal, URIRef
from rdflib.namespace import RDF

import advgen
import oracle_core
import rulegen
import sparqlgen
import vcase
import wire
from common import EX, NODES, SH, exc_detail, graph_from_triples
from props import c15


def strip_advanced(sg):
    h = Graph()
    for t in sg:
        if t[1] not in (SH.target, SH.expression, SH.rule):
            h.add(t)
    return h


def tables(sg, dg, gen, fns):
    """opaque-engine tables for the model, all computed by running the declared queries directly"""
    ref = advgen.AdvRef(sg, dg, fns)
    trows = {}
    for decl in gen.target_decls:
        try:
            trows[decl] = ref.target_solutions(decl)
        except oracle_core.Unsupported:
            pass
    return ref, trows


def run(ctx, out):
    rng = random.Random(ctx.seed * 373587883 + 17)
    quick = ctx.tier == "quick"
    n = 260 if quick else 5000
    out.rule = ("1-3 SPARQL functions (ASK / SELECT, 1-3 parameters, ordered by sh:order or by local name, '#' and '/' namespaces, "
                "variable names colliding with the caller's) x shapes with SPARQL targets (5 query kinds incl. a function call), "
                "SPARQL target types with 1-2 parameters, sh:expression constraints (function calls over sh:this / constants / "
                "paths / nested calls, path and constant expressions, with messages), sh:sparql constraints calling functions; "
                "IRIs, literals and blank nodes as focus nodes and arguments; advanced on/off; 35% of the cases also with rules "
                "calling functions (shacl_rules); non-trivial = distinct case with >=1 result from an advanced feature")
    cases = []
    for i in range(n):
        sg, data, gen = advgen.gen_case(rng, with_rules=(i % 3 == 0))
        cases.append((sg, graph_from_triples(data), gen))
    prepared = []
    lines = []
    for i, (sg, dg, gen) in enumerate(cases):
        fns = advgen.RefFns(sg, dg)
        entry = {"fns": fns}
        try:
            with fns.registered():
                ref, trows = tables(sg, dg, gen, fns)
                ref.sparql_templates = gen.templates
                try:
                    entry["expect"] = ("ok",) + tuple(ref.validate())
                except oracle_core.ExpectFailure:
                    entry["expect"] = ("err", "ReportableRuntimeError")
                except oracle_core.Unsupported as e:
                    entry["expect"] = ("unsupported", str(e))
                entry["unspecified"] = list(ref.unspecified)
                sols, tmpl = sparqlgen.solution_tables(sg, dg, gen.templates)
                # candidate focus nodes of sh:sparql constraints also include the advanced targets
                for c in gen.templates:
                    for shp in sg.subjects(SH.sparql, c):
                        have = set(f for cc, f, _r in sols if cc == c)
                        for f in ref.targets(shp) - have:
                            sols.append((c, f, sparqlgen.run_query_directly(sg, dg, c, shp, f)))
                if gen.constructs or any(True for _ in sg.subject_objects(SH.rule)):
                    rr = rulegen.RefRules(sg, dg, iterate=False, expr_eval=lambda g, e, f, _fns=fns: advgen.AdvRef(sg, g, _fns).expr(e, f),
                                          ref_factory=lambda sg_, g_, _fns=fns: advgen.AdvRef(sg_, g_, _fns))
                    try:
                        entry["rules_expect"] = ("ok", c15.tset(rr.run()))
                    except oracle_core.ExpectFailure:
                        entry["rules_expect"] = ("err", "ReportableRuntimeError")
                    except (oracle_core.Unsupported, rulegen.LimitExceeded):
                        entry["rules_expect"] = None
        except Exception as e:  # the direct queries themselves do not run: outside the property
            entry["expect"] = ("unsupported", "direct query: " + type(e).__name__)
            sols, tmpl, trows = [], {}, {}
        # advanced=False: no function is registered, a call is an error inside the query
        sols_off = []
        for c, f, _rows in sols:
            for shp in sg.subjects(SH.sparql, c):
                try:
                    sols_off.append((c, f, sparqlgen._run_query_directly(sg, dg, c, shp, f)))
                except Exception:  # noqa
                    pass
                break
        prepared.append(entry)
        adv = advgen.adv_tokens(trows, fns.log)
        lines.append(vcase.model_line("a%d" % i, sg, dg, {"advanced": True}, sparql=(sols, gen.templates)) + " " + adv)
        lines.append(vcase.model_line("o%d" % i, sg, dg, {"advanced": False}, sparql=(sols_off, gen.templates)))
        if "rules_expect" in entry:
            rx = vcase.regex_table(sg, dg, extra_strings=set(str(t) for g in (sg, dg) for tr in g for t in tr if not isinstance(t, BNode)))
            rx_toks = " ".join("%s %s %s %d" % (wire.esc(p), wire.esc(f) if f else "-", wire.esc(s), 1 if b else 0) for p, f, s, b in rx)
            with wire.case_cache():
                lines.append("r%d rules iterate=0 then=0 advanced=1 FOCUS %s SHAPES %s SG %s DG %s RX %d %s %s %s" % (
                    i, wire.terms([]), wire.terms([]), wire.graph(sg), wire.graph(dg), len(rx), rx_toks, rulegen.con_tokens(gen.constructs), adv))
    replies = ctx.driver.ask(lines)
    for k_, (sg_, dg_) in enumerate(stale_function_cases()):
        out.evaluations += 1
        rules_then_validate(out, sg_, dg_, vcase.describe(sg_, dg_, {"advanced": True}, label="stale-function:%d" % k_))
    for i, (sg, dg, gen) in enumerate(cases):
        entry = prepared[i]
        out.evaluations += 2
        out.traces += 2
        has_rules = any(True for _ in sg.subject_objects(SH.rule))
        case = vcase.describe(sg, dg, {"advanced": True})
        # ── advanced on ──
        if not has_rules:
            code = vcase.run_code(sg, dg, {"advanced": True})
            model = vcase.parse_model(replies["a%d" % i])
            d = vcase.compare(code, model, sg, with_detail=True)
            if d:
                out.a_mismatch.append({"case": case, "diff": d[:1200], "op": "validate-advanced"})
            exp = entry["expect"]
            if exp[0] == "unsupported":
                out.count("oracle_unsupported:" + exp[1][:30])
            elif entry["unspecified"]:
                out.count("masked_unspecified")
            elif exp[0] == "err":
                out.count("expected_failure")
                if not (code[0] == "err" and code[1].startswith(exp[1])):
                    out.b_fail.append({"signature": "C17:wrong-arity-not-a-reportable-error", "case": case, "got": code[:2]})
            elif code[0] != "ok":
                out.b_fail.append({"signature": "C17:exception:%s" % code[1], "case": case, "got": code[1]})
            else:
                dms = vcase.declared_msg_shapes(sg)
                a, b = vcase.multiset(code[2], dms, False), vcase.multiset(exp[2], dms, False)
                ca, cb = c05_core(a), c05_core(b)
                if ca != cb:   # Core components are C01's subject
                    out.count("core_results_differ_left_to_C01")
                    a, b = a - ca, b - cb
                if a != b:
                    oc, orf = list((a - b).elements()), list((b - a).elements())
                    comp = ((oc or orf)[0][3]).rsplit("#", 1)[-1].replace("ConstraintComponent", "")
                    what = "messages" if oc and set(k[:7] for k in oc) == set(k[:7] for k in orf) else "extra" if oc and not orf else "missing" if orf and not oc else "differ"
                    out.b_fail.append({"signature": "C17:%s:%s" % (what, comp), "case": case, "only_in_code": oc[:3], "only_in_reference": orf[:3]})
                if any(r["component"].endswith("#ExpressionConstraintComponent") or r["component"].endswith("#SPARQLConstraintComponent") for r in code[2]) or gen.target_decls and code[2]:
                    out.nontrivial.add(i)
                out.count("results:%s" % ("0" if not code[2] else "1+"))
        # ── advanced off: declarations ignored ──
        off = vcase.run_code(sg, dg, {"advanced": False})
        stripped = vcase.run_code(strip_advanced(sg), dg, {"advanced": False})
        model_off = vcase.parse_model(replies["o%d" % i])
        d = vcase.compare(off, model_off, sg, with_detail=True)
        if d:
            out.a_mismatch.append({"case": case, "diff": "advanced=False: " + d[:1000], "op": "validate-plain"})
        if off[0] != stripped[0] or (off[0] == "err" and off[1] != stripped[1]):
            out.b_fail.append({"signature": "C17:advanced-off-outcome", "case": case, "with": off[:2], "stripped": stripped[:2]})
        elif off[0] == "ok":
            dms = vcase.declared_msg_shapes(sg)
            a, b = vcase.multiset(off[2], dms, True), vcase.multiset(stripped[2], dms, True)
            if a != b or off[1] != stripped[1]:
                out.b_fail.append({"signature": "C17:advanced-off-not-ignored", "case": case, "only_with": list((a - b).elements())[:3], "only_stripped": list((b - a).elements())[:3]})
        # ── rules calling functions ──
        if has_rules:
            out.evaluations += 1
            out.traces += 1
            code_r, _ = c15.run_rules_code(sg, dg, False, [], [])
            model_r, _ = c15.parse_rules_reply(replies["r%d" % i])
            if code_r[0] != model_r[0] or (code_r[0] == "err" and code_r[1].split(":")[0] != model_r[1].split(":")[0]) or (code_r[0] == "ok" and code_r[1] != model_r[1]):
                dd = {"code": code_r[:2] if code_r[0] == "err" else sorted(code_r[1] - model_r[1])[:4] if model_r[0] == "ok" else "ok",
                      "model": model_r[:2] if model_r[0] != "ok" else sorted(model_r[1] - code_r[1])[:4] if code_r[0] == "ok" else "ok"}
                out.a_mismatch.append({"case": case, "diff": str(dd), "op": "rules"})
            want = entry.get("rules_expect")
            if want is None:
                out.count("rules_oracle_unsupported")
            elif want[0] == "err":
                if not (code_r[0] == "err" and code_r[1].startswith("ReportableRuntimeError")):
                    out.b_fail.append({"signature": "C17:rules:wrong-arity-not-a-reportable-error", "case": case, "got": code_r[0] == "ok" or code_r[1]})
            elif code_r[0] != "ok":
                out.b_fail.append({"signature": "C17:rules:exception:%s" % code_r[1], "case": case, "got": code_r[1]})
            elif code_r[1] != want[1]:
                out.b_fail.append({"signature": "C17:rules:%s" % ("unjustified-triple" if code_r[1] - want[1] else "missing-triple"), "case": case,
                                   "only_in_code": sorted(code_r[1] - want[1])[:4], "only_in_reference": sorted(want[1] - code_r[1])[:4]})
            else:
                if code_r[1] - c15.tset(dg):
                    out.nontrivial.add(i)
            out.count("rules_case")
            # one advanced run = rules, then validation of the expanded graph: the functions answer for the graph as it is when they
            # are called (from a rule, and again from a constraint after later rules have added triples)
            rules_then_validate(out, sg, dg, case)
        out.sample({"functions": len(gen.fns), "targets": len(gen.target_decls), "rules": has_rules})


def rules_then_validate(out, sg, dg, case):
    one = vcase.run_code(sg, dg, {"advanced": True})
    try:
        expanded = pyshacl.shacl_rules(dg, shacl_graph=sg, advanced=True)
    except Exception as e:  # noqa
        expanded = None
        two = ("err", exc_detail(e))
    if expanded is not None:
        norules = Graph()
        for t in sg:
            if t[1] != SH.rule:
                norules.add(t)
        two = vcase.run_code(norules, expanded, {"advanced": True})
    out.count("rules_then_validate:" + (one[1] if one[0] == "err" else "report"))
    if one[0] == "err" and one[1].startswith("raw:") and os.environ.get("VERIF_DEBUG"):
        open("/tmp/c17_raw.txt", "a").write(case["shapes_ttl"] + "\n=====\n")
    if one[0] != two[0] or (one[0] == "err" and one[1].split(":")[0] != two[1].split(":")[0]):
        out.b_fail.append({"signature": "C17:rules-then-validate:outcome-differs", "case": case, "one_run": one[:2], "two_steps": two[:2]})
    elif one[0] == "ok":
        dms = vcase.declared_msg_shapes(sg)
        a, b = vcase.multiset(one[2], dms, False), vcase.multiset(two[2], dms, False)
        if a != b or one[1] != two[1]:
            out.b_fail.append({"signature": "C17:rules-then-validate:results-differ", "case": case,
                               "only_one_run": list((a - b).elements())[:3], "only_two_steps": list((b - a).elements())[:3]})


def stale_function_cases():
    """a function is called from a rule, a later rule changes what it answers, then a constraint calls it with the same arguments"""
    from rdflib.namespace import XSD
    out = []
    for k in range(6):
        sg, dg = Graph(), Graph()
        decl = BNode()
        sg.add((EX.decl, SH.declare, decl)); sg.add((decl, SH.prefix, Literal("ex"))); sg.add((decl, SH.namespace, Literal(str(EX), datatype=XSD.anyURI)))
        fn, par = EX["marked%d" % k], BNode()
        sg.add((fn, RDF.type, SH.SPARQLFunction)); sg.add((fn, SH.parameter, par)); sg.add((par, SH.path, EX.op1)); sg.add((fn, SH.prefixes, EX.decl))
        if k % 2:
            sg.add((fn, SH.returnType, XSD.boolean)); sg.add((fn, SH.ask, Literal("ASK { $op1 ex:mark true }")))
        else:
            sg.add((fn, SH.returnType, XSD.boolean)); sg.add((fn, SH.select, Literal("SELECT ?r WHERE { BIND (EXISTS { $op1 ex:mark true } AS ?r) }")))
        S = EX["SF%d" % k]
        sg.add((S, RDF.type, SH.NodeShape)); sg.add((S, SH.targetClass, EX.C0))

        def call():
            e, l = BNode(), BNode()
            sg.add((e, fn, l)); sg.add((l, RDF.first, SH.this)); sg.add((l, RDF.rest, RDF.nil))
            return e
        r1, r2 = BNode(), BNode()
        sg.add((S, SH.rule, r1)); sg.add((r1, RDF.type, SH.TripleRule)); sg.add((r1, SH.order, Literal(1)))
        sg.add((r1, SH.subject, SH.this)); sg.add((r1, SH.predicate, EX.seenMarked)); sg.add((r1, SH.object, call()))
        sg.add((S, SH.rule, r2)); sg.add((r2, RDF.type, SH.TripleRule)); sg.add((r2, SH.order, Literal(2)))
        sg.add((r2, SH.subject, SH.this)); sg.add((r2, SH.predicate, EX.mark)); sg.add((r2, SH.object, Literal(True)))
        if k % 3 == 2:
            ps = BNode(); sg.add((S, SH.property, ps)); sg.add((ps, SH.path, EX.self)); sg.add((ps, SH.expression, call()))
            dg.add((NODES[0], EX.self, NODES[0]))
        else:
            sg.add((S, SH.expression, call()))
        dg.add((NODES[0], RDF.type, EX.C0)); dg.add((NODES[1], RDF.type, EX.C0))
        if k >= 3:
            dg.add((NODES[1], EX.mark, Literal(True)))
        out.append((sg, dg))
    return out


def c05_core(ms):
    from collections import Counter
    adv = ("#SPARQLConstraintComponent", "#ExpressionConstraintComponent")
    return Counter({k: n for k, n in ms.items() if k[3].startswith("I:http%3a;//www.w3.org/ns/shacl#") and not k[3].endswith(adv)})
