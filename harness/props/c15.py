"""C15 — SHACL rules only add justified triples, in the documented order.

(B) pyshacl.shacl_rules() vs the reference rule engine of rulegen.RefRules (the procedure of the property: ascending shape order,
    ascending rule order, later rules see earlier triples, conditions checked when a rule fires, deactivated rules skipped,
    iterate_rules = repeat until nothing is added, loud iteration limit); the CONSTRUCT queries are run directly through rdflib.
    validate(advanced=True) is compared with validating the reference-expanded graph with the sh:rule triples removed.
(A) shacl_rules() and validate(advanced=True) vs Impl (`runRules`, then `runValidate` on the expanded graph).
"""
import random

import pyshacl
from rdflib import BNode, Graph, Literal, URIRef
from rdflib.namespace import RDF

import oracle_core
import rulegen
import vcase
import wire
from common import EX, NODES, SH, exc_detail, graph_from_triples


def tset(g):
    return set((wire.tkey(s), wire.tkey(p), wire.tkey(o)) for s, p, o in g)


def run_rules_code(sg, dg, iterate, focus, use_shapes):
    kw = {}
    if focus:
        kw["focus_nodes"] = [str(f) for f in focus]
    if use_shapes:
        kw["use_shapes"] = [str(s) for s in use_shapes]
    before = tset(dg)
    try:
        out = pyshacl.shacl_rules(dg, shacl_graph=sg, iterate_rules=iterate, **kw)
    except Exception as e:  # noqa
        return ("err", exc_detail(e)), before == tset(dg)
    if (URIRef("<urn:rdflib:pyshacl:shacl-rules-error>"), RDF.type, SH.ValidationFailure) in out:
        return ("err", "ValidationFailure"), before == tset(dg)
    return ("ok", tset(out)), before == tset(dg)


def parse_rules_reply(reply):
    toks = reply.split()
    if toks[0] == "err":
        return ("err", toks[1]), None
    if toks[0] != "ok":
        return ("bad", reply[:200]), None
    n = int(toks[1])
    ts = set()
    for i in range(n):
        a, b, c = toks[2 + 3 * i: 5 + 3 * i]
        ts.add((wire.tok_key(a), wire.tok_key(b), wire.tok_key(c)))
    rest = toks[2 + 3 * n:]
    val = None
    if rest and rest[0] == "VAL":
        val = vcase.parse_model(" ".join(rest[1:]))
    return ("ok", ts), val


def strip_rules(sg):
    h = Graph()
    for t in sg:
        if t[1] != SH.rule:
            h.add(t)
    return h


def gen(rng, n):
    cases = []
    for i in range(n):
        sg, data, cons = rulegen.gen_case(rng)
        dg = graph_from_triples(data)
        iterate = rng.random() < 0.5
        focus, use = [], []
        r = rng.random()
        if r < 0.12:
            focus = rng.sample(NODES, rng.randint(1, 3))
        elif r < 0.22:
            owners = sorted(set(sg.subjects(SH.rule, None)))
            use = rng.sample(owners, rng.randint(1, len(owners)))
        elif r < 0.3:
            owners = sorted(set(sg.subjects(SH.rule, None)))
            use = rng.sample(owners, rng.randint(1, len(owners)))
            focus = rng.sample(NODES, rng.randint(1, 3))
        cases.append((sg, dg, cons, iterate, focus, use))
    return cases


def corpus():
    """hand-written cases for the clauses a random case rarely isolates"""
    from rdflib import Graph
    out = []
    T = """@prefix sh: <http://www.w3.org/ns/shacl#> . @prefix ex: <http://ex.test/> .
    ex:RS a sh:NodeShape ; sh:targetNode ex:n0 ;
      sh:rule [ a sh:TripleRule ; sh:subject sh:this ; sh:predicate ex:p0 ; sh:object [ sh:path ( ex:p0 ex:p1 ) ] ;
                sh:condition [ a sh:PropertyShape ; sh:path ex:p0 ; sh:maxCount 2 ] ] .
    """
    D = """@prefix ex: <http://ex.test/> .
    ex:n0 ex:p0 ex:n1 . ex:n1 ex:p1 ex:n2 . ex:n2 ex:p1 ex:n3 . ex:n3 ex:p1 ex:n4 . ex:n4 ex:p1 ex:n5 ."""
    sg = Graph().parse(data=T, format="turtle"); dg = Graph().parse(data=D, format="turtle")
    out.append((sg, dg, {}, True, [], []))       # the condition turns false while the rule iterates
    out.append((sg, dg, {}, False, [], []))
    T2 = """@prefix sh: <http://www.w3.org/ns/shacl#> . @prefix ex: <http://ex.test/> .
    ex:RA a sh:NodeShape ; sh:order 2 ; sh:targetClass ex:C1 ;
      sh:rule [ a sh:TripleRule ; sh:subject sh:this ; sh:predicate ex:r1 ; sh:object ex:n0 ] .
    ex:RB a sh:NodeShape ; sh:order 1 ; sh:targetSubjectsOf ex:p0 ;
      sh:rule [ a sh:TripleRule ; sh:order 2 ; sh:subject sh:this ; sh:predicate <http://www.w3.org/1999/02/22-rdf-syntax-ns#type> ; sh:object ex:C1 ;
                sh:condition [ a sh:PropertyShape ; sh:path ex:r0 ; sh:minCount 1 ] ] ;
      sh:rule [ a sh:TripleRule ; sh:order 1 ; sh:subject sh:this ; sh:predicate ex:r0 ; sh:object sh:this ] .
    """
    sg2 = Graph().parse(data=T2, format="turtle")
    out.append((sg2, dg, {}, False, [], []))     # order between shapes and between rules, condition true only after an earlier rule
    out.append((sg2, dg, {}, True, [], []))
    return out


def limit_case():
    """a rule that mints a fresh blank node in every round never reaches a fixpoint: iterate_rules must end loudly"""
    from rdflib import Graph
    T = """@prefix sh: <http://www.w3.org/ns/shacl#> . @prefix ex: <http://ex.test/> .
    ex:RS a sh:NodeShape ; sh:targetNode ex:n0 ;
      sh:rule [ a sh:SPARQLRule ; sh:construct "CONSTRUCT { $this <http://ex.test/r0> [] } WHERE { }" ] .
    """
    return Graph().parse(data=T, format="turtle"), Graph().parse(data="<http://ex.test/n0> <http://ex.test/p0> <http://ex.test/n1> .", format="nt")


def run(ctx, out):
    rng = random.Random(ctx.seed * 314606869 + 15)
    quick = ctx.tier == "quick"
    cases = corpus() + gen(rng, 700 if quick else 8000)
    out.rule = ("1-3 rule-bearing shapes (distinct sh:order) x 1-3 rules (distinct sh:order, 15% with sh:deactivated, 0-2 conditions, direct "
                "or list-valued): triple rules over sh:this / constants / path expressions / sh:union, CONSTRUCT rules from the template "
                "family head{1-2} WHERE body{0-2} [FILTER NOT EXISTS {1-2}] with derived predicates and classes feeding later rules, "
                "conditions and targets; iterate_rules off/on; 30% with focus_nodes / use_shapes / both; non-trivial = distinct case "
                "in which the rules add >=1 triple")
    lines = []
    for i, (sg, dg, cons, it, focus, use) in enumerate(cases):
        # rules can move any term of either graph into a node position
        extra = set(str(t) for g in (sg, dg) for tr in g for t in tr if not isinstance(t, BNode)) | set(str(f) for f in focus)
        rx = vcase.regex_table(sg, dg, extra_strings=extra)
        rx_toks = " ".join("%s %s %s %d" % (wire.esc(p), wire.esc(f) if f else "-", wire.esc(s), 1 if b else 0) for p, f, s, b in rx)
        with wire.case_cache():
            lines.append("c%d rules iterate=%d then=1 advanced=1 FOCUS %s SHAPES %s SG %s DG %s RX %d %s %s" % (
                i, it, wire.terms(focus), wire.terms(use), wire.graph(sg), wire.graph(dg), len(rx), rx_toks, rulegen.con_tokens(cons)))
    replies = ctx.driver.ask(lines)
    lsg, ldg = limit_case()
    out.evaluations += 2
    got, _ = run_rules_code(lsg, ldg, True, [], [])
    if not (got[0] == "err" and got[1].startswith("ReportableRuntimeError")):
        out.b_fail.append({"signature": "C15:iteration-limit-not-loud", "case": vcase.describe(lsg, ldg, {"iterate_rules": True}), "got": got[0] == "ok" or got[1]})
    got, _ = run_rules_code(lsg, ldg, False, [], [])
    if not (got[0] == "ok" and len(got[1]) == 2):
        out.b_fail.append({"signature": "C15:single-pass-fresh-bnode", "case": vcase.describe(lsg, ldg, {"iterate_rules": False}), "got": got[0] == "ok" or got[1]})
    for i, (sg, dg, cons, it, focus, use) in enumerate(cases):
        out.evaluations += 1
        out.traces += 1
        case = vcase.describe(sg, dg, {"iterate_rules": it, "focus_nodes": [str(f) for f in focus], "use_shapes": [str(u) for u in use]})
        code, untouched = run_rules_code(sg, dg, it, focus, use)
        if not untouched:
            out.b_fail.append({"signature": "C15:input-graph-modified", "case": case})
        model, model_val = parse_rules_reply(replies["c%d" % i])
        if code[0] != model[0] or (code[0] == "err" and code[1].split(":")[0] != model[1].split(":")[0]) or (code[0] == "ok" and code[1] != model[1]):
            d = {"code": code[:2] if code[0] == "err" else sorted(code[1] - model[1])[:4] if model[0] == "ok" else "ok",
                 "model": model[:2] if model[0] != "ok" else sorted(model[1] - code[1])[:4] if code[0] == "ok" else "ok"}
            out.a_mismatch.append({"case": case, "diff": d, "op": "rules"})
        # (B) reference
        try:
            ref = rulegen.RefRules(sg, dg, iterate=it, focus_nodes=focus, use_shapes=use)
            want = ("ok", tset(ref.run()))
        except rulegen.LimitExceeded:
            want = ("err", "ReportableRuntimeError")
        except oracle_core.Unsupported:
            out.count("oracle_unsupported")
            continue
        if getattr(ref, "unspecified", None):
            out.count("masked_unspecified")
            for u in set(ref.unspecified):
                if u not in out.masked:
                    out.masked.append(u)
            continue
        if want[0] == "err":
            out.count("expected:limit")
            if not (code[0] == "err" and code[1].startswith("ReportableRuntimeError")):
                out.b_fail.append({"signature": "C15:iteration-limit-not-loud", "case": case, "got": code[0] == "ok" or code[1]})
            continue
        if code[0] != "ok":
            out.b_fail.append({"signature": "C15:exception:%s" % code[1], "case": case, "got": code[1]})
            continue
        base = tset(dg)
        if not base <= code[1]:
            out.b_fail.append({"signature": "C15:input-triple-lost", "case": case, "lost": sorted(base - code[1])[:3]})
        if code[1] != want[1]:
            extra, missing = sorted(code[1] - want[1]), sorted(want[1] - code[1])
            sig = "C15:%s:%s" % ("unjustified-triple" if extra else "missing-triple", "iterate" if it else "single-pass")
            out.b_fail.append({"signature": sig, "case": case, "only_in_code": extra[:4], "only_in_reference": missing[:4]})
        added = len(code[1] - base)
        if added:
            out.nontrivial.add(i)
        out.count("added:%s" % ("0" if not added else "1-3" if added < 4 else "4+"))
        out.count("iterate:%d" % it)
        out.count("restriction:%s" % ("both" if focus and use else "focus" if focus else "use_shapes" if use else "none"))
        # validate(advanced=True) sees the inferred triples
        if not focus and not use and i % 2 == 0:
            out.evaluations += 1
            adv = vcase.run_code(sg, dg, {"advanced": True, "iterate_rules": it})
            pre = vcase.run_code(strip_rules(sg), ref.g, {"advanced": True})
            if adv[0] != pre[0] or (adv[0] == "err" and adv[1] != pre[1]):
                out.b_fail.append({"signature": "C15:advanced-validate-outcome", "case": case, "advanced": adv[:2], "pre_expanded": pre[:2]})
            elif adv[0] == "ok":
                dms = vcase.declared_msg_shapes(sg)
                a, b = vcase.multiset(adv[2], dms, False), vcase.multiset(pre[2], dms, False)
                if a != b or adv[1] != pre[1]:
                    out.b_fail.append({"signature": "C15:advanced-validate-results", "case": case, "only_advanced": list((a - b).elements())[:3],
                                       "only_pre_expanded": list((b - a).elements())[:3]})
                if model_val is not None:
                    d = vcase.compare(adv, model_val, sg, with_detail=False)
                    if d:
                        out.a_mismatch.append({"case": case, "diff": d[:900], "op": "rules+validate"})
        out.sample({"iterate": it, "added": added, "focus": len(focus), "use_shapes": len(use)})
