"""C05 — SPARQL-based constraints report exactly their query's solutions, one result each.

The SPARQL engine is rdflib's and is outside the model; what is pySHACL's is the glue: forbidden-syntax screening, pre-binding,
$PATH substitution, de-duplication of solutions, mapping a solution to a result, per-result message templating.
(B) code vs the SHACL-SPARQL reference computed from the *same declared query run directly through rdflib* with $this (and
    $currentShape) pre-bound — the property's own observation point; forbidden queries must give a validation failure.
(A) code vs Impl `sparqlResults` fed with those solutions as the opaque-engine table (`validate` op).
"""
import random

from rdflib import BNode, Graph, Literal
from rdflib.namespace import RDF

import oracle_core
import shapegen
import sparqlgen
import vcase
import wire
from common import CLASSES, EX, NODES, PREDS, SH, graph_from_triples


def gen_case(rng):
    data = shapegen.gen_data(rng, literal_bias=0.45)
    # safe literals only in message-relevant positions are not needed: the glue must cope with hostile strings
    gen = shapegen.ShapeGen(rng, data)
    sparqlgen.add_prefix_decl(gen.g)
    templates = {}
    for _ in range(rng.randint(1, 2)):
        is_prop = rng.random() < 0.5
        s = gen.shape(is_prop=is_prop, n_constraints=rng.choice((0, 0, 1)), complex_path=0.25)
        gen.g.remove((s, SH.deactivated, None))
        for _ in range(rng.choice((1, 1, 2))):
            c, t = sparqlgen.gen_constraint(rng, gen.g, s, is_prop)
            templates[c] = t
    # SPARQL-based constraint components used by the shapes (and by one extra shape)
    ncomp = rng.choice((0, 1, 1, 2))
    for k in range(ncomp):
        comp, tm, params, kind = sparqlgen.gen_component(rng, gen.g, k)
        templates.update(tm)
        want_prop = True if kind == "prop_select" else False if kind in ("node_select", "node_select_union", "node_select_rebind") else None
        users = [sh_ for sh_, is_p in gen.shapes if rng.random() < 0.6 and (want_prop is None or is_p == want_prop)]
        if rng.random() < 0.6 or not users:
            users.append(gen.shape(is_prop=want_prop, n_constraints=0, complex_path=0.1))
            gen.g.remove((users[-1], SH.deactivated, None))
        for u in users:
            sparqlgen.use_component(rng, gen.g, u, params, kind, k)
    return gen.g, graph_from_triples(data), templates


def core_part(ms):
    from collections import Counter
    return Counter({k: n for k, n in ms.items() if k[3].startswith("I:http%3a;//www.w3.org/ns/shacl#") and not k[3].endswith("#SPARQLConstraintComponent")})


def run(ctx, out):
    rng = random.Random(ctx.seed * 236887691 + 5)
    quick = ctx.tier == "quick"
    n = 200 if quick else 4000
    out.rule = ("node and property shapes (all target kinds, simple and complex paths, declared sh:message on shape and constraint, "
                "severities) with 1-2 sh:sparql constraints from a template family of 15 query kinds ($this/$PATH/?value/?path/extra "
                "variables/$currentShape/re-bound ?this, and the forbidden MINUS, VALUES, SERVICE, nested SELECT with/without $this, "
                "SELECT *, AS ?this) over data with hostile strings; non-trivial = distinct case with >=1 SPARQL result")
    cases = [gen_case(rng) for _ in range(n)]
    lines = []
    for i, (sg, dg, tm) in enumerate(cases):
        sols, tmpl = sparqlgen.solution_tables(sg, dg, tm)
        lines.append(vcase.model_line("c%d" % i, sg, dg, sparql=(sols, tmpl, sparqlgen.validator_tables(sg, dg, oracle_core.Ref(sg, dg)))))
    replies = ctx.driver.ask(lines)
    for i, (sg, dg, tm) in enumerate(cases):
        out.evaluations += 1
        out.traces += 1
        code = vcase.run_code(sg, dg)
        model = vcase.parse_model(replies["c%d" % i])
        case = vcase.describe(sg, dg, queries={str(k): v["text"] for k, v in tm.items()})
        d = vcase.compare(code, model, sg, with_detail=True)
        if d:
            out.a_mismatch.append({"case": case, "diff": d[:1200], "op": "validate"})
        ref = oracle_core.Ref(sg, dg)
        ref.sparql_templates = tm
        kinds = sorted(set(t["kind"] for t in tm.values()))
        try:
            rconf, rres = ref.validate()
            expect = ("ok", rconf, rres)
        except oracle_core.ExpectFailure as e:
            expect = ("err", "ValidationFailure")
        except oracle_core.Unsupported:
            out.count("oracle_unsupported")
            continue
        except Exception as e:  # the direct query itself does not run (outside the property)
            out.count("direct_query_error:" + type(e).__name__)
            continue
        for k in kinds:
            out.count("kind:" + k)
        if ref.unspecified:
            out.count("masked_unspecified")
            continue
        if expect[0] == "err":
            if not (code[0] == "err" and code[1] == "ValidationFailure"):
                out.b_fail.append({"signature": "C05:forbidden-query-not-a-failure:" + "+".join(kinds), "case": case, "got": code[:2]})
            out.count("expected_failure")
            continue
        if code[0] != "ok":
            out.b_fail.append({"signature": "C05:exception:%s" % code[1], "case": case, "got": code[1], "kinds": kinds})
            continue
        dms = vcase.declared_msg_shapes(sg)
        a, b = vcase.multiset(code[2], dms, False), vcase.multiset(expect[2], dms, False)
        # this property speaks about the SPARQL-based components; the Core components of the same shapes are C01's subject
        # (and its recorded findings): a disagreement confined to Core results is left to that check
        core_a, core_b = core_part(a), core_part(b)
        if core_a != core_b:
            out.count("core_results_differ_left_to_C01")
            a, b = a - core_a, b - core_b
            if a == b:
                continue
            expect = (expect[0], code[1], expect[2])
        if a != b or code[1] != expect[1]:
            oc, orf = list((a - b).elements()), list((b - a).elements())
            what = "messages" if set(k[:7] for k in oc) == set(k[:7] for k in orf) and oc else ("extra" if oc and not orf else "missing" if orf and not oc else "differ")
            out.b_fail.append({"signature": "C05:%s:%s" % (what, "+".join(kinds)), "case": case, "only_in_code": oc[:3], "only_in_reference": orf[:3]})
        if any(r["component"].endswith("#SPARQLConstraintComponent") or "Comp" in r["component"] for r in code[2]):
            out.nontrivial.add(i)
        out.count("results:%s" % ("0" if not code[2] else "1+"))
        out.sample({"queries": [t["text"] for t in tm.values()], "results": len(code[2]), "conforms": code[1]})
