"""C14 — multi-graph data = union graph; mix-in / pre-inference = validating a pre-expanded graph.

(B) metamorphic, on the real code:
    1. the same triple set distributed over the default / named graphs of a Dataset and of a ConjunctiveGraph in random partitions
       vs a plain Graph: same verdict and results, under advanced / inplace / inference options;
    2. ontology Graph / Dataset + inference mode vs validating, with neither, the graph the harness expands itself with a reference
       mix-in (written from the documentation of `inoculate`) and owlrl called directly.
(A) `inoculate()` of the real code on blank-node-free ontologies vs Impl `inoculated` (driver op `inoculate`).
"""
import os
import random

import owlrl
import rdflib
from rdflib import BNode, ConjunctiveGraph, Dataset, Graph, Literal, URIRef
from rdflib.namespace import OWL, RDF, RDFS

import shapegen
import vcase
import wire
from common import CLASSES, EX, NODES, PREDS, SH, graph_from_triples


AX_CLASSES = None
AX_PROPS = None


def load_axiom_tables(ctx):
    global AX_CLASSES, AX_PROPS
    import ast
    src = open(os.path.join(os.environ.get("VERIF_REPO", "/repo"), "pyshacl/rdfutil/consts.py")).read()
    # the documented selection: RDFS / OWL vocabulary classes and properties (read from the same source the Generated table is)
    ns = {"OWL": str(OWL), "RDFS": str(RDFS)}
    lists = {}
    for n in ast.parse(src).body:
        if isinstance(n, ast.Assign) and getattr(n.targets[0], "id", "") in ("OWL_properties", "OWL_classes", "RDFS_properties", "RDFS_classes"):
            lists[n.targets[0].id] = [URIRef(ns[e.value.id] + e.attr) for e in n.value.elts]
    AX_CLASSES = set(lists["RDFS_classes"] + lists["OWL_classes"])
    AX_PROPS = set(lists["RDFS_properties"] + lists["OWL_properties"])


def copy_bnode(ont, b, dst, memo, depth=0):
    if b in memo:
        return memo[b]
    nb = BNode()
    memo[b] = nb
    if depth < 10:
        for p, o in ont.predicate_objects(b):
            dst.add((nb, p, copy_bnode(ont, o, dst, memo, depth + 1) if isinstance(o, BNode) else o))
    return nb


def ref_inoculate(data: Graph, ont: Graph) -> Graph:
    out = Graph()
    for t in data:
        out.add(t)
    memo = {}
    m = lambda x: copy_bnode(ont, x, out, memo) if isinstance(x, BNode) else x
    individuals = set(ont.subjects(RDF.type, OWL.NamedIndividual))
    for s, p, o in ont:
        if (p == RDF.type and o in AX_CLASSES) or p in AX_PROPS:
            out.add((m(s), p, m(o)))
        if s in individuals:
            out.add((s, p, m(o)))
        if o in individuals and isinstance(p, URIRef):
            out.add((m(s), p, o))
    return out


def ref_expand(g: Graph, inference: str) -> Graph:
    # which closure "rdfs" / "owlrl" / "both" denote is pySHACL's documented choice of owlrl semantics classes
    # (RDFS without the literal one-time rules); owlrl itself is called directly here
    from pyshacl.inference import CustomRDFSOWLRLSemantics, CustomRDFSSemantics
    sem = {"rdfs": CustomRDFSSemantics, "owlrl": owlrl.OWLRL_Semantics, "both": CustomRDFSOWLRLSemantics}[inference]
    owlrl.DeductiveClosure(sem).expand(g)
    return g


def both_contains_each(out, rng, n):
    """"both" denotes the closure under the RDFS rules and the OWL-RL rules together, so what either single closure derives must be
    derived under "both" as well (checked on the graph pySHACL leaves behind with inplace=True; blank-node-free triples only,
    owlrl mints blank nodes for literals).  Independent of the combined semantics class the code (and ref_expand) use."""
    import pyshacl
    from pyshacl.inference import CustomRDFSSemantics
    from rdflib import RDFS as _RDFS
    sg = Graph()
    sg.add((EX.AnyShape, RDF.type, SH.NodeShape))
    for k in range(n):
        ts = gen_ontology(rng) + shapegen.gen_data(rng, n=rng.choice((4, 8)))
        ts += [(EX["c%d" % k], RDF.type, _RDFS.ContainerMembershipProperty), (EX.n0, EX["c%d" % k], EX.n1)]
        base = graph_from_triples(ts)
        work = graph_from_triples(ts)
        try:
            pyshacl.validate(work, shacl_graph=sg, inference="both", inplace=True)
        except Exception:  # noqa
            continue
        out.evaluations += 1
        for name, sem in (("rdfs", CustomRDFSSemantics), ("owlrl", owlrl.OWLRL_Semantics)):
            single = graph_from_triples(ts)
            owlrl.DeductiveClosure(sem).expand(single)
            missing = [t for t in single if t not in work and not any(isinstance(x, BNode) for x in t)]
            if missing:
                out.b_fail.append({"signature": "C14:both-misses-%s-entailment" % name, "case": {"data_nt": base.serialize(format="nt")[:2000]},
                                   "missing": [" ".join(x.n3() for x in t) for t in missing[:4]]})
        out.count("both-contains-each")


def gen_ontology(rng):
    ts = []
    cs = CLASSES + [EX.K1, EX.K2]
    for _ in range(rng.randint(1, 4)):
        ts.append((rng.choice(cs), RDFS.subClassOf, rng.choice(cs)))
    for c in rng.sample(cs, 2):
        ts.append((c, RDF.type, rng.choice([OWL.Class, RDFS.Class])))
    for _ in range(rng.randint(0, 2)):
        p = rng.choice(PREDS)
        ts.append((p, rng.choice([RDFS.domain, RDFS.range]), rng.choice(cs)))
        ts.append((p, RDF.type, rng.choice([OWL.ObjectProperty, RDF.Property])))
    if rng.random() < 0.4:
        ts.append((PREDS[1], RDFS.subPropertyOf, PREDS[0]))
    if rng.random() < 0.3:
        ts.append((PREDS[2], OWL.inverseOf, PREDS[3]))
    if rng.random() < 0.3:
        ts.append((EX.ind, RDF.type, OWL.NamedIndividual)); ts.append((EX.ind, PREDS[0], Literal(7))); ts.append((NODES[0], PREDS[1], EX.ind))
    if rng.random() < 0.5:
        # blank-node / list axioms: K1 ≡ C0 ⊓ C1 ; p0 ∘ p1 ⊑ p2
        b, l1, l2 = BNode(), BNode(), BNode()
        ts += [(EX.K1, OWL.equivalentClass, b), (b, RDF.type, OWL.Class), (b, OWL.intersectionOf, l1), (l1, RDF.first, CLASSES[0]), (l1, RDF.rest, l2),
               (l2, RDF.first, CLASSES[1]), (l2, RDF.rest, RDF.nil)]
        c1, c2 = BNode(), BNode()
        ts += [(PREDS[2], OWL.propertyChainAxiom, c1), (c1, RDF.first, PREDS[0]), (c1, RDF.rest, c2), (c2, RDF.first, PREDS[1]), (c2, RDF.rest, RDF.nil)]
    ts.append((NODES[5], PREDS[3], Literal("not an axiom")))     # must NOT be mixed in
    ts.append((EX.onto, RDF.type, OWL.Ontology)); ts.append((EX.onto, RDFS.label, Literal("o")))
    return ts


def partition(rng, triples, kind):
    if kind == "graph":
        return graph_from_triples(triples)
    ds = Dataset() if kind == "dataset" else ConjunctiveGraph()
    names = [EX.g1, EX.g2, EX.g3] + ([URIRef("urn:x-rdflib:default")] if kind == "conjunctive" and rng.random() < 0.5 else [])
    for t in triples:
        r = rng.random()
        if kind == "dataset" and r < 0.35:
            ds.default_context.add(t)
        else:
            (ds.graph(rng.choice(names)) if kind == "dataset" else ds.get_context(rng.choice(names))).add(t)
        if rng.random() < 0.15:      # the same triple in two graphs
            (ds.graph(rng.choice(names)) if kind == "dataset" else ds.get_context(rng.choice(names))).add(t)
    return ds


def results_key(code, sg):
    dms = vcase.declared_msg_shapes(sg)
    return vcase.multiset(code[2], dms, True)


def run(ctx, out):
    both_contains_each(out, random.Random(ctx.seed * 31 + 14), 6 if ctx.tier == "quick" else 60)
    from pyshacl.rdfutil import inoculate as real_inoculate
    rng = random.Random(ctx.seed * 217645177 + 14)
    quick = ctx.tier == "quick"
    load_axiom_tables(ctx)
    out.rule = ("1: Core shapes x data triple sets x random partitions into default/named graphs of a Dataset and a ConjunctiveGraph (incl. "
                "triples duplicated across graphs) x {advanced, inplace, inference rdfs}; 2: ontologies of RDFS/OWL axioms (Graph or Dataset) "
                "x inference {rdfs, owlrl, both} x advanced x inplace vs the reference pre-expansion; non-trivial = distinct case with >=1 result")
    # ── (A) inoculate selection ───────────────────────────────────────────────────────────────
    onts = [gen_ontology(rng) for _ in range(40 if quick else 500)]
    replies = ctx.driver.ask("i%d inoculate %s" % (i, wire.graph(graph_from_triples(o))) for i, o in enumerate(onts))
    for i, o in enumerate(onts):
        out.evaluations += 1
        out.traces += 1
        og = graph_from_triples(o)
        got = set(real_inoculate(Graph(), og))
        toks = replies["i%d" % i].split()
        n = int(toks[1])
        want = set((wire.tok_key(toks[2 + 3 * k]), wire.tok_key(toks[3 + 3 * k]), wire.tok_key(toks[4 + 3 * k])) for k in range(n))
        gk = set((wire.tkey(s), wire.tkey(p), wire.tkey(oo)) for s, p, oo in got)
        # blank-node descriptions are copied under fresh labels: the model covers the IRI / literal part of the selection
        gk = set(t for t in gk if not any(x.startswith("B:") for x in t))
        want = set(t for t in want if not any(x.startswith("B:") for x in t))
        if gk != want:
            out.a_mismatch.append({"case": {"ontology_nt": og.serialize(format="nt")}, "only_code": sorted(gk - want)[:4], "only_model": sorted(want - gk)[:4], "op": "inoculate"})
    # ── (B1) union ───────────────────────────────────────────────────────────────────────────────
    for i in range(70 if quick else 1000):
        data = shapegen.gen_data(rng)
        gen = shapegen.ShapeGen(rng, data)
        for _ in range(rng.randint(1, 3)):
            gen.shape()
        sg = gen.g
        kw = rng.choice([{}, {"advanced": True}, {"inplace": True}, {"inference": "rdfs"}, {"abort_on_first": False, "allow_infos": True}])
        base = vcase.run_code(sg, partition(rng, data, "graph"), dict(kw))
        for kind in ("dataset", "conjunctive"):
            out.evaluations += 1
            part = partition(rng, data, kind)
            code = vcase.run_code(sg, part, dict(kw))
            case = vcase.describe(sg, graph_from_triples(data), dict(kw, container=kind), trig=part.serialize(format="trig"))
            if base[0] != code[0] or (base[0] == "err" and base[1] != code[1]):
                out.b_fail.append({"signature": "C14:union:outcome-differs:%s" % kind, "case": case, "graph": base[:2], "multigraph": code[:2]})
                continue
            if base[0] != "ok":
                continue
            if results_key(base, sg) != results_key(code, sg) or base[1] != code[1]:
                out.b_fail.append({"signature": "C14:union:results-differ:%s" % kind, "case": case,
                                   "only_graph": list((results_key(base, sg) - results_key(code, sg)).elements())[:3],
                                   "only_multigraph": list((results_key(code, sg) - results_key(base, sg)).elements())[:3]})
            if base[2]:
                out.nontrivial.add(("u", i, kind))
        out.sample({"part": 1, "options": kw, "results": len(base[2]) if base[0] == "ok" else base[1]})
    # ── (B1') union under SHACL rules: the premises of a rule may sit in any graph of the Dataset ─────────────────────
    for i in range(8 if quick else 60):
        sg = Graph()
        S = EX["RU%d" % i]
        sg.add((S, RDF.type, SH.NodeShape)); sg.add((S, SH.targetClass, CLASSES[0]))
        r = BNode(); sg.add((S, SH.rule, r))
        if i % 2 == 0:
            sg.add((r, RDF.type, SH.TripleRule)); sg.add((r, SH.subject, SH.this)); sg.add((r, SH.predicate, EX.derived))
            o = BNode(); sg.add((r, SH.object, o)); sg.add((o, SH.path, PREDS[0]))
        else:
            decl = BNode()
            sg.add((EX.decl, SH.declare, decl)); sg.add((decl, SH.prefix, Literal("ex"))); sg.add((decl, SH.namespace, Literal(str(EX), datatype=rdflib.XSD.anyURI)))
            sg.add((r, RDF.type, SH.SPARQLRule)); sg.add((r, SH.prefixes, EX.decl))
            sg.add((r, SH.construct, Literal("CONSTRUCT { $this ex:derived ?v } WHERE { $this <%s> ?v }" % PREDS[0])))
        ps = BNode(); sg.add((S, SH.property, ps)); sg.add((ps, SH.path, EX.derived)); sg.add((ps, SH.minCount, Literal(1)))
        if i % 3 == 0:
            sg.add((ps, SH["class"], CLASSES[1]))
        data = [(NODES[0], RDF.type, CLASSES[0]), (NODES[0], PREDS[0], NODES[1]), (NODES[2], RDF.type, CLASSES[0]),
                (NODES[3], RDF.type, CLASSES[0]), (NODES[3], PREDS[0], Literal(i))]
        if i % 4 == 1:
            data.append((NODES[1], RDF.type, CLASSES[1]))
        kw = {"advanced": True}
        if i % 4 >= 2:
            kw["inplace"] = True
        if i % 5 == 4:
            kw["iterate_rules"] = True
        base = vcase.run_code(sg, partition(rng, data, "graph"), dict(kw))
        for kind in ("dataset", "dataset", "conjunctive"):
            out.evaluations += 1
            part = partition(rng, data, kind)
            code = vcase.run_code(sg, part, dict(kw))
            case = vcase.describe(sg, graph_from_triples(data), dict(kw, container=kind), trig=part.serialize(format="trig"))
            if base[0] != code[0] or (base[0] == "err" and base[1] != code[1]):
                out.b_fail.append({"signature": "C14:union-rules:outcome-differs:%s" % kind, "case": case, "graph": base[:2], "multigraph": code[:2]})
            elif base[0] == "ok" and (results_key(base, sg) != results_key(code, sg) or base[1] != code[1]):
                out.b_fail.append({"signature": "C14:union-rules:results-differ:%s" % kind, "case": case,
                                   "only_graph": list((results_key(base, sg) - results_key(code, sg)).elements())[:3],
                                   "only_multigraph": list((results_key(code, sg) - results_key(base, sg)).elements())[:3]})
            if base[0] == "ok" and base[2]:
                out.nontrivial.add(("ur", i, kind))
        out.count("union_rules:%s" % (base[1] if base[0] == "err" else "report"))
    # ── (B2) mix-in + pre-inference = pre-expanded ──────────────────────────────────────────────
    reuse_ont = None
    for i in range(50 if quick else 800):
        data = shapegen.gen_data(rng, literal_bias=0.3)
        gen = shapegen.ShapeGen(rng, data)
        for _ in range(rng.randint(1, 3)):
            gen.shape(complex_path=0.1)
        sg = gen.g
        ont_ts = gen_ontology(rng)
        inf = rng.choice(["rdfs", "owlrl", "both", "owlrl", "none"])
        okind = rng.choice(["graph", "dataset"])
        dkind = rng.choice(["graph", "graph", "dataset"])
        kw = {"inference": inf}
        if rng.random() < 0.3:
            kw["advanced"] = True
        if rng.random() < 0.3:
            kw["inplace"] = True
        out.evaluations += 1
        for n_ in rng.sample(NODES, 3):
            data = data + [(n_, RDF.type, CLASSES[0]), (n_, RDF.type, CLASSES[1])][: rng.randint(1, 2)]
        if rng.random() < 0.5:
            sg.add((EX.KS, RDF.type, SH.NodeShape)); sg.add((EX.KS, SH.targetClass, EX.K1)); sg.add((EX.KS, SH["class"], EX.K2))
            sg.add((EX.PS, RDF.type, SH.NodeShape)); sg.add((EX.PS, SH.targetSubjectsOf, PREDS[2])); sg.add((EX.PS, SH.nodeKind, SH.Literal))
        if reuse_ont is not None and rng.random() < 0.6:
            ont, ont_ts, okind = reuse_ont          # the same ontology graph object as in an earlier call
        else:
            ont = partition(rng, ont_ts, okind)
            reuse_ont = (ont, ont_ts, okind)
        code = vcase.run_code(sg, partition(rng, data, dkind), dict(kw, ont_graph=ont))
        expanded = ref_inoculate(graph_from_triples(data), graph_from_triples(ont_ts))
        if inf != "none":
            try:
                ref_expand(expanded, inf)
            except Exception as e:  # noqa
                out.count("reference_expansion_failed")
                continue
        kw2 = {k: v for k, v in kw.items() if k not in ("inference", "inplace")}
        ref = vcase.run_code(sg, expanded, kw2)
        case = vcase.describe(sg, graph_from_triples(data), dict(kw, ont=okind, data=dkind), ontology_nt=graph_from_triples(ont_ts).serialize(format="nt"))
        if code[0] != ref[0] or (code[0] == "err" and code[1] != ref[1]):
            out.b_fail.append({"signature": "C14:preexpanded:outcome-differs", "case": case, "with_options": code[:2], "pre_expanded": ref[:2]})
            continue
        if code[0] != "ok":
            out.count("err:" + code[1])
            continue
        bn_data = set(wire.tkey(t) for tr in data for t in tr if isinstance(t, BNode))

        def drop_b(ms):
            """blank nodes copied from the ontology get fresh labels in each copy: compare them as anonymous"""
            from collections import Counter
            out_ = Counter()
            for k, v in ms.items():
                kk = tuple(("B:*" if isinstance(x, str) and x.startswith("B:") and x not in bn_data else x) for x in k[:2]) + k[2:]
                out_[kk] += v
            return out_
        a, b = drop_b(results_key(code, sg)), drop_b(results_key(ref, sg))
        if a != b or code[1] != ref[1]:
            out.b_fail.append({"signature": "C14:preexpanded:results-differ:%s" % inf, "case": case,
                               "only_with_options": list((a - b).elements())[:3], "only_pre_expanded": list((b - a).elements())[:3]})
        if code[2]:
            out.nontrivial.add(("p", i))
        out.count("inference:" + inf)
        out.sample({"part": 2, "options": kw, "ont": okind, "results": len(code[2])})


BN_DATA = []
