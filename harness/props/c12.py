"""C12 — abort_on_first changes how much is reported, never what is decided.

(B) on the real code: verdict(abort) = verdict(complete); every result reported with abort is a result of the complete run
    (possibly with fewer nested details); non-conforming always comes with >=1 result — x the four severity options.
(A) verdict of code vs Impl with abort; code's abort results within Impl's complete results.
"""
import random

import shapegen
import vcase
import wire
from common import SH, graph_from_triples
from props import c04
from props.c11 import COMBOS


def strip_detail_key(k):
    return k[:-1]


def waived_then_violation(rng):
    """a top-level shape whose one constraint only yields waivable results (a nested Warning/Info property shape) next to a
    constraint that really fails — in both triple orders, several shapes, so that each abort point is exercised"""
    from rdflib import Graph, Literal
    from rdflib.namespace import RDF
    from common import EX, NODES, PREDS, CLASSES
    sg = Graph()
    data = shapegen.gen_data(rng, n=rng.choice((8, 14)), literal_bias=0.3)
    for k in range(rng.randint(1, 3)):
        s = EX["W%d" % k]
        sg.add((s, RDF.type, SH.NodeShape))
        for f in rng.sample(NODES, 3):
            sg.add((s, SH.targetNode, f))
        ps = EX["WP%d" % k]
        first = rng.random() < 0.5
        def nested():
            sg.add((s, SH.property, ps))
            sg.add((ps, RDF.type, SH.PropertyShape))
            sg.add((ps, SH.path, rng.choice(PREDS)))
            sg.add((ps, SH.severity, rng.choice([SH.Warning, SH.Info])))
            sg.add((ps, rng.choice([SH.minCount, SH.maxCount]), Literal(rng.choice((0, 1, 5)))))
            sg.add((ps, SH.datatype, EX.dt))
        def own():
            sg.add((s, rng.choice([SH["class"], SH.nodeKind]), rng.choice([CLASSES[0], SH.Literal])))
        (nested(), own()) if first else (own(), nested())
    return ("waived-first", sg, graph_from_triples(data))


def nested_waived_then_unwaived(rng):
    """S -> sh:property P (Warning/Info) whose own constraint fails and which forwards an unwaived result of Q:
    a nested abort after P's first failing constraint would hide Q's result from the top-level verdict (fixed defect)"""
    from rdflib import Graph, Literal
    from rdflib.namespace import RDF
    from common import EX, NODES, PREDS
    sg = Graph()
    data = shapegen.gen_data(rng, n=rng.choice((6, 12)), literal_bias=0.3)
    s, p, q = EX.NS, EX.NP, EX.NQ
    sg.add((s, RDF.type, SH.NodeShape))
    for f in rng.sample(NODES, 3):
        sg.add((s, SH.targetNode, f))
    sg.add((s, SH.property, p))
    sg.add((p, RDF.type, SH.PropertyShape)); sg.add((p, SH.path, rng.choice(PREDS)))
    sg.add((p, SH.severity, rng.choice([SH.Warning, SH.Info])))
    items = [lambda: sg.add((p, SH.datatype, EX.dt)), lambda: sg.add((p, SH.property, q))]
    rng.shuffle(items)
    for it in items:
        it()
    sg.add((q, RDF.type, SH.PropertyShape)); sg.add((q, SH.path, rng.choice(PREDS)))
    sg.add((q, SH.minCount, Literal(rng.choice((1, 7)))))
    if rng.random() < 0.5:
        sg.add((q, SH.severity, rng.choice([SH.Violation, SH.Warning, EX.Custom])))
    return ("nested-waived-then-unwaived", sg, graph_from_triples(data))


def run(ctx, out):
    rng = random.Random(ctx.seed * 49979687 + 12)
    quick = ctx.tier == "quick"
    cases = c04.gen_cases(rng, 130 if quick else 2500, 4)
    for _ in range(90 if quick else 1500):
        data = shapegen.gen_data(rng)
        gen = shapegen.ShapeGen(rng, data)
        for _ in range(rng.randint(2, 4)):
            gen.shape()
        cases.append(("core", gen.g, graph_from_triples(data)))
    for _ in range(60 if quick else 800):
        cases.append(waived_then_violation(rng))
        cases.append(nested_waived_then_unwaived(rng))
    # qualified counts far apart (and the other way round), many conforming values: an early exit inside the counting loop would
    # change which of the two qualified components is reported
    from rdflib import BNode as _B, Graph, Literal as _L
    from rdflib.namespace import RDF as _RDF
    from common import EX as _EX, NODES as _NODES, SH as _SH
    for k in range(8 if quick else 60):
        g, d = Graph(), Graph()
        S, ps, q = _EX["QS%d" % k], _B(), _B()
        g.add((S, _RDF.type, _SH.NodeShape)); g.add((S, _SH.targetSubjectsOf, _EX.p0)); g.add((S, _SH.property, ps))
        g.add((ps, _SH.path, _EX.p0)); g.add((ps, _SH.qualifiedValueShape, q)); g.add((q, _SH.nodeKind, _SH.IRI))
        lo, hi = rng.choice([(4, 1), (5, 2), (3, 0), (1, 4), (2, 2), (6, 1)])
        g.add((ps, _SH.qualifiedMinCount, _L(lo))); g.add((ps, _SH.qualifiedMaxCount, _L(hi)))
        for f in rng.sample(_NODES, 2):
            for v in rng.sample(_NODES, rng.randint(3, 6)):
                d.add((f, _EX.p0, v))
            d.add((f, _EX.p0, _L("lit %d" % k)))
        cases.append(("qualified-far-apart", g, d))
    # SPARQL-based constraints and constraint components (the second loop of Shape.validate has its own abort point)
    from props import c05
    for _ in range(40 if quick else 500):
        sg_, dg_, _tm = c05.gen_case(rng)
        cases.append(("sparql-components", sg_, dg_))
    out.rule = ("multi-shape, multi-constraint and nested inputs x abort_on_first {off,on} x the 4 severity option combinations; "
                "non-trivial = distinct non-conforming case whose abort run reports fewer results than the complete run")
    lines = []
    for i, (_l, sg, dg) in enumerate(cases):
        for j, (ai, aw) in enumerate(COMBOS):
            for ab in (0, 1):
                lines.append(vcase.model_line("c%d_%d_%d" % (i, j, ab), sg, dg, {"allow_infos": ai, "allow_warnings": aw, "abort_on_first": bool(ab)}))
    replies = ctx.driver.ask(lines)
    for i, (label, sg, dg) in enumerate(cases):
        case = vcase.describe(sg, dg, label=label)
        dms = vcase.declared_msg_shapes(sg)
        for j, (ai, aw) in enumerate(COMBOS):
            o_full = {"allow_infos": ai, "allow_warnings": aw, "abort_on_first": False}
            o_ab = dict(o_full, abort_on_first=True)
            full = vcase.run_code(sg, dg, o_full)
            ab = vcase.run_code(sg, dg, o_ab)
            out.evaluations += 2
            out.traces += 2
            m_full = vcase.parse_model(replies["c%d_%d_0" % (i, j)])
            m_ab = vcase.parse_model(replies["c%d_%d_1" % (i, j)])
            no_tables = label == "sparql-components"      # (A) for SPARQL-based components needs the engine's tables: C05's check
            d = None if no_tables else vcase.compare(full, m_full, sg, with_detail=True)
            if d:
                out.a_mismatch.append({"case": dict(case, options=o_full), "diff": d[:1000], "op": "validate"})
            if full[0] != "ok" or ab[0] != "ok":
                if full[0] == "ok" and ab[0] != "ok":
                    out.b_fail.append({"signature": "C12:abort-raises:" + ab[1], "case": dict(case, options=o_ab)})
                out.count("code_err")
                continue
            if not no_tables and m_ab[0] == "ok" and m_ab[1] != ab[1]:
                out.a_mismatch.append({"case": dict(case, options=o_ab), "diff": "abort verdict: code %s model %s" % (ab[1], m_ab[1]), "op": "validate"})
            if ab[1] != full[1]:
                out.b_fail.append({"signature": "C12:verdict-differs", "case": dict(case, options=o_ab), "abort": ab[1], "complete": full[1]})
                continue
            fullset = set(strip_detail_key(k) for k in vcase.multiset(full[2], dms, with_detail=True))
            for r in ab[2]:
                if strip_detail_key(vcase.key_of(r, dms, True)) not in fullset:
                    out.b_fail.append({"signature": "C12:result-not-in-complete-run", "case": dict(case, options=o_ab), "result": r})
                    break
            if not ab[1] and len(ab[2]) == 0:
                out.b_fail.append({"signature": "C12:nonconforming-without-result", "case": dict(case, options=o_ab)})
            if not full[1] and len(ab[2]) < len(full[2]):
                out.nontrivial.add(hash(case["shapes_ttl"] + case["data_nt"]))
            out.count("abort_reports:%s" % ("same" if len(ab[2]) == len(full[2]) else "fewer"))
        out.sample({"label": label, "shapes": case["shapes_ttl"][:400]})
