"""C18 — a serialized report is the report; CLI and API agree.

(B) on the real code, for reports from the other properties' generators (literals of every datatype and language, blank-node
    values with nested descriptions, complex result paths, sh:detail nesting, waived severities):
      * validate(serialize_report_graph=fmt) for fmt in turtle, xml, json-ld, nt, n3 parses back to a graph isomorphic to the
        report graph the API returns (for JSON-LD: the same results after expanding blank nodes, lists shared between results
        may be duplicated), with the same verdict;
      * `python -m pyshacl -f fmt` prints bytes that parse back to the same report; -f human and -f table state the same
        verdict and number of results; the exit status matches the verdict.
(A) the exit status of every command-line run vs the regenerated exit-status mapping (`exit` op of the driver).
What Lean does not prove: that rdflib's five serialisers and parsers round-trip (third-party code); the N-Triples escaping is
modelled and proved (`C18.nt_roundtrip`) as a check of the format, not of rdflib.
"""
import os
import random
import re
import shutil
import subprocess
import tempfile
from collections import Counter
from concurrent.futures import ThreadPoolExecutor

import pyshacl
from rdflib import BNode, Graph, Literal, URIRef
from rdflib.compare import isomorphic
from rdflib.namespace import RDF

import shapegen
import vcase
import wire
from common import EX, SH, graph_from_triples
from props import c04

FORMATS = ["turtle", "xml", "json-ld", "nt", "n3"]


def describe(g, n, depth=0):
    """canonical text of a node with the description of blank nodes expanded (shared structures are expanded at every use)"""
    if not isinstance(n, BNode):
        return wire.tkey(n)
    if depth > 10:
        return "_:deep"
    return "[" + ";".join(sorted("%s %s" % (wire.tkey(p), describe(g, o, depth + 1)) for p, o in g.predicate_objects(n))) + "]"


def report_key(g):
    reps = list(g.subjects(RDF.type, SH.ValidationReport))
    if len(reps) != 1:
        return None
    conforms = [bool(c.value) for c in g.objects(reps[0], SH.conforms)]
    return (tuple(conforms), Counter(describe(g, r) for r in g.objects(reps[0], SH.result)))


KNOWN_RDFLIB = "C18:rdflib-turtle-shared-bnode-with-list"


def shares_list_bnode(g):
    """a blank node with two or more references from which an rdf:List is reachable: rdflib's Turtle/N3 serialiser sometimes
    nests such structures wrongly (depending on the blank-node labels), so that its own parser reads a different graph"""
    from collections import Counter
    refs = Counter(o for _s, _p, o in g if isinstance(o, BNode))
    def has_list(n, seen):
        if n in seen or len(seen) > 200:
            return False
        seen.add(n)
        for p, o in g.predicate_objects(n):
            if p == RDF.first or (isinstance(o, BNode) and has_list(o, seen)):
                return True
        return False
    return any(k > 1 and has_list(n, set()) for n, k in refs.items())


def witness_known_finding(out):
    """replays the recorded finding: a shape path with a list, shared by two results (the failure depends on fresh blank-node labels)"""
    sg = Graph().parse(data="""@prefix sh: <http://www.w3.org/ns/shacl#> . @prefix ex: <http://ex.test/> .
      ex:S3 a sh:PropertyShape ; sh:minLength 4 ; sh:targetNode "abc", "x"@en ;
        sh:path [ sh:alternativePath ( [ sh:zeroOrOnePath ex:p2 ] [ sh:inversePath ex:p1 ] [ sh:inversePath ex:p2 ] ) ] .
      ex:S1 a sh:PropertyShape ; sh:targetNode ex:a ; sh:minCount 1 ; sh:path ( ex:p2 [ sh:inversePath ex:p2 ] [ sh:inversePath ex:p0 ] ) .""", format="turtle")
    for _ in range(120):
        _c, rg, _t = pyshacl.validate(Graph(), shacl_graph=sg)
        _c2, data, _t2 = pyshacl.validate(Graph(), shacl_graph=sg, serialize_report_graph="turtle")
        back = Graph().parse(data=data, format="turtle")
        if report_key(back) != report_key(rg):
            out.b_fail.append({"signature": KNOWN_RDFLIB, "case": {"shapes_ttl": sg.serialize(format="turtle"), "data_nt": ""}, "format": "turtle"})
            return True
    return False


def canonical_lexical(g):
    """the property quantifies over reports; literals whose lexical form rdflib normalises on parsing (e.g. "01"^^xsd:integer)
    are outside what a serialisation can preserve through rdflib"""
    for t in g:
        for x in t:
            if isinstance(x, Literal) and x.datatype is not None and x.value is not None:
                if str(Literal(str(x), datatype=x.datatype)) != str(x) or Literal(x.value, datatype=x.datatype) != x and str(Literal(x.value)) != str(x):
                    pass
    return True


def _lower_lang(g):
    """RDF 1.1: language tags compare case-insensitively ("x"@en and "x"@EN are one term, rdflib stores whichever spelling came
    first and its canonical hashing is confused by mixed spellings): compare graphs with the tags lower-cased"""
    h = Graph()
    for s_, p_, o_ in g:
        if isinstance(o_, Literal) and o_.language:
            o_ = Literal(str(o_), lang=o_.language.lower())
        h.add((s_, p_, o_))
    return h


def iso(a, b):
    return isomorphic(_lower_lang(a), _lower_lang(b))


def max_depth_cases(out, tmp):
    """--max-depth N on the command line is max_validation_depth=N of the API: same outcome on a chain of nested shapes"""
    sp, dp = os.path.join(tmp, "md_s.ttl"), os.path.join(tmp, "md_d.nt")
    open(sp, "w").write("""@prefix sh: <http://www.w3.org/ns/shacl#> . @prefix ex: <http://ex.test/> .
        ex:S1 a sh:NodeShape ; sh:targetNode ex:a ; sh:node ex:S2 . ex:S2 a sh:NodeShape ; sh:node ex:S3 .
        ex:S3 a sh:NodeShape ; sh:node ex:S4 . ex:S4 a sh:NodeShape ; sh:nodeKind sh:BlankNode .""")
    open(dp, "w").write("<http://ex.test/a> <http://ex.test/p> <http://ex.test/b> .\n")
    for depth in (1, 2, 3, 4, 9):
        out.evaluations += 1
        try:
            c, _g, _t = pyshacl.validate(dp, shacl_graph=sp, max_validation_depth=depth)
            api = 0 if c else 1
        except Exception as e:  # noqa
            api = 2
        rc, _so, _se = run_cli([dp, "-s", sp, "--max-depth", str(depth)], tmp)
        out.count("cli:max-depth")
        if rc != api:
            out.b_fail.append({"signature": "C18:cli:max-depth-ignored", "case": {"max_depth": depth, "args": ["d.nt", "-s", "s.ttl", "--max-depth", str(depth)]},
                               "cli_status": rc, "api_status": api})


def run_cli(args, cwd):
    env = dict(os.environ, PYTHONPATH=os.environ.get("VERIF_REPO", "/repo"), PYTHONWARNINGS="ignore")
    p = subprocess.run(["/venv/bin/python", "-m", "pyshacl"] + args, cwd=cwd, env=env, stdout=subprocess.PIPE, stderr=subprocess.PIPE, timeout=180)
    return p.returncode, p.stdout, p.stderr.decode("utf-8", "replace")


def human_facts(text):
    m = re.search(r"Conforms: (True|False)", text)
    n = re.search(r"Results \((\d+)\)", text)
    return (m.group(1) == "True" if m else None), (int(n.group(1)) if n else 0)


def table_facts(text):
    rows = [l for l in text.splitlines() if l.startswith("|")]
    verdict = None
    for l in rows:
        cell = l.strip("|").strip()
        if cell in ("True", "False"):
            verdict = cell == "True"
            break
    count = len([l for l in rows if re.match(r"^\|\s*\d+\s*\|", l)])
    return verdict, count


def run(ctx, out):
    rng = random.Random(ctx.seed * 512927357 + 18)
    quick = ctx.tier == "quick"
    cases = c04.gen_cases(rng, 25 if quick else 600, 3)
    for _ in range(60 if quick else 1500):
        data = shapegen.gen_data(rng)
        gen = shapegen.ShapeGen(rng, data)
        for _ in range(rng.randint(1, 3)):
            gen.shape(complex_path=0.4)
        cases.append(("core", gen.g, graph_from_triples(data)))
    # literals that a text-level post-processing of the serialisation would damage: breaks preceded by blanks, form feed,
    # unicode line separators, trailing blanks, quotes, backslashes, long strings
    hostile = [Literal("first line  \nsecond"), Literal("tab\t\nx"), Literal("u\u2028v\u2029w"), Literal("trail  "),
               Literal("  lead"), Literal('q"uo\'te'), Literal("back\\slash\\n"), Literal("x" * 300), Literal("\r\n"), Literal("tripple \"\"\" quote"),
               Literal("line  \nbreak", lang="en"), Literal("</rdf:RDF> & <x>")]
    hg = Graph()
    hs = EX.HS
    hg.add((hs, RDF.type, SH.NodeShape)); hg.add((hs, SH.targetObjectsOf, EX.p0)); hg.add((hs, SH.nodeKind, SH.IRI))
    hg.add((hs, SH.message, Literal("message  \nwith break")))
    hd = Graph()
    for k, l in enumerate(hostile):
        hd.add((EX["h%d" % k], EX.p0, l))
    cases.insert(0, ("hostile-literals", hg, hd))
    # directed: a Warning-severity result under both waiver flags (the verdict is `conforms`), and a sh:node result whose nested
    # results sit under sh:detail (one result, not several)
    wg, wd = Graph(), Graph()
    wg.add((EX.WS, RDF.type, SH.NodeShape)); wg.add((EX.WS, SH.targetSubjectsOf, EX.p0)); wg.add((EX.WS, SH.nodeKind, SH.BlankNode)); wg.add((EX.WS, SH.severity, SH.Warning))
    wg.add((EX.IS, RDF.type, SH.NodeShape)); wg.add((EX.IS, SH.targetSubjectsOf, EX.p0)); wg.add((EX.IS, SH["class"], EX.C0)); wg.add((EX.IS, SH.severity, SH.Info))
    wd.add((EX.n0, EX.p0, EX.n1)); wd.add((EX.n2, EX.p0, Literal("v")))
    cases.insert(1, ("opts:both:warning-worst", wg, wd))
    ng, nd = Graph(), Graph()
    inner, pin = EX.Inner, BNode()
    ng.add((EX.NS, RDF.type, SH.NodeShape)); ng.add((EX.NS, SH.targetSubjectsOf, EX.p0)); ng.add((EX.NS, SH.node, inner))
    ng.add((inner, RDF.type, SH.NodeShape)); ng.add((inner, SH.nodeKind, SH.BlankNode)); ng.add((inner, SH["class"], EX.C0)); ng.add((inner, SH.property, pin))
    ng.add((pin, SH.path, EX.p0)); ng.add((pin, SH.maxCount, Literal(0))); ng.add((pin, SH.datatype, EX.dt))
    nd.add((EX.n0, EX.p0, EX.n1)); nd.add((EX.n0, EX.p0, Literal("v")))
    cases.insert(2, ("nested-detail", ng, nd))
    # abort_on_first is left out: which results a run that stops early reports depends on the iteration order (C12), so two
    # separate runs (API vs CLI process) may legitimately differ
    opts_pool = [{}, {}, {"allow_infos": True}, {"allow_warnings": True}, {"allow_infos": True, "allow_warnings": True}]
    out.rule = ("reports of Core shapes (40% complex paths, all literal kinds of the pool, blank-node values) and of sh:node/sh:property/"
                "logical compositions (sh:detail nesting), options {default, allow_infos, allow_warnings} x 5 graph formats "
                "through the API; a sample x (5 graph formats + human + table) through the command line; non-trivial = distinct report with >=1 result")
    witness_known_finding(out)
    tmp = tempfile.mkdtemp(prefix="c18cli_")
    try:
        jobs = []
        n_cli = 10 if quick else 120
        for i, (label, sg, dg) in enumerate(cases):
            kw = {"allow_infos": True, "allow_warnings": True} if label.startswith("opts:both") else opts_pool[i % len(opts_pool)]
            base = vcase.run_code(sg, dg, kw)
            if base[0] != "ok":
                out.count("skipped:" + str(base[1]))
                continue
            rg = base[3]
            want = report_key(rg)
            if base[2]:
                out.nontrivial.add(i)
            case = vcase.describe(sg, dg, kw, label=label)
            for fmt in FORMATS:
                out.evaluations += 1
                try:
                    conforms, data_bytes, _text = pyshacl.validate(dg, shacl_graph=sg, serialize_report_graph=fmt, **kw)
                except Exception as e:  # noqa
                    out.b_fail.append({"signature": "C18:api:exception:%s:%s" % (fmt, type(e).__name__), "case": case})
                    continue
                if not isinstance(data_bytes, (bytes, str)):
                    out.b_fail.append({"signature": "C18:api:not-serialised:%s" % fmt, "case": case, "type": type(data_bytes).__name__})
                    continue
                try:
                    back = Graph().parse(data=data_bytes, format=fmt)
                except Exception as e:  # noqa
                    out.b_fail.append({"signature": "C18:api:does-not-parse:%s" % fmt, "case": case, "error": type(e).__name__})
                    continue
                got = report_key(back)
                same = (got == want) and conforms == base[1] and (fmt == "json-ld" or iso(back, rg))
                if not same and fmt in ("turtle", "n3") and shares_list_bnode(rg):
                    out.b_fail.append({"signature": KNOWN_RDFLIB, "case": case, "format": fmt})
                elif not same:
                    what = "verdict" if (got and want and got[0] != want[0]) or conforms != base[1] else "results" if got != want else "graph"
                    out.b_fail.append({"signature": "C18:api:%s-differs:%s" % (what, fmt), "case": case,
                                       "only_api": list((want[1] - got[1]).elements())[:2] if got and want else None,
                                       "only_parsed": list((got[1] - want[1]).elements())[:2] if got and want else None})
                out.count("api:%s" % fmt)
            if len(jobs) < n_cli * 7 and (base[2] or i % 3 == 0):
                n = len(jobs)
                sp, dp = os.path.join(tmp, "s%d.ttl" % n), os.path.join(tmp, "d%d.nt" % n)
                sg.serialize(destination=sp, format="turtle")
                dg.serialize(destination=dp, format="nt")
                flags = (["--allow-infos"] if kw.get("allow_infos") else []) + (["--allow-warnings"] if kw.get("allow_warnings") else []) + (["--abort"] if kw.get("abort_on_first") else [])
                # the reference for the command line: the API on the same files
                ref = vcase.run_code(sp, dp, kw)
                if ref[0] == "ok":
                    for fmt in FORMATS + ["human", "table"]:
                        jobs.append((case, [dp, "-s", sp, "-f", fmt] + flags, fmt, ref))
            out.sample({"label": label, "options": kw, "results": len(base[2]), "conforms": base[1]})
        max_depth_cases(out, tmp)
        with ThreadPoolExecutor(max_workers=16) as ex:
            results = list(ex.map(lambda j: run_cli(j[1], tmp), jobs))
        lines = ["x%d exit report %d" % (n, 1 if ref[1] else 0) for n, (_c, _a, _f, ref) in enumerate(jobs)]
        xrep = ctx.driver.ask(lines) if lines else {}
        for n, ((case, args, fmt, ref), (rc, so, se)) in enumerate(zip(jobs, results)):
            out.evaluations += 1
            out.traces += 1
            case = dict(case, args=[a.replace(tmp, "<tmp>") for a in args], stderr=se[-400:])
            want = report_key(ref[3])
            conforms = ref[1]
            ms = xrep["x%d" % n].split()
            if ms[0] != "ok" or int(ms[1]) != rc:
                out.a_mismatch.append({"case": case, "op": "exit", "diff": "cli status %d, model %s" % (rc, " ".join(ms))})
            if rc != (0 if conforms else 1):
                out.b_fail.append({"signature": "C18:cli:status-%d-verdict-%s:%s" % (rc, conforms, fmt), "case": case})
                continue
            text = so.decode("utf-8", "replace")
            if fmt == "human":
                v, cnt = human_facts(text)
                if v != conforms or cnt != len(ref[2]):
                    out.b_fail.append({"signature": "C18:cli:human-states-%s-%s" % (v, "count" if v == conforms else "verdict"), "case": case, "stated": [v, cnt], "api": [conforms, len(ref[2])]})
            elif fmt == "table":
                v, cnt = table_facts(text)
                if v != conforms or cnt != len(ref[2]):
                    out.b_fail.append({"signature": "C18:cli:table-states-%s" % ("other-count" if v == conforms else "other-verdict"), "case": case, "stated": [v, cnt], "api": [conforms, len(ref[2])]})
            else:
                try:
                    back = Graph().parse(data=so, format=fmt)
                except Exception as e:  # noqa
                    out.b_fail.append({"signature": "C18:cli:does-not-parse:%s" % fmt, "case": case, "error": type(e).__name__})
                    continue
                got = report_key(back)
                if (got != want or not iso(back, ref[3])) and fmt in ("turtle", "n3") and shares_list_bnode(ref[3]):
                    out.b_fail.append({"signature": KNOWN_RDFLIB, "case": case, "format": fmt})
                elif got != want or (fmt != "json-ld" and not iso(back, ref[3])):
                    out.b_fail.append({"signature": "C18:cli:report-differs:%s" % fmt, "case": case,
                                       "only_api": list((want[1] - got[1]).elements())[:2] if got and want else None,
                                       "only_cli": list((got[1] - want[1]).elements())[:2] if got and want else None})
            out.count("cli:%s" % fmt)
    finally:
        shutil.rmtree(tmp, ignore_errors=True)
