"""C03 — property-path value nodes follow SPARQL 1.1 semantics.

(A) code (validate() with a property shape failing on every value node)  vs  Impl `Path.eval`
(B) code  vs  `Path.evalPure` (proved ↔ the SPARQL 1.1 relation `PathRel` for every input:
    theorem evalPure_correct), cross-checked against rdflib's own SPARQL property-path engine.
"""
import random

import pyshacl
import rdflib
from rdflib import BNode, Graph, Literal, URIRef
from rdflib.collection import Collection
from rdflib.namespace import RDF, XSD

import pathgen
import wire
from common import EX, NODES, PREDS, SH, exc_detail, graph_from_triples, report_results

PATH_CAP = 10  # overwritten from Generated caps by ./check


def gen_data(rng, n_triples):
    objs = NODES + [Literal("x"), Literal(3), BNode("db1"), BNode("db2")]
    subs = NODES + [BNode("db1"), BNode("db2")]
    ts = set()
    style = rng.random()
    for _ in range(n_triples):
        s = rng.choice(subs)
        p = rng.choice(PREDS[:3])
        if style < 0.25 and rng.random() < 0.5:
            o = s  # self loops
        else:
            o = rng.choice(objs)
        ts.add((s, p, o))
    if style > 0.6:
        # a cycle through p0
        k = rng.randint(2, 4)
        cyc = rng.sample(NODES, k)
        for i in range(k):
            ts.add((cyc[i], PREDS[0], cyc[(i + 1) % k]))
    return sorted(ts, key=lambda t: tuple(wire.tkey(x) for x in t))


FOCI = NODES[:5] + [EX["absent"], Literal("x")]


def build_shapes(path_ast):
    sg = Graph()
    pnode = pathgen.encode(sg, path_ast)
    s = EX["S"]
    sg.add((s, RDF.type, SH.PropertyShape))
    sg.add((s, SH.path, pnode))
    lst = BNode("inlist")
    Collection(sg, lst, [EX["never"]])
    sg.add((s, SH["in"], lst))
    for f in FOCI:
        sg.add((s, SH.targetNode, f))
    return sg, pnode


def run_code(sg, dg):
    """value nodes per focus as the property's observation point prescribes"""
    try:
        conforms, rg, text = pyshacl.validate(dg, shacl_graph=sg, inference="none")
    except Exception as e:  # noqa
        return ("err", exc_detail(e))
    res = report_results(rg)
    per = {wire.tkey(f): set() for f in FOCI}
    for r in res:
        per[wire.tkey(r["focus"][0])].add(wire.tkey(r["value"][0]))
    return ("ok", per)


def parse_driver(reply):
    """`ok F <focus> <n> v… | E <focus> <err>` for eval and, after `PURE`, for evalPure"""
    toks = reply.split()
    if toks[0] != "ok":
        return None, None
    def parse(toks):
        per, err, i = {}, None, 0
        while i < len(toks):
            if toks[i] == "F":
                f = wire.tok_key(toks[i + 1]); n = int(toks[i + 2])
                per[f] = set(wire.tok_key(t) for t in toks[i + 3 : i + 3 + n])
                i += 3 + n
            elif toks[i] == "E":
                err = toks[i + 2]
                i += 3
            else:
                raise ValueError(reply[:200])
        return per, err
    k = toks.index("PURE")
    return parse(toks[1:k]), parse(toks[k + 1 :])


def sparql_oracle(dg, path_ast, f):
    q = "SELECT DISTINCT ?v WHERE { %s %s ?v }" % (f.n3(), pathgen.sparql(path_ast))
    return set(wire.tkey(r[0]) for r in dg.query(q))


def run(ctx, out):
    rng = random.Random(ctx.seed * 1000003 + 3)
    quick = ctx.tier == "quick"
    paths = [("corpus", a) for a in CORPUS_PATHS]
    paths += [("enum", a) for a in pathgen.enum_paths(PREDS[:2], 1)]
    n_rand = 260 if quick else 4000
    for _ in range(n_rand):
        paths.append(("rand", pathgen.rand_path(rng, PREDS[:3], rng.choice((2, 3, 4, 4)))))
    # deep paths around the cap: sequences and unary chains of 8..12 levels
    for d in range(7, 13):
        a = ("p", PREDS[0])
        for i in range(d):
            a = (("opt", "inv", "star")[i % 3], a)
        paths.append(("deep", a))
        paths.append(("deep", ("seq", [("p", PREDS[i % 2]) for i in range(d + 1)])))
    out.rule = ("paths: corpus + exhaustive nesting<=1 over 2 predicates + random nesting 2..4 over 3 predicates + chains "
                "around the recursion cap; x random data graphs (cycles, self-loops, literal/bnode objects) x 7 foci "
                "(incl. a node absent from the data and a literal); non-trivial = distinct (path, graph) with >=1 non-empty "
                "and >=1 empty value set")
    cases = []
    for kind, a in paths:
        for gi in range(2 if (quick or kind == "deep") else 3):
            data = gen_data(rng, rng.choice((3, 6, 10, 16)))
            cases.append((kind, a, data))
    # closures that have to walk *through* a literal: the inner path contains an inverse step, the literal is the object of
    # several subjects (a literal has no outgoing edges, but it has incoming ones)
    P, Q = ("p", PREDS[0]), ("p", PREDS[1])
    hub_paths = [("plus", ("alt", [Q, ("inv", P)])), ("star", ("alt", [P, ("inv", P)])), ("plus", ("seq", [P, ("inv", P)])),
                 ("star", ("seq", [Q, ("inv", Q)])), ("plus", ("alt", [("inv", Q), P])), ("opt", ("seq", [P, ("inv", P)])),
                 ("seq", [("star", ("alt", [P, ("inv", P)])), Q]), ("inv", ("plus", ("alt", [P, ("inv", Q)])))]
    for a in hub_paths:
        for gi in range(2 if quick else 6):
            hub, hub2 = Literal("x"), Literal(rng.choice([7, 0, True]))
            data = [(NODES[0], PREDS[1], hub), (NODES[2], PREDS[0], hub), (NODES[2], PREDS[1], NODES[3]), (NODES[4], PREDS[0], hub2),
                    (NODES[1], PREDS[0], hub2), (NODES[1], PREDS[1], hub), (NODES[3], PREDS[0], Literal("leaf"))]
            data += gen_data(rng, rng.choice((0, 3, 6)))
            cases.append(("lit-hub", a, sorted(set(data), key=lambda t: tuple(wire.tkey(x) for x in t))))
    lines, meta = [], {}
    for i, (kind, a, data) in enumerate(cases):
        sg, pnode = build_shapes(a)
        dg = graph_from_triples(data)
        cid = "c%d" % i
        meta[cid] = (kind, a, data, sg, dg, pnode)
        lines.append("%s path %d %s %s %s %s" % (cid, ctx.caps.get("path_depth", PATH_CAP), wire.term(pnode), wire.terms(FOCI), wire.graph(sg), wire.graph(dg)))
    replies = ctx.driver.ask(lines)
    for cid, (kind, a, data, sg, dg, pnode) in meta.items():
        out.evaluations += 1
        out.count("kind:" + kind)
        out.count("depth:%d" % pathgen.path_depth(a))
        out.count("cost:%d" % pathgen.cost(a))
        code = run_code(sg, dg)
        (m_per, m_err), (p_per, p_err) = parse_driver(replies[cid])
        out.traces += 1
        case = {"path": pathgen.show(a), "path_ast": repr(a), "shapes_ttl": sg.serialize(format="turtle"),
                "data_nt": dg.serialize(format="nt"), "foci": [str(f) for f in FOCI]}
        if code[0] == "err":
            out.count("code_err:" + code[1])
            if m_err != code[1]:
                out.a_mismatch.append({"case": case, "code": code[1], "model": m_err or "ok", "op": "path"})
            # (B): a well-formed path within the supported depth must not fail
            if pathgen.cost(a) <= ctx.caps.get("path_depth", PATH_CAP):
                out.b_fail.append({"signature": "C03:error-on-supported-path:" + code[1], "case": case, "got": code[1]})
            continue
        per = code[1]
        if m_err is not None:
            out.a_mismatch.append({"case": case, "code": "ok", "model": m_err, "op": "path"})
        else:
            for f in FOCI:
                fk = wire.tkey(f)
                if per[fk] != m_per.get(fk):
                    out.a_mismatch.append({"case": case, "focus": str(f), "code": sorted(per[fk]), "model": sorted(m_per.get(fk, [])), "op": "path"})
                    break
        # (B) against the proved-correct evaluation
        nonempty = empty = 0
        for f in FOCI:
            fk = wire.tkey(f)
            want = p_per[fk]
            if per[fk] != want:
                out.b_fail.append({"signature": "C03:value-nodes-differ", "case": case, "focus": str(f),
                                   "got": sorted(per[fk]), "expected": sorted(want)})
                break
            if want:
                nonempty += 1
            else:
                empty += 1
        if nonempty and empty:
            out.nontrivial.add((pathgen.show(a), tuple(map(str, data))))
        # cross-check of the Spec reading against rdflib's SPARQL engine (not a verdict)
        if ctx.tier == "thorough" or (out.evaluations % 5 == 0):
            for f in FOCI[:6]:
                try:
                    sq = sparql_oracle(dg, a, f)
                except Exception:
                    out.count("sparql_oracle_error")
                    continue
                out.count("sparql_crosschecks")
                if sq != p_per[wire.tkey(f)]:
                    out.count("sparql_crosscheck_disagreements")
                    out.notes.append("rdflib SPARQL engine disagrees with Spec on %s from %s: %s vs %s" % (pathgen.show(a), f, sorted(sq), sorted(p_per[wire.tkey(f)])))
        out.sample({"path": pathgen.show(a), "triples": len(data), "value_nodes": {k: sorted(v) for k, v in list(per.items())[:3]}})


P0, P1, P2 = (("p", p) for p in PREDS[:3])
CORPUS_PATHS = [
    ("inv", ("seq", [P0, P1])),                 # defect #6 (fixed): ^(p/q)
    ("inv", ("seq", [P0, P1, P2])),
    ("inv", ("star", P0)),                      # seeded: inverse flag lost in the closure loop
    ("inv", ("star", ("alt", [P0, P1]))),
    ("plus", P0), ("plus", ("alt", [P0, P1])),  # seeded: self loop under one-or-more
    ("star", ("seq", [P0, ("inv", P1)])),
    ("opt", ("inv", ("plus", P0))),
    ("seq", [("inv", ("seq", [P0, P1])), ("star", P2)]),
]
