"""C04 — logical / shape-based components compose by conformance, not by leaked results.

(A) code vs Impl incl. the nested sh:detail structure   (B) code vs the W3C reference (top-level results;
sh:detail is optional in the Recommendation, but whatever is nested must be results of the sh:node shape).
"""
import random

import oracle_core
import shapegen
import vcase
import wire
from common import SH, graph_from_triples


def check(ctx, out, sg, dg, reply, label, opts=None):
    out.evaluations += 1
    out.traces += 1
    code = vcase.run_code(sg, dg, opts)
    model = vcase.parse_model(reply)
    case = vcase.describe(sg, dg, opts, label=label)
    d = vcase.compare(code, model, sg, with_detail=True)
    if d:
        out.a_mismatch.append({"case": case, "diff": d[:1500], "op": "validate"})
    if code[0] != "ok":
        out.count("code:" + code[1])
        out.b_fail.append({"signature": "C04:exception:" + code[1], "case": case, "got": code[1]})
        return None
    ref = oracle_core.Ref(sg, dg)
    try:
        rconf, rres = ref.validate()
    except oracle_core.Unsupported:
        out.count("oracle_unsupported")
        return code
    except RecursionError:
        out.count("oracle_recursion")
        return code
    if ref.unspecified:
        out.count("masked_unspecified")
        for u in set(ref.unspecified):
            if u not in out.masked:
                out.masked.append(u)
        return code
    dms = vcase.declared_msg_shapes(sg)
    a = vcase.multiset(code[2], dms, with_detail=False)
    b = vcase.multiset(rres, dms, with_detail=False)
    # the open C01 finding (sh:closed never reports (v rdf:type rdfs:Resource)) is C01's subject, printed by C01's check: it is not a
    # statement about composition; such a reference-only result is set aside here (nothing else is)
    RES, TYP = "I:http%3a;//www.w3.org/2000/01/rdf-schema#Resource", "I:http%3a;//www.w3.org/1999/02/22-rdf-syntax-ns#type"
    c01_known = [k for k in (b - a).elements() if k[1] == RES and k[2] == TYP and k[3].endswith("#ClosedConstraintComponent")]
    if c01_known:
        out.count("set-aside:C01:closed-exempts-rdf:type-rdfs:Resource", len(c01_known))
        for k in c01_known:
            b[k] -= 1
        b += type(b)()   # drop zero counts
        if not code[2] and rconf is False and not list(b.elements()):
            rconf = True
    if a != b or code[1] != rconf:
        oc, orf = list((a - b).elements()), list((b - a).elements())
        comp = (oc or orf or [("", "", "", "#verdict")])[0][3].rsplit("#", 1)[-1].replace("ConstraintComponent", "")
        out.b_fail.append({"signature": "C04:%s:%s" % ("extra" if oc else "missing" if orf else "verdict", comp), "case": case,
                           "only_in_code": oc[:4], "only_in_reference": orf[:4], "verdict_code": code[1], "verdict_reference": rconf})
    # leaked results: every detail must be a result the reference gives for (node shape, value)
    for r in code[2]:
        if r["detail"] and not r["component"].endswith("#NodeConstraintComponent"):
            out.b_fail.append({"signature": "C04:detail-outside-sh:node", "case": case, "result": r})
    n = len(code[2])
    comps = set(r["component"].rsplit("#", 1)[-1].replace("ConstraintComponent", "") for r in code[2])
    for c in comps:
        out.count("comp:" + c)
    out.count("results:%s" % ("0" if n == 0 else "1-3" if n < 4 else "4+"))
    if n > 0:
        out.nontrivial.add(hash(case["shapes_ttl"] + case["data_nt"]))
    out.sample({"label": label, "shapes": case["shapes_ttl"][:700], "results": n, "conforms": code[1]})
    return code


def gen_cases(rng, n, max_depth=4):
    cases = []
    for i in range(n):
        data = shapegen.gen_data(rng, literal_bias=0.4)
        gen = shapegen.CompGen(rng, data)
        for _ in range(rng.choice((1, 1, 2))):
            if rng.random() < 0.15:
                gen.waivable_parent(rng.randint(1, 3))
            else:
                gen.top(rng.randint(1, max_depth))
        cases.append(("comp", gen.g, graph_from_triples(data)))
    return cases


def run(ctx, out):
    rng = random.Random(ctx.seed * 15485863 + 4)
    quick = ctx.tier == "quick"
    cases = gen_cases(rng, 400 if quick else 5000, 4 if quick else 6)
    out.rule = ("non-recursive compositions of sh:not/and/or/xone/node/property/qualifiedValueShape (incl. disjoint sibling shapes, shared "
                "members, deactivated members, mixed severities, declared messages, named and anonymous members) to depth <= 4 (thorough: 6) "
                "over Core leaf shapes, x random data; non-trivial = distinct case with >=1 result")
    replies = ctx.driver.ask(vcase.model_line("c%d" % i, sg, dg) for i, (_l, sg, dg) in enumerate(cases))
    for i, (label, sg, dg) in enumerate(cases):
        check(ctx, out, sg, dg, replies["c%d" % i], label)
