"""C13 — focus_nodes / use_shapes select a sub-report of the full validation.

(B) as the property prescribes, on the real code: run with the selection options, and run WITHOUT them on a
    target-rewritten copy of the shapes graph; verdict and result multiset (with nested details) must be equal.
      focus_nodes=F        : every shape's targets narrowed to the nodes of F it already targets
      use_shapes=U         : target declarations of all other shapes removed
      both                 : every shape of U applied to every node of F, irrespective of targets
(A) code vs Impl with the options.

Rules family ((B) only): the same equivalence with advanced=True and SHACL rules (iterate_rules off / on).  To keep "the nodes of F
the shape already targets" unambiguous while rules change the graph, every shape's targets are first made static (sh:targetNode of
what it targets on the input data); then validate(advanced, iterate_rules, focus_nodes=F) must equal validate(advanced, iterate_rules)
on the copy whose sh:targetNode sets are intersected with F — for the report and for the rules' effect on it (a rule must not fire
for a target outside F, neither in its first pass nor in a later iteration).
"""
import itertools
import random

from rdflib import BNode, Graph, Literal, URIRef
from rdflib.namespace import RDF, RDFS

import oracle_core
import rulegen
import shapegen
import vcase
import wire
from common import EX, NODES, SH, graph_from_triples

TARGET_PREDS = (SH.targetNode, SH.targetClass, SH.targetSubjectsOf, SH.targetObjectsOf)
OWL_CLASS = URIRef("http://www.w3.org/2002/07/owl#Class")


def strip_targets(g: Graph, s):
    for p in TARGET_PREDS:
        g.remove((s, p, None))
    g.remove((s, RDF.type, RDFS.Class))
    g.remove((s, RDF.type, OWL_CLASS))


def copy_graph(g: Graph) -> Graph:
    h = Graph()
    for t in g:
        h.add(t)
    return h


def all_shapes(sg: Graph):
    return set(oracle_core.Ref(sg, Graph()).shapes())


def rewrite_focus(sg, dg, F):
    ref = oracle_core.Ref(sg, dg)
    h = copy_graph(sg)
    for s in ref.shapes():
        t = ref.targets(s)
        strip_targets(h, s)
        for f in t:
            if f in F:
                h.add((s, SH.targetNode, f))
    return h


def rewrite_shapes(sg, U):
    h = copy_graph(sg)
    for s in all_shapes(sg):
        if s not in U:
            strip_targets(h, s)
    return h


def rewrite_both(sg, U, F):
    h = copy_graph(sg)
    for s in all_shapes(sg):
        strip_targets(h, s)
    for s in U:
        for f in F:
            h.add((s, SH.targetNode, f))
    return h


def gen_case(rng):
    data = shapegen.gen_data(rng, literal_bias=0.35)
    gen = shapegen.CompGen(rng, data)
    tops = []
    for _ in range(rng.randint(2, 3)):
        if rng.random() < 0.6:
            tops.append(gen.top(rng.randint(1, 3)))
        else:
            s = gen.shape(named=True)
            tops.append(s)
    # no implicit class targets / deactivated selected shapes ambiguity: keep explicit targets only
    return gen.g, graph_from_triples(data), [s for s in tops if isinstance(s, URIRef)]


def make_static(sg, dg):
    """every shape's targets as sh:targetNode of what it targets on the input data"""
    ref = oracle_core.Ref(sg, dg)
    h = copy_graph(sg)
    for s in ref.shapes():
        t = list(ref.targets(s))
        strip_targets(h, s)
        for f in t:
            h.add((s, SH.targetNode, f))
    return h


def directed_rule_case(rng):
    """a rule shape with static targets T whose rule derives a fact about each target, and a check on the targets' neighbours that
    depends on that fact: with focus_nodes=F the neighbours outside F must stay underived — in every iteration of the rule"""
    sg, dg = Graph(), Graph()
    T = rng.sample(NODES, rng.randint(2, 4))
    q, d = EX.link, EX.Derived
    for t in T:
        dg.add((t, RDF.type, EX.Thing))
        for u in rng.sample(T, rng.randint(1, 2)):
            dg.add((t, q, u))
    S = EX.RuleShape
    sg.add((S, RDF.type, SH.NodeShape))
    for t in T:
        sg.add((S, SH.targetNode, t))
    r = BNode()
    sg.add((S, SH.rule, r))
    kind = rng.choice(["triple-type", "triple-prop", "sparql"])
    if kind == "sparql":
        sg.add((r, RDF.type, SH.SPARQLRule))
        sg.add((r, SH.construct, Literal("CONSTRUCT { $this a <%s> } WHERE { $this a <%s> }" % (d, EX.Thing))))
    else:
        sg.add((r, RDF.type, SH.TripleRule))
        sg.add((r, SH.subject, SH.this))
        sg.add((r, SH.predicate, RDF.type if kind == "triple-type" else EX.mark))
        sg.add((r, SH.object, d))
    if rng.random() < 0.5:
        # a second rule that only becomes applicable after the first one (needs a second pass with iterate_rules)
        r2, c = BNode(), BNode()
        sg.add((S, SH.rule, r2))
        sg.add((r2, RDF.type, SH.TripleRule))
        sg.add((r2, SH.order, Literal(0)))
        sg.add((r, SH.order, Literal(1)))
        sg.add((r2, SH.subject, SH.this))
        sg.add((r2, SH.predicate, EX.second))
        sg.add((r2, SH.object, d))
        sg.add((r2, SH.condition, c))
        sg.add((c, SH["class"] if kind != "triple-prop" else SH.hasValue, d))
        if kind == "triple-prop":
            sg.remove((c, SH.hasValue, d))
            pc = BNode()
            sg.add((c, SH.property, pc))
            sg.add((pc, SH.path, EX.mark))
            sg.add((pc, SH.hasValue, d))
    V = EX.CheckShape if rng.random() < 0.5 else S
    sg.add((V, RDF.type, SH.NodeShape))
    for t in T:
        sg.add((V, SH.targetNode, t))
    ps = BNode()
    sg.add((V, SH.property, ps))
    sg.add((ps, SH.path, q))
    if kind == "triple-prop":
        n2, p2 = BNode(), BNode()
        sg.add((ps, SH.node, n2))
        sg.add((n2, SH.property, p2))
        sg.add((p2, SH.path, EX.mark))
        sg.add((p2, SH.minCount, Literal(1)))
    else:
        sg.add((ps, SH["class"], d))
    return sg, dg, T


def use_shapes_rules_cases(out, rng, n):
    """use_shapes = U with rules: a named shape outside U that a shape of U refers to is loaded (its constraints are needed), but it
    is not selected — its rules have no focus nodes, exactly as if its target declarations were removed"""
    for k in range(n):
        sg, dg = Graph(), Graph()
        people = rng.sample(NODES, 3)
        for x in people:
            dg.add((x, RDF.type, EX.Person)); dg.add((x, RDF.type, EX.Other))
            dg.add((x, EX.knows, rng.choice(people)))
        P, O, ps, r, pm = EX.PersonShape, EX.OtherShape, BNode(), BNode(), BNode()
        sg.add((P, RDF.type, SH.NodeShape)); sg.add((P, SH.targetClass, EX.Person)); sg.add((P, SH.property, ps))
        sg.add((ps, SH.path, EX.knows)); sg.add((ps, SH["not"] if k % 2 else SH.node, O))
        sg.add((O, RDF.type, SH.NodeShape)); sg.add((O, SH.targetClass, EX.Other)); sg.add((O, SH.rule, r)); sg.add((O, SH.property, pm))
        sg.add((pm, SH.path, EX.mark)); sg.add((pm, SH.minCount, Literal(1)))
        if k % 3 == 0:
            sg.add((r, RDF.type, SH.SPARQLRule)); sg.add((r, SH.construct, Literal("CONSTRUCT { $this <%s> true } WHERE { $this a <%s> }" % (EX.mark, EX.Other))))
        else:
            sg.add((r, RDF.type, SH.TripleRule)); sg.add((r, SH.subject, SH.this)); sg.add((r, SH.predicate, EX.mark)); sg.add((r, SH.object, Literal(True)))
        kw = {"advanced": True, "iterate_rules": bool(k % 2)}
        code = vcase.run_code(sg, dg, dict(kw, use_shapes=[str(P)]))
        sg2 = rewrite_shapes(sg, {P})
        ref = vcase.run_code(sg2, dg, kw)
        out.evaluations += 1
        out.count("rules:use_shapes")
        case = vcase.describe(sg, dg, dict(kw, use_shapes=[str(P)]), selection="rules-use_shapes")
        if code[0] != ref[0] or (code[0] == "err" and code[1] != ref[1]):
            out.b_fail.append({"signature": "C13:rules-use_shapes:outcome-differs", "case": case, "with_options": code[:2], "rewritten": ref[:2]})
            continue
        if code[0] != "ok":
            continue
        dms = vcase.declared_msg_shapes(sg)
        a, b = vcase.multiset(code[2], dms, True), vcase.multiset(ref[2], dms, True)
        if a != b or code[1] != ref[1]:
            hidden, invented = list((b - a).elements())[:3], list((a - b).elements())[:3]
            out.b_fail.append({"signature": "C13:rules-use_shapes:%s" % ("hides" if hidden and not invented else "invents" if invented and not hidden else "differs"),
                               "case": case, "hidden": hidden, "invented": invented, "verdicts": [code[1], ref[1]]})
        if code[2]:
            out.nontrivial.add(("rules-use_shapes", k))


def rules_family(ctx, out, rng, n):
    use_shapes_rules_cases(out, rng, 6 if ctx.tier == "quick" else 40)
    for i in range(2 * n):
        if i < n:
            sg0, data, _constructs = rulegen.gen_case(rng)
            dg = graph_from_triples(data)
            sg = make_static(sg0, dg)
        else:
            sg, dg, _T = directed_rule_case(rng)
            out.count("rules:directed")
        iris = sorted(set(t for t in dg.all_nodes() if isinstance(t, URIRef) and str(t).startswith(str(EX)) and "/n" in str(t)), key=str)
        if not iris:
            continue
        for it in (False, True):
            F = rng.sample(iris, min(len(iris), rng.randint(1, 2)))
            kw = {"advanced": True, "iterate_rules": it}
            code = vcase.run_code(sg, dg, dict(kw, focus_nodes=[str(f) for f in F]))
            sg2 = copy_graph(sg)
            for s_, _p, f in list(sg2.triples((None, SH.targetNode, None))):
                if f not in F:
                    sg2.remove((s_, SH.targetNode, f))
            ref = vcase.run_code(sg2, dg, kw)
            out.evaluations += 1
            out.count("rules:iterate=%d" % it)
            case = vcase.describe(sg, dg, dict(kw, focus_nodes=[str(f) for f in F]), selection="rules-focus")
            if code[0] != "ok" or ref[0] != "ok":
                if code[0] != ref[0] or (code[0] == "err" and code[1] != ref[1]):
                    out.b_fail.append({"signature": "C13:rules-focus:outcome-differs", "case": case, "with_options": code[:2], "rewritten": ref[:2],
                                       "rewritten_shapes_ttl": sg2.serialize(format="turtle")})
                out.count("rules:err")
                continue
            dms = vcase.declared_msg_shapes(sg)
            a, b = vcase.multiset(code[2], dms, True), vcase.multiset(ref[2], dms, True)
            if a != b or code[1] != ref[1]:
                hidden = list((b - a).elements())[:3]
                invented = list((a - b).elements())[:3]
                out.b_fail.append({"signature": "C13:rules-focus:%s" % ("hides" if hidden and not invented else "invents" if invented and not hidden else "differs"),
                                   "case": case, "hidden": hidden, "invented": invented, "verdicts": [code[1], ref[1]],
                                   "rewritten_shapes_ttl": sg2.serialize(format="turtle")})
            if code[2]:
                out.nontrivial.add(("rules", i, it))
            out.count("rules:sub_results:%s" % ("0" if not code[2] else "1+"))


def run(ctx, out):
    rng = random.Random(ctx.seed * 86028121 + 13)
    rules_family(ctx, out, random.Random(ctx.seed * 7919 + 1313), 60 if ctx.tier == "quick" else 600)
    quick = ctx.tier == "quick"
    n = 120 if quick else 1500
    out.rule = ("shapes graphs with 2-3 named top-level shapes (compositions referencing named and anonymous shapes, Core shapes) x "
                "subsets F of the data IRIs (size 1-3, given as IRIs and as CURIEs) x subsets U of the named shapes (size 1-2) x "
                "{focus_nodes, use_shapes, both}; non-trivial = distinct (case, selection) whose sub-report has >=1 result and is "
                "strictly smaller than the full report")
    plan = []
    for i in range(n):
        sg, dg, tops = gen_case(rng)
        iris = sorted(set(t for t in dg.all_nodes() if isinstance(t, URIRef) and str(t).startswith(str(EX)) and "/n" in str(t)), key=str)
        if not iris or not tops:
            continue
        sels = []
        for _ in range(2):
            F = rng.sample(iris, min(len(iris), rng.randint(1, 3)))
            U = rng.sample(tops, min(len(tops), rng.randint(1, 2)))
            sels += [("focus", F, []), ("shapes", [], U), ("both", F, U)]
        for sel in sels:
            plan.append((sg, dg, sel + (rng.random() < 0.35,)))
    # corpus: a selected property shape whose qualified value shape has disjoint siblings under a parent that is not selected
    # (repaired defect: the sibling shapes were missing from the shape cache of the selection — AttributeError)
    hand_sg = Graph().parse(data="""@prefix sh: <http://www.w3.org/ns/shacl#> . @prefix ex: <http://ex.test/> .
        ex:Hand a sh:NodeShape ; sh:targetClass ex:C0 ; sh:property ex:Thumb, ex:Finger .
        ex:Thumb a sh:PropertyShape ; sh:path ex:p0 ; sh:qualifiedValueShape [ sh:class ex:C1 ] ; sh:qualifiedValueShapesDisjoint true ; sh:qualifiedMinCount 1 ; sh:qualifiedMaxCount 1 .
        ex:Finger a sh:PropertyShape ; sh:path ex:p0 ; sh:qualifiedValueShape [ sh:class ex:C2 ] ; sh:qualifiedValueShapesDisjoint true ; sh:qualifiedMinCount 2 .""", format="turtle")
    hand_dg = Graph().parse(data="""@prefix ex: <http://ex.test/> . ex:n0 a ex:C0 ; ex:p0 ex:n1, ex:n2 . ex:n1 a ex:C1, ex:C2 . ex:n2 a ex:C1 . ex:n3 a ex:C0 ; ex:p0 ex:n2 .""", format="turtle")
    for sel in (("both", [EX.n0], [EX.Thumb]), ("both", [EX.n3, EX.n0], [EX.Thumb, EX.Finger]), ("shapes", [], [EX.Thumb]), ("shapes", [], [EX.Hand])):
        plan.insert(0, (hand_sg, hand_dg, sel + (False,)))
    # corpus: advanced mode, a selected shape refers to a shape that carries a sh:expression constraint (repaired defect: only the
    # selected shapes were switched to advanced mode)
    expr_sg = Graph().parse(data="""@prefix sh: <http://www.w3.org/ns/shacl#> . @prefix ex: <http://ex.test/> .
        ex:ES a sh:NodeShape ; sh:targetClass ex:C0 ; sh:property [ sh:path ex:p0 ; sh:node ex:EN ] .
        ex:EN a sh:NodeShape ; sh:expression [ sh:path ex:p1 ] .
        ex:EO a sh:NodeShape ; sh:targetClass ex:C0 ; sh:nodeKind sh:BlankNode .""", format="turtle")
    expr_dg = Graph().parse(data="""@prefix ex: <http://ex.test/> . ex:n0 a ex:C0 ; ex:p0 ex:n1, ex:n2 . ex:n1 ex:p1 true . ex:n2 ex:p1 false .""", format="turtle")
    for sel in (("shapes", [], [EX.ES]), ("both", [EX.n0], [EX.ES]), ("focus", [EX.n0], [])):
        plan.insert(0, (expr_sg, expr_dg, sel + (True,)))
    lines = []
    for k, (sg, dg, (mode, F, U, adv)) in enumerate(plan):
        lines.append(vcase.model_line("c%d" % k, sg, dg, {"advanced": adv}, focus=F, use_shapes=U))
    replies = ctx.driver.ask(lines)
    full_cache = {}
    for k, (sg, dg, (mode, F, U, adv)) in enumerate(plan):
        out.evaluations += 1
        out.traces += 1
        as_curie = rng.random() < 0.4
        dg.bind("ex", EX)
        sg.bind("ex", EX)
        if k % 3 == 0:
            # documents that bind prefixes spelled like IRI schemes (the W3C HTTP vocabulary is usually bound to `http:`)
            for g_ in (dg, sg):
                g_.bind("http", URIRef("http://www.w3.org/2011/http#")); g_.bind("urn", URIRef("urn:example:")); g_.bind("https", URIRef("https://ex.test/sec#"))
        fopt = [("ex:" + str(f)[len(str(EX)):]) if as_curie else str(f) for f in F]
        uopt = [("ex:" + str(u)[len(str(EX)):]) if as_curie else str(u) for u in U]
        kw = {"advanced": True} if adv else {}
        if F:
            kw["focus_nodes"] = fopt
        if U:
            kw["use_shapes"] = uopt
        code = vcase.run_code(sg, dg, kw)
        model = vcase.parse_model(replies["c%d" % k])
        case = vcase.describe(sg, dg, kw, selection=mode)
        d = vcase.compare(code, model, sg, with_detail=True)
        if d:
            out.a_mismatch.append({"case": case, "diff": d[:1000], "op": "validate"})
        sg2 = rewrite_focus(sg, dg, set(F)) if mode == "focus" else rewrite_shapes(sg, set(U)) if mode == "shapes" else rewrite_both(sg, U, F)
        ref = vcase.run_code(sg2, dg, {"advanced": True} if adv else {})
        if code[0] != "ok" or ref[0] != "ok":
            if code[0] != ref[0] or (code[0] == "err" and code[1] != ref[1]):
                out.b_fail.append({"signature": "C13:%s:outcome-differs" % mode, "case": case, "with_options": code[:2], "rewritten": ref[:2],
                                   "rewritten_shapes_ttl": sg2.serialize(format="turtle")})
            out.count("err")
            continue
        dms = vcase.declared_msg_shapes(sg)
        a, b = vcase.multiset(code[2], dms, True), vcase.multiset(ref[2], dms, True)
        if a != b or code[1] != ref[1]:
            hidden = list((b - a).elements())[:3]
            invented = list((a - b).elements())[:3]
            out.b_fail.append({"signature": "C13:%s:%s" % (mode, "hides" if hidden and not invented else "invents" if invented and not hidden else "differs"),
                               "case": case, "hidden": hidden, "invented": invented, "verdicts": [code[1], ref[1]],
                               "rewritten_shapes_ttl": sg2.serialize(format="turtle")})
        key = id(sg)
        if key not in full_cache:
            full = vcase.run_code(sg, dg, {})
            full_cache[key] = len(full[2]) if full[0] == "ok" else -1
        if code[2] and len(code[2]) < full_cache[key]:
            out.nontrivial.add((k, mode))
        out.count("mode:" + mode)
        out.count("sub_results:%s" % ("0" if not code[2] else "1+"))
        out.sample({"selection": mode, "focus_nodes": fopt, "use_shapes": uopt, "results": len(code[2]), "full": full_cache[key]})
