"""C19 — always terminates; nesting exact below the depth limit, loud error at or above it.

(A) code vs Impl (the model carries the real evaluation path, the `len(path)//2 >= max_validation_depth` test and the
    recursion back-out heuristic), incl. which failure is raised.
(B) on the real code, under a wall-clock limit: never RecursionError / hang; for NON-recursive shapes nested to depth d:
    d < max_validation_depth -> the report equals the W3C reference; d >= max -> "Validation path too deep" is raised
    (never a silently truncated conforming verdict); for recursive shapes (no reference) a report returned under limit L
    equals the report under limit L+3 (theorem `limit_only_truncates_loudly`, observed on the code).
"""
import random
import signal

from rdflib import BNode, Graph, Literal, URIRef
from rdflib.collection import Collection
from rdflib.namespace import RDF

import oracle_core
import vcase
import wire
from common import CLASSES, EX, NODES, PREDS, SH

OPS = ("node", "not", "or", "and", "xone", "property", "qualified")


class Timeout(BaseException):
    pass


def _alarm(signum, frame):
    raise Timeout()


def add_ref(sg, s, op, target, k):
    """shape s references shape `target` through component `op`; returns True when s must be a property shape"""
    if op == "node":
        sg.add((s, SH.node, target))
    elif op == "not":
        sg.add((s, SH["not"], target))
    elif op in ("or", "and", "xone"):
        lst = BNode("lst%s_%d" % (op, k))
        Collection(sg, lst, [target])
        sg.add((s, SH[op], lst))
    elif op == "property":
        sg.add((s, SH.property, target))
    elif op == "qualified":
        sg.add((s, SH.qualifiedValueShape, target))
        sg.add((s, SH.qualifiedMinCount, Literal(1)))


def build_chain(rng, depth, ops=None, cyclic_back_to=None, diamond=False):
    """S0 -> S1 -> ... -> S_depth ; shape i is a property shape when it is referenced through sh:property or carries
    sh:qualifiedValueShape"""
    sg = Graph()
    ops = ops or [rng.choice(OPS) for _ in range(depth)]
    names = [EX["S%d" % i] for i in range(depth + 1)]
    is_prop = [False] * (depth + 1)
    for i in range(depth):
        if ops[i] == "qualified":
            is_prop[i] = True
        if ops[i] == "property":
            is_prop[i + 1] = True
    for i in range(depth):
        if ops[i] == "node" and is_prop[i + 1]:
            ops[i] = "property"
    for i in range(depth):
        if ops[i] == "property":
            is_prop[i + 1] = True
    for i, s in enumerate(names):
        sg.add((s, RDF.type, SH.PropertyShape if is_prop[i] else SH.NodeShape))
        if is_prop[i]:
            sg.add((s, SH.path, PREDS[0]))
    for i in range(depth):
        add_ref(sg, names[i], ops[i], names[i + 1], i)
        if diamond and i + 2 <= depth and not is_prop[i + 2] and ops[i] not in ("property", "qualified"):
            add_ref(sg, names[i], "node" if not is_prop[i] else "not", names[i + 2], 100 + i)
    leaf = names[depth]
    sg.add((leaf, SH["class"], rng.choice(CLASSES[:2])))
    if cyclic_back_to is not None:
        op = rng.choice(("node", "not", "or", "property", "qualified")) if not is_prop[depth] else rng.choice(("node", "not", "or"))
        tgt = names[cyclic_back_to]
        if op == "property" and not is_prop[cyclic_back_to]:
            op = "node"
        if op == "node" and is_prop[cyclic_back_to]:
            op = "property"
        if op == "qualified":
            op = "or"
        add_ref(sg, leaf, op, tgt, 999)
    sg.add((names[0], SH.targetNode, NODES[0]))
    return sg, ops


def build_data(rng, branching=True):
    dg = Graph()
    dg.add((NODES[0], PREDS[0], NODES[0]))          # a cycle, so value nodes never run out
    if branching and rng.random() < 0.6:
        dg.add((NODES[0], PREDS[0], NODES[1]))
        dg.add((NODES[1], PREDS[0], NODES[0]))
    if rng.random() < 0.5:
        dg.add((NODES[0], RDF.type, CLASSES[0]))
    if rng.random() < 0.3:
        dg.add((NODES[1], RDF.type, CLASSES[0]))
    return dg


def run(ctx, out):
    rng = random.Random(ctx.seed * 122949823 + 19)
    quick = ctx.tier == "quick"
    plan = []
    # exhaustive sweep depth x limit on chains (single op kind and mixed)
    limits = [1, 2, 3, 5, 8, 15, 30] if quick else list(range(1, 31))
    for lim in limits:
        for d in sorted(set([1, max(1, lim - 1), lim, lim + 1, min(2 * lim, lim + 7)])):
            for rep in range(2 if quick else 3):
                sg, ops = build_chain(rng, d, diamond=(rep == 1 and d <= 12))
                plan.append(("chain", lim, d, sg, build_data(rng, branching=(d <= 8)), False))
    for op in OPS:
        for d in (2, 14, 15, 16):
            sg, ops = build_chain(rng, d, ops=[op] * d)
            plan.append(("chain:" + op, 15, d, sg, build_data(rng, branching=(d <= 8)), False))
    # recursive shapes graphs: self loops and mutual recursion through every component
    for rep in range(200 if quick else 3000):
        d = rng.randint(0, 4)
        sg, ops = build_chain(rng, d, cyclic_back_to=rng.randint(0, d))
        dg = build_data(rng)
        # the work is bounded by (values per node)^limit: keep the exponent small when the data branches
        lim = rng.choice((3, 6, 15)) if len(set(dg.subjects())) < 2 else rng.choice((3, 5, 7))
        plan.append(("cyclic", lim, d, sg, dg, True))
    # wide, shallow graphs: the depth measure must follow nesting, not the number of value nodes / members / siblings
    for lim in ([3, 4, 15] if quick else [3, 4, 5, 8, 15, 30]):
        for w in (2, 2 * lim, 2 * lim + 6):
            for variant in range(4):
                sg = Graph()
                dg = Graph()
                s, p1, p2, leaf, leaf2 = EX.W, EX.WP1, EX.WP2, EX.WL1, EX.WL2
                sg.add((s, RDF.type, SH.NodeShape)); sg.add((s, SH.targetNode, NODES[0]))
                for v in range(w):
                    dg.add((NODES[0], PREDS[0], EX["v%d" % v]))
                    dg.add((EX["v%d" % v], RDF.type, CLASSES[0]))
                sg.add((leaf, RDF.type, SH.NodeShape)); sg.add((leaf, SH["class"], CLASSES[0]))
                sg.add((leaf2, RDF.type, SH.NodeShape)); sg.add((leaf2, SH["class"], CLASSES[1]))
                if variant == 0:      # disjoint qualified siblings, many conforming values
                    for pp, lf in ((p1, leaf), (p2, leaf2)):
                        sg.add((s, SH.property, pp)); sg.add((pp, RDF.type, SH.PropertyShape)); sg.add((pp, SH.path, PREDS[0]))
                        sg.add((pp, SH.qualifiedValueShape, lf)); sg.add((pp, SH.qualifiedValueShapesDisjoint, Literal(True)))
                        sg.add((pp, SH.qualifiedMinCount, Literal(1)))
                elif variant == 1:    # sh:property / sh:node over many values
                    sg.add((s, SH.property, p1)); sg.add((p1, RDF.type, SH.PropertyShape)); sg.add((p1, SH.path, PREDS[0]))
                    sg.add((p1, SH.node, leaf))
                elif variant == 2:    # logical lists with many members
                    lst = BNode("wl")
                    Collection(sg, lst, [leaf, leaf2] * (w // 2 + 1))
                    sg.add((s, SH.property, p1)); sg.add((p1, RDF.type, SH.PropertyShape)); sg.add((p1, SH.path, PREDS[0]))
                    sg.add((p1, rng.choice([SH["or"], SH.xone, SH["and"]]), lst))
                else:                 # many sh:property siblings
                    for j in range(w):
                        pp = EX["WPS%d" % j]
                        sg.add((s, SH.property, pp)); sg.add((pp, RDF.type, SH.PropertyShape)); sg.add((pp, SH.path, PREDS[0]))
                        sg.add((pp, SH["not"], leaf2))
                plan.append(("wide", lim, 2, sg, dg, False))
    # cyclic DATA under path closures: self-loops on the focus node, 2- and 3-cycles, with every closure form
    import pathgen
    closures = [a for a in pathgen.enum_paths(PREDS[:1], 2) if any(t in repr(a) for t in ("star", "plus"))]
    closures = closures if not quick else rng.sample(closures, min(len(closures), 24)) + [("plus", ("p", PREDS[0])), ("star", ("p", PREDS[0])), ("inv", ("plus", ("p", PREDS[0])))]
    for a in closures:
        for shape_of_data in range(3):
            sg = Graph(); dg = Graph()
            ps = EX.PL
            sg.add((ps, RDF.type, SH.PropertyShape)); sg.add((ps, SH.targetNode, NODES[0])); sg.add((ps, SH.path, pathgen.encode(sg, a)))
            sg.add((ps, SH["class"], CLASSES[0]))
            if shape_of_data == 0:
                dg.add((NODES[0], PREDS[0], NODES[0]))                              # self-loop on the focus node
            elif shape_of_data == 1:
                dg.add((NODES[0], PREDS[0], NODES[1])); dg.add((NODES[1], PREDS[0], NODES[0])); dg.add((NODES[1], PREDS[0], NODES[1]))
            else:
                dg.add((NODES[0], PREDS[0], NODES[1])); dg.add((NODES[1], PREDS[0], NODES[2])); dg.add((NODES[2], PREDS[0], NODES[0]))
                dg.add((NODES[2], RDF.type, CLASSES[0]))
            plan.append(("pathloop", 15, 1, sg, dg, False))
    out.rule = ("reference graphs: chains and diamonds through node/not/or/and/xone/property/qualifiedValueShape of depth d around every "
                "limit (d in {1, L-1, L, L+1, ~2L}) for max_validation_depth L in 1..30 (quick: 7 limits), self-loops and mutual recursion, "
                "cyclic data, incl. self-loops and cycles under every path closure form (wall-clock limit 20 s); non-trivial = distinct case that reaches nesting depth >= 2 (report or too-deep error)")
    lines = [vcase.model_line("c%d" % k, sg, dg, {"max_validation_depth": lim}) for k, (_kind, lim, d, sg, dg, _rec) in enumerate(plan)]
    replies = ctx.driver.ask(lines)
    signal.signal(signal.SIGALRM, _alarm)
    for k, (kind, lim, d, sg, dg, recursive) in enumerate(plan):
        out.evaluations += 1
        out.traces += 1
        opts = {"max_validation_depth": lim}
        case = vcase.describe(sg, dg, opts, kind=kind, depth=d)
        signal.alarm(240 if kind != "pathloop" else 20)
        try:
            code = vcase.run_code(sg, dg, opts)
        except Timeout:
            # bounded (values^limit) but not finished within the wall-clock budget: only an alarm for inputs whose bound is small
            if not recursive or lim <= 7:
                out.b_fail.append({"signature": "C19:timeout", "case": case})
            out.count("timeout")
            continue
        finally:
            signal.alarm(0)
        model = vcase.parse_model(replies["c%d" % k])
        dd = vcase.compare(code, model, sg, with_detail=True)
        if dd:
            out.a_mismatch.append({"case": case, "diff": dd[:800], "op": "validate"})
        out.count("%s:%s" % (kind.split(":")[0], code[1] if code[0] == "err" else "report"))
        if code[0] == "err" and code[1].startswith("raw:"):
            out.b_fail.append({"signature": "C19:" + code[1], "case": case})
            continue
        if code[0] == "err" and code[1] not in ("ReportableRuntimeError:pathTooDeep",):
            out.b_fail.append({"signature": "C19:unexpected-failure:" + code[1], "case": case})
            continue
        if not recursive:
            if d >= lim:
                if code[0] != "err":
                    out.b_fail.append({"signature": "C19:silently-truncated", "case": case, "verdict": code[1], "depth": d, "limit": lim})
            else:
                if code[0] == "err":
                    out.b_fail.append({"signature": "C19:too-deep-below-limit", "case": case, "depth": d, "limit": lim})
                else:
                    ref = oracle_core.Ref(sg, dg)
                    rconf, rres = ref.validate()
                    dms = set()
                    if vcase.multiset(code[2], dms, False) != vcase.multiset(rres, dms, False) or code[1] != rconf:
                        out.b_fail.append({"signature": "C19:inexact-below-limit", "case": case, "depth": d, "limit": lim,
                                           "verdict_code": code[1], "verdict_reference": rconf})
        elif code[0] == "ok" and lim <= 7:
            # recursive shapes have no reference; the theorem `limit_only_truncates_loudly` on the real code instead:
            # a report returned under limit L is the report under a larger limit
            signal.alarm(240)
            try:
                code2 = vcase.run_code(sg, dg, {"max_validation_depth": lim + 3})
            except Timeout:
                code2 = None
                out.count("larger_limit_timeout")
            finally:
                signal.alarm(0)
            if code2 is not None:
                out.count("larger_limit_compared")
                dms = vcase.declared_msg_shapes(sg)
                if code2[0] != "ok" or code2[1] != code[1] or vcase.multiset(code2[2], dms, True) != vcase.multiset(code[2], dms, True):
                    out.b_fail.append({"signature": "C19:report-changes-with-larger-limit", "case": case, "limit": lim,
                                       "under_limit": [code[0], code[1]], "under_larger_limit": list(code2[:2])})
        if d >= 2:
            out.nontrivial.add(k)
        out.sample({"kind": kind, "limit": lim, "depth": d, "outcome": code[1] if code[0] == "err" else ("conforms=%s" % code[1])})
