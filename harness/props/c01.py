"""C01 — Core constraint components flag exactly the value nodes the SHACL text names.

(A) code vs Impl (`validate` op of the driver)   (B) code vs the W3C reference (`oracle_core.Ref`)
Generator: (1) exhaustive cross product bound-type x value-type for the four value-range components
and for lessThan / lessThanOrEquals, (2) every component crossed with every node kind and literal
type of the pool, (3) random multi-component node and property shapes over random data.
"""
import random
from collections import Counter

from rdflib import BNode, Graph, Literal, URIRef
from rdflib.namespace import RDF, RDFS, XSD

import oracle_core
import shapegen
import vcase
import wire
from common import CLASSES, EX, NODES, PREDS, SH, graph_from_triples


def signature(only_code, only_ref):
    """known-finding signature of an oracle disagreement: component + direction + value kind"""
    def kind(k):
        v = k[1]
        return "literal" if v.startswith("L:") else "bnode" if v.startswith("B:") else "iri" if v.startswith("I:") else "none"
    parts = []
    RES, TYP = "I:http%3a;//www.w3.org/2000/01/rdf-schema#Resource", "I:http%3a;//www.w3.org/1999/02/22-rdf-syntax-ns#type"
    if not only_code and only_ref and all(k[3].endswith("#ClosedConstraintComponent") and k[1] == RES and k[2] == TYP for k in only_ref):
        return "C01:closed-exempts-rdf:type-rdfs:Resource"
    for k in only_code[:1]:
        parts.append("extra:%s:%s" % (k[3].rsplit("#", 1)[-1], kind(k)))
    for k in only_ref[:1]:
        parts.append("missing:%s:%s" % (k[3].rsplit("#", 1)[-1], kind(k)))
    return "C01:" + "+".join(parts)


def check_case(ctx, out, cid, sg, dg, reply, label):
    out.evaluations += 1
    out.traces += 1
    code = vcase.run_code(sg, dg)
    model = vcase.parse_model(reply)
    case = vcase.describe(sg, dg, label=label)
    d = vcase.compare(code, model, sg, with_detail=False)
    if d:
        out.a_mismatch.append({"case": case, "diff": d, "op": "validate"})
    if code[0] != "ok":
        out.count("code:" + code[1])
        out.b_fail.append({"signature": "C01:exception:" + code[1], "case": case, "got": code[1]})
        return
    ref = oracle_core.Ref(sg, dg)
    try:
        rconf, rres = ref.validate()
    except oracle_core.Unsupported as e:
        out.count("oracle_unsupported")
        return
    if ref.unspecified:
        out.count("masked_unspecified")
        for u in set(ref.unspecified):
            if u not in out.masked:
                out.masked.append(u)
        return
    dms = vcase.declared_msg_shapes(sg)
    a = vcase.multiset(code[2], dms, with_detail=False)
    b = vcase.multiset(rres, dms, with_detail=False)
    if a != b or code[1] != rconf:
        oc, orf = list((a - b).elements()), list((b - a).elements())
        out.b_fail.append({"signature": signature(oc, orf), "case": case, "only_in_code": oc[:4], "only_in_reference": orf[:4],
                           "verdict_code": code[1], "verdict_reference": rconf})
    elif code[1] != (len(code[2]) == 0):
        out.b_fail.append({"signature": "C01:verdict-vs-results", "case": case, "verdict": code[1], "n_results": len(code[2])})
    n = len(code[2])
    out.count("results:%s" % ("0" if n == 0 else "1-3" if n < 4 else "4+"))
    for r in code[2]:
        out.count("comp:" + r["component"].rsplit("#", 1)[-1].replace("ConstraintComponent", ""))
    if n > 0 and any(True for _ in dg):
        out.nontrivial.add((label, hash(sg.serialize(format="nt")), hash(dg.serialize(format="nt"))))
    out.sample({"label": label, "shapes": sg.serialize(format="turtle")[:600], "data_triples": len(dg), "results": n, "conforms": code[1]})


def cross_cases():
    """bound-type x value-type, exhaustively (one representative pair of values per type)"""
    reps = shapegen.POOL[:33]
    cases = []
    # an ill-typed boolean on its own (rdflib normalises its lexical form to "false", so it must not share a case with a genuine one)
    sg = Graph()
    sg.add((EX.S, RDF.type, SH.NodeShape))
    sg.add((EX.S, SH.datatype, XSD.boolean))
    sg.add((EX.S, SH.targetNode, Literal("maybe", datatype=XSD.boolean)))
    sg.add((EX.S, SH.targetNode, Literal(5)))
    cases.append(("cross:datatype:ill-typed-boolean", sg, Graph()))
    for dt in [XSD.string, XSD.integer, XSD.decimal, XSD.double, XSD.boolean, XSD.dateTime, XSD.date, shapegen.LANGSTRING, EX.dt, XSD.float, XSD.time]:
        sg = Graph()
        sg.add((EX.S, RDF.type, SH.NodeShape))
        sg.add((EX.S, SH.datatype, dt))
        for v in shapegen.POOL + [EX.n0]:
            sg.add((EX.S, SH.targetNode, v))
        cases.append(("cross:datatype:%s" % dt, sg, Graph()))
    for pat in ["T", "^true$", "e\\+0", " ", "^[0-9-]+$", "\\.", "^2", "0$"]:
        for k in (0, 1):
            sg = Graph()
            sg.add((EX.S, RDF.type, SH.NodeShape))
            if k == 0:
                sg.add((EX.S, SH.pattern, Literal(pat)))
            else:
                sg.add((EX.S, SH.minLength, Literal(len(pat) + 2)))
                sg.add((EX.S, SH.maxLength, Literal(len(pat) + 6)))
            for v in shapegen.POOL + [EX.n0]:
                sg.add((EX.S, SH.targetNode, v))
            cases.append(("cross:string:%s:%d" % (pat, k), sg, Graph()))
    for comp in ("minInclusive", "minExclusive", "maxInclusive", "maxExclusive"):
        for b in reps:
            sg = Graph()
            s = EX.S
            sg.add((s, RDF.type, SH.NodeShape))
            sg.add((s, SH[comp], b))
            for v in reps + [EX.n0, BNode("d1")]:
                if not isinstance(v, BNode):
                    sg.add((s, SH.targetNode, v))
            dg = Graph()
            cases.append(("cross:%s:%s" % (comp, b.n3()), sg, dg))
    for comp in ("lessThan", "lessThanOrEquals"):
        for i in range(0, len(reps), 6):
            sg = Graph()
            s = EX.S
            sg.add((s, RDF.type, SH.PropertyShape))
            sg.add((s, SH.path, PREDS[0]))
            sg.add((s, SH[comp], PREDS[1]))
            dg = Graph()
            for j, v in enumerate(reps[i : i + 6]):
                f = EX["f%d" % j]
                sg.add((s, SH.targetNode, f))
                dg.add((f, PREDS[0], v))
                for w in reps + [EX.n1]:
                    dg.add((f, PREDS[1], w))
            cases.append(("cross:%s:%d" % (comp, i), sg, dg))
    return cases


def kind_cases(rng):
    """every component x every node kind / literal type as value node"""
    vals = shapegen.POOL + [EX.n0, EX.n1, BNode("d1")]
    cases = []
    data = []
    for i, v in enumerate(vals):
        data.append((EX.holder, PREDS[0], v))
    data += [(EX.n0, RDF.type, CLASSES[0]), (CLASSES[0], RDFS.subClassOf, CLASSES[1]), (CLASSES[1], RDFS.subClassOf, CLASSES[0]),
             (BNode("d1"), RDF.type, CLASSES[1]), (EX.holder, PREDS[1], Literal("abc")), (EX.holder, PREDS[1], EX.n1), (EX.holder, PREDS[1], Literal(2))]
    for k in ["class", "datatype", "nodeKind", "minLength", "maxLength", "pattern", "languageIn", "hasValue", "in", "minCount", "maxCount",
              "uniqueLang", "equals", "disjoint", "closed"]:
        for rep in range(3):
            gen = shapegen.ShapeGen(rng, data)
            s = EX.K
            gen.g.add((s, RDF.type, SH.PropertyShape))
            gen.g.add((s, SH.path, PREDS[0]))
            gen.g.add((s, SH.targetNode, EX.holder))
            gen.core_constraint(s, True, PREDS[0], only=k)
            cases.append(("kind:%s" % k, gen.g, graph_from_triples(data)))
    return cases


def random_cases(rng, n):
    cases = []
    for i in range(n):
        data = shapegen.gen_data(rng)
        gen = shapegen.ShapeGen(rng, data)
        for _ in range(rng.randint(1, 3)):
            gen.shape()
        cases.append(("rand", gen.g, graph_from_triples(data)))
    return cases


def corpus_cases():
    """witnesses of recorded findings (open and fixed) — run first on every run"""
    from rdflib.namespace import RDFS
    cases = []
    sg = Graph(); sg.add((EX.S, RDF.type, SH.NodeShape)); sg.add((EX.S, SH.closed, Literal(True))); sg.add((EX.S, SH.targetNode, EX.a))
    dg = Graph(); dg.add((EX.a, RDF.type, RDFS.Resource)); dg.add((EX.a, RDF.type, EX.C0))
    cases.append(("corpus:closed-rdfs-Resource", sg, dg))
    sg = Graph(); sg.add((EX.S, RDF.type, SH.NodeShape)); sg.add((EX.S, SH.minInclusive, Literal("2020-01-01T00:00:00", datatype=XSD.dateTime)))
    for v in (Literal(5), Literal("5.0e0", datatype=XSD.double), Literal(True)):
        sg.add((EX.S, SH.targetNode, v))
    cases.append(("corpus:fixed:range-accepts-incomparable", sg, Graph()))
    sg = Graph(); sg.add((EX.S, RDF.type, SH.NodeShape))
    from rdflib.collection import Collection
    lst = BNode("ll"); Collection(sg, lst, [Literal("en-US")]); sg.add((EX.S, SH.languageIn, lst))
    for v in (Literal("x", lang="en-US-posix"), Literal("y", lang="en"), Literal("z", lang="en-us")):
        sg.add((EX.S, SH.targetNode, v))
    cases.append(("corpus:fixed:languageIn-multi-subtag", sg, Graph()))
    return cases


def edit_in_place(rng, dg):
    from rdflib.namespace import RDFS
    ts = sorted(dg, key=lambda t: tuple(wire.tkey(x) for x in t))
    for s_, p_, o_ in ts:
        if p_ == RDFS.subClassOf and rng.random() < 0.7:
            dg.remove((s_, p_, o_))
            if rng.random() < 0.6:
                dg.add((o_, p_, s_))
    ts = sorted(dg, key=lambda t: tuple(wire.tkey(x) for x in t))
    for t in rng.sample(ts, min(len(ts), rng.randint(1, 3))):
        dg.remove(t)
    extra = shapegen.gen_data(rng)
    for t in rng.sample(extra, min(len(extra), rng.randint(1, 4))):
        dg.add(t)


def run(ctx, out):
    rng = random.Random(ctx.seed * 7919 + 1)
    quick = ctx.tier == "quick"
    cases = corpus_cases() + cross_cases() + kind_cases(rng) + random_cases(rng, 500 if quick else 8000)
    out.rule = ("exhaustive bound-type x value-type cross product for the 4 value-range components and lessThan/lessThanOrEquals; every "
                "component x every node kind / literal type; random shapes with 1-4 Core components on node and property shapes (simple and "
                "complex paths, all target kinds, severities, messages) over random data; non-trivial = distinct case with >=1 result")
    lines = []
    for i, (label, sg, dg) in enumerate(cases):
        lines.append(vcase.model_line("c%d" % i, sg, dg))
    replies = ctx.driver.ask(lines)
    for i, (label, sg, dg) in enumerate(cases):
        check_case(ctx, out, "c%d" % i, sg, dg, replies["c%d" % i], label)
    # the same graph OBJECTS validated again after the data graph was edited in place (triples dropped and added, the class
    # hierarchy turned round): what a component remembered about a graph object must not outlive the graph's content
    again = [c for c in cases if c[0] == "rand"][: (80 if quick else 600)] + [c for c in cases if c[0].startswith("kind:class")][:6]
    lines = []
    for i, (label, sg, dg) in enumerate(again):
        edit_in_place(rng, dg)
        lines.append(vcase.model_line("e%d" % i, sg, dg))
    replies = ctx.driver.ask(lines)
    for i, (label, sg, dg) in enumerate(again):
        check_case(ctx, out, "e%d" % i, sg, dg, replies["e%d" % i], label + ":edited-in-place")
