"""C09 — validation is deterministic up to blank-node labels and result order.

(B) each case is run in worker processes started with different PYTHONHASHSEED values (quick 4, thorough 16), each with its own
    permutation of the triple insertion order, its own relabelling of the blank nodes of both graphs and its own namespace prefix
    bindings; the canonical outcomes (verdict + report graph up to isomorphism, auto-generated default messages removed) must coincide.
(A) the in-process run of each case vs Impl (one driver run: by the model-level theorems the expected value is the same for all variants).
What the model cannot exhibit: CPython's hash randomisation; every set iteration order is an adversarial list in the model, the tie is sampled.
"""
import json
import os
import random
import subprocess

from rdflib import BNode, Graph, Literal, URIRef

import shapegen
import vcase
import wire
from common import EX, SH, graph_from_triples
from props import c04


def two_prefixes_one_namespace(sg):
    seen = {}
    for d in sg.objects(None, SH.declare):
        for ns in sg.objects(d, SH.namespace):
            for px in sg.objects(d, SH.prefix):
                seen.setdefault(str(ns), set()).add(str(px))
    return any(len(v) > 1 for v in seen.values())


def label_pool(*graphs):
    """blank-node labels an adversarial relabelling hands out: the lexical forms of literals and the local names of IRIs that occur
    in the graphs (where they are legal labels) — a label must stay a label, whatever string it happens to be.
    Returns (labels from literals, labels from IRIs)."""
    import re
    lits, iris = set(), set()
    for g in graphs:
        for t in g:
            for x in t:
                if isinstance(x, Literal) and re.fullmatch(r"[A-Za-z][A-Za-z0-9]*", str(x)):
                    lits.add(str(x))
                elif isinstance(x, URIRef) and re.fullmatch(r"[A-Za-z][A-Za-z0-9]*", str(x).rsplit("/", 1)[-1]):
                    iris.add(str(x).rsplit("/", 1)[-1])
    return sorted(lits), sorted(iris - lits)


def nt_lines(g: Graph, relabel, rng):
    lines = []
    for s, p, o in g:
        def t(x):
            if isinstance(x, BNode):
                if str(x) not in relabel and relabel.get("_pool"):
                    relabel[str(x)] = relabel["_pool"].pop()
                return "_:" + relabel.setdefault(str(x), "b%s%d" % (relabel["_salt"], len(relabel)))
            if isinstance(x, Literal):
                from rdflib.plugins.serializers.nt import _quoteLiteral
                return _quoteLiteral(x)
            return x.n3()
        lines.append("%s %s %s ." % (t(s), t(p), t(o)))
    rng.shuffle(lines)
    return lines


PREFIX_VARIANTS = [{}, {"ex": str(EX)}, {"ex": "http://ex.tes", "q": str(EX)}, {"": str(EX), "sh": str(SH)}, {"a": str(EX) + "p", "ex": str(EX)}]


def run(ctx, out):
    rng = random.Random(ctx.seed * 198491317 + 9)
    quick = ctx.tier == "quick"
    nseeds = 4 if quick else 16
    cases = c04.gen_cases(rng, 60 if quick else 900, 3)
    for _ in range(120 if quick else 2000):
        data = shapegen.gen_data(rng)
        gen = shapegen.ShapeGen(rng, data)
        for _ in range(rng.randint(1, 3)):
            gen.shape(complex_path=0.35)
        cases.append(("core", gen.g, graph_from_triples(data)))
    # two (or three) shapes sharing parameter values but differing in a modifier: anything cached or picked per value would show
    from rdflib.namespace import RDF
    from common import NODES, PREDS
    for _ in range(30 if quick else 400):
        data = shapegen.gen_data(rng, literal_bias=0.7)
        g = Graph()
        pat = rng.choice(["^ab", "A", "^h", "b$", "X"])
        for k, fl in enumerate(rng.sample([None, "i", "m", "im"], rng.randint(2, 3))):
            s = EX["P%d" % k]
            g.add((s, RDF.type, SH.NodeShape)); g.add((s, SH.pattern, Literal(pat)))
            if fl:
                g.add((s, SH.flags, Literal(fl)))
            g.add((s, SH.targetObjectsOf, rng.choice(PREDS)))
            for f in rng.sample(NODES, 2):
                g.add((s, SH.targetNode, f))
        cases.append(("shared-pattern", g, graph_from_triples(data + [(NODES[0], PREDS[0], Literal("Abc")), (NODES[1], PREDS[1], Literal("abX"))])))
    # sh:sparql constraints on property shapes whose query uses $PATH (simple and complex paths), with and without sh:prefixes:
    # the path is printed into the query text, so the outcome must not depend on which prefixes either graph happens to bind
    for _ in range(24 if quick else 300):
        data = shapegen.gen_data(rng, literal_bias=0.4)
        g = Graph()
        s, ps, c = EX.SP, BNode(), BNode()
        p0, p1 = rng.sample(PREDS, 2)
        g.add((s, RDF.type, SH.NodeShape)); g.add((s, SH.targetSubjectsOf, p0)); g.add((s, SH.property, ps))
        kind = rng.choice(["pred", "inv", "seq", "star"])
        if kind == "pred":
            g.add((ps, SH.path, p0))
        elif kind == "inv":
            b = BNode(); g.add((ps, SH.path, b)); g.add((b, SH.inversePath, p0))
        elif kind == "star":
            b = BNode(); g.add((ps, SH.path, b)); g.add((b, SH.zeroOrMorePath, p0))
        else:
            l1, l2 = BNode(), BNode()
            g.add((ps, SH.path, l1)); g.add((l1, RDF.first, p0)); g.add((l1, RDF.rest, l2)); g.add((l2, RDF.first, p1)); g.add((l2, RDF.rest, RDF.nil))
        g.add((ps, SH.sparql, c))
        g.add((c, SH.select, Literal("SELECT $this ?value WHERE { $this $PATH ?value . FILTER(isIRI(?value)) }")))
        if rng.random() < 0.6:
            # the same constraint node used by further shapes with other paths: $PATH / $currentShape are per shape, whichever
            # shape happens to be evaluated first
            for k, pk in enumerate(rng.sample(PREDS, 2)):
                s2, ps2 = EX["SP%d" % (k + 2)], BNode()
                g.add((s2, RDF.type, SH.NodeShape)); g.add((s2, SH.targetSubjectsOf, p0)); g.add((s2, SH.property, ps2))
                g.add((ps2, SH.path, pk)); g.add((ps2, SH.sparql, c))
        if rng.random() < 0.35:
            # prefixes declared on several owl:Ontology nodes of the shapes graph are all in scope of a sh:prefixes value that
            # declares nothing itself: a second constraint whose query needs one of them, whichever ontology node comes first
            from rdflib.namespace import OWL
            c2, XSDURI = BNode(), URIRef("http://www.w3.org/2001/XMLSchema#anyURI")
            for nm, ns in (("exa", str(EX)), ("exb", str(EX) + "p")):       # two namespaces: exa:p0 = exb:0
                on, dn = EX["onto_" + nm], BNode()
                g.add((on, RDF.type, OWL.Ontology)); g.add((on, SH.declare, dn))
                g.add((dn, SH.prefix, Literal(nm))); g.add((dn, SH.namespace, Literal(ns, datatype=XSDURI)))
            g.add((s, SH.sparql, c2)); g.add((c2, SH.prefixes, EX.nodecl))
            l0, l1 = str(p0)[len(str(EX)):], str(p1)[len(str(EX)):]
            if rng.random() < 0.5:
                g.add((c2, SH.select, Literal("SELECT $this ?value WHERE { $this exa:%s ?value . FILTER NOT EXISTS { ?value exa:%s $this } }" % (l0, l1))))
            else:
                g.add((c2, SH.select, Literal("SELECT $this ?value WHERE { $this exb:%s ?value . FILTER NOT EXISTS { ?value exb:%s $this } }" % (l0[1:], l1[1:]))))
        if rng.random() < 0.4:
            o, d = EX.onto, BNode()
            g.add((c, SH.prefixes, o)); g.add((o, SH.declare, d))
            g.add((d, SH.prefix, Literal(rng.choice(["ex", "zz"])))); g.add((d, SH.namespace, Literal(str(EX), datatype=URIRef("http://www.w3.org/2001/XMLSchema#anyURI"))))
        cases.append(("sparql-path", g, graph_from_triples(data)))
    # blank-node value nodes next to literals / IRIs under the string-based components (a blank node never matches, whatever its label)
    for k in range(8 if quick else 60):
        g = Graph()
        s_ = EX["PB%d" % k]
        g.add((s_, RDF.type, SH.NodeShape)); g.add((s_, SH.targetObjectsOf, PREDS[0]))
        comp = k % 3
        if comp == 0:
            g.add((s_, SH.pattern, Literal("^K")))
        elif comp == 1:
            g.add((s_, SH.minLength, Literal(2)))
        else:
            g.add((s_, SH.pattern, Literal("x")), ); g.add((s_, SH.flags, Literal("i")))
        data = [(NODES[0], PREDS[0], Literal("Kx1")), (NODES[0], PREDS[0], BNode()), (NODES[1], PREDS[0], EX.Kx2), (NODES[1], PREDS[0], BNode()),
                (NODES[2], PREDS[0], Literal("Kx3")), (NODES[2], PREDS[0], BNode()), (NODES[2], PREDS[0], Literal("zz"))]
        cases.append(("string-vs-bnode", g, graph_from_triples(data)))
    # witnesses of the recorded open finding (rdflib: a SPARQL prologue keeps one prefix per namespace, the last one): two prefixes
    # declared for ONE namespace, the query uses one of them; which PREFIX line comes last is set iteration order
    from rdflib.namespace import OWL as _OWL
    for k in range(4):
        g = Graph()
        XSDURI = URIRef("http://www.w3.org/2001/XMLSchema#anyURI")
        for nm in ("k%da" % k, "k%db" % k):
            on, dn = EX["onto_" + nm], BNode()
            g.add((on, RDF.type, _OWL.Ontology)); g.add((on, SH.declare, dn))
            g.add((dn, SH.prefix, Literal(nm))); g.add((dn, SH.namespace, Literal(str(EX), datatype=XSDURI)))
        c2 = BNode()
        g.add((EX.KS, RDF.type, SH.NodeShape)); g.add((EX.KS, SH.targetSubjectsOf, PREDS[0])); g.add((EX.KS, SH.sparql, c2)); g.add((c2, SH.prefixes, EX.nodecl))
        g.add((c2, SH.select, Literal("SELECT $this ?value WHERE { $this k%da:p0 ?value }" % k)))
        cases.append(("corpus:two-prefixes-one-namespace", g, graph_from_triples([(NODES[0], PREDS[0], NODES[1])])))
    # ill-formed on purpose: two sh:severity values would make the pick order-dependent -> excluded from the quantifier
    opts_pool = [{}, {"abort_on_first": False, "allow_warnings": True}, {"sparql_mode": True}, {"advanced": True}]
    out.rule = ("Core + composition cases x %d worker processes with distinct PYTHONHASHSEED, each with its own triple insertion order, "
                "blank-node relabelling (data and shapes graph) and prefix bindings, x option sets {default, allow_warnings, sparql_mode, "
                "advanced}; non-trivial = distinct case with >=1 result and >=1 blank node in a graph" % nseeds)
    jobs = {k: [] for k in range(nseeds)}
    kws = []
    for i, (label, sg, dg) in enumerate(cases):
        kw = opts_pool[i % len(opts_pool)] if i % 3 == 0 else {}
        kws.append(kw)
        for k in range(nseeds):
            vr = random.Random(ctx.seed * 7 + i * 131 + k)
            rel_s, rel_d = {"_salt": "s%d" % k}, {"_salt": "d%d" % k}
            if k == 1:      # one worker gets blank nodes named after strings that occur in the graphs as literals / IRIs
                lits, iris = label_pool(sg, dg)
                vr.shuffle(lits); vr.shuffle(iris)
                # `pop()` takes from the end: the data graph's blank nodes get the literal look-alikes first
                rel_d["_pool"], rel_s["_pool"] = iris[: len(iris) // 2] + lits, iris[len(iris) // 2:]
            jobs[k].append(json.dumps({"id": i, "sg": nt_lines(sg, rel_s, vr), "dg": nt_lines(dg, rel_d, vr),
                                       "prefixes_sg": PREFIX_VARIANTS[(i + k) % len(PREFIX_VARIANTS)],
                                       "prefixes_dg": PREFIX_VARIANTS[(i + 2 * k + 1) % len(PREFIX_VARIANTS)], "kw": kw}))
    procs = []
    for k in range(nseeds):
        env = dict(os.environ, PYTHONHASHSEED=str(1000 + 37 * k + ctx.seed))
        p = subprocess.Popen(["/venv/bin/python", os.path.join(os.path.dirname(os.path.dirname(os.path.abspath(__file__))), "det_worker.py")], stdin=subprocess.PIPE, stdout=subprocess.PIPE, stderr=subprocess.DEVNULL, env=env)
        procs.append(p)
    outs = []
    import threading
    results = [None] * nseeds

    def feed(k):
        o, _ = procs[k].communicate(("\n".join(jobs[k]) + "\n").encode())
        results[k] = {json.loads(l)["id"]: json.loads(l)["outcome"] for l in o.decode().splitlines() if l.startswith("{")}
    ths = [threading.Thread(target=feed, args=(k,)) for k in range(nseeds)]
    [t.start() for t in ths]
    [t.join() for t in ths]
    replies = ctx.driver.ask(vcase.model_line("c%d" % i, sg, dg, kws[i]) for i, (_l, sg, dg) in enumerate(cases))
    for i, (label, sg, dg) in enumerate(cases):
        out.evaluations += nseeds
        case = vcase.describe(sg, dg, kws[i], label=label)
        variants = [results[k].get(i) for k in range(nseeds)]
        if any(v is None for v in variants):
            out.b_fail.append({"signature": "C09:worker-crashed", "case": case})
            continue
        base = variants[0]
        for k, v in enumerate(variants[1:], 1):
            if v != base:
                what = "verdict" if v.get("conforms") != base.get("conforms") else "raised" if ("raised" in v or "raised" in base) else "results"
                diff = None
                if "graph" in v and "graph" in base:
                    diff = {"only_variant0": [x for x in base["graph"] if x not in v["graph"]][:4], "only_variant%d" % k: [x for x in v["graph"] if x not in base["graph"]][:4]}
                sig = "C09:nondeterministic:" + what
                if two_prefixes_one_namespace(sg) and "ConstraintLoadError" in (str(v.get("raised")), str(base.get("raised"))):
                    sig = "C09:rdflib-prologue-one-prefix-per-namespace"
                out.b_fail.append({"signature": sig, "case": case, "variant": k, "diff": diff,
                                   "outcomes": [{kk: (vv if kk != "graph" else len(vv)) for kk, vv in x.items()} for x in (base, v)]})
                break
        # (A)
        out.traces += 1
        code = vcase.run_code(sg, dg, kws[i])
        model = vcase.parse_model(replies["c%d" % i])
        if not kws[i].get("sparql_mode") and label != "sparql-path" and not label.startswith("corpus:two-prefixes"):   # (A) for sh:sparql needs engine tables: that is C05's check
            d = vcase.compare(code, model, sg, with_detail=True)
            if d:
                out.a_mismatch.append({"case": case, "diff": d[:900], "op": "validate"})
        has_b = any(isinstance(t, BNode) for g in (sg, dg) for t in g.all_nodes())
        if code[0] == "ok" and code[2] and has_b:
            out.nontrivial.add(i)
        out.count("outcome:" + ("report" if "graph" in base else str(base.get("raised", base.get("failure")))))
        out.sample({"label": label, "options": kws[i], "variants_agree": all(v == base for v in variants), "conforms": base.get("conforms")})
