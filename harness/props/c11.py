"""C11 — allow_infos / allow_warnings only relax the verdict.

(B) metamorphic, on the real code: the four option combinations on equal inputs give the same result multiset;
    with an option on, conforms <=> every top-level result has a waived severity; hence the implication chain.
(A) code vs Impl under each option combination.
"""
import random

import shapegen
import vcase
import wire
from common import SH, graph_from_triples
from props import c04

COMBOS = [(False, False), (True, False), (False, True), (True, True)]
INFO, WARN = wire.tkey(SH.Info), wire.tkey(SH.Warning)


def waived(ai, aw):
    s = set()
    if ai:
        s.add(INFO)
    if aw:
        s |= {INFO, WARN}
    return s


def run(ctx, out):
    rng = random.Random(ctx.seed * 32452843 + 11)
    quick = ctx.tier == "quick"
    cases = c04.gen_cases(rng, 150 if quick else 2500, 4)
    # plus plain Core shapes with severities
    for _ in range(100 if quick else 1500):
        data = shapegen.gen_data(rng)
        gen = shapegen.ShapeGen(rng, data)
        for _ in range(rng.randint(1, 3)):
            gen.shape()
        cases.append(("core", gen.g, graph_from_triples(data)))
    out.rule = ("compositions (C04 generator) and Core shapes with sh:severity in {absent, Violation, Warning, Info, custom} at every nesting "
                "level x the 4 option combinations (exhaustive); non-trivial = distinct case with results of >=2 different severities or a "
                "verdict that differs between option combinations")
    out.exhaustive = False
    lines = []
    for i, (_l, sg, dg) in enumerate(cases):
        for j, (ai, aw) in enumerate(COMBOS):
            lines.append(vcase.model_line("c%d_%d" % (i, j), sg, dg, {"allow_infos": ai, "allow_warnings": aw}))
    replies = ctx.driver.ask(lines)
    for i, (label, sg, dg) in enumerate(cases):
        runs = []
        case = vcase.describe(sg, dg, label=label)
        dms = vcase.declared_msg_shapes(sg)
        for j, (ai, aw) in enumerate(COMBOS):
            opts = {"allow_infos": ai, "allow_warnings": aw}
            out.evaluations += 1
            out.traces += 1
            code = vcase.run_code(sg, dg, opts)
            model = vcase.parse_model(replies["c%d_%d" % (i, j)])
            d = vcase.compare(code, model, sg, with_detail=True)
            if d:
                out.a_mismatch.append({"case": dict(case, options=opts), "diff": d[:1200], "op": "validate"})
            runs.append(code)
        if any(r[0] != "ok" for r in runs):
            fams = set(r[1] for r in runs if r[0] != "ok")
            if len(set(r[0] for r in runs)) > 1:
                out.b_fail.append({"signature": "C11:option-changes-failure", "case": case, "outcomes": [r[:2] for r in runs]})
            out.count("code_err")
            continue
        base = vcase.multiset(runs[0][2], dms, with_detail=True)
        for j, (ai, aw) in enumerate(COMBOS):
            ms = vcase.multiset(runs[j][2], dms, with_detail=True)
            if ms != base:
                out.b_fail.append({"signature": "C11:results-depend-on-option", "case": case, "options": {"allow_infos": ai, "allow_warnings": aw},
                                   "only_default": list((base - ms).elements())[:3], "only_with_option": list((ms - base).elements())[:3]})
                break
            w = waived(ai, aw)
            expect = all(r["severity"] in w for r in runs[j][2])
            if runs[j][1] != expect:
                out.b_fail.append({"signature": "C11:verdict-formula", "case": case, "options": {"allow_infos": ai, "allow_warnings": aw},
                                   "verdict": runs[j][1], "expected": expect, "severities": sorted(set(r["severity"] for r in runs[j][2]))})
                break
        v = [r[1] for r in runs]
        if (v[0] and not v[1]) or (v[1] and not v[2]) or (v[0] and not v[3]):
            out.b_fail.append({"signature": "C11:relax-chain", "case": case, "verdicts": v})
        sevs = set(r["severity"] for r in runs[0][2])
        if len(sevs) >= 2 or len(set(v)) > 1:
            out.nontrivial.add(hash(case["shapes_ttl"] + case["data_nt"]))
        out.count("verdicts:" + "".join("T" if x else "F" for x in v))
        out.sample({"label": label, "verdicts(default,infos,warnings,both)": v, "severities": sorted(s.rsplit("#", 1)[-1] for s in sevs)})
